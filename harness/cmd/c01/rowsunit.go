package main

// Every row of every classification table through the REAL Parse.
//
// The rows are taken from the source (cmd/c02/srctab: EtherType switch incl. the 802.3 length test, protocol switch,
// UDP port rows - also rows the model does not know), and each one is driven through Session.Parse with a minimal
// frame and a frame with payload, from a new source (kind p), a tracked source (kind pt: the same frame parsed
// twice on one session, the second observed) and an untracked one (own MAC).  "rows exercised" must equal "rows
// found": a row that no frame exercised, or a row the extractor produced but this unit could not read, is a viol
// record (tie alarm).  Index spaces sized from a constant get their extreme values: the first and the last PayloadID
// are rows of these tables (PayloadEther via the default case, the last id via its EtherType row); kind consts ties
// the length of Session.Statistics (as the library's constructor makes it) to the model's stats_len.

import (
	"fmt"
	"strconv"

	"pvharness/cmd/c01/pgen"
	"pvharness/cmd/c02/srctab"
	"pvharness/lib"
)

func rowsUnit(r *lib.Run) {
	tabs, unrec := srctab.SourceTables()
	for _, k := range unrec {
		r.Stat("rows."+k+".unrecognised", 1)
	}
	rows, bad := srctab.Rows(tabs)
	for _, b := range bad {
		r.Viol("rows-not-exercised", "classification row extracted from layer_frame.go that the row driver cannot read: "+b, "")
	}
	g := &pgen.G{R: lib.NewRand(11), Cfg: pgen.DefaultCfg}
	c := pgen.DefaultCfg
	srcs := [][]byte{pgen.MACClient1, c.HostMAC} // new / tracked (client), untracked by rule (own MAC)
	do := func(frame []byte) {
		toks := append(c.Toks(), lib.Hex(frame), "-")
		r.Do("p", toks...)
		r.Do("pt", toks...)
	}
	ip4 := func(src []byte, proto byte, seg []byte) []byte {
		return pgen.Ether(c.RouterMAC, src, 0x0800, pgen.IP4(5, 20+len(seg), proto, []byte{192, 168, 0, 9}, []byte{8, 8, 8, 8}, nil, seg))
	}
	ip6 := func(src []byte, proto byte, seg []byte) []byte {
		return pgen.Ether(c.RouterMAC, src, 0x86dd, pgen.IP6(len(seg), proto, pgen.IP6s[0], pgen.IP6s[4], seg))
	}
	found, exercised := 0, 0
	for _, row := range rows {
		found++
		n := 0
		for _, src := range srcs {
			switch row.Table {
			case "ethertype":
				ets := row.Keys
				if row.Kind == "lt" { // the 802.3 length range: 0, bound-1 (and the bound itself belongs to the switch)
					ets = []int64{0, row.Keys[0] - 1, row.Keys[0]}
				}
				for _, et := range ets {
					do(pgen.Ether(c.RouterMAC, src, int(et), nil)) // minimal: header only
					do(pgen.Ether(c.RouterMAC, src, int(et), g.R.Bytes(1)))
					do(pgen.Ether(c.RouterMAC, src, int(et), pgen.IP4(5, 28, 17, []byte{192, 168, 0, 9}, []byte{8, 8, 8, 8}, nil, pgen.UDP(4000, 4001, nil))))
					do(pgen.Ether(c.RouterMAC, src, int(et), pgen.ARP(6, 4, 1, src, []byte{192, 168, 0, 9}, c.RouterMAC, []byte{192, 168, 0, 11})))
					n++
				}
			case "ipproto":
				for _, p := range row.Keys {
					seg, _ := g.L4(byte(p), false)
					do(ip4(src, byte(p), nil)) // minimal: no transport bytes
					do(ip4(src, byte(p), seg))
					do(ip6(src, byte(p), nil))
					do(ip6(src, byte(p), seg))
					n++
				}
			case "udpports":
				for _, p := range row.Keys {
					for _, pair := range [][2]int{{int(p), 4000}, {4000, int(p)}, {int(p), int(p)}} {
						do(ip4(src, 17, pgen.UDP(pair[0], pair[1], nil))) // minimal: header only
						do(ip4(src, 17, pgen.UDP(pair[0], pair[1], g.R.Bytes(12))))
						do(ip6(src, 17, pgen.UDP(pair[0], pair[1], g.R.Bytes(12))))
					}
					n++
				}
			}
		}
		if n > 0 {
			exercised++
		} else {
			r.Viol("rows-not-exercised", "classification row of layer_frame.go that no generated frame exercised: "+row.Text, "")
		}
	}
	// the default cases: an EtherType / protocol / port pair in no row (first PayloadID, PayloadIP4/IP6, PayloadUDP)
	for _, src := range srcs {
		do(pgen.Ether(c.RouterMAC, src, 0x9999, g.R.Bytes(20)))
		do(ip4(src, 253, g.R.Bytes(8)))
		do(ip6(src, 253, g.R.Bytes(8)))
		do(ip4(src, 17, pgen.UDP(4000, 4001, nil)))
	}
	r.Stat("rows.found", int64(found))
	r.Stat("rows.exercised", int64(exercised))
	r.Sample(fmt.Sprintf("classification rows found in layer_frame.go: %d, driven through Session.Parse: %d", found, exercised))
	// sizes the library fixes in its constructor
	r.Do("consts", "statslen")
}

func constsRunner(a []string) string {
	switch a[0] {
	case "statslen":
		return strconv.Itoa(pgen.StatsLen())
	}
	return "no-such-const"
}
