// Package punit: Parse with pings pending on the process-global waiter table (shared by cmd/c01 and cmd/c02).
package punit

// Parse's side effect on process state: echoNotify on the package-global ping waiter table.
//
// A history registers a pending ping (Session.Ping / Ping6 in a goroutine on a recording connection; the echo
// identifier is read off the wire), then feeds frames through Session.Parse BACK TO BACK from one goroutine with
// GOMAXPROCS(1), so that the pinging goroutine cannot run (and clean its entry up) between two Parse calls: the
// matching echo reply once, twice, three times, replies with another identifier, echo requests, truncated and
// odd-length ICMP, the wrong ICMP family, a wrong version nibble, an echo header beyond TotalLen - over IPv4 and IPv6.
// Each Parse call runs under recover; a watchdog turns a Parse that does not return (the waiter-table mutex left
// locked by an earlier panic) into "fuel".
//
//	pp FAM TIMEOUTMS tok tok ...      tok = m:HEX (the pending identifier is written into the echo-id field),
//	                                        o:HEX (identifier + 1), k:HEX (frame as it is); HEX has identifier 0
//	observation: per frame the FULL observation of kind p (PayloadID, addresses, ports, view offsets, host key;
//	err:CLASS | panic | fuel), then ping:ok | ping:timeout | ping:blocked | ping:err
//
// Model (coq/Extract/D01.v, kind pp): the model's full observation of every frame - Parse is a function of
// (configuration, bytes) only, the waiter table is not an input - and ping:ok iff some m-frame has
// f_echo <> None in the model - Parse must never panic or block whatever the waiter table holds.

import (
	"errors"
	"net/netip"
	"runtime"
	"runtime/debug"
	"strconv"
	"strings"
	"sync"
	"time"

	"github.com/irai/packet"
	"github.com/irai/packet/fastlog"
	"pvharness/cmd/c01/pgen"
	"pvharness/lib"
)

var OtherPeerMAC = []byte{0x02, 0x44, 0x44, 0x44, 0x44, 0x44}
var PingPeerMAC = []byte{0x02, 0x33, 0x33, 0x33, 0x33, 0x33}

// runPing executes one history; poisoned reports that the waiter table may be left locked (stop the unit).
// RunPing executes one history; c02 selects the C02 projection of every frame instead of the full C01 observation.
func RunPing(a []string, c02 bool) (obs string, poisoned bool) {
	mode := "full"
	if c02 {
		mode = "c02"
	}
	return RunPingMode(a, mode)
}

// RunPingMode: mode "full" | "c02" (observation of every frame) | "alloc" (heap allocations of every single Parse call:
// every frame is first parsed once BEFORE the ping is registered, so that its source is tracked and online; then, with
// the ping pending, each Parse is bracketed by runtime.ReadMemStats with the GC off: "0" or "+").
func RunPingMode(a []string, mode string) (obs string, poisoned bool) {
	fam := a[0]
	ms, _ := strconv.Atoi(a[1])
	toks := a[2:]
	old := runtime.GOMAXPROCS(1)
	defer runtime.GOMAXPROCS(old)

	s := pgen.NewSession(pgen.DefaultCfg)
	conn := lib.NewRecConn()
	s.Conn = conn
	if mode == "alloc" {
		packet.Logger.SetLevel(fastlog.LevelInfo)
		for _, t := range toks { // warm-up: sources become tracked and online (waiter table empty: no notification)
			_, p := pgen.Buffer(lib.UnHex(t[2:]), nil)
			lib.Catch(func() { s.Parse(p); s.Parse(p) })
		}
		defer debug.SetGCPercent(debug.SetGCPercent(-1))
	}
	done := make(chan error, 1)
	idOff := 14 + 20 + 4
	go func() {
		if fam == "6" {
			src := packet.Addr{MAC: pgen.DefaultCfg.HostMAC, IP: netip.MustParseAddr("fe80::1:129")}
			dst := packet.Addr{MAC: PingPeerMAC, IP: netip.MustParseAddr("fe80::7")}
			done <- s.Ping6(src, dst, time.Duration(ms)*time.Millisecond)
		} else {
			dst := packet.Addr{MAC: PingPeerMAC, IP: netip.AddrFrom4([4]byte{192, 168, 0, 7})}
			done <- s.Ping(dst, time.Duration(ms)*time.Millisecond)
		}
	}()
	if fam == "6" {
		idOff = 14 + 40 + 4
	}
	// wait for the echo request on the wire, then let the pinging goroutine reach its select
	var sent []byte
	for i := 0; i < 2000 && sent == nil; i++ {
		time.Sleep(200 * time.Microsecond)
		if fr := conn.Take(); len(fr) > 0 {
			sent = fr[0]
		}
	}
	if sent == nil || len(sent) < idOff+2 {
		return "no-echo-request", false
	}
	id := uint16(sent[idOff])<<8 | uint16(sent[idOff+1])
	time.Sleep(time.Millisecond)

	frames := make([][]byte, len(toks))
	for i, t := range toks {
		f := lib.UnHex(t[2:])
		f = append([]byte{}, f...)
		if len(f) >= idOff+2 {
			switch t[0] {
			case 'm':
				f[idOff], f[idOff+1] = byte(id>>8), byte(id)
			case 'o':
				f[idOff], f[idOff+1] = byte((id+1)>>8), byte(id+1)
			}
		}
		frames[i] = f
	}
	res := make([]string, len(frames))
	for i := range res {
		res[i] = "fuel"
	}
	var mu sync.Mutex
	fdone := make(chan struct{})
	go func() { // the feed: back to back, no yield between two Parse calls
		for i, f := range frames {
			buf, p := pgen.Buffer(f, nil)
			var r string
			if mode == "alloc" {
				r = "0"
				func() {
					defer func() {
						if recover() != nil {
							r = "panic"
						}
					}()
					var m0, m1 runtime.MemStats
					runtime.ReadMemStats(&m0)
					_, err := s.Parse(p)
					runtime.ReadMemStats(&m1)
					if err != nil {
						r = pgen.ErrClass(err)
					} else if m1.Mallocs != m0.Mallocs {
						r = "+"
					}
				}()
			} else {
				o := pgen.Observe(s, buf, p) // Parse and every accessor under recover: the observation of kind p / d
				r = o.Full
				if mode == "c02" {
					r = o.C02
				}
			}
			mu.Lock()
			res[i] = r
			mu.Unlock()
		}
		close(fdone)
	}()
	select {
	case <-fdone:
	case <-time.After(2 * time.Second):
		poisoned = true
	}
	ping := "ping:blocked"
	select {
	case err := <-done:
		switch {
		case err == nil:
			ping = "ping:ok"
		case errors.Is(err, packet.ErrTimeout):
			ping = "ping:timeout"
		default:
			ping = "ping:err"
		}
	case <-time.After(time.Duration(ms)*time.Millisecond + 2*time.Second):
		poisoned = true
	}
	mu.Lock()
	out := strings.Join(res, " | ") + " | " + ping
	for _, r := range res {
		if r == "panic" || r == "fuel" || strings.Contains(r, "panic") {
			poisoned = true
		}
	}
	mu.Unlock()
	return out, poisoned
}

// echo frames towards our host, echo identifier 0 (the runner writes the pending identifier in)
func EchoFrame(fam string, typ byte, icmpLen int, mut string) []byte {
	icmp := pgen.ICMP(typ, 0, 0, 1, []byte("HELLO-NETFILTER!"))
	if icmpLen < len(icmp) {
		icmp = icmp[:icmpLen]
	}
	var f []byte
	if fam == "6" {
		src, dst := netip.MustParseAddr("fe80::7").As16(), netip.MustParseAddr("fe80::1:129").As16()
		if mut == "other" {
			src = netip.MustParseAddr("fe80::8").As16()
		}
		proto := byte(58)
		if mut == "family" {
			proto = 1
		}
		f = pgen.Ether(pgen.DefaultCfg.HostMAC, PingPeerMAC, 0x86dd, pgen.IP6(len(icmp), proto, src[:], dst[:], icmp))
		switch mut {
		case "version":
			f[14] = 0x50
		case "beyond": // PayloadLen 7: the 8th byte of the echo header is a trailing byte
			f[18], f[19] = 0, 7
		}
	} else {
		proto := byte(1)
		if mut == "family" {
			proto = 58
		}
		sip := []byte{192, 168, 0, 7}
		if mut == "other" {
			sip = []byte{192, 168, 0, 8}
		}
		f = pgen.Ether(pgen.DefaultCfg.HostMAC, PingPeerMAC, 0x0800,
			pgen.IP4(5, 20+len(icmp), proto, sip, []byte{192, 168, 0, 129}, nil, icmp))
		switch mut {
		case "version":
			f[14] = 0x55
		case "beyond": // TotalLen 27
			f[16], f[17] = 0, 27
		}
	}
	if mut == "other" { // another tracked host: its own MAC
		copy(f[6:12], OtherPeerMAC)
	}
	return f
}

// AllocHistories: frames from tracked online hosts while a ping is pending - the matching identifier from the pinged
// host, the matching identifier from ANOTHER tracked host, another identifier - each Parse measured on its own.
func AllocHistories() [][]string {
	var out [][]string
	for _, fam := range []string{"4", "6"} {
		reply := byte(0)
		if fam == "6" {
			reply = 129
		}
		tok := func(kind string, f []byte) string { return kind + ":" + lib.Hex(f) }
		m := tok("m", EchoFrame(fam, reply, 24, ""))
		mo := tok("m", EchoFrame(fam, reply, 24, "other"))
		o := tok("o", EchoFrame(fam, reply, 24, ""))
		oo := tok("o", EchoFrame(fam, reply, 24, "other"))
		for _, h := range [][]string{{m}, {mo}, {o}, {oo}, {mo, mo}, {o, mo, m}, {oo, o, m, mo}} {
			out = append(out, append([]string{fam, "120"}, h...))
		}
	}
	return out
}

// Histories: the argument lists of all histories (IPv4 and IPv6).
func Histories() [][]string {
	var out [][]string
	for _, fam := range []string{"4", "6"} {
		reply, request, otherFam := byte(0), byte(8), byte(129)
		if fam == "6" {
			reply, request, otherFam = 129, 128, 0
		}
		tok := func(kind string, f []byte) string { return kind + ":" + lib.Hex(f) }
		m := tok("m", EchoFrame(fam, reply, 24, ""))
		o := tok("o", EchoFrame(fam, reply, 24, ""))
		q := tok("m", EchoFrame(fam, request, 24, ""))
		t7 := tok("m", EchoFrame(fam, reply, 7, ""))
		d9 := tok("m", EchoFrame(fam, reply, 9, ""))
		e8 := tok("m", EchoFrame(fam, reply, 8, ""))
		x := tok("m", EchoFrame(fam, otherFam, 24, "family"))
		v := tok("m", EchoFrame(fam, reply, 24, "version"))
		p := tok("m", EchoFrame(fam, reply, 24, "beyond"))
		hist := [][]string{
			{m}, {m, m}, {m, m, m}, {o}, {o, o, m}, {o, m, m, o}, {q}, {q, m, m}, {t7}, {t7, m, m}, {m, t7, m},
			{d9, d9}, {e8, e8, e8}, {x}, {x, m, m}, {v}, {v, v, m, m}, {p}, {p, m, m}, {m, o, m, q, m, t7, m},
		}
		for _, h := range hist {
			out = append(out, append([]string{fam, "120"}, h...))
		}
	}
	return out
}

// Unit runs every history and records it; returns after the first poisoned one (the waiter table may be locked for good).
func Unit(r *lib.Run, c02 bool) {
	for _, args := range Histories() {
		obs, poisoned := RunPing(args, c02)
		r.Case("pp", args, obs)
		r.Stat("class.pp.v"+args[0], 1)
		if poisoned {
			r.Stat("pp.poisoned", 1)
			return
		}
	}
}
