package main

// Parse while another API call is in flight INSIDE THE CONNECTION.
//
// The harness owns the connection: holdConn blocks the next WriteTo until released.  For every kind of send the library
// offers (Ping, Ping6, ValidateDefaultRouter's ping, a bare echo request, ICMPv6 NS / NA / RS / RA, ARP request / WhoIs /
// announcement, mDNS / LLMNR / NBNS / SSDP queries) the send is started in a goroutine, the harness waits until it sits
// inside WriteTo, and then - from the goroutine that plays the read loop - calls Session.Parse with echo replies (IPv4
// and IPv6) first and one frame of every PayloadID class after them.  Parse takes the session lock, the row locks and
// the ping-table mutex on its way; none of them may be held by a sender across its I/O.  A watchdog turns a Parse that
// has not returned within 3 s into "fuel"; then the write is released and the send must return.
//
//	gate SEND hex hex ...     observation: held | not-held, the FULL observation of kind p per frame, released | stuck
//
// Model (coq/Extract/D01.v, kind gate): the pure result class of every frame - the model of Parse has no input for
// "a send in flight" and no blocking step, so its result cannot depend on one; blocking itself is the runtime part and
// the oracle for it is the watchdog.

import (
	"net"
	"net/netip"
	"strings"
	"sync"
	"time"

	"github.com/irai/packet"
	"github.com/irai/packet/handlers/arp_spoofer"
	"github.com/irai/packet/handlers/dns_naming"
	"pvharness/cmd/c01/pgen"
	"pvharness/cmd/c01/punit"
	"pvharness/lib"
)

type holdConn struct {
	mu      sync.Mutex
	armed   bool
	blocked chan struct{}
	release chan struct{}
	done    chan struct{}
	once    sync.Once
}

func newHoldConn() *holdConn {
	return &holdConn{armed: true, blocked: make(chan struct{}), release: make(chan struct{}), done: make(chan struct{})}
}
func (c *holdConn) WriteTo(b []byte, _ net.Addr) (int, error) {
	c.mu.Lock()
	first := c.armed
	c.armed = false
	c.mu.Unlock()
	if first {
		close(c.blocked)
		select {
		case <-c.release:
		case <-time.After(20 * time.Second): // failure detection only
		}
	}
	return len(b), nil
}
func (c *holdConn) ReadFrom(b []byte) (int, net.Addr, error) { <-c.done; return 0, nil, net.ErrClosed }
func (c *holdConn) Close() error                             { c.once.Do(func() { close(c.done) }); return nil }
func (c *holdConn) LocalAddr() net.Addr                      { return nil }
func (c *holdConn) SetDeadline(time.Time) error              { return nil }
func (c *holdConn) SetReadDeadline(time.Time) error          { return nil }
func (c *holdConn) SetWriteDeadline(time.Time) error         { return nil }

var gateSends = []string{"ping4", "ping6", "vdr", "echo4", "echo6", "ns", "na", "rs", "ra", "arpreq", "arpwhois", "arpannounce",
	"mdns", "llmnr", "nbns", "ssdp"}

func startSend(kind string, s *packet.Session) func() {
	peer := packet.Addr{MAC: punit.PingPeerMAC, IP: netip.AddrFrom4([4]byte{192, 168, 0, 7})}
	host6 := packet.Addr{MAC: pgen.DefaultCfg.HostMAC, IP: netip.MustParseAddr("fe80::1:129")}
	peer6 := packet.Addr{MAC: punit.PingPeerMAC, IP: netip.MustParseAddr("fe80::7")}
	switch kind {
	case "ping4":
		return func() { s.Ping(peer, 300*time.Millisecond) }
	case "ping6":
		return func() { s.Ping6(host6, peer6, 300*time.Millisecond) }
	case "vdr":
		return func() { s.ValidateDefaultRouter(peer) }
	case "echo4":
		return func() { s.ICMP4SendEchoRequest(s.NICInfo.HostAddr4, peer, 77, 1) }
	case "echo6":
		return func() { s.ICMP6SendEchoRequest(host6, peer6, 77, 1) }
	case "ns":
		return func() { s.ICMP6SendNeighbourSolicitation(host6, peer6, peer6.IP) }
	case "na":
		return func() { s.ICMP6SendNeighborAdvertisement(host6, peer6, host6) }
	case "rs":
		return func() { s.ICMP6SendRouterSolicitation() }
	case "ra":
		pfx := []packet.PrefixInformation{{PrefixLength: 64, OnLink: true, AutonomousAddressConfiguration: true,
			ValidLifetime: time.Hour, PreferredLifetime: time.Hour, Prefix: net.ParseIP("2001:db8::")}}
		return func() { s.ICMP6SendRouterAdvertisement(pfx, nil, peer6) }
	case "arpreq", "arpwhois", "arpannounce":
		h, err := arp_spoofer.New(s)
		if err != nil {
			return nil
		}
		switch kind {
		case "arpreq":
			return func() { h.Request(peer.IP) }
		case "arpwhois":
			return func() { h.WhoIs(peer.IP) }
		}
		return func() { h.AnnounceTo(punit.PingPeerMAC, peer.IP) }
	case "mdns", "llmnr", "nbns", "ssdp":
		h := dns_naming.VerifNew(s)
		switch kind {
		case "mdns":
			return func() { h.SendMDNSQuery("_services._dns-sd._udp.local.") }
		case "llmnr":
			return func() { h.SendLLMNRQuery("host.local.") }
		case "nbns":
			return func() { h.SendNBNSNodeStatus() }
		}
		return func() { h.SendSSDPSearch() }
	}
	return nil
}

// gateFrames: echo replies first, then one frame of every PayloadID class from a LAN client (so that the host table
// and its locks are exercised too).
func gateFrames(g *pgen.G) [][]byte {
	fs := [][]byte{punit.EchoFrame("4", 0, 24, ""), punit.EchoFrame("6", 129, 24, "")}
	cl := pgen.ClassFrames(g, pgen.MACClient1, []byte{192, 168, 0, 9}, pgen.IP6s[0])
	for id := 1; id <= 29; id++ {
		fs = append(fs, cl[id])
	}
	return fs
}

func runGate(a []string) (obs string, poisoned bool) {
	kind := a[0]
	frames := make([][]byte, len(a)-1)
	for i, h := range a[1:] {
		frames[i] = lib.UnHex(h)
	}
	s := pgen.NewSession(pgen.DefaultCfg)
	s.NICInfo.HostLLA = netip.PrefixFrom(netip.MustParseAddr("fe80::1:129"), 64)
	s.NICInfo.RouterLLA = netip.PrefixFrom(netip.MustParseAddr("fe80::1:11"), 64)
	s.NICInfo.IFI = &net.Interface{MTU: 1500, Name: "eth0"}
	conn := newHoldConn()
	s.Conn = conn
	send := startSend(kind, s)
	if send == nil {
		return "no-such-send", false
	}
	sent := make(chan struct{})
	go func() {
		defer close(sent)
		defer func() { recover() }()
		send()
	}()
	held := "held"
	select {
	case <-conn.blocked:
	case <-sent:
		held = "not-held" // the send returned without writing
	case <-time.After(3 * time.Second):
		held = "not-held"
	}
	res := make([]string, len(frames))
	for i := range res {
		res[i] = "fuel"
	}
	var mu sync.Mutex
	fdone := make(chan struct{})
	go func() { // the read loop
		for i, f := range frames {
			buf, p := pgen.Buffer(f, nil)
			r := pgen.Observe(s, buf, p).Full
			mu.Lock()
			res[i] = r
			mu.Unlock()
		}
		close(fdone)
	}()
	select {
	case <-fdone:
	case <-time.After(3 * time.Second):
		poisoned = true
	}
	mu.Lock()
	out := held + " | " + strings.Join(res, " | ")
	mu.Unlock()
	close(conn.release)
	select {
	case <-sent:
		out += " | released"
	case <-time.After(5 * time.Second):
		out += " | stuck"
		poisoned = true
	}
	return out, poisoned
}

// gateUnit: one history per kind of send; stops at the first poisoned one (a lock may be held for good).
func gateUnit(r *lib.Run) (poisoned bool) {
	g := &pgen.G{R: lib.NewRand(7), Cfg: pgen.DefaultCfg}
	frames := gateFrames(g)
	hexes := make([]string, len(frames))
	for i, f := range frames {
		hexes[i] = lib.Hex(f)
	}
	for _, k := range gateSends {
		args := append([]string{k}, hexes...)
		obs, p := runGate(args)
		r.Case("gate", args, obs)
		r.Stat("class.gate."+k, 1)
		if p {
			r.Stat("gate.poisoned", 1)
			return true
		}
	}
	return false
}
