package main

// Parse with pings pending on the process-global waiter table: see punit/punit.go.

import (
	"pvharness/cmd/c01/punit"
	"pvharness/lib"
)

func runPing(a []string) (string, bool) { return punit.RunPing(a, false) }
func pingUnit(r *lib.Run)               { punit.Unit(r, false) }
