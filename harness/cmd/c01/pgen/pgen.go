// Package pgen: frame generators and the observation of Session.Parse shared by the
// Parse units of C01, C02 and C16 (harness/cmd/c01, c02, c16).
//
// Frames are written with plain byte writers (no library encoder is used).  A case is
//
//	KIND hostMAC routerMAC lanAddr lanBits frameHex spareHex
//
// and is run on a fresh Session whose NICInfo is built from the four configuration tokens, with
// the frame placed in a buffer of exactly len(frame)+len(spare) bytes (the slice handed to Parse
// has length len(frame) and that capacity; the spare bytes are the poison).
package pgen

import (
	"errors"
	"fmt"
	"io"
	"net"
	"net/netip"
	"os"
	"path/filepath"
	"reflect"
	"sort"
	"strconv"
	"strings"
	"sync"
	"time"
	"unsafe"

	"github.com/irai/packet"
	"github.com/irai/packet/fastlog"
	"pvharness/lib"
)

func init() { fastlog.DefaultIOWriter = io.Discard }

// ---------------------------------------------------------------------------
// configuration

type Cfg struct {
	HostMAC, RouterMAC net.HardwareAddr
	LAN                [4]byte
	Bits               int
}

var DefaultCfg = Cfg{HostMAC: net.HardwareAddr{0x00, 0x55, 0x55, 0x55, 0x55, 0x55},
	RouterMAC: net.HardwareAddr{0x00, 0x66, 0x66, 0x66, 0x66, 0x66}, LAN: [4]byte{192, 168, 0, 0}, Bits: 24}

func (c Cfg) Toks() []string {
	return []string{lib.Hex(c.HostMAC), lib.Hex(c.RouterMAC), lib.Hex(c.LAN[:]), strconv.Itoa(c.Bits)}
}

func CfgOfToks(a []string) Cfg {
	var c Cfg
	c.HostMAC = lib.UnHex(a[0])
	c.RouterMAC = lib.UnHex(a[1])
	copy(c.LAN[:], lib.UnHex(a[2]))
	c.Bits, _ = strconv.Atoi(a[3])
	return c
}

// template: ONE session built by the library's own constructor (Config.NewSession on a recording connection).
// Everything NewSession sizes or pre-populates (the Statistics table indexed by PayloadID above all) is taken from it,
// never re-stated here: a harness that writes `make([]ProtoStats, 32)` itself does not test the library's 32.
var (
	tmplOnce sync.Once
	tmpl     *packet.Session
)

func template() *packet.Session {
	tmplOnce.Do(func() {
		packet.VerifSetMonitorNICFrequency(24 * time.Hour)
		c := DefaultCfg
		s, err := packet.Config{Conn: lib.NewRecConn(), NICInfo: &packet.NICInfo{
			HomeLAN4:    netip.PrefixFrom(netip.AddrFrom4(c.LAN), c.Bits),
			HostAddr4:   packet.Addr{MAC: c.HostMAC, IP: netip.AddrFrom4([4]byte{192, 168, 0, 129})},
			RouterAddr4: packet.Addr{MAC: c.RouterMAC, IP: netip.AddrFrom4([4]byte{192, 168, 0, 11})}},
			ProbeDeadline: packet.DefaultProbeDeadline, OfflineDeadline: packet.DefaultOfflineDeadline,
			PurgeDeadline: packet.DefaultPurgeDeadline}.NewSession("")
		if err != nil {
			panic(err)
		}
		tmpl = s
	})
	return tmpl
}

// StatsLen is len(Session.Statistics) as the library's constructor makes it.
func StatsLen() int { return len(template().Statistics) }

// NewSession builds the part of a Session that Parse reads, without the background goroutines of
// packet.NewSession (one fresh session per case keeps every case a pure function of its line).  Sizes and
// pre-populated tables are cloned from the constructor-built template.
func NewSession(c Cfg) *packet.Session {
	t := template()
	return &packet.Session{
		NICInfo: &packet.NICInfo{
			HomeLAN4:    netip.PrefixFrom(netip.AddrFrom4(c.LAN), c.Bits),
			HostAddr4:   packet.Addr{MAC: c.HostMAC, IP: netip.AddrFrom4([4]byte{192, 168, 0, 129})},
			RouterAddr4: packet.Addr{MAC: c.RouterMAC, IP: netip.AddrFrom4([4]byte{192, 168, 0, 11})},
		},
		HostTable:  packet.HostTable{Table: make(map[netip.Addr]*packet.Host, 64)},
		MACTable:   packet.MACTable{Table: []*packet.MACEntry{}},
		Statistics: append([]packet.ProtoStats(nil), t.Statistics...),
		C:          make(chan packet.Notification, cap(t.C)),
	}
}

// Buffer places frame ++ spare in one allocation and returns the slice handed to Parse.
func Buffer(frame, spare []byte) (buf []byte, p []byte) {
	n, m := len(frame), len(spare)
	buf = make([]byte, n+m)
	copy(buf, frame)
	copy(buf[n:], spare)
	return buf, buf[: n : n+m]
}

// ---------------------------------------------------------------------------
// observation

func ipTok(a netip.Addr) string {
	switch {
	case !a.IsValid():
		return "-"
	case a.Is4():
		b := a.As4()
		return lib.Hex(b[:])
	default:
		b := a.As16()
		return lib.Hex(b[:])
	}
}

// viewTok: "nil", or "off,len" of v inside buf.  off is taken from the pointer whenever the view
// has capacity (a zero-capacity result of a slice expression carries no position in Go: it is then
// the empty view at the end of the buffer).
func viewTok(buf []byte, n int, get func() []byte) (tok string) {
	defer func() {
		if e := recover(); e != nil {
			tok = "panic"
		}
	}()
	v := get()
	if v == nil {
		return "nil"
	}
	off := n - len(v)
	if cap(v) > 0 {
		if len(buf) == 0 {
			return "outside"
		}
		d := uintptr(unsafe.Pointer(&v[:1][0])) - uintptr(unsafe.Pointer(&buf[0]))
		if d > uintptr(len(buf)) {
			return "outside"
		}
		off = int(d)
	}
	return fmt.Sprintf("%d,%d", off, len(v))
}

// ErrClass: the sentinel a Parse error wraps (never its text).
func ErrClass(err error) string {
	switch {
	case errors.Is(err, packet.ErrFrameLen):
		return "err:EFrameLen"
	case errors.Is(err, packet.ErrParseFrame):
		return "err:EParseFrame"
	}
	return "err:EOther"
}

type Obs struct {
	C02  string // the projection C02 constrains (also the first part of the C01 line)
	Full string // C01: C02 line + MAC slice positions + host key
	F    packet.Frame
	Ok   bool
}

// Observe runs the real Session.Parse on p (a prefix of buf) and every Frame accessor, each under recover.
func Observe(s *packet.Session, buf, p []byte) (o Obs) {
	var f packet.Frame
	var err error
	panicked, _ := lib.Catch(func() { f, err = s.Parse(p) })
	if panicked {
		return Obs{C02: "panic", Full: "panic"}
	}
	if err != nil {
		c := ErrClass(err)
		return Obs{C02: c, Full: c}
	}
	n := len(p)
	addr := func(a packet.Addr) string {
		return lib.Hex(a.MAC) + " " + ipTok(a.IP) + " " + strconv.Itoa(int(a.Port))
	}
	hasIP := "panic"
	lib.Catch(func() {
		if f.HasIP() {
			hasIP = "T"
		} else {
			hasIP = "F"
		}
	})
	parts := []string{"ok", strconv.Itoa(int(f.PayloadID)), addr(f.SrcAddr), addr(f.DstAddr),
		"E:" + viewTok(buf, n, func() []byte { return f.Ether() }),
		"4:" + viewTok(buf, n, func() []byte { return f.IP4() }),
		"6:" + viewTok(buf, n, func() []byte { return f.IP6() }),
		"U:" + viewTok(buf, n, func() []byte { return f.UDP() }),
		"T:" + viewTok(buf, n, func() []byte { return f.TCP() }),
		"P:" + viewTok(buf, n, func() []byte { return f.Payload() }),
		"H:" + hasIP}
	o.C02 = strings.Join(parts, " ")
	macTok := func(m net.HardwareAddr) string {
		if m == nil {
			return "nil"
		}
		if cap(m) == 0 || len(buf) == 0 {
			return "outside"
		}
		d := uintptr(unsafe.Pointer(&m[:1][0])) - uintptr(unsafe.Pointer(&buf[0]))
		if d > uintptr(len(buf)) {
			return "outside"
		}
		return fmt.Sprintf("%d,%d", int(d), len(m))
	}
	host := "nohost"
	if f.Host != nil {
		host = "host:" + lib.Hex(f.Host.Addr.MAC) + "/" + ipTok(f.Host.Addr.IP)
	}
	logTok := "ok"
	if panicked, _ := lib.Catch(func() { f.Log(packet.Logger.Msg("")) }); panicked {
		logTok = "panic"
	}
	o.Full = o.C02 + " sm:" + macTok(f.SrcAddr.MAC) + " dm:" + macTok(f.DstAddr.MAC) + " " + host + " L:" + logTok
	o.F = f
	o.Ok = true
	return o
}

// Run decodes the six tokens of a case and observes Parse on a fresh session.
func Run(a []string) Obs {
	c := CfgOfToks(a[0:4])
	frame := lib.UnHex(a[4])
	RotateLevel(frame)
	buf, p := Buffer(frame, lib.UnHex(a[5]))
	return Observe(NewSession(c), buf, p)
}

// RotateLevel sets the library's log level (error / info / debug) as a function of the frame, so that every
// sequential kind runs its cases under all three levels and a replay reproduces the level: the log level is a mode of
// the code (lines are built under IsInfo / IsDebug), the result of Parse must not depend on it.  Output is discarded.
func RotateLevel(frame []byte) {
	h := uint32(2166136261)
	for _, b := range frame {
		h = (h ^ uint32(b)) * 16777619
	}
	packet.Logger.SetLevel([]fastlog.LogLevel{fastlog.LevelError, fastlog.LevelInfo, fastlog.LevelDebug}[h%3])
}

// ---------------------------------------------------------------------------
// plain byte writers

func be16(v int) []byte { return []byte{byte(v >> 8), byte(v)} }

func cat(parts ...[]byte) []byte {
	var b []byte
	for _, p := range parts {
		b = append(b, p...)
	}
	return b
}

func Ether(dst, src []byte, et int, payload []byte) []byte { return cat(dst, src, be16(et), payload) }

// IP4 header with explicit IHL nibble, total length and protocol (no checksum: Parse does not verify it).
func IP4(ihl int, totalLen int, proto byte, src, dst []byte, options, payload []byte) []byte {
	h := make([]byte, 20)
	h[0] = 0x40 | byte(ihl&0x0f)
	h[2], h[3] = byte(totalLen>>8), byte(totalLen)
	h[8] = 64
	h[9] = proto
	copy(h[12:16], src)
	copy(h[16:20], dst)
	return cat(h, options, payload)
}

func IP6(payloadLen int, next byte, src, dst []byte, payload []byte) []byte {
	h := make([]byte, 40)
	h[0] = 0x60
	h[4], h[5] = byte(payloadLen>>8), byte(payloadLen)
	h[6] = next
	h[7] = 64
	copy(h[8:24], src)
	copy(h[24:40], dst)
	return cat(h, payload)
}

func UDP(sp, dp int, payload []byte) []byte {
	return cat(be16(sp), be16(dp), be16(8+len(payload)), []byte{0, 0}, payload)
}

func TCP(sp, dp int, payload []byte) []byte {
	h := make([]byte, 20)
	copy(h[0:2], be16(sp))
	copy(h[2:4], be16(dp))
	h[12] = 5 << 4
	h[13] = 0x10
	return cat(h, payload)
}

// TCPOpt: TCP header with nopt 32-bit words of options (data offset 5+nopt)
func TCPOpt(sp, dp int, nopt int, payload []byte) []byte {
	h := TCP(sp, dp, nil)
	h[12] = byte(5+nopt) << 4
	return cat(h, make([]byte, 4*nopt), payload)
}

func ICMP(typ, code byte, id, seq int, data []byte) []byte {
	return cat([]byte{typ, code, 0, 0}, be16(id), be16(seq), data)
}

func ARP(hlen, plen byte, op int, smac, sip, tmac, tip []byte) []byte {
	return cat([]byte{0, 1, 8, 0, hlen, plen}, be16(op), smac, sip, tmac, tip)
}

// ---------------------------------------------------------------------------
// universes

var (
	MACClient1 = []byte{0x02, 0x11, 0x11, 0x11, 0x11, 0x11}
	MACClient2 = []byte{0x02, 0x22, 0x22, 0x22, 0x22, 0x22}
	MACMcast4  = []byte{0x01, 0x00, 0x5e, 0x00, 0x00, 0x01}
	MACMcast6  = []byte{0x33, 0x33, 0x00, 0x00, 0x00, 0x01}
	MACBcast   = []byte{0xff, 0xff, 0xff, 0xff, 0xff, 0xff}
)

func ip6(s string) []byte { a := netip.MustParseAddr(s).As16(); return a[:] }

var IP4s = [][]byte{
	{192, 168, 0, 1}, {192, 168, 0, 2}, {192, 168, 0, 129}, {192, 168, 0, 11}, {192, 168, 0, 255}, {192, 168, 0, 0},
	{192, 168, 1, 1}, {10, 0, 0, 1}, {8, 8, 8, 8}, {0, 0, 0, 0}, {255, 255, 255, 255}, {169, 254, 1, 1}, {224, 0, 0, 1}, {127, 0, 0, 1},
}

var IP6s = [][]byte{
	ip6("fe80::1"), ip6("fe80::1:129"), ip6("febf::1"), ip6("fec0::1"), ip6("2001:db8::1"), ip6("2001:db8::2"), ip6("fc00::1"),
	ip6("ff02::1"), ip6("::"), ip6("::1"), ip6("::ffff:192.168.0.1"), ip6("::ffff:169.254.1.1"), ip6("::ffff:0.0.0.0"),
	ip6("::ffff:255.255.255.255"), ip6("::ffff:127.0.0.1"), ip6("::ffff:224.0.0.1"), ip6("::fffe:192.168.0.1"), ip6("fe00::1"),
}

// every port named by the UDP table, its neighbours, and three unrelated ports
var SpecialPorts = []int{443, 67, 68, 546, 547, 53, 5353, 5355, 123, 1900, 3702, 137, 138, 32412, 32414, 10001}
var OtherPorts = []int{0, 1, 80, 8080, 65535, 442, 444, 66, 69, 545, 548, 52, 54, 136, 139, 32413, 10000, 10002}

// EtherTypes: every class the EtherType switch distinguishes, the 802.3 length range and its edges,
// the two VLAN tags and unknown values.
var EtherTypes = []int{0x0800, 0x86dd, 0x0806, 0x8808, 0x8899, 0x88cc, 0x890d, 0x893a, 0x6970, 0x880a,
	0x8100, 0x88a8, 0, 100, 1500, 1535, 1536, 1537, 0x9000, 0x0801, 0x86dc, 0x0805, 0x0807, 0xffff}

var IPProtos = []byte{17, 6, 1, 58, 2, 0, 41, 43, 44, 50, 255, 16, 18, 5, 7, 3, 57, 59}

type G struct {
	R   *lib.Rand
	Cfg Cfg
}

func (g *G) pick(l [][]byte) []byte { return l[g.R.Intn(len(l))] }

func (g *G) SrcMAC() []byte {
	switch g.R.Intn(12) {
	case 0:
		return g.Cfg.HostMAC
	case 1:
		return g.Cfg.RouterMAC
	case 2:
		return MACMcast4
	case 3:
		return MACBcast
	case 4:
		return MACMcast6
	case 5, 6, 7:
		return MACClient1
	case 8, 9:
		return MACClient2
	default:
		m := g.R.Bytes(6)
		if g.R.Chance(85) {
			m[0] &^= 1
		}
		return m
	}
}

func (g *G) DstMAC() []byte {
	switch g.R.Intn(6) {
	case 0:
		return g.Cfg.HostMAC
	case 1:
		return g.Cfg.RouterMAC
	case 2:
		return MACBcast
	case 3:
		return MACMcast4
	default:
		return g.R.Bytes(6)
	}
}

func (g *G) IP4() []byte {
	if g.R.Chance(15) {
		return g.R.Bytes(4)
	}
	return g.pick(IP4s)
}

func (g *G) IP6() []byte {
	if g.R.Chance(15) {
		b := g.R.Bytes(16)
		switch g.R.Intn(4) {
		case 0:
			b[0], b[1] = 0xfe, 0x80|b[1]&0x3f
		case 1:
			b[0] = 0x20
		}
		return b
	}
	return g.pick(IP6s)
}

func (g *G) Port() int {
	switch {
	case g.R.Chance(55):
		return SpecialPorts[g.R.Intn(len(SpecialPorts))]
	case g.R.Chance(70):
		return OtherPorts[g.R.Intn(len(OtherPorts))]
	default:
		return g.R.Intn(65536)
	}
}

// Data: random payload of 0..max bytes; 2 % of the payloads are large (up to a full 1500-byte MTU).
func (g *G) Data(max int) []byte {
	if g.R.Chance(2) {
		return g.R.Bytes(g.R.Intn(1461))
	}
	return g.R.Bytes(g.R.Intn(max + 1))
}

// L4 builds a transport segment for the given IP protocol number; class describes it.
func (g *G) L4(proto byte, v6 bool) (seg []byte, class string) {
	switch proto {
	case 17:
		sp, dp := g.Port(), g.Port()
		return UDP(sp, dp, g.Data(40)), "udp"
	case 6:
		if g.R.Chance(30) {
			return TCPOpt(g.Port(), g.Port(), g.R.Intn(11), g.Data(40)), "tcp"
		}
		return TCP(g.Port(), g.Port(), g.Data(40)), "tcp"
	case 1, 58:
		typ := []byte{0, 8, 3, 129, 128, 133, 134, 135, 136, 137, 11}[g.R.Intn(11)]
		if g.R.Chance(10) {
			typ = g.R.Byte()
		}
		return ICMP(typ, 0, g.R.Intn(65536), g.R.Intn(65536), g.Data(32)), "icmp"
	case 2:
		return cat([]byte{0x11, 0, 0, 0}, g.IP4()), "igmp"
	}
	return g.Data(40), "other"
}

func (g *G) Proto() byte {
	if g.R.Chance(8) {
		return g.R.Byte()
	}
	w := []byte{17, 17, 17, 17, 17, 6, 6, 6, 1, 1, 58, 58, 2}
	if g.R.Chance(75) {
		return w[g.R.Intn(len(w))]
	}
	return IPProtos[g.R.Intn(len(IPProtos))]
}

// ValidIP4 builds a well-formed IPv4 frame (IHL >= 5, TotalLen = actual) and names its class.
func (g *G) ValidIP4() ([]byte, string) {
	proto := g.Proto()
	seg, cl := g.L4(proto, false)
	ihl := 5
	var opts []byte
	if g.R.Chance(20) {
		ihl = 5 + g.R.Intn(11)
		opts = g.R.Bytes((ihl - 5) * 4)
	}
	pkt := IP4(ihl, ihl*4+len(seg), proto, g.IP4(), g.IP4(), opts, seg)
	return Ether(g.DstMAC(), g.SrcMAC(), 0x0800, pkt), "ip4." + cl
}

func (g *G) ValidIP6() ([]byte, string) {
	proto := g.Proto()
	seg, cl := g.L4(proto, true)
	pkt := IP6(len(seg), proto, g.IP6(), g.IP6(), seg)
	return Ether(g.DstMAC(), g.SrcMAC(), 0x86dd, pkt), "ip6." + cl
}

func (g *G) ValidARP() ([]byte, string) {
	src := g.SrcMAC()
	sender := src
	if g.R.Chance(25) {
		sender = MACClient2
	}
	pkt := ARP(6, 4, 1+g.R.Intn(2), sender, g.IP4(), g.DstMAC(), g.IP4())
	return Ether(g.DstMAC(), src, 0x0806, pkt), "arp"
}

func (g *G) Leaf() ([]byte, string) {
	et := EtherTypes[g.R.Intn(len(EtherTypes))]
	if g.R.Chance(10) {
		et = g.R.Intn(65536)
	}
	return Ether(g.DstMAC(), g.SrcMAC(), et, g.Data(60)), fmt.Sprintf("et.%04x", et)
}

// Structured returns a well-formed frame of a random class.
func (g *G) Structured() ([]byte, string) {
	switch g.R.Intn(10) {
	case 0, 1, 2, 3:
		return g.ValidIP4()
	case 4, 5, 6:
		return g.ValidIP6()
	case 7:
		return g.ValidARP()
	default:
		return g.Leaf()
	}
}

// Spare: poison for the capacity beyond the length.  kind 0: none; 1: small; 2: large.  Large poison is
// 0xAA with, half of the time, an in-LAN IPv4 address at absolute offsets 28..31 (where a truncated ARP
// body would have its sender address) so that a read beyond the length becomes visible in the host key.
func (g *G) Spare(n int, kind int) []byte {
	switch kind {
	case 0:
		return nil
	case 1:
		return g.R.Bytes(1 + g.R.Intn(8))
	}
	sp := make([]byte, 64)
	for i := range sp {
		sp[i] = 0xAA
	}
	if g.R.Bool() {
		ip := []byte{192, 168, 0, byte(1 + g.R.Intn(250))}
		for i := 0; i < 4; i++ {
			if j := 28 + i - n; j >= 0 && j < len(sp) {
				sp[j] = ip[i]
			}
		}
	} else if g.R.Bool() {
		copy(sp, g.R.Bytes(64))
	}
	return sp
}

// ---------------------------------------------------------------------------
// streams

type Emit func(frame, spare []byte, class string)

// all three capacity variants of one frame
func (g *G) caps(e Emit, f []byte, class string) {
	for k := 0; k < 3; k++ {
		e(f, g.Spare(len(f), k), class)
	}
}

// Generate drives every stream once.  scale multiplies the random volumes (1 quick, ~20 thorough).
func Generate(g *G, thorough bool, e Emit) {
	scale := 1
	if thorough {
		scale = 40
	}
	r := g.R
	// 1. structured stream: well-formed frames of every class, random capacity variant
	for i := 0; i < 20000*scale; i++ {
		f, cl := g.Structured()
		if r.Chance(15) { // trailing padding / FCS
			f = append(f, r.Bytes(1+r.Intn(8))...)
			cl += ".pad"
		}
		e(f, g.Spare(len(f), r.Intn(3)), "s."+cl)
	}
	// 2a. every EtherType class x every length 0..80, unicast and multicast source
	maxLen := 80
	for _, et := range EtherTypes {
		for _, src := range [][]byte{MACClient1, MACMcast4} {
			for n := 0; n <= maxLen; n++ {
				f := Ether(g.DstMAC(), src, et, r.Bytes(maxLen))[:n]
				if n > 18 && et == 0x0806 && r.Bool() {
					f[18] = 6
				}
				g.caps(e, f, fmt.Sprintf("b.len.%04x", et))
			}
		}
	}
	// 2b. truncation of valid frames at every offset
	for i := 0; i < 40*scale; i++ {
		var f []byte
		var cl string
		switch i % 4 {
		case 0:
			f, cl = g.ValidIP4()
		case 1:
			f, cl = g.ValidIP6()
		case 2:
			f, cl = g.ValidARP()
		default:
			f, cl = g.Structured()
		}
		for n := 0; n <= len(f); n++ {
			g.caps(e, f[:n], "b.trunc."+cl)
			if n < len(f) { // the rest of the valid frame lies in the spare capacity
				e(f[:n], f[n:], "b.trunccont."+cl)
			}
		}
	}
	// 2b'. layer boundaries with a VALID continuation in the spare capacity: a well-formed frame of every class cut at
	// exactly each header boundary (14, 18, 22, +IHL, +40, +8 UDP, +20 TCP, +8 ICMP) and handed over as buf[:L] of the
	// buffer that still holds the rest of the frame; the same cut with zero, garbage and no spare capacity; the same
	// with another source MAC in front of the retained tail (the frame received before in the same buffer).
	for rep := 0; rep < 6*scale; rep++ {
		for _, proto := range []byte{17, 6, 1, 58, 2, 0} {
			for v6 := 0; v6 < 2; v6++ {
				seg, cl := g.L4(proto, v6 == 1)
				var f []byte
				l3 := 20
				if v6 == 1 {
					f = Ether(g.DstMAC(), MACClient1, 0x86dd, IP6(len(seg), proto, g.IP6(), g.IP6(), seg))
					l3 = 40
					cl = "ip6." + cl
				} else {
					ihl := 5
					if r.Chance(30) {
						ihl = 6 + r.Intn(10)
					}
					f = Ether(g.DstMAC(), MACClient1, 0x0800, IP4(ihl, ihl*4+len(seg), proto, g.IP4(), g.IP4(), r.Bytes((ihl-5)*4), seg))
					l3 = ihl * 4
					cl = "ip4." + cl
				}
				for _, L := range []int{12, 13, 14, 15, 14 + 19, 14 + 20, 14 + l3 - 1, 14 + l3, 14 + l3 + 1, 14 + l3 + 7, 14 + l3 + 8, 14 + l3 + 19, 14 + l3 + 20} {
					if L > len(f) {
						continue
					}
					cut := append([]byte{}, f[:L]...)
					if L >= 12 && r.Bool() { // another sender in front of the retained tail
						copy(cut[6:12], g.SrcMAC())
					}
					e(cut, f[L:], "b.cutcont."+cl)
					e(cut, make([]byte, len(f)-L), "b.cutzero."+cl)
					e(cut, r.Bytes(len(f)-L), "b.cutrand."+cl)
					e(cut, nil, "b.cutexact."+cl)
				}
			}
		}
		// ARP and every other EtherType class (tagged ones included) in front of a valid IPv4 / ARP continuation
		inner4 := IP4(5, 28, 17, g.IP4(), g.IP4(), nil, UDP(g.Port(), g.Port(), nil))
		innerA := ARP(6, 4, 1, MACClient2, []byte{192, 168, 0, 7}, g.DstMAC(), g.IP4())
		for _, et := range EtherTypes {
			for _, inner := range [][]byte{inner4, innerA} {
				f := Ether(g.DstMAC(), MACClient1, et, cat(r.Bytes(r.Pick(0, 4, 8)), inner))
				for _, L := range []int{14, 18, 22, 14 + 5, 14 + 18, 14 + 27, 14 + 28} {
					if L > len(f) {
						continue
					}
					e(f[:L], f[L:], "b.cutcont.et")
					e(f[:L], nil, "b.cutexact.et")
				}
			}
		}
	}
	// 2c. IPv4 length fields: every IHL x TotalLen at its boundaries, with and without trailing bytes
	for rep := 0; rep < 2*scale; rep++ {
		for ihl := 0; ihl < 16; ihl++ {
			proto := g.Proto()
			seg, cl := g.L4(proto, false)
			optLen := 0
			if ihl > 5 {
				optLen = (ihl - 5) * 4
			}
			actual := 20 + optLen + len(seg)
			for _, tl := range []int{0, 1, 19, 20, 21, ihl*4 - 1, ihl * 4, ihl*4 + 1, actual - 1, actual, actual + 1, 65535} {
				if tl < 0 {
					continue
				}
				pkt := IP4(ihl, tl, proto, g.IP4(), g.IP4(), r.Bytes(optLen), seg)
				f := Ether(g.DstMAC(), MACClient1, 0x0800, pkt)
				e(f, g.Spare(len(f), r.Intn(3)), "b.ip4len."+cl)
				f = append(f, r.Bytes(1+r.Intn(6))...)
				e(f, g.Spare(len(f), r.Intn(3)), "b.ip4len.pad."+cl)
			}
			// header only / header cut short
			for _, n := range []int{19, 20, 21, ihl * 4, ihl*4 + 7, ihl*4 + 8, ihl*4 + 19, ihl*4 + 20} {
				pkt := IP4(ihl, n, proto, g.IP4(), g.IP4(), nil, r.Bytes(80))
				if n <= len(pkt) {
					f := Ether(g.DstMAC(), MACClient1, 0x0800, pkt[:n])
					e(f, g.Spare(len(f), r.Intn(3)), "b.ip4cut."+cl)
				}
			}
		}
	}
	// 2d. IPv6 payload length at its boundaries
	for rep := 0; rep < 20*scale; rep++ {
		proto := g.Proto()
		seg, cl := g.L4(proto, true)
		for _, pl := range []int{0, 1, 7, 8, 19, 20, len(seg) - 1, len(seg), len(seg) + 1, 65535, 65496, 65495, 65497} {
			if pl < 0 {
				continue
			}
			f := Ether(g.DstMAC(), MACClient1, 0x86dd, IP6(pl, proto, g.IP6(), g.IP6(), seg))
			e(f, g.Spare(len(f), r.Intn(3)), "b.ip6len."+cl)
			f = append(f, r.Bytes(1+r.Intn(6))...)
			e(f, g.Spare(len(f), r.Intn(3)), "b.ip6len.pad."+cl)
		}
		for _, n := range []int{39, 40, 41, 47, 48, 59, 60} {
			pkt := IP6(n-40, proto, g.IP6(), g.IP6(), r.Bytes(40))
			if n < 40 {
				pkt = IP6(0, proto, g.IP6(), g.IP6(), nil)
			}
			f := Ether(g.DstMAC(), MACClient1, 0x86dd, pkt[:n])
			e(f, g.Spare(len(f), r.Intn(3)), "b.ip6cut."+cl)
		}
	}
	// 2e. ARP: every body length 0..40 x hardware length x sender address class
	for _, hlen := range []byte{6, 0, 8} {
		for _, sip := range [][]byte{{192, 168, 0, 7}, {10, 0, 0, 7}} {
			for n := 0; n <= 40; n++ {
				body := cat(ARP(hlen, 4, 1, MACClient2, sip, g.DstMAC(), g.IP4()), r.Bytes(12))[:n]
				g.caps(e, Ether(MACBcast, MACClient1, 0x0806, body), "b.arp")
			}
		}
	}
	// 2f. the UDP port table: every pair of named ports, named x other in both directions, over IPv4 and IPv6
	ports := func(sp, dp int) {
		seg := UDP(sp, dp, g.Data(12))
		f := Ether(g.DstMAC(), MACClient1, 0x0800, IP4(5, 20+len(seg), 17, g.IP4(), g.IP4(), nil, seg))
		e(f, g.Spare(len(f), r.Intn(3)), "b.port4")
		f = Ether(g.DstMAC(), MACClient1, 0x86dd, IP6(len(seg), 17, g.IP6(), g.IP6(), seg))
		e(f, g.Spare(len(f), r.Intn(3)), "b.port6")
	}
	for _, a := range SpecialPorts {
		for _, b := range SpecialPorts {
			ports(a, b)
		}
		for _, b := range OtherPorts {
			ports(a, b)
			ports(b, a)
		}
	}
	// 2g. every IP protocol number over IPv4 and IPv6
	for p := 0; p < 256; p++ {
		seg, _ := g.L4(byte(p), false)
		if len(seg) < 20 {
			seg = append(seg, r.Bytes(20)...)
		}
		f := Ether(g.DstMAC(), MACClient1, 0x0800, IP4(5, 20+len(seg), byte(p), g.IP4(), g.IP4(), nil, seg))
		e(f, g.Spare(len(f), r.Intn(3)), "b.proto4")
		f = Ether(g.DstMAC(), MACClient1, 0x86dd, IP6(len(seg), byte(p), g.IP6(), g.IP6(), seg))
		e(f, g.Spare(len(f), r.Intn(3)), "b.proto6")
	}
	// 2h. EtherTypes: all 65536 in the thorough tier, a random 3000 otherwise
	if thorough {
		// every EtherType x {header only, header + 1..3 bytes, random payload, a valid IPv4/UDP packet as payload}
		inner := IP4(5, 28+18, 17, []byte{192, 168, 0, 7}, []byte{192, 168, 0, 1}, nil, UDP(4000, 53, r.Bytes(18)))
		for et := 0; et < 65536; et++ {
			f := Ether(g.DstMAC(), MACClient1, et, g.Data(30))
			e(f, g.Spare(len(f), r.Intn(3)), "b.ethertype")
			f = Ether(g.DstMAC(), MACClient1, et, r.Bytes(r.Intn(4)))
			e(f, g.Spare(len(f), r.Intn(3)), "b.ethertype.short")
			f = Ether(g.DstMAC(), MACClient1, et, inner)
			e(f, g.Spare(len(f), r.Intn(3)), "b.ethertype.valid")
		}
	} else {
		for i := 0; i < 3000; i++ {
			f := Ether(g.DstMAC(), MACClient1, r.Intn(65536), g.Data(30))
			e(f, g.Spare(len(f), r.Intn(3)), "b.ethertype")
		}
	}
	// 2i. transport header cut at every length (UDP 0..9, TCP 0..21, ICMP 0..9) over IPv4 and IPv6
	for _, pr := range []struct {
		proto byte
		max   int
	}{{17, 10}, {6, 22}, {1, 10}, {58, 10}} {
		for n := 0; n <= pr.max; n++ {
			seg := make([]byte, 0)
			switch pr.proto {
			case 17:
				seg = UDP(g.Port(), g.Port(), r.Bytes(8))
			case 6:
				seg = TCP(g.Port(), g.Port(), r.Bytes(8))
			default:
				seg = ICMP([]byte{0, 129, 8}[r.Intn(3)], 0, r.Intn(65536), 1, r.Bytes(8))
			}
			seg = seg[:n]
			g.caps(e, Ether(g.DstMAC(), MACClient1, 0x0800, IP4(5, 20+n, pr.proto, g.IP4(), g.IP4(), nil, seg)), "b.l4cut4")
			g.caps(e, Ether(g.DstMAC(), MACClient1, 0x86dd, IP6(n, pr.proto, g.IP6(), g.IP6(), seg)), "b.l4cut6")
		}
	}
	// 2j. full-size frames: a maximal frame (1522 bytes) of each IP class cut at every length 0..1522 in the thorough
	// tier, at every 23rd length plus the last 4 otherwise
	for _, mk := range []func(seg []byte) []byte{
		func(seg []byte) []byte {
			return Ether(g.DstMAC(), MACClient1, 0x0800, IP4(5, 20+len(seg), 17, g.IP4(), g.IP4(), nil, seg))
		},
		func(seg []byte) []byte {
			return Ether(g.DstMAC(), MACClient1, 0x0800, IP4(5, 20+len(seg), 6, g.IP4(), g.IP4(), nil, seg))
		},
		func(seg []byte) []byte {
			return Ether(g.DstMAC(), MACClient1, 0x86dd, IP6(len(seg), 17, g.IP6(), g.IP6(), seg))
		},
		func(seg []byte) []byte {
			return Ether(g.DstMAC(), MACClient1, 0x86dd, IP6(len(seg), 58, g.IP6(), g.IP6(), seg))
		},
	} {
		full := mk(cat(be16(g.Port()), be16(g.Port()), r.Bytes(1600)))[:1522]
		for n := 0; n <= 1522; n++ {
			if thorough || n%23 == 0 || n >= 1519 {
				f := append([]byte{}, full[:n]...)
				// keep the length fields consistent with the cut for half of the frames
				if r.Bool() && n >= 54 {
					if f[12] == 0x08 {
						f[16], f[17] = byte((n-14)>>8), byte(n-14)
					} else {
						f[18], f[19] = byte((n-54)>>8), byte(n-54)
					}
				}
				e(f, g.Spare(n, r.Intn(3)), "b.fullsize")
			}
		}
	}
	// 2k. TCP data offset: every value 0..15 x segment lengths around 20 and around 4*offset, over IPv4 and IPv6
	for rep := 0; rep < scale; rep++ {
		for doff := 0; doff < 16; doff++ {
			for _, n := range []int{20, 21, 4*doff - 1, 4 * doff, 4*doff + 1, 60, 61} {
				if n < 20 {
					continue
				}
				seg := TCP(g.Port(), g.Port(), r.Bytes(64))[:n]
				seg[12] = byte(doff<<4) | seg[12]&0x0f
				g.caps(e, Ether(g.DstMAC(), MACClient1, 0x0800, IP4(5, 20+n, 6, g.IP4(), g.IP4(), nil, seg)), "b.tcpdoff4")
				g.caps(e, Ether(g.DstMAC(), MACClient1, 0x86dd, IP6(n, 6, g.IP6(), g.IP6(), seg)), "b.tcpdoff6")
			}
		}
	}
	// 3. malformed: random bytes, and single-byte mutations of structured frames
	for i := 0; i < 3000*scale; i++ {
		f := r.Bytes(r.Intn(100))
		if len(f) > 13 && r.Chance(60) {
			et := EtherTypes[r.Intn(12)]
			f[12], f[13] = byte(et>>8), byte(et)
			f[6] &^= 1
		}
		e(f, g.Spare(len(f), r.Intn(3)), "m.random")
	}
	for i := 0; i < 4000*scale; i++ {
		f, cl := g.Structured()
		f = append([]byte{}, f...)
		if len(f) > 0 {
			k := r.Intn(len(f))
			if r.Chance(60) && len(f) > 14 {
				k = 12 + r.Intn(minInt(48, len(f)-12)) // header bytes decide the path
			}
			f[k] = r.Byte()
		}
		e(f, g.Spare(len(f), r.Intn(3)), "m.mut."+cl)
	}
}

func minInt(a, b int) int {
	if a < b {
		return a
	}
	return b
}

// Cfgs: the standard configuration and variations of the gate (prefix lengths, own/router MAC swapped in).
func Cfgs() []Cfg {
	c := DefaultCfg
	out := []Cfg{c}
	for _, bits := range []int{16, 0, 32, 25, 8} {
		d := c
		d.Bits = bits
		out = append(out, d)
	}
	d := c
	d.HostMAC = MACClient1
	out = append(out, d)
	d = c
	d.RouterMAC = MACClient1
	out = append(out, d)
	d = c
	d.LAN = [4]byte{10, 0, 0, 0}
	d.Bits = 8
	out = append(out, d)
	return out
}

// ClassFrames: one well-formed frame per PayloadID class (1..29) sent from srcMAC with IPv4 source sip4 /
// IPv6 source sip6 (whichever the class uses).
func ClassFrames(g *G, srcMAC, sip4, sip6 []byte) map[int][]byte {
	return classFrames(g, srcMAC, sip4, sip6, false)
}

// ClassFrames6: the same classes with every transport class carried over IPv6 (source sip6); PayloadIP4 (id 4), ARP
// and the non-IP classes are as in ClassFrames.
func ClassFrames6(g *G, srcMAC, sip4, sip6 []byte) map[int][]byte {
	return classFrames(g, srcMAC, sip4, sip6, true)
}

func classFrames(g *G, srcMAC, sip4, sip6 []byte, over6 bool) map[int][]byte {
	dst := g.Cfg.RouterMAC
	ip4only := func(proto byte, seg []byte) []byte {
		return Ether(dst, srcMAC, 0x0800, IP4(5, 20+len(seg), proto, sip4, []byte{8, 8, 8, 8}, nil, seg))
	}
	ip6 := func(proto byte, seg []byte) []byte {
		return Ether(dst, srcMAC, 0x86dd, IP6(len(seg), proto, sip6, IP6s[4], seg))
	}
	ip4 := ip4only
	if over6 {
		ip4 = ip6
	}
	udp := func(sp, dp int) []byte { return ip4(17, UDP(sp, dp, g.R.Bytes(12))) }
	m := map[int][]byte{
		1:  Ether(dst, srcMAC, 0x9000, g.R.Bytes(20)),
		2:  Ether(dst, srcMAC, 100, g.R.Bytes(20)),
		3:  Ether(MACBcast, srcMAC, 0x0806, ARP(6, 4, 1, srcMAC, sip4, dst, []byte{192, 168, 0, 11})),
		4:  ip4only(41, g.R.Bytes(20)),
		5:  ip6(59, g.R.Bytes(20)),
		6:  ip4(1, ICMP(8, 0, 1, 1, g.R.Bytes(8))),
		7:  ip6(58, ICMP(128, 0, 1, 1, g.R.Bytes(8))),
		8:  udp(4000, 4001),
		9:  ip4(6, TCP(4000, 80, g.R.Bytes(8))),
		10: udp(68, 67),
		11: ip6(17, UDP(546, 547, g.R.Bytes(8))),
		12: udp(4000, 53),
		13: udp(5353, 5353),
		14: udp(4000, 443),
		15: udp(123, 123),
		16: udp(4000, 1900),
		17: udp(4000, 3702),
		18: udp(137, 137),
		19: udp(4000, 32412),
		20: udp(4000, 10001),
		21: udp(4000, 5355),
		22: ip4(2, cat([]byte{0x11, 0, 0, 0}, []byte{224, 0, 0, 1})),
	}
	for id, et := range map[int]int{23: 0x8808, 24: 0x8899, 25: 0x88cc, 26: 0x890d, 27: 0x893a, 28: 0x6970, 29: 0x880a} {
		m[id] = Ether(dst, srcMAC, et, g.R.Bytes(30))
	}
	return m
}

// Directed: every PayloadID class x source class x configuration, all three capacity variants.
func Directed(g *G, e func(c Cfg, frame, spare []byte, class string)) {
	srcs := []struct {
		name     string
		mac      []byte
		ip4, ip6 []byte
	}{
		{"client", MACClient1, []byte{192, 168, 0, 7}, IP6s[0]},
		{"clientgua", MACClient2, []byte{192, 168, 0, 8}, IP6s[4]},
		{"own", DefaultCfg.HostMAC, []byte{192, 168, 0, 129}, IP6s[1]},
		{"router", DefaultCfg.RouterMAC, []byte{192, 168, 0, 11}, IP6s[4]},
		{"mcast", MACMcast4, []byte{192, 168, 0, 9}, IP6s[0]},
		{"offlan", MACClient1, []byte{10, 0, 0, 7}, IP6s[7]},
		{"4in6", MACClient2, []byte{169, 254, 1, 1}, IP6s[10]},
	}
	for _, c := range Cfgs() {
		for _, s := range srcs {
			frames := ClassFrames(g, s.mac, s.ip4, s.ip6)
			for id := 1; id <= 29; id++ {
				f := frames[id]
				e(c, f, g.Spare(len(f), g.R.Intn(3)), "d."+s.name)
			}
		}
	}
}

// Corpus runs every case line of $VERIF_CORPUS/*.txt (refutation witnesses, past disagreements) first.
func Corpus(r *lib.Run) {
	dir := os.Getenv("VERIF_CORPUS")
	if dir == "" {
		return
	}
	files, _ := filepath.Glob(filepath.Join(dir, "*.txt"))
	for _, fn := range files {
		data, err := os.ReadFile(fn)
		if err != nil {
			continue
		}
		for _, l := range strings.Split(string(data), "\n") {
			f := strings.Fields(l)
			if len(f) < 2 || strings.HasPrefix(l, "#") {
				continue
			}
			r.Do(f[0], f[1:]...)
			r.Stat("class.corpus", 1)
		}
	}
}

// FrameAPI: the exported surface of packet.Frame by reflection (methods of *Frame, which include the value-receiver
// ones, with their signatures; exported fields with their types), sorted, as one canonical line.  The model side
// (coq/Model/ParseShow.v frame_api) lists what the accessor theorems cover; a method or field added to Frame makes
// the two differ.
func FrameAPI() string {
	t := reflect.TypeOf(&packet.Frame{})
	var ms []string
	for i := 0; i < t.NumMethod(); i++ {
		m := t.Method(i)
		var in, out []string
		for j := 1; j < m.Type.NumIn(); j++ {
			in = append(in, m.Type.In(j).String())
		}
		for j := 0; j < m.Type.NumOut(); j++ {
			out = append(out, m.Type.Out(j).String())
		}
		ms = append(ms, m.Name+"("+strings.Join(in, ";")+")"+strings.Join(out, ";"))
	}
	sort.Strings(ms)
	var fs []string
	e := t.Elem()
	for i := 0; i < e.NumField(); i++ {
		if f := e.Field(i); f.IsExported() {
			fs = append(fs, f.Name+":"+f.Type.String())
		}
	}
	sort.Strings(fs)
	return strings.ReplaceAll("methods="+strings.Join(ms, ",")+" fields="+strings.Join(fs, ","), "\t", "")
}
