// C15: Checksum / CalculateChecksum / checksum writes of SetPayload and
// AppendPayload against the Coq model and the RFC 1071 spec; plus an
// independent big-endian RFC 1071 verification in Go.
package main

import (
	"errors"
	"fmt"
	"github.com/irai/packet/fastlog"
	"io"
	"net"
	"net/netip"
	"strconv"
	"syscall"
	"time"

	"github.com/irai/packet"
	"pvharness/lib"
)

// independent reference: big-endian words, end-around carry, odd byte padded
func rfc1071(b []byte) uint16 {
	var s uint64
	for i := 0; i+1 < len(b); i += 2 {
		s += uint64(b[i])<<8 | uint64(b[i+1])
	}
	if len(b)%2 == 1 {
		s += uint64(b[len(b)-1]) << 8
	}
	for s>>16 != 0 {
		s = (s & 0xffff) + (s >> 16)
	}
	return ^uint16(s)
}

// verifies: one's-complement sum including the checksum field is 0xffff
func verifies(b []byte) bool { return rfc1071(b) == 0 }

func tf(b bool) string {
	if b {
		return "T"
	}
	return "F"
}

// sendPaths drives the real send functions on a recording connection and turns every emitted
// ICMP message into a case: the message with its checksum field zeroed is the model's input, the
// emitted bytes + the independent verifier's verdict are the implementation's observation.
func sendPaths(r *lib.Run, rng *lib.Rand, n int) {
	oldw := fastlog.DefaultIOWriter
	fastlog.DefaultIOWriter = io.Discard
	defer func() { fastlog.DefaultIOWriter = oldw; packet.Logger.Disable() }()
	s, conn := lib.NewSession()
	s.NICInfo.IFI = &net.Interface{MTU: 1500, Name: "eth0"}
	mac := func() net.HardwareAddr {
		return net.HardwareAddr{0x02, rng.Byte(), rng.Byte(), rng.Byte(), rng.Byte(), rng.Byte()}
	}
	ip4 := func() netip.Addr { return netip.AddrFrom4([4]byte{rng.Byte(), rng.Byte(), rng.Byte(), rng.Byte()}) }
	ip6 := func() netip.Addr {
		var a [16]byte
		copy(a[:], rng.Bytes(16))
		switch rng.Intn(4) {
		case 0:
			a[0], a[1] = 0xfe, 0x80
		case 1:
			a[0], a[1] = 0xff, 0x02
		case 2:
			a[0] = 0x20
		}
		return netip.AddrFrom16(a)
	}
	emit := func(class string) {
		for _, f := range conn.Take() {
			if len(f) < 14 {
				r.Viol("send-short-frame", class+": frame shorter than an Ethernet header: "+lib.Hex(f), "")
				continue
			}
			et := uint16(f[12])<<8 | uint16(f[13])
			switch {
			case et == 0x0800 && len(f) >= 14+20+4 && f[14+9] == 1:
				msg := append([]byte{}, f[34:]...)
				pre := append([]byte{}, msg...)
				pre[2], pre[3] = 0, 0
				r.Case("icmp4fin", []string{lib.Hex(pre)}, lib.Hex(msg)+" "+tf(verifies(msg)))
				r.Stat("class.send."+class, 1)
				if !verifies(f[14:34]) {
					r.Viol("send-ip4-header-verify", class+": IPv4 header does not verify: "+lib.Hex(f[14:34]), "")
				}
			case et == 0x86dd && len(f) >= 14+40+4 && f[14+6] == 58:
				msg := append([]byte{}, f[54:]...)
				pre := append([]byte{}, msg...)
				pre[2], pre[3] = 0, 0
				src, dst := f[22:38], f[38:54]
				psh := append(append(append([]byte{}, src...), dst...), 0, 0, byte(len(msg)>>8), byte(len(msg)), 0, 0, 0, 58)
				r.Case("icmp6fin", []string{lib.Hex(src), lib.Hex(dst), lib.Hex(pre)}, lib.Hex(msg)+" "+tf(verifies(append(psh, msg...))))
				r.Stat("class.send."+class, 1)
			default:
				r.Stat("class.send.other-frame", 1)
			}
		}
	}
	// transient send errors: the first write of every call in every other round fails with an errno a packet socket really returns
	// (a full transmit queue, an interrupted call, ...) or a generic error; whatever the function then does (give up,
	// retry), every frame that does reach the wire must be completed correctly
	faults := []error{syscall.ENOBUFS, syscall.EAGAIN, syscall.EINTR, syscall.ENETDOWN, syscall.EMSGSIZE, errors.New("injected"), net.ErrClosed}
	for i := 0; i < n; i++ {
		id, seq := uint16(rng.U64()), uint16(rng.U64())
		conn.Fail = nil
		// the log level is a mode of the library, not of the wire: rotate it per round of the six functions
		switch (i / 6) % 3 {
		case 0:
			packet.Logger.Disable()
		case 1:
			packet.Logger.EnableInfo()
		default:
			packet.Logger.EnableDebug()
		}
		if (i/6)%2 == 1 { // every other round of the six send functions
			fe, failed := faults[(i/12+i)%len(faults)], false
			conn.Fail = func([]byte) error {
				if !failed {
					failed = true
					return fe
				}
				return nil
			}
			r.Stat("class.send.first-write-fails", 1)
		}
		switch i % 6 {
		case 5:
			// router advertisements grow with the number of prefixes / RDNSS servers: ICMPv6 messages from ~80 to
			// ~500 bytes (the payload-length term of the pseudo header crosses 256), odd and even option counts
			np := 1 + rng.Intn(14)
			var pfx []packet.PrefixInformation
			for k := 0; k < np; k++ {
				a := ip6().As16()
				pl := rng.Pick(48, 56, 64, 96, 128)
				if rng.Intn(16) != 0 { // the marshaller refuses a prefix with host bits set; keep a few of those too
					for b := pl / 8; b < 16; b++ {
						a[b] = 0
					}
				}
				pfx = append(pfx, packet.PrefixInformation{PrefixLength: uint8(pl), Prefix: net.IP(a[:])})
			}
			var rd *packet.RecursiveDNSServer
			if rng.Bool() {
				rd = &packet.RecursiveDNSServer{Lifetime: time.Duration(rng.Intn(7200)) * time.Second}
				for k := 0; k < 1+rng.Intn(3); k++ {
					a := ip6().As16()
					rd.Servers = append(rd.Servers, net.IP(a[:]))
				}
			}
			if err := s.ICMP6SendRouterAdvertisement(pfx, rd, packet.Addr{MAC: mac(), IP: ip6()}); err != nil {
				r.Stat("class.send.ra-refused", 1)
			}
			emit("ICMP6SendRouterAdvertisement")
		case 0:
			s.ICMP4SendEchoRequest(packet.Addr{MAC: mac(), IP: ip4()}, packet.Addr{MAC: mac(), IP: ip4()}, id, seq)
			emit("ICMP4SendEchoRequest")
		case 1:
			s.ICMP6SendEchoRequest(packet.Addr{MAC: mac(), IP: ip6()}, packet.Addr{MAC: mac(), IP: ip6()}, id, seq)
			emit("ICMP6SendEchoRequest")
		case 2:
			s.ICMP6SendNeighborAdvertisement(packet.Addr{MAC: mac(), IP: ip6()}, packet.Addr{MAC: mac(), IP: ip6()}, packet.Addr{MAC: mac(), IP: ip6()})
			emit("ICMP6SendNeighborAdvertisement")
		case 3:
			src6 := ip6()
			if (i/6)%4 == 2 { // (a round without an injected write error) duplicate address detection: a solicitation from the unspecified address
				src6 = netip.IPv6Unspecified()
			}
			s.ICMP6SendNeighbourSolicitation(packet.Addr{MAC: mac(), IP: src6}, packet.Addr{MAC: mac(), IP: ip6()}, ip6())
			emit("ICMP6SendNeighbourSolicitation")
		case 4:
			s.ICMP6SendRouterSolicitation()
			emit("ICMP6SendRouterSolicitation")
		}
	}
}

func main() {
	r := lib.Init()
	defer r.Close()
	rng := r.Rand()

	// cs <hex>: packet.Checksum
	r.Register("cs", func(a []string) string {
		in := lib.UnHex(a[0])
		// the input is a view into a larger array (as every packet view is): Checksum must read b[:len(b)] only
		// and write nothing, neither into the view nor into the spare capacity behind it
		back := make([]byte, len(in)+9)
		for i := range back {
			back[i] = 0xa5
		}
		copy(back, in)
		b := back[:len(in)]
		v := packet.Checksum(b)
		for i := range back {
			if (i < len(in) && back[i] != in[i]) || (i >= len(in) && back[i] != 0xa5) {
				r.Viol("cs-writes-memory", fmt.Sprintf("Checksum wrote to its argument's array at index %d (len %d): %#02x", i, len(in), back[i]), "cs "+a[0])
				break
			}
		}
		want := rfc1071(b)
		if v != (want>>8 | want<<8) { // Go-side oracle, independent of the Coq spec
			r.Viol("cs-rfc1071", fmt.Sprintf("Checksum(%s)=%d, RFC1071 (byte-swapped)=%d", a[0], v, want>>8|want<<8), "cs "+a[0])
		}
		return fmt.Sprint(v)
	})
	// cssplit <hex> <k>: one buffer, Checksum(b[:k]), then Checksum(b[k:]), then Checksum(b) — the pieces are views of
	// the same array, in that order (the property's split clause on the implementation, not only on the model)
	r.Register("cssplit", func(a []string) string {
		in := lib.UnHex(a[0])
		k, _ := strconv.Atoi(a[1])
		if k > len(in) {
			k = len(in)
		}
		buf := append(make([]byte, 0, len(in)+8), in...)
		c1 := packet.Checksum(buf[:k])
		c2 := packet.Checksum(buf[k:])
		cw := packet.Checksum(buf)
		return fmt.Sprintf("%d %d %d", c1, c2, cw)
	})
	// ip4calc <hex20>: IP4.CalculateChecksum
	r.Register("ip4calc", func(a []string) string {
		return fmt.Sprint(packet.IP4(lib.UnHex(a[0])).CalculateChecksum())
	})
	// ip4store <hex20 header as it is just before the checksum write> : the header SetPayload leaves.
	// (the generator below drives SetPayload/AppendPayload through the public encoders; this runner
	// reproduces the write on an arbitrary header for replay: totallen/proto are re-written to themselves)
	r.Register("ip4store", func(a []string) string {
		h := lib.UnHex(a[0])
		buf := make([]byte, packet.EthMaxSize)
		copy(buf, h)
		tl := int(h[2])<<8 | int(h[3])
		if tl < 20 || tl > len(buf) {
			return "skip"
		}
		out := packet.IP4(buf[:20:len(buf)]).SetPayload(make([]byte, tl-20), h[9])
		if !verifies(out[:20]) {
			r.Viol("ip4-header-verify", "IPv4 header written by SetPayload does not verify: "+lib.Hex(out[:20]), "ip4store "+a[0])
		}
		return lib.Hex(out[:20])
	})
	// ip4store2 <S|A> <hex20 header, checksum field possibly already filled>: completing the same header again
	// (SetPayload / AppendPayload called a second time on one buffer, or on a header taken from the wire)
	r.Register("ip4store2", func(a []string) string {
		h := lib.UnHex(a[1])
		buf := make([]byte, packet.EthMaxSize)
		copy(buf, h)
		tl := int(h[2])<<8 | int(h[3])
		if tl < 20 || tl > len(buf) {
			return "skip"
		}
		var out packet.IP4
		if a[0] == "A" {
			var err error
			out, err = packet.IP4(buf[:20:len(buf)]).AppendPayload(make([]byte, tl-20), h[9])
			if err != nil {
				return "err"
			}
		} else {
			out = packet.IP4(buf[:20:len(buf)]).SetPayload(make([]byte, tl-20), h[9])
		}
		if !verifies(out[:20]) {
			r.Viol("ip4-header-verify", "IPv4 header re-completed by SetPayload/AppendPayload does not verify: "+lib.Hex(out[:20]), "ip4store2 "+a[0]+" "+a[1])
		}
		return lib.Hex(out[:20])
	})
	// icmp4fin <msg, checksum field zero>: what icmp4SendPacket makes of it (via ICMP4SendEchoRequest-like path:
	// ICMP(p).SetChecksum(Checksum(p))), plus the verdict of the independent verifier
	r.Register("icmp4fin", func(a []string) string {
		p := lib.UnHex(a[0])
		packet.ICMP(p).SetChecksum(packet.Checksum(p))
		return lib.Hex(p) + " " + tf(verifies(p))
	})
	if r.Replayed() {
		return
	}

	cs := func(b []byte, class string) {
		r.Do("cs", lib.Hex(b))
		r.Stat("class."+class, 1)
	}
	// exhaustive: every string of length 0..2; length 3 exhaustively in the thorough tier
	cs(nil, "len0")
	for a := 0; a < 256; a++ {
		cs([]byte{byte(a)}, "len1-exhaustive")
	}
	for a := 0; a < 65536; a++ {
		cs([]byte{byte(a >> 8), byte(a)}, "len2-exhaustive")
	}
	if r.Thorough() {
		for a := 0; a < 1<<24; a += 1 {
			cs([]byte{byte(a >> 16), byte(a >> 8), byte(a)}, "len3-exhaustive")
		}
	} else {
		for i := 0; i < 20000; i++ {
			cs(rng.Bytes(3), "len3-random")
		}
	}
	// single-word perturbations of all-zero / all-ff carriers (carry boundaries)
	for _, n := range []int{4, 5, 20, 21, 40, 63, 64, 1500, 1501} {
		for _, fill := range []byte{0x00, 0xff} {
			for k := 0; k < 40; k++ {
				b := make([]byte, n)
				for i := range b {
					b[i] = fill
				}
				pos := rng.Intn(n)
				b[pos] = rng.Byte()
				if pos+1 < n && rng.Bool() {
					b[pos+1] = rng.Byte()
				}
				cs(b, "perturbed-carrier")
			}
		}
	}
	// random strings of every length 0..1522
	reps := 2
	if r.Thorough() {
		reps = 40
	}
	for n := 0; n <= 1522; n++ {
		for k := 0; k < reps; k++ {
			b := rng.Bytes(n)
			if rng.Chance(20) { // bias to 0xff-heavy content: many carries
				for i := range b {
					if rng.Chance(80) {
						b[i] = 0xff
					}
				}
			}
			cs(b, "random-len0..1522")
		}
	}

	// splits: every split point of short strings, random split points of longer ones, odd and even on both sides
	nsplit := 400
	if r.Thorough() {
		nsplit = 20000
	}
	for i := 0; i < nsplit; i++ {
		n := rng.Pick(1, 2, 3, 4, 5, 7, 8, 19, 20, 21, 40, 63, 64, 65, 1+rng.Intn(300), 1400+rng.Intn(123))
		b := rng.Bytes(n)
		if rng.Chance(30) {
			for j := range b {
				if rng.Chance(80) {
					b[j] = 0xff
				}
			}
		}
		if n <= 8 {
			for k := 0; k <= n; k++ {
				r.Do("cssplit", lib.Hex(b), strconv.Itoa(k))
			}
		} else {
			for j := 0; j < 3; j++ {
				r.Do("cssplit", lib.Hex(b), strconv.Itoa(rng.Intn(n+1)))
			}
		}
		r.Stat("class.split", 1)
	}

	// IPv4 headers: CalculateChecksum on arbitrary 20-byte headers
	nip := 3000
	if r.Thorough() {
		nip = 100000
	}
	for i := 0; i < nip; i++ {
		hdr := rng.Bytes(20)
		if rng.Chance(30) {
			for j := range hdr {
				if rng.Chance(70) {
					hdr[j] = 0xff
				}
			}
		}
		if rng.Chance(10) {
			for j := range hdr {
				hdr[j] = 0
			}
		}
		r.Do("ip4calc", lib.Hex(hdr))
	}
	// SetPayload / AppendPayload through the public encoders with generated field values
	for i := 0; i < nip; i++ {
		buf := make([]byte, packet.EthMaxSize)
		ttl := rng.Byte()
		src := netip.AddrFrom4([4]byte{rng.Byte(), rng.Byte(), rng.Byte(), rng.Byte()})
		dst := netip.AddrFrom4([4]byte{rng.Byte(), rng.Byte(), rng.Byte(), rng.Byte()})
		plen := rng.Pick(0, 1, 2, 7, 8, 100, 1480, rng.Intn(1481))
		payload := rng.Bytes(plen)
		proto := rng.Byte()
		ip := packet.EncodeIP4(buf, ttl, src, dst)
		// header as it is just before the checksum write: protocol and total length set
		pre := append([]byte{}, ip[:20]...)
		pre[9] = proto
		pre[2] = byte((20 + plen) >> 8)
		pre[3] = byte(20 + plen)
		var outp packet.IP4
		var err error
		which := "SetPayload"
		if rng.Bool() {
			which = "AppendPayload"
			outp, err = ip.AppendPayload(payload, proto)
		} else {
			outp = ip.SetPayload(payload, proto)
		}
		if err != nil {
			r.Viol("ip4-append", "AppendPayload failed on EthMaxSize buffer: "+err.Error(), "")
			continue
		}
		r.Case("ip4store", []string{lib.Hex(pre)}, lib.Hex(outp[:20]))
		r.Stat("class.ip4store."+which, 1)
		// completion is idempotent: the same header completed again (checksum field already filled), with the
		// same and with a changed length / protocol, and with arbitrary bytes left in the checksum field
		done := append([]byte{}, outp[:20]...)
		mode := "S"
		if rng.Bool() {
			mode = "A"
		}
		r.Do("ip4store2", mode, lib.Hex(done))
		again := append([]byte{}, done...)
		pl2 := rng.Pick(0, 1, 8, 100, 1480)
		again[2], again[3] = byte((20+pl2)>>8), byte(20+pl2)
		again[9] = rng.Byte()
		r.Do("ip4store2", mode, lib.Hex(again))
		junk := append([]byte{}, pre...)
		junk[10], junk[11] = rng.Byte(), rng.Byte()
		if rng.Chance(30) {
			junk[10], junk[11] = 0xff, 0xff
		}
		r.Do("ip4store2", mode, lib.Hex(junk))
		r.Stat("class.ip4store2."+mode, 3)
		if !verifies(outp[:20]) {
			r.Viol("ip4-header-verify", "IPv4 header written by "+which+" does not verify: "+lib.Hex(outp[:20]), "ip4store "+lib.Hex(pre))
		}
	}
	// long inputs: the library never sends that much, but Checksum is exported and the theorem covers every byte
	// string a Go program can hold. Lengths around every power-of-two / 0xffff boundary, odd and even, random, 0xff-heavy
	// and all-0xff contents; 131076 bytes of 0xff is where the former 32 bit accumulator wrapped (repaired, 82fb9fa).
	longs := []int{4095, 4096, 4097, 9000, 9001, 32767, 32768, 65534, 65535, 65536, 65537, 70000, 100001, 131073, 131074,
		131075, 131076, 131077, 200001, 262144, 262147, 524289, 1 << 20}
	if r.Thorough() {
		longs = append(longs, 65533, 65538, 65539, 98303, 98304, 98305, 131071, 131072, 131078, 196608, 196611, 1<<20+1, 1<<21, 1<<21+3, 3<<20+1)
	}
	for _, n := range longs {
		if n > 131074 {
			b := make([]byte, n)
			for j := range b {
				b[j] = 0xff
			}
			cs(b, "long")
		}
	}
	for _, n := range longs {
		for k := 0; k < 2; k++ {
			b := rng.Bytes(n)
			if k == 1 {
				for j := range b {
					if rng.Chance(80) {
						b[j] = 0xff
					}
				}
			}
			cs(b, "long")
		}
	}
	nsend := 2000
	if r.Thorough() {
		nsend = 50000
	}
	sendPaths(r, rng, nsend)
	r.Sample("cs 0001f203f4f5f6f7 => 3362 (RFC 1071 worked example, stored low byte first)")
}
