package main

// Source-derived call lists: which functions each branch of Session.Parse calls (go/parser + go/ast on
// $VERIF_REPO/layer_frame.go), compared on every run with the list the allocation-counter model was written from
// (coq/Model/ParseAlloc.v parse_calls, dispatch kind "calls").  A call added to (or removed from) a branch - a log
// line, an fmt.Sprintf, a helper - changes the set and is a disagreement on that branch, whether or not a generated
// frame and AllocsPerRun notice it.
//
// Branches: "top" (everything outside the two switches), "et:<EtherType>" / "et:default" (cases of the EtherType
// switch), "proto:<number>" (cases of the protocol switch, the UDP port switch included).  A callee is named by its
// method name (".IsValid": the receiver's spelling is dropped), by "pkg.Func" for imported packages, by its identifier
// for package functions ("echoNotify", "IsUnicastMAC").  Calls that cannot allocate by construction and that a
// refactoring may add or drop freely (len/cap, type conversions, the field getter Frame.Ether()) are left out (inert).
// Each branch is a sorted set.  Switches are found by their case constants, as in cmd/c02/tables.go.

import (
	"fmt"
	"go/ast"
	"go/parser"
	"go/token"
	"os"
	"path/filepath"
	"sort"
	"strconv"
	"strings"
	"syscall"
)

var sysConst = map[string]int64{
	"ETH_P_IP": syscall.ETH_P_IP, "ETH_P_IPV6": syscall.ETH_P_IPV6, "ETH_P_ARP": syscall.ETH_P_ARP,
	"IPPROTO_UDP": syscall.IPPROTO_UDP, "IPPROTO_TCP": syscall.IPPROTO_TCP, "IPPROTO_ICMP": syscall.IPPROTO_ICMP,
	"IPPROTO_ICMPV6": syscall.IPPROTO_ICMPV6, "IPPROTO_IGMP": syscall.IPPROTO_IGMP,
}

func callee(imports map[string]bool, c *ast.CallExpr) string {
	switch f := c.Fun.(type) {
	case *ast.Ident:
		return f.Name
	case *ast.SelectorExpr:
		if id, ok := f.X.(*ast.Ident); ok && imports[id.Name] {
			return id.Name + "." + f.Sel.Name
		}
		return "." + f.Sel.Name
	}
	return "conv"
}

// inert: calls that cannot allocate by construction and that a behaviour-preserving refactoring may add or drop
// freely - the builtins len/cap, type conversions (the view types of the package, net.HardwareAddr, parenthesised
// conversions) and the trivial field getter Frame.Ether().  They are not part of the compared set (nor of the model's).
var inert = map[string]bool{"len": true, "cap": true, "conv": true, ".Ether": true, "IP4": true, "IP6": true, "UDP": true,
	"TCP": true, "ICMP": true, "ICMPEcho": true, "Ether": true, "net.HardwareAddr": true}

func callSet(imports map[string]bool, nodes []ast.Node, skip map[ast.Node]bool) []string {
	set := map[string]bool{}
	for _, n := range nodes {
		ast.Inspect(n, func(x ast.Node) bool {
			if x == nil || skip[x] {
				return false
			}
			if c, ok := x.(*ast.CallExpr); ok {
				if n := callee(imports, c); !inert[n] {
					set[n] = true
				}
			}
			return true
		})
	}
	out := make([]string, 0, len(set))
	for k := range set {
		out = append(out, k)
	}
	sort.Strings(out)
	return out
}

// sourceCalls returns branch -> "callee,callee,..." or ok=false when the shape of Parse is not recognised.
func sourceCalls() (map[string]string, bool) {
	repo := os.Getenv("VERIF_REPO")
	if repo == "" {
		repo = "/repo"
	}
	fset := token.NewFileSet()
	file, err := parser.ParseFile(fset, filepath.Join(repo, "layer_frame.go"), nil, 0)
	if err != nil {
		return nil, false
	}
	imports := map[string]bool{}
	for _, im := range file.Imports {
		p, _ := strconv.Unquote(im.Path.Value)
		name := p[strings.LastIndex(p, "/")+1:]
		if im.Name != nil {
			name = im.Name.Name
		}
		imports[name] = true
	}
	consts := map[string]int64{}
	var fn *ast.FuncDecl
	for _, d := range file.Decls {
		switch x := d.(type) {
		case *ast.GenDecl:
			if x.Tok == token.CONST {
				for _, s := range x.Specs {
					vs := s.(*ast.ValueSpec)
					if len(vs.Names) == 1 && len(vs.Values) == 1 {
						if lit, ok := vs.Values[0].(*ast.BasicLit); ok && lit.Kind == token.INT {
							if v, err := strconv.ParseInt(lit.Value, 0, 64); err == nil {
								consts[vs.Names[0].Name] = v
							}
						}
					}
				}
			}
		case *ast.FuncDecl:
			if x.Name.Name == "Parse" && x.Recv != nil {
				fn = x
			}
		}
	}
	if fn == nil {
		return nil, false
	}
	cval := func(e ast.Expr) (int64, bool) {
		switch x := e.(type) {
		case *ast.BasicLit:
			v, err := strconv.ParseInt(x.Value, 0, 64)
			return v, err == nil
		case *ast.SelectorExpr:
			if id, ok := x.X.(*ast.Ident); ok && id.Name == "syscall" {
				v, ok := sysConst[x.Sel.Name]
				return v, ok
			}
		case *ast.Ident:
			v, ok := consts[x.Name]
			return v, ok
		}
		return 0, false
	}
	find := func(want int64) *ast.SwitchStmt {
		for _, s := range fn.Body.List {
			if sw, ok := s.(*ast.SwitchStmt); ok && sw.Tag != nil {
				for _, c := range sw.Body.List {
					for _, e := range c.(*ast.CaseClause).List {
						if v, ok := cval(e); ok && v == want {
							return sw
						}
					}
				}
			}
		}
		return nil
	}
	swE, swP := find(syscall.ETH_P_IP), find(syscall.IPPROTO_UDP)
	if swE == nil || swP == nil {
		return nil, false
	}
	out := map[string]string{}
	branch := func(prefix string, sw *ast.SwitchStmt) bool {
		for _, c := range sw.Body.List {
			cc := c.(*ast.CaseClause)
			nodes := make([]ast.Node, len(cc.Body))
			for i, s := range cc.Body {
				nodes[i] = s
			}
			calls := strings.Join(callSet(imports, nodes, nil), ",")
			if cc.List == nil {
				out[prefix+"default"] = calls
				continue
			}
			for _, e := range cc.List {
				v, ok := cval(e)
				if !ok {
					return false
				}
				out[fmt.Sprintf("%s%d", prefix, v)] = calls
			}
		}
		return true
	}
	if !branch("et:", swE) || !branch("proto:", swP) {
		return nil, false
	}
	top := []ast.Node{}
	for _, s := range fn.Body.List {
		top = append(top, s)
	}
	out["top"] = strings.Join(callSet(imports, top, map[ast.Node]bool{swE.Body: true, swP.Body: true}), ",")
	// the helpers Parse calls on its steady-state path, wherever they live in the package
	helpers := map[string]*ast.FuncDecl{}
	pkgFuncs := map[string]*ast.FuncDecl{}   // every function of package packet, by name
	pkgMethods := map[string]*ast.FuncDecl{} // every method of package packet, by method name
	names, _ := filepath.Glob(filepath.Join(repo, "*.go"))
	for _, n := range names {
		if strings.HasSuffix(n, "_test.go") {
			continue
		}
		f, err := parser.ParseFile(fset, n, nil, 0)
		if err != nil {
			return nil, false
		}
		imp := map[string]bool{}
		for _, im := range f.Imports {
			p, _ := strconv.Unquote(im.Path.Value)
			name := p[strings.LastIndex(p, "/")+1:]
			if im.Name != nil {
				name = im.Name.Name
			}
			imp[name] = true
			imports[name] = true
		}
		for _, d := range f.Decls {
			if fd, ok := d.(*ast.FuncDecl); ok && fd.Body != nil {
				if strings.HasPrefix(filepath.Base(n), "verif_") {
					continue
				}
				if fd.Recv == nil {
					pkgFuncs[fd.Name.Name] = fd
				} else {
					pkgMethods[fd.Name.Name] = fd
				}
				switch fd.Name.Name {
				case "echoNotify", "hostOnline", "onlineTransition", "findOrCreateHostWithLock":
					helpers[fd.Name.Name] = fd
				}
			}
		}
	}
	// Helper call sets are LEAF sets: a callee that is itself a function of package packet is expanded (its own callees
	// are taken instead, transitively), so extracting or inlining a package-local helper does not change the set; what
	// remains are builtins and calls into other packages / types of other packages - the things that can allocate.
	var leaves func(nodes []ast.Node, seen map[string]bool, acc map[string]bool)
	leaves = func(nodes []ast.Node, seen map[string]bool, acc map[string]bool) {
		for _, c := range callSet(imports, nodes, nil) {
			name := strings.TrimPrefix(c, ".")
			fd, isLocal := pkgFuncs[name] // a bare identifier names a function, a selector a method
			if strings.HasPrefix(c, ".") {
				fd, isLocal = pkgMethods[name]
			} else if strings.Contains(c, ".") {
				isLocal = false
			}
			if isLocal {
				if !seen[name] {
					seen[name] = true
					leaves([]ast.Node{fd.Body}, seen, acc)
				}
				continue
			}
			acc[c] = true
		}
	}
	leafSet := func(nodes []ast.Node, self string) string {
		acc := map[string]bool{}
		leaves(nodes, map[string]bool{self: true}, acc)
		l := make([]string, 0, len(acc))
		for k := range acc {
			l = append(l, k)
		}
		sort.Strings(l)
		return strings.Join(l, ",")
	}
	for _, h := range []string{"echoNotify", "hostOnline", "findOrCreateHostWithLock"} {
		fd, ok := helpers[h]
		if !ok {
			return nil, false
		}
		out["fn:"+h] = leafSet([]ast.Node{fd.Body}, h)
	}
	return out, true
}

// sourceLogs: the log statements on Parse's path - every Logger.Msg("..") in Parse, hostOnline, onlineTransition,
// findOrCreateHostWithLock and echoNotify - with the level that guards them lexically ("info" / "debug" when an
// enclosing if tests IsInfo() / IsDebug(), "always" otherwise), as a sorted MULTISET of rows "func:guard" per function
// (no message text: rewording a log line is not a change of behaviour the property speaks about).
func sourceLogs() (string, bool) {
	repo := os.Getenv("VERIF_REPO")
	if repo == "" {
		repo = "/repo"
	}
	names, _ := filepath.Glob(filepath.Join(repo, "*.go"))
	fset := token.NewFileSet()
	want := map[string]bool{"Parse": true, "hostOnline": true, "onlineTransition": true, "findOrCreateHostWithLock": true, "echoNotify": true}
	var rows []string
	seen := 0
	for _, n := range names {
		if strings.HasSuffix(n, "_test.go") {
			continue
		}
		f, err := parser.ParseFile(fset, n, nil, 0)
		if err != nil {
			return "", false
		}
		for _, d := range f.Decls {
			fd, ok := d.(*ast.FuncDecl)
			if !ok || fd.Body == nil || !want[fd.Name.Name] {
				continue
			}
			seen++
			var walk func(n ast.Node, guard string)
			walk = func(n ast.Node, guard string) {
				ast.Inspect(n, func(x ast.Node) bool {
					switch y := x.(type) {
					case *ast.IfStmt:
						g := guard
						cond := ""
						ast.Inspect(y.Cond, func(c ast.Node) bool {
							if se, ok := c.(*ast.SelectorExpr); ok {
								cond += se.Sel.Name + " "
							}
							return true
						})
						if strings.Contains(cond, "IsDebug") {
							g = "debug"
						} else if strings.Contains(cond, "IsInfo") && g != "debug" {
							g = "info"
						}
						if y.Init != nil {
							walk(y.Init, guard)
						}
						walk(y.Body, g)
						if y.Else != nil {
							walk(y.Else, guard)
						}
						return false
					case *ast.CallExpr:
						if se, ok := y.Fun.(*ast.SelectorExpr); ok && se.Sel.Name == "Msg" && len(y.Args) == 1 {
							if lit := y.Args[0]; lit != nil {
								_ = lit // the message text is not part of the property; the guard is
								rows = append(rows, fd.Name.Name+":"+guard)
							}
						}
					}
					return true
				})
			}
			walk(fd.Body, "always")
		}
	}
	if seen < len(want) {
		return "", false
	}
	sort.Strings(rows)
	if len(rows) == 0 {
		return "-", true
	}
	return strings.Join(rows, ","), true
}
