// C16: zero-copy and allocation-free parsing.
//
//	alias cfg.. frame spare          every view of the Frame as (offset,len) inside the caller's buffer, by pointer
//	wt cfg.. frame spare which i v   write-through: a write through view[i] lands in the buffer at off+i and only
//	                                 there; a write into the buffer at that index is read back through the view
//	alloc cfg.. state frame          heap allocations of one Session.Parse call (testing.AllocsPerRun, 0 or +) with the
//	                                 source host newly seen / tracked offline / tracked online
//
// compared with the Coq model (coq/Model/Parse.v, ParseAlloc.v through coq/Extract/D16.v) and, for alias, with the
// offsets of the reference decoder.
package main

import (
	"fmt"
	"sort"
	"strconv"
	"strings"
	"testing"
	"unsafe"

	"github.com/irai/packet"
	"github.com/irai/packet/fastlog"
	"pvharness/cmd/c01/pgen"
	"pvharness/cmd/c01/punit"
	"pvharness/lib"
)

func viewOf(f packet.Frame, which string) []byte {
	switch which {
	case "E":
		return f.Ether()
	case "4":
		return f.IP4()
	case "6":
		return f.IP6()
	case "U":
		return f.UDP()
	case "T":
		return f.TCP()
	case "P":
		return f.Payload()
	case "S":
		return f.SrcAddr.MAC
	case "D":
		return f.DstAddr.MAC
	}
	return nil
}

func alias(a []string) string {
	o := pgen.Run(a)
	if !o.Ok {
		return o.C02
	}
	// "ok id smac sip sport dmac dip dport E:.. 4:.. 6:.. U:.. T:.. P:.. H:. sm:.. dm:.. host"
	f := strings.Fields(o.Full)
	return strings.Join([]string{"ok", "sm@" + strings.Split(strings.TrimPrefix(f[15], "sm:"), ",")[0],
		"dm@" + strings.Split(strings.TrimPrefix(f[16], "dm:"), ",")[0], f[8], f[9], f[10], f[11], f[12], f[13]}, " ")
}

func writeThrough(a []string) string {
	c := pgen.CfgOfToks(a[0:4])
	buf, p := pgen.Buffer(lib.UnHex(a[4]), lib.UnHex(a[5]))
	which := a[6]
	i, _ := strconv.Atoi(a[7])
	v, _ := strconv.Atoi(a[8])
	s := pgen.NewSession(c)
	fr, err := s.Parse(p)
	if err != nil {
		return pgen.ErrClass(err)
	}
	var view []byte
	if panicked, _ := lib.Catch(func() { view = viewOf(fr, which) }); panicked {
		return "panic"
	}
	if view == nil || i >= len(view) {
		return "na"
	}
	before := append([]byte{}, buf...)
	nv := view[i] ^ byte(v|1)
	view[i] = nv
	changed := []string{}
	for j := range buf {
		if buf[j] != before[j] {
			changed = append(changed, strconv.Itoa(j))
		}
	}
	if len(changed) != 1 {
		return "changed=" + strings.Join(changed, ",")
	}
	j, _ := strconv.Atoi(changed[0])
	buf[j] ^= 0x5a
	back := view[i] == nv^0x5a
	// the view must be the very memory of the buffer, not an equal copy
	same := unsafe.Pointer(&view[i]) == unsafe.Pointer(&buf[j])
	return fmt.Sprintf("j=%d back=%v same=%v", j, back, same)
}

const allocRuns = 40

func allocs(a []string) string {
	// the counter model is for the library's default level (info): the online-transition log line is built under
	// IsInfo; the other kinds rotate the level per frame (pgen.RotateLevel), so it is set here explicitly
	packet.Logger.SetLevel(fastlog.LevelInfo)
	if len(a) > 6 { // the level as a seventh token
		packet.Logger.SetLevel(map[string]fastlog.LogLevel{"error": fastlog.LevelError, "info": fastlog.LevelInfo, "debug": fastlog.LevelDebug}[a[6]])
		defer packet.Logger.SetLevel(fastlog.LevelInfo)
	}
	c := pgen.CfgOfToks(a[0:4])
	state := a[4]
	frame := lib.UnHex(a[5])
	var n float64
	switch state {
	case "new":
		ss := make([]*packet.Session, allocRuns+1)
		bufs := make([][]byte, allocRuns+1)
		for i := range ss {
			ss[i] = pgen.NewSession(c)
			_, bufs[i] = pgen.Buffer(frame, nil)
		}
		k := 0
		n = testing.AllocsPerRun(allocRuns, func() { ss[k].Parse(bufs[k]); k++ })
	case "offline", "online":
		s := pgen.NewSession(c)
		_, p := pgen.Buffer(frame, nil)
		var host *packet.Host
		lib.Catch(func() {
			f, _ := s.Parse(p)
			host = f.Host
		})
		off := state == "offline"
		n = testing.AllocsPerRun(allocRuns, func() {
			if off && host != nil {
				host.Online = false
			}
			s.Parse(p)
		})
	default:
		return "badstate"
	}
	if n == 0 {
		return "0"
	}
	return "+"
}

func main() {
	r := lib.Init()
	defer r.Close()
	r.Register("alias", alias)
	r.Register("wt", writeThrough)
	r.Register("alloc", allocs)
	// calls BRANCH -> the set of functions that branch of Session.Parse calls, from the source (calls.go)
	// ppa FAM MS tok..: allocations of every single Parse call with a ping pending (cmd/c01/punit, mode alloc)
	r.Register("ppa", func(a []string) string { o, _ := punit.RunPingMode(a, "alloc"); return o })
	// logs path: the log statements on Parse's path with their guarding level, from the source (calls.go)
	r.Register("logs", func(a []string) string {
		if txt, ok := sourceLogs(); ok {
			return txt
		}
		return "unrecognised"
	})
	r.Register("calls", func(a []string) string {
		m, ok := sourceCalls()
		if !ok {
			return "unrecognised"
		}
		if a[0] == "branches" {
			ks := make([]string, 0, len(m))
			for k := range m {
				ks = append(ks, k)
			}
			sort.Strings(ks)
			return strings.Join(ks, ",")
		}
		if v, ok := m[a[0]]; ok {
			if v == "" {
				return "-"
			}
			return v
		}
		return "no-such-branch"
	})
	if r.Replayed() {
		return
	}
	if _, ok := sourceLogs(); ok {
		r.Do("logs", "path")
	} else {
		r.Stat("logs.unrecognised", 1)
	}
	if m, ok := sourceCalls(); ok {
		r.Do("calls", "branches")
		ks := make([]string, 0, len(m))
		for k := range m {
			ks = append(ks, k)
		}
		sort.Strings(ks)
		for _, k := range ks {
			r.Do("calls", k)
		}
		r.Stat("calls.compared", int64(len(ks)))
	} else {
		r.Stat("calls.unrecognised", 1)
		r.Sample("call lists: AST shape of Session.Parse not recognised; allocation sites checked by measurement only")
	}
	pgen.Corpus(r)
	rng := r.Rand()
	cfgs := pgen.Cfgs()
	g := &pgen.G{R: rng, Cfg: pgen.DefaultCfg}
	n := 0
	views := []string{"E", "4", "6", "U", "T", "P", "S", "D"}
	states := []string{"new", "offline", "online"}
	// allocations, directed: every PayloadID class x source class x host state
	srcs := []struct {
		name string
		mac  []byte
		ip4  []byte
		ip6  []byte
	}{
		{"client.lla", pgen.MACClient1, []byte{192, 168, 0, 7}, pgen.IP6s[0]},            // tracked by rule: LAN address / link-local
		{"client.gua", pgen.MACClient2, []byte{192, 168, 0, 8}, pgen.IP6s[4]},            // tracked by rule: global IPv6 from a local host
		{"client.ula", pgen.MACClient2, []byte{192, 168, 0, 8}, pgen.IP6s[6]},            // fc00::/7 counts as global unicast
		{"own", pgen.DefaultCfg.HostMAC, []byte{192, 168, 0, 129}, pgen.IP6s[1]},         // own MAC: never tracked
		{"router.gua", pgen.DefaultCfg.RouterMAC, []byte{192, 168, 0, 11}, pgen.IP6s[4]}, // forwarded global IPv6: untracked; the router's own IPv4 is tracked
		{"router.lla", pgen.DefaultCfg.RouterMAC, []byte{192, 168, 0, 11}, pgen.IP6s[0]}, // the router's link-local address is tracked
		{"mcast", pgen.MACMcast4, []byte{192, 168, 0, 9}, pgen.IP6s[0]},                  // group source MAC: never tracked
		{"offlan", pgen.MACClient1, []byte{10, 0, 0, 7}, pgen.IP6s[7]},                   // off-LAN IPv4 / multicast IPv6 source
		{"unspec", pgen.MACClient1, []byte{0, 0, 0, 0}, pgen.IP6s[8]},                    // 0.0.0.0 / :: (DHCP discover, DAD)
	}
	for _, src := range srcs {
		for v6 := 0; v6 < 2; v6++ {
			frames := pgen.ClassFrames(g, src.mac, src.ip4, src.ip6)
			fam := "v4"
			if v6 == 1 {
				frames = pgen.ClassFrames6(g, src.mac, src.ip4, src.ip6)
				fam = "v6"
			}
			for id := 1; id <= 29; id++ {
				for _, st := range states {
					for _, lv := range []string{"error", "debug"} { // the log level is a mode of the cost
						r.Do("alloc", append(pgen.DefaultCfg.Toks(), st, lib.Hex(frames[id]), lv)...)
					}
					obs := r.Do("alloc", append(pgen.DefaultCfg.Toks(), st, lib.Hex(frames[id]))...)
					r.Stat("allocd."+src.name+"."+fam+"."+st+"="+obs, 1)
					r.Stat(fmt.Sprintf("allocd.id%d=%s", id, obs), 1)
				}
			}
		}
	}
	pgen.Generate(g, r.Thorough(), func(frame, spare []byte, class string) {
		n++
		c := cfgs[0]
		if rng.Chance(10) {
			c = cfgs[rng.Intn(len(cfgs))]
		}
		toks := append(c.Toks(), lib.Hex(frame), lib.Hex(spare))
		structured := strings.HasPrefix(class, "s.")
		// alias: every third case of the streams, every structured one
		if structured || n%3 == 0 {
			r.Do("alias", toks...)
		}
		// write-through on a sample
		if (structured && n%4 == 0) || n%16 == 0 {
			w := views[rng.Intn(len(views))]
			i := rng.Intn(len(frame) + 2)
			if rng.Chance(60) {
				i = rng.Intn(24)
			}
			if obs := r.Do("wt", append(toks, w, strconv.Itoa(i), strconv.Itoa(int(rng.Byte())))...); obs != "na" && !strings.HasPrefix(obs, "err:") {
				r.Stat("wt.view."+w, 1)
			}
		}
		// allocations: structured frames (no capacity variant: Parse never looks at it on these paths) x host state
		if (structured && n%5 == 0) || n%40 == 0 {
			st := states[rng.Intn(3)]
			if obs := r.Do("alloc", append(c.Toks(), st, lib.Hex(frame))...); true {
				cl := class
				if i := strings.Index(cl, "et."); i >= 0 {
					cl = cl[:i] + "et"
				}
				if !structured {
					cl = "other"
				}
				r.Stat("alloc."+st+"."+cl+"="+obs, 1)
			}
		}
	})
	// last: stateful measurements with a ping pending (a failure may leave the process-global waiter table locked)
	for _, args := range punit.AllocHistories() {
		obs, poisoned := punit.RunPingMode(args, "alloc")
		r.Case("ppa", args, obs)
		r.Stat("class.ppa.v"+args[0], 1)
		if poisoned {
			r.Stat("ppa.poisoned", 1)
			break
		}
	}
}
