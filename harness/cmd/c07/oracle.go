package main

// Go-side oracle of C07: an independent mini-decoder (plain byte arithmetic, no use of the
// library's views) + RFC 1071 verification.  Every failed check is a `viol` record whose key names
// the path and the check; keys listed in known_findings.txt are reported as KNOWN-FINDING.

import (
	"bytes"
	"fmt"
	"strings"

	"pvharness/lib"
)

type chk struct {
	r      *lib.Run
	path   string
	replay string
	bad    map[string]string
}

func (k *chk) fail(check, format string, a ...interface{}) {
	if _, dup := k.bad[check]; !dup {
		k.bad[check] = fmt.Sprintf(format, a...)
	}
}
func (k *chk) eq(check string, got, want []byte) {
	if !bytes.Equal(got, want) {
		k.fail(check, "got %x want %x", got, want)
	}
}
func (k *chk) num(check string, got, want int) {
	if got != want {
		k.fail(check, "got %d want %d", got, want)
	}
}

// flush reports the failed checks. Some defects are recorded under one narrow key that names the
// exact combination of failed checks (so any other combination is a new violation).
func (k *chk) flush(f []byte) {
	if len(k.bad) == 0 {
		return
	}
	names := make([]string, 0, len(k.bad))
	for n := range k.bad {
		names = append(names, n)
	}
	key := ""
	switch {
	case k.path == "arp-request" && len(k.bad) == 3 && k.has("eth-dst", "arp-hlen", "arp-plen") && f[4] == 6 && f[5] == 4:
		key = "arpreq-hlen-plen-in-ether-header"
	case k.path == "arp-request" && len(k.bad) <= 2 && k.only("eth-dst", "arp-hlen", "arp-plen") && f[4] == 6 && f[5] == 4:
		key = "arpreq-hlen-plen-in-ether-header" // junk or the requested address happened to hold 6 / 4
	case k.path == "ns" && len(k.bad) == 1 && k.has("ndp-option-type"):
		key = "ns-option-type-2"
	}
	if key != "" {
		k.r.Viol(key, k.path+": "+k.describe(), k.replay)
		return
	}
	for n, d := range k.bad {
		k.r.Viol("c07."+k.path+"."+n, k.path+" "+n+": "+d+" frame="+lib.Hex(f), k.replay)
	}
}
func (k *chk) has(names ...string) bool {
	for _, n := range names {
		if _, ok := k.bad[n]; !ok {
			return false
		}
	}
	return true
}
func (k *chk) only(names ...string) bool {
	for n := range k.bad {
		ok := false
		for _, m := range names {
			ok = ok || n == m
		}
		if !ok {
			return false
		}
	}
	return true
}
func (k *chk) describe() string {
	s := []string{}
	for n, d := range k.bad {
		s = append(s, n+" "+d)
	}
	return strings.Join(s, "; ")
}

func be(b []byte) int { return int(b[0])<<8 | int(b[1]) }

// ether checks the Ethernet header and returns the payload.
func (k *chk) ether(f []byte, dst, hostMAC []byte, et int) []byte {
	if len(f) < 14 {
		k.fail("eth-short", "len %d", len(f))
		return nil
	}
	k.eq("eth-dst", f[0:6], dst)
	k.eq("eth-src-is-host", f[6:12], hostMAC)
	k.num("eth-type", be(f[12:14]), et)
	return f[14:]
}

func (k *chk) arp(p []byte, op int, sha, spa, tha, tpa []byte) {
	if len(p) != 28 {
		k.fail("arp-len", "len %d", len(p))
		return
	}
	k.num("arp-htype", be(p[0:2]), 1)
	k.num("arp-ptype", be(p[2:4]), 0x0800)
	k.num("arp-hlen", int(p[4]), 6)
	k.num("arp-plen", int(p[5]), 4)
	k.num("arp-op", be(p[6:8]), op)
	k.eq("arp-sha", p[8:14], sha)
	k.eq("arp-spa", p[14:18], spa)
	k.eq("arp-tha", p[18:24], tha)
	k.eq("arp-tpa", p[24:28], tpa)
}

// ip4 checks a complete option-less IPv4 packet and returns its payload.
func (k *chk) ip4(p []byte, proto int, src, dst []byte) []byte {
	if len(p) < 20 {
		k.fail("ip4-short", "len %d", len(p))
		return nil
	}
	k.num("ip4-version", int(p[0]>>4), 4)
	ihl := int(p[0]&15) * 4
	if ihl < 20 || ihl > len(p) {
		k.fail("ip4-ihl", "ihl %d", ihl)
		return nil
	}
	k.num("ip4-totallen", be(p[2:4]), len(p))
	if be(p[6:8])&0x3fff != 0 {
		k.fail("ip4-fragment", "flags/offset %04x", be(p[6:8]))
	}
	if p[8] == 0 {
		k.fail("ip4-ttl", "ttl 0")
	}
	k.num("ip4-proto", int(p[9]), proto)
	k.eq("ip4-src", p[12:16], src)
	k.eq("ip4-dst", p[16:20], dst)
	if lib.RFC1071(p[:ihl]) != 0 {
		k.fail("ip4-header-checksum", "header %x does not verify", p[:ihl])
	}
	return p[ihl:]
}

func (k *chk) ip6(p []byte, nh int, src, dst []byte) (payload []byte, hop int) {
	if len(p) < 40 {
		k.fail("ip6-short", "len %d", len(p))
		return nil, 0
	}
	k.num("ip6-version", int(p[0]>>4), 6)
	k.num("ip6-payloadlen", be(p[4:6]), len(p)-40)
	k.num("ip6-nexthdr", int(p[6]), nh)
	k.eq("ip6-src", p[8:24], src)
	k.eq("ip6-dst", p[24:40], dst)
	if p[7] == 0 {
		k.fail("ip6-hop", "hop limit 0")
	}
	return p[40:], int(p[7])
}

func pseudo6(ip6 []byte, nh byte) []byte {
	n := len(ip6) - 40
	psh := append([]byte{}, ip6[8:40]...)
	psh = append(psh, byte(n>>24), byte(n>>16), byte(n>>8), byte(n), 0, 0, 0, nh)
	return append(psh, ip6[40:]...)
}

func isLinkLocal6(a []byte) bool {
	return (a[0] == 0xfe && a[1]&0xc0 == 0x80) || (a[0] == 0xff && a[1]&0x0f == 2)
}

// ndpOptions walks RFC 4861 options.
func (k *chk) ndpOptions(p []byte) (types []int, vals [][]byte) {
	for len(p) > 0 {
		if len(p) < 2 || p[1] == 0 || int(p[1])*8 > len(p) {
			k.fail("ndp-options", "malformed option area %x", p)
			return
		}
		n := int(p[1]) * 8
		types = append(types, int(p[0]))
		vals = append(vals, p[2:n])
		p = p[n:]
	}
	return
}

func (k *chk) mcast6MAC(f []byte, dst []byte) {
	if dst[0] == 0xff {
		k.eq("mcast6-mac", f[0:6], []byte{0x33, 0x33, dst[12], dst[13], dst[14], dst[15]})
	}
}
func (k *chk) mcast4MAC(f []byte, dst []byte) {
	if dst[0]>>4 == 14 {
		k.eq("mcast4-mac", f[0:6], []byte{0x01, 0x00, 0x5e, dst[1] & 0x7f, dst[2], dst[3]})
	}
}

func as16(a []byte) []byte {
	switch len(a) {
	case 16:
		return a
	case 4:
		return append([]byte{0, 0, 0, 0, 0, 0, 0, 0, 0, 0, 0xff, 0xff}, a...)
	}
	return make([]byte, 16)
}

func oracle(r *lib.Run, kind string, c nicCfg, a []string, obs string) {
	if obs == "none" || obs == "panic" {
		if obs == "panic" {
			r.Viol("c07."+kind+".panic", kind+" panics", kind+" "+strings.Join(append(c.toks(), a...), " "))
		}
		return
	}
	frames := strings.Split(obs, ",")
	for _, fh := range frames {
		f := lib.UnHex(fh)
		k := &chk{r: r, replay: kind + " " + strings.Join(append(c.toks(), a...), " "), bad: map[string]string{}}
		u := func(i int) []byte { return lib.UnHex(a[i]) }
		switch kind {
		case "purgearp":
			k.path = "arp-request"
			bc := []byte{255, 255, 255, 255, 255, 255}
			k.arp(k.ether(f, bc, c.hostMAC, 0x0806), 1, c.hostMAC, c.hostIP.AsSlice(), bc, u(0))
		case "echo4":
			k.path = "echo4"
			m := k.ip4(k.ether(f, u(2), c.hostMAC, 0x0800), 1, u(1), u(3))
			if len(m) < 8 {
				k.fail("icmp-short", "len %d", len(m))
				break
			}
			k.num("icmp-type", int(m[0]), 8)
			k.num("icmp-code", int(m[1]), 0)
			k.num("echo-id", be(m[4:6]), atoi(a[4]))
			k.num("echo-seq", be(m[6:8]), atoi(a[5]))
			if lib.RFC1071(m) != 0 {
				k.fail("icmp-checksum", "message %x does not verify", m)
			}
		case "echo6", "ns", "na":
			k.path = kind
			ip6 := k.ether(f, u(2), c.hostMAC, 0x86dd)
			m, hop := k.ip6(ip6, 58, as16(u(1)), as16(u(3)))
			if len(m) < 8 {
				k.fail("icmp-short", "len %d", len(m))
				break
			}
			if lib.RFC1071(pseudo6(ip6, 58)) != 0 {
				k.fail("icmp6-checksum", "message %x does not verify with its pseudo header", m)
			}
			k.num("icmp-code", int(m[1]), 0)
			switch kind {
			case "echo6":
				k.num("icmp-type", int(m[0]), 128)
				k.num("echo-id", be(m[4:6]), atoi(a[4]))
				k.num("echo-seq", be(m[6:8]), atoi(a[5]))
			case "ns", "na":
				if isLinkLocal6(as16(u(3))) {
					k.num("ndp-hop-255", hop, 255)
				}
				if len(m) < 24 {
					k.fail("ndp-short", "len %d", len(m))
					break
				}
				ty, vals := k.ndpOptions(m[24:])
				if kind == "ns" {
					k.num("icmp-type", int(m[0]), 135)
					k.eq("ns-target", m[8:24], as16(u(4)))
					if len(ty) > 1 {
						k.fail("ndp-option-count", "%d options", len(ty))
					}
					if len(ty) == 1 {
						k.num("ndp-option-type", ty[0], 1) // Source Link-Layer Address
						k.eq("ndp-option-lla", vals[0], c.hostMAC)
					}
				} else {
					k.num("icmp-type", int(m[0]), 136)
					k.num("na-flags", int(m[4]), 0x20)
					k.eq("na-target", m[8:24], as16(u(5)))
					if len(ty) != 1 {
						k.fail("ndp-option-count", "%d options", len(ty))
					} else {
						k.num("ndp-option-type", ty[0], 2) // Target Link-Layer Address
						k.eq("ndp-option-lla", vals[0], u(4))
					}
				}
			}
		}
		k.flush(f)
	}
}
