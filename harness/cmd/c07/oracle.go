package main

// Go-side oracle of C07: an independent mini-decoder (plain byte arithmetic, no use of the
// library's views) + RFC 1071 verification.  Every failed check is a `viol` record whose key names
// the path and the check; keys listed in known_findings.txt are reported as KNOWN-FINDING.

import (
	"bytes"
	"fmt"
	"sort"
	"strings"

	"pvharness/lib"
)

type chk struct {
	r      *lib.Run
	path   string
	replay string
	bad    map[string]string
}

func (k *chk) fail(check, format string, a ...interface{}) {
	if _, dup := k.bad[check]; !dup {
		k.bad[check] = fmt.Sprintf(format, a...)
	}
}
func (k *chk) eq(check string, got, want []byte) {
	if !bytes.Equal(got, want) {
		k.fail(check, "got %x want %x", got, want)
	}
}
func (k *chk) num(check string, got, want int) {
	if got != want {
		k.fail(check, "got %d want %d", got, want)
	}
}

// knownSets: defects recorded under one narrow key = the exact set of failed checks of a path.
// Any other set of failed checks on that path is reported check by check (new violation).
var knownSets = map[string]string{
}

// flush reports the failed checks.
func (k *chk) flush(f []byte) {
	if len(k.bad) == 0 {
		return
	}
	names := make([]string, 0, len(k.bad))
	for n := range k.bad {
		names = append(names, n)
	}
	sort.Strings(names)
	key := knownSets[k.path+"|"+strings.Join(names, ",")]
	if key != "" {
		k.r.Viol(key, k.path+": "+k.describe(), k.replay)
		return
	}
	for _, n := range names {
		k.r.Viol("c07."+k.path+"."+n, k.path+" "+n+": "+k.bad[n]+" frame="+lib.Hex(f), k.replay)
	}
}
func (k *chk) has(names ...string) bool {
	for _, n := range names {
		if _, ok := k.bad[n]; !ok {
			return false
		}
	}
	return true
}
func (k *chk) only(names ...string) bool {
	for n := range k.bad {
		ok := false
		for _, m := range names {
			ok = ok || n == m
		}
		if !ok {
			return false
		}
	}
	return true
}
func (k *chk) describe() string {
	s := []string{}
	for n, d := range k.bad {
		s = append(s, n+" "+d)
	}
	return strings.Join(s, "; ")
}

func be(b []byte) int { return int(b[0])<<8 | int(b[1]) }

// ether checks the Ethernet header and returns the payload.
func (k *chk) ether(f []byte, dst, hostMAC []byte, et int) []byte {
	if len(f) < 14 {
		k.fail("eth-short", "len %d", len(f))
		return nil
	}
	k.eq("eth-dst", f[0:6], dst)
	k.eq("eth-src-is-host", f[6:12], hostMAC)
	k.num("eth-type", be(f[12:14]), et)
	return f[14:]
}

func (k *chk) arp(p []byte, op int, sha, spa, tha, tpa []byte) {
	if len(p) != 28 {
		k.fail("arp-len", "len %d", len(p))
		return
	}
	k.num("arp-htype", be(p[0:2]), 1)
	k.num("arp-ptype", be(p[2:4]), 0x0800)
	k.num("arp-hlen", int(p[4]), 6)
	k.num("arp-plen", int(p[5]), 4)
	k.num("arp-op", be(p[6:8]), op)
	k.eq("arp-sha", p[8:14], sha)
	k.eq("arp-spa", p[14:18], spa)
	k.eq("arp-tha", p[18:24], tha)
	k.eq("arp-tpa", p[24:28], tpa)
}

// ip4 checks a complete option-less IPv4 packet and returns its payload.
func (k *chk) ip4(p []byte, proto int, src, dst []byte) []byte {
	if len(p) < 20 {
		k.fail("ip4-short", "len %d", len(p))
		return nil
	}
	k.num("ip4-version", int(p[0]>>4), 4)
	ihl := int(p[0]&15) * 4
	if ihl < 20 || ihl > len(p) {
		k.fail("ip4-ihl", "ihl %d", ihl)
		return nil
	}
	k.num("ip4-totallen", be(p[2:4]), len(p))
	if be(p[6:8])&0x3fff != 0 {
		k.fail("ip4-fragment", "flags/offset %04x", be(p[6:8]))
	}
	if p[8] == 0 {
		k.fail("ip4-ttl", "ttl 0")
	}
	k.num("ip4-proto", int(p[9]), proto)
	k.eq("ip4-src", p[12:16], src)
	k.eq("ip4-dst", p[16:20], dst)
	if lib.RFC1071(p[:ihl]) != 0 {
		k.fail("ip4-header-checksum", "header %x does not verify", p[:ihl])
	}
	return p[ihl:]
}

func (k *chk) ip6(p []byte, nh int, src, dst []byte) (payload []byte, hop int) {
	if len(p) < 40 {
		k.fail("ip6-short", "len %d", len(p))
		return nil, 0
	}
	k.num("ip6-version", int(p[0]>>4), 6)
	k.num("ip6-payloadlen", be(p[4:6]), len(p)-40)
	k.num("ip6-nexthdr", int(p[6]), nh)
	k.eq("ip6-src", p[8:24], src)
	k.eq("ip6-dst", p[24:40], dst)
	if p[7] == 0 {
		k.fail("ip6-hop", "hop limit 0")
	}
	return p[40:], int(p[7])
}

func pseudo6(ip6 []byte, nh byte) []byte {
	n := len(ip6) - 40
	psh := append([]byte{}, ip6[8:40]...)
	psh = append(psh, byte(n>>24), byte(n>>16), byte(n>>8), byte(n), 0, 0, 0, nh)
	return append(psh, ip6[40:]...)
}

func isLinkLocal6(a []byte) bool {
	return (a[0] == 0xfe && a[1]&0xc0 == 0x80) || (a[0] == 0xff && a[1]&0x0f == 2)
}

// ndpOptions walks RFC 4861 options.
func (k *chk) ndpOptions(p []byte) (types []int, vals [][]byte) {
	for len(p) > 0 {
		if len(p) < 2 || p[1] == 0 || int(p[1])*8 > len(p) {
			k.fail("ndp-options", "malformed option area %x", p)
			return
		}
		n := int(p[1]) * 8
		types = append(types, int(p[0]))
		vals = append(vals, p[2:n])
		p = p[n:]
	}
	return
}

func (k *chk) mcast6MAC(f []byte, dst []byte) {
	if dst[0] == 0xff {
		k.eq("mcast6-mac", f[0:6], []byte{0x33, 0x33, dst[12], dst[13], dst[14], dst[15]})
	}
}
func (k *chk) mcast4MAC(f []byte, dst []byte) {
	if dst[0]>>4 == 14 {
		k.eq("mcast4-mac", f[0:6], []byte{0x01, 0x00, 0x5e, dst[1] & 0x7f, dst[2], dst[3]})
	}
}

func as16(a []byte) []byte {
	switch len(a) {
	case 16:
		return a
	case 4:
		return append([]byte{0, 0, 0, 0, 0, 0, 0, 0, 0, 0, 0xff, 0xff}, a...)
	}
	return make([]byte, 16)
}

// encodableName: what a DNS question name must look like to be encodable at all (RFC 1035 2.3.4: labels of
// 1..63 octets, 255 octets on the wire, i.e. at most 254 bytes of text with its final dot; "." is the root).
func encodableName(n string) bool {
	if len(n) == 0 || len(n) > 254 || n[len(n)-1] != '.' {
		return false
	}
	if n == "." {
		return true
	}
	for _, l := range strings.Split(n[:len(n)-1], ".") {
		if len(l) < 1 || len(l) > 63 {
			return false
		}
	}
	return true
}

func oracle(r *lib.Run, kind string, c nicCfg, a []string, obs string) {
	// a request that cannot be encoded must be refused (no frame); one that can must be sent
	sent := obs != "none" && obs != "panic"
	replay := kind + " " + strings.Join(append(c.toks(), a...), " ")
	switch kind {
	case "mdnsq", "llmnrq":
		if enc := encodableName(string(lib.UnHex(a[0]))); enc != sent && obs != "panic" {
			r.Viol("c07."+kind+".refusal", fmt.Sprintf("name encodable=%v but frame sent=%v", enc, sent), replay)
		}
	case "arpraw", "arpreply": // a MAC that is not 6 bytes or an address that is not IPv4 cannot be put into an ARP packet
		ok := len(lib.UnHex(a[0])) == 6 && len(lib.UnHex(a[1])) == 6 && len(lib.UnHex(a[3])) == 6 && len(lib.UnHex(a[2])) == 4 && len(lib.UnHex(a[4])) == 4
		if ok != sent && obs != "panic" {
			r.Viol("c07."+kind+".refusal", fmt.Sprintf("arguments encodable=%v but frame sent=%v", ok, sent), replay)
		}
	case "na": // the target link-layer address option needs a 6-byte MAC
		if ok := len(lib.UnHex(a[4])) == 6; ok != sent && obs != "panic" {
			r.Viol("c07.na.refusal", fmt.Sprintf("target MAC usable=%v but frame sent=%v", ok, sent), replay)
		}
	case "discover": // chaddr of an Ethernet client
		if ok := len(lib.UnHex(a[0])) == 6; ok != sent && obs != "panic" && !strings.HasPrefix(a[len(a)-1], "scn:") {
			r.Viol("c07.discover.refusal", fmt.Sprintf("chaddr usable=%v but frame sent=%v", ok, sent), replay)
		}
	case "nbnsq":
		if fits := len(lib.UnHex(a[5])) <= 16; fits != sent && obs != "panic" {
			r.Viol("c07.nbnsq.refusal", fmt.Sprintf("name fits 16 octets=%v but frame sent=%v", fits, sent), replay)
		}
	}
	if obs == "none" || obs == "panic" {
		if obs == "panic" {
			r.Viol("c07."+kind+".panic", kind+" panics", kind+" "+strings.Join(append(c.toks(), a...), " "))
		}
		return
	}
	frames := strings.Split(obs, ",")
	for _, fh := range frames {
		f := lib.UnHex(fh)
		k := &chk{r: r, replay: kind + " " + strings.Join(append(c.toks(), a...), " "), bad: map[string]string{}}
		u := func(i int) []byte { return lib.UnHex(a[i]) }
		switch kind {
		case "purgearp":
			k.path = "arp-request"
			bc := []byte{255, 255, 255, 255, 255, 255}
			k.arp(k.ether(f, bc, c.hostMAC, 0x0806), 1, c.hostMAC, c.hostIP.AsSlice(), bc, u(0))
		case "echo4":
			k.path = "echo4"
			m := k.ip4(k.ether(f, u(2), c.hostMAC, 0x0800), 1, u(1), u(3))
			if len(m) < 8 {
				k.fail("icmp-short", "len %d", len(m))
				break
			}
			k.num("icmp-type", int(m[0]), 8)
			k.num("icmp-code", int(m[1]), 0)
			k.num("echo-id", be(m[4:6]), atoi(a[4]))
			k.num("echo-seq", be(m[6:8]), atoi(a[5]))
			if lib.RFC1071(m) != 0 {
				k.fail("icmp-checksum", "message %x does not verify", m)
			}
		case "echo6", "ns", "na":
			k.path = kind
			ip6 := k.ether(f, u(2), c.hostMAC, 0x86dd)
			m, hop := k.ip6(ip6, 58, as16(u(1)), as16(u(3)))
			if len(m) < 8 {
				k.fail("icmp-short", "len %d", len(m))
				break
			}
			if lib.RFC1071(pseudo6(ip6, 58)) != 0 {
				k.fail("icmp6-checksum", "message %x does not verify with its pseudo header", m)
			}
			k.num("icmp-code", int(m[1]), 0)
			switch kind {
			case "echo6":
				k.num("icmp-type", int(m[0]), 128)
				k.num("echo-id", be(m[4:6]), atoi(a[4]))
				k.num("echo-seq", be(m[6:8]), atoi(a[5]))
			case "ns", "na":
				k.num("ndp-hop-255", hop, 255) // RFC 4861: every ND message
				if len(m) < 24 {
					k.fail("ndp-short", "len %d", len(m))
					break
				}
				ty, vals := k.ndpOptions(m[24:])
				if kind == "ns" {
					k.num("icmp-type", int(m[0]), 135)
					k.eq("ns-target", m[8:24], as16(u(4)))
					if len(ty) > 1 {
						k.fail("ndp-option-count", "%d options", len(ty))
					}
					if len(ty) == 1 {
						k.num("ndp-option-type", ty[0], 1) // Source Link-Layer Address
						k.eq("ndp-option-lla", vals[0], c.hostMAC)
					}
				} else {
					k.num("icmp-type", int(m[0]), 136)
					k.num("na-flags", int(m[4]), 0x20)
					k.eq("na-target", m[8:24], as16(u(5)))
					if len(ty) != 1 {
						k.fail("ndp-option-count", "%d options", len(ty))
					} else {
						k.num("ndp-option-type", ty[0], 2) // Target Link-Layer Address
						k.eq("ndp-option-lla", vals[0], u(4))
					}
				}
			}
		case "rs":
			k.path = "rs"
			ip6 := k.ether(f, []byte{0x33, 0x33, 0, 0, 0, 2}, c.hostMAC, 0x86dd)
			allRouters := []byte{0xff, 2, 0, 0, 0, 0, 0, 0, 0, 0, 0, 0, 0, 0, 0, 2}
			m, hop := k.ip6(ip6, 58, as16(c.hostLLA.AsSlice()), allRouters)
			if len(ip6) >= 40 {
				k.mcast6MAC(f, ip6[24:40])
			}
			k.num("ndp-hop-255", hop, 255)
			if len(m) < 8 {
				k.fail("icmp-short", "len %d", len(m))
				break
			}
			k.num("icmp-type", int(m[0]), 133)
			k.num("icmp-code", int(m[1]), 0)
			if lib.RFC1071(pseudo6(ip6, 58)) != 0 {
				k.fail("icmp6-checksum", "does not verify")
			}
			if m[0] == 133 {
				ty, vals := k.ndpOptions(m[8:])
				if len(ty) == 1 {
					k.num("ndp-option-type", ty[0], 1)
					k.eq("ndp-option-lla", vals[0], c.hostMAC)
				} else if len(ty) > 1 {
					k.fail("ndp-option-count", "%d options", len(ty))
				}
			}
		case "ra":
			k.path = "ra"
			ip6 := k.ether(f, u(0), c.hostMAC, 0x86dd)
			m, hop := k.ip6(ip6, 58, as16(c.hostLLA.AsSlice()), as16(u(1)))
			k.num("ndp-hop-255", hop, 255)
			if len(m) < 16 {
				k.fail("icmp-short", "len %d", len(m))
				break
			}
			k.num("icmp-type", int(m[0]), 134)
			if lib.RFC1071(pseudo6(ip6, 58)) != 0 {
				k.fail("icmp6-checksum", "does not verify")
			}
			if m[0] == 134 {
				k.num("icmp-code", int(m[1]), 0)
				k.num("ra-lifetime", be(m[6:8]), 1800)
				ty, vals := k.ndpOptions(m[16:])
				ra := parseRA(a[2], a[3])
				want := []int{}
				if ra.rdnss != nil {
					want = append(want, 25)
				}
				for range ra.prefixes {
					want = append(want, 3)
				}
				want = append(want, 31, 5, 1)
				if fmt.Sprint(ty) != fmt.Sprint(want) {
					k.fail("ra-options", "option types %v want %v", ty, want)
				} else {
					k.eq("ndp-option-lla", vals[len(vals)-1], c.hostMAC)
					mtu := vals[len(vals)-2]
					k.num("ra-mtu", int(mtu[2])<<24|int(mtu[3])<<16|int(mtu[4])<<8|int(mtu[5]), c.mtu&0xffffffff)
					o := 0
					if ra.rdnss != nil {
						o = 1
					}
					for i, p := range ra.prefixes {
						v := vals[o+i]
						k.num("ra-prefix-len", int(v[0]), int(p.PrefixLength))
						k.num("ra-prefix-flags", int(v[1]), 0xc0)
						k.eq("ra-prefix", v[14:30], p.Prefix)
					}
				}
			}
		case "purge6":
			ti := u(1)
			isLL := ti[0] == 0xfe && ti[1]&0xc0 == 0x80
			if isLL {
				k.path = "purge-ns"
				sn := []byte{0xff, 2, 0, 0, 0, 0, 0, 0, 0, 0, 0, 1, 0xff, ti[13], ti[14], ti[15]}
				ip6 := k.ether(f, []byte{0x33, 0x33, 0xff, ti[13], ti[14], ti[15]}, c.hostMAC, 0x86dd)
				m, hop := k.ip6(ip6, 58, c.hostLLA.AsSlice(), sn)
				k.num("ndp-hop-255", hop, 255)
				if len(m) < 24 {
					k.fail("ndp-short", "len %d", len(m))
					break
				}
				k.num("icmp-type", int(m[0]), 135)
				k.eq("ns-target", m[8:24], ti)
				if lib.RFC1071(pseudo6(ip6, 58)) != 0 {
					k.fail("icmp6-checksum", "does not verify")
				}
				ty, vals := k.ndpOptions(m[24:])
				if len(ty) == 1 {
					k.num("ndp-option-type", ty[0], 1)
					k.eq("ndp-option-lla", vals[0], c.hostMAC)
				} else if len(ty) > 1 {
					k.fail("ndp-option-count", "%d options", len(ty))
				}
			} else {
				k.path = "purge-echo6"
				ip6 := k.ether(f, u(0), c.hostMAC, 0x86dd)
				m, _ := k.ip6(ip6, 58, c.hostLLA.AsSlice(), ti)
				if len(m) < 8 {
					k.fail("icmp-short", "len %d", len(m))
					break
				}
				k.num("icmp-type", int(m[0]), 128)
				k.num("echo-id", be(m[4:6]), atoi(a[2]))
				if lib.RFC1071(pseudo6(ip6, 58)) != 0 {
					k.fail("icmp6-checksum", "does not verify")
				}
			}
		case "arpraw", "arpreply":
			k.path = kind
			op := 1
			if kind == "arpreply" {
				op = 2
			}
			k.arp(k.ether(f, u(0), c.hostMAC, 0x0806), op, u(1), u(2), u(3), u(4))
		case "arpreq":
			k.path = kind
			k.arp(k.ether(f, bcastMAC, c.hostMAC, 0x0806), 1, c.hostMAC, c.hostIP.AsSlice(), bcastMAC, u(0))
		case "arpprobe":
			k.path = kind
			k.arp(k.ether(f, bcastMAC, c.hostMAC, 0x0806), 1, c.hostMAC, []byte{0, 0, 0, 0}, []byte{0, 0, 0, 0, 0, 0}, u(0))
		case "arpreqto":
			k.path = kind
			k.arp(k.ether(f, u(0), c.hostMAC, 0x0806), 1, c.hostMAC, c.hostIP.AsSlice(), bcastMAC, u(1))
		case "arpannounce":
			k.path = kind
			k.arp(k.ether(f, u(0), c.hostMAC, 0x0806), 1, c.hostMAC, u(1), bcastMAC, u(1))
		case "huntstart":
			k.path = kind
			k.arp(k.ether(f, u(0), c.hostMAC, 0x0806), 1, c.hostMAC, c.routerIP.AsSlice(), bcastMAC, c.routerIP.AsSlice())
		case "huntstop":
			k.path = kind
			k.arp(k.ether(f, u(0), c.hostMAC, 0x0806), 1, c.routerMAC, c.routerIP.AsSlice(), c.routerMAC, c.routerIP.AsSlice())
		case "arpspoofreply":
			k.path = kind
			k.arp(k.ether(f, u(0), c.hostMAC, 0x0806), 2, c.hostMAC, c.routerIP.AsSlice(), u(0), u(1))
		case "dhcpreply":
			k.path = kind
			pl := k.udp4(f, u(0), c.hostMAC, c.hostIP.AsSlice(), u(1), 67, 68, true)
			k.eq("udp-payload", pl, u(2))
			if d := k.dhcp(pl); d != nil {
				k.num("dhcp-op", int(pl[0]), 2)
				if len(d[53]) != 1 {
					k.fail("dhcp-msgtype", "message type option %x", d[53])
				}
			}
		case "discover", "decline", "release":
			k.path = kind
			pl := k.udp4(f, c.routerMAC, c.hostMAC, c.hostIP.AsSlice(), c.routerIP.AsSlice(), 68, 67, false)
			d := k.dhcp(pl)
			if d == nil {
				break
			}
			k.num("dhcp-op", int(pl[0]), 1)
			k.num("dhcp-htype", int(pl[1]), 1)
			k.num("dhcp-hlen", int(pl[2]), 6)
			k.num("dhcp-hops", int(pl[3]), 0)
			k.num("dhcp-flags", be(pl[10:12]), 0)
			k.eq("dhcp-yi-si-gi", pl[16:28], make([]byte, 12))
			k.eq("dhcp-legacy", pl[34:236], make([]byte, 202))
			if len(pl) < 300 {
				k.fail("dhcp-min-300", "len %d", len(pl))
			}
			want := map[byte][]byte{}
			switch kind {
			case "discover":
				k.eq("dhcp-chaddr", pl[28:34], u(0))
				ci := []byte{0, 0, 0, 0}
				if a[1] != "-" {
					ci = u(1)
				}
				k.eq("dhcp-ciaddr", pl[12:16], ci)
				k.eq("dhcp-xid", pl[4:8], u(2))
				want[53], want[55] = []byte{1}, []byte{53, 1, 121, 3, 6, 15}
				if a[3] != "-" {
					want[12] = u(3)
				}
			case "decline":
				k.eq("dhcp-chaddr", pl[28:34], u(0))
				k.eq("dhcp-ciaddr", pl[12:16], []byte{0, 0, 0, 0})
				want[53], want[61], want[54], want[50], want[56] = []byte{4}, u(1), u(2), u(3), []byte("netfilter decline")
			case "release":
				k.eq("dhcp-chaddr", pl[28:34], u(0))
				k.eq("dhcp-ciaddr", pl[12:16], u(3))
				want[53], want[61], want[54], want[56] = []byte{7}, u(1), u(2), []byte("netfilter release")
			}
			if len(want) != len(d) {
				k.fail("dhcp-options", "got %d options want %d", len(d), len(want))
				break
			}
			for c, v := range want {
				if !bytes.Equal(d[c], v) {
					k.fail("dhcp-options", "option %d got %x want %x", c, d[c], v)
				}
			}
		case "mdnsq", "llmnrq":
			k.path = kind
			dip, port, qt := []byte{224, 0, 0, 251}, 5353, 255
			if kind == "llmnrq" {
				dip, port, qt = []byte{224, 0, 0, 252}, 5355, 12
			}
			pl := k.udp4(f, nil, c.hostMAC, c.hostIP.AsSlice(), dip, port, port, true)
			labels := strings.Split(strings.TrimSuffix(string(u(0)), "."), ".")
			if string(u(0)) == "." {
				labels = nil // the root has no labels
			}
			k.dnsQuery(pl, -1, labels, qt, 255)
		case "ssdp":
			k.path = kind
			pl := k.udp4(f, nil, c.hostMAC, c.hostIP.AsSlice(), []byte{239, 255, 255, 250}, 1900, 1900, true)
			if !bytes.HasPrefix(pl, []byte("M-SEARCH * HTTP/1.1\r\n")) {
				k.fail("ssdp-request-line", "payload starts %q", string(pl[:min(len(pl), 24)]))
			}
		case "nbnsq":
			k.path = kind
			pl := k.udp4(f, u(2), c.hostMAC, u(1), u(3), 137, 137, false)
			k.dnsQuery(pl, atoi(a[4]), []string{nbLabel(u(5))}, 32, 1)
		case "nbnsstat":
			k.path = kind
			pl := k.udp4(f, bcastMAC, c.hostMAC, c.hostIP.AsSlice(), []byte{255, 255, 255, 255}, 137, 137, true)
			k.dnsQuery(pl, atoi(a[0]), []string{nbLabel([]byte("*"))}, 33, 1)
		case "sleepproxy":
			k.path = kind
			if len(u(1)) == 4 {
				pl := k.udp4(f, u(2), c.hostMAC, u(1), u(3), atoi(a[4]), atoi(a[4]), false)
				k.eq("udp-payload", pl, u(5))
			} else {
				ip6 := k.ether(f, u(2), c.hostMAC, 0x86dd)
				m, _ := k.ip6(ip6, 17, as16(u(1)), as16(u(3)))
				if len(m) < 8 {
					k.fail("udp-short", "len %d", len(m))
					break
				}
				k.num("udp-sport", be(m[0:2]), atoi(a[4]))
				k.num("udp-dport", be(m[2:4]), atoi(a[4]))
				k.num("udp-len", be(m[4:6]), len(m))
				k.eq("udp-payload", m[8:], u(5))
				if be(m[6:8]) == 0 || lib.RFC1071(pseudo6(ip6, 17)) != 0 {
					k.fail("udp6-checksum", "checksum field %04x", be(m[6:8]))
				}
			}
		}
		k.flush(f)
	}
}

var bcastMAC = []byte{255, 255, 255, 255, 255, 255}

func min(a, b int) int {
	if a < b {
		return a
	}
	return b
}

// udp4 checks Ethernet/IPv4/UDP of a datagram sent by the host and returns the UDP payload.
// dmac nil: the destination MAC is not given by a caller; ownDst: the library chose the destination,
// so the MAC must be the one RFC 1112 / broadcast rules derive from the IP destination.
func (k *chk) udp4(f []byte, dmac, hostMAC, sip, dip []byte, sp, dp int, ownDst bool) []byte {
	if dmac == nil && len(f) >= 6 {
		dmac = f[0:6]
	}
	m := k.ip4(k.ether(f, dmac, hostMAC, 0x0800), 17, sip, dip)
	if ownDst && len(f) >= 34 {
		d := f[30:34]
		switch {
		case d[0]>>4 == 14:
			k.eq("dst4-mac", f[0:6], []byte{0x01, 0x00, 0x5e, d[1] & 0x7f, d[2], d[3]})
		case bytes.Equal(d, []byte{255, 255, 255, 255}):
			k.eq("dst4-mac", f[0:6], bcastMAC)
		}
	}
	if len(m) < 8 {
		k.fail("udp-short", "len %d", len(m))
		return nil
	}
	k.num("udp-sport", be(m[0:2]), sp)
	k.num("udp-dport", be(m[2:4]), dp)
	k.num("udp-len", be(m[4:6]), len(m))
	if be(m[6:8]) != 0 {
		ip := f[14:]
		psh := append(append([]byte{}, ip[12:20]...), 0, 17, byte(len(m)>>8), byte(len(m)))
		if lib.RFC1071(append(psh, m...)) != 0 {
			k.fail("udp4-checksum", "non-zero checksum does not verify")
		}
	}
	return m[8:]
}

// dhcp parses a BOOTP/DHCP payload: cookie, options up to End; returns the options.
func (k *chk) dhcp(p []byte) map[byte][]byte {
	if len(p) < 240 {
		k.fail("dhcp-short", "len %d", len(p))
		return nil
	}
	if !bytes.Equal(p[236:240], []byte{99, 130, 83, 99}) {
		k.fail("dhcp-cookie", "%x", p[236:240])
		return nil
	}
	d := map[byte][]byte{}
	o := p[240:]
	for {
		if len(o) == 0 {
			k.fail("dhcp-no-end", "options run to the end without End")
			return nil
		}
		if o[0] == 255 {
			for _, x := range o[1:] {
				if x != 0 {
					k.fail("dhcp-after-end", "non-zero bytes after End")
					break
				}
			}
			return d
		}
		if o[0] == 0 {
			o = o[1:]
			continue
		}
		if len(o) < 2 || len(o) < 2+int(o[1]) {
			k.fail("dhcp-option-truncated", "option %d", o[0])
			return nil
		}
		if _, dup := d[o[0]]; dup {
			k.fail("dhcp-option-duplicate", "option %d", o[0])
		}
		d[o[0]] = o[2 : 2+int(o[1])]
		o = o[2+int(o[1]):]
	}
}

// dnsQuery checks a one-question DNS query (id < 0: any id).
func (k *chk) dnsQuery(p []byte, id int, labels []string, qtype, qclass int) {
	if len(p) < 12 {
		k.fail("dns-short", "len %d", len(p))
		return
	}
	if id >= 0 {
		k.num("dns-id", be(p[0:2]), id)
	}
	if p[2]&0xf8 != 0 {
		k.fail("dns-not-a-query", "flags %04x", be(p[2:4]))
	}
	k.num("dns-qdcount", be(p[4:6]), 1)
	k.num("dns-other-counts", be(p[6:8])+be(p[8:10])+be(p[10:12]), 0)
	q := p[12:]
	got := []string{}
	for {
		if len(q) == 0 || int(q[0]) > 63 || len(q) < 1+int(q[0]) {
			k.fail("dns-name", "malformed question name")
			return
		}
		if q[0] == 0 {
			q = q[1:]
			break
		}
		got = append(got, string(q[1:1+int(q[0])]))
		q = q[1+int(q[0]):]
	}
	if strings.Join(got, "\x00") != strings.Join(labels, "\x00") {
		k.fail("dns-name", "labels %q want %q", got, labels)
	}
	if len(q) != 4 {
		k.fail("dns-question-tail", "%d bytes after the name", len(q))
		return
	}
	k.num("dns-qtype", be(q[0:2]), qtype)
	k.num("dns-qclass", be(q[2:4]), qclass)
}

// nbLabel: RFC 1001 first-level encoding of a name padded to 16 bytes with spaces.
func nbLabel(name []byte) string {
	n := append(append([]byte{}, name...), bytes.Repeat([]byte{' '}, 16)...)[:16]
	out := make([]byte, 0, 32)
	for _, ch := range n {
		out = append(out, 'A'+ch>>4, 'A'+ch&15)
	}
	return string(out)
}
