package main

// Source-derived census of the places where the library hands bytes to a connection or socket: every call
// of a method named WriteTo / WriteToUDP / WriteMsgUDP / Sendto in $VERIF_REPO (outside _test.go and
// examples/), keyed file:function*count.  The list goes to the model as one `sites` case; the Coq side
// (Extract/D07.v, send_sites) knows which send_X covers each site.  A site the model does not list is a
// correspondence violation and a `viol send-site-not-modelled`: a send path added to the library cannot
// silently escape C07.

import (
	"fmt"
	"go/ast"
	"go/parser"
	"go/token"
	"os"
	"path/filepath"
	"sort"
	"strings"

	"pvharness/lib"
)

// modelledSites mirrors send_sites of coq/Extract/D07.v (the Go-side oracle of the census).
var modelledSites = map[string]string{
	"session.go:arpRequest":                                "send_arp_request (purge IPv4 probe)",
	"layer_icmp.go:icmp4SendPacket":                        "icmp4_send_packet (send_echo4)",
	"layer_icmp.go:icmp6SendPacket":                        "icmp6_send_packet (send_echo6, send_ns, send_na, send_rs, send_ra, purge IPv6 probes)",
	"handlers/arp_spoofer/arp.go:RequestRaw":               "send_arp op 1 (Request, RequestTo, Probe, AnnounceTo, hunt loop)",
	"handlers/arp_spoofer/arp.go:reply":                    "send_arp op 2 (Reply, spoofed reply of ProcessPacket)",
	"handlers/dhcp4_spoofer/send.go:sendDHCP4Packet":       "send_dhcp4_packet (replies, decline, release)",
	"handlers/dhcp4_spoofer/client.go:SendDiscoverPacket":  "send_discover",
	"handlers/dns_naming/mdns.go:sendMDNS":                 "send_mdns (udp4_send / udp6_send branches)",
	"handlers/dns_naming/nbns.go:sendNBNS":                 "send_nbns",
	"handlers/dns_naming/ssdp.go:SendSSDPSearch":           "send_ssdp_search",
	"nic.go:ExecPing":                                      "exempt: ICMP echo through an OS datagram socket (icmp.ListenPacket), the kernel builds the frame",
	"socketconn.go:WriteTo":                                "exempt: the raw-socket implementation of Conn.WriteTo itself",
	"socketconn.go:Sendto":                                 "exempt: the raw-socket implementation of Conn.WriteTo itself",
}

var sendMethods = map[string]bool{"WriteTo": true, "WriteToUDP": true, "WriteMsgUDP": true, "Sendto": true}

func exprString(e ast.Expr) string {
	switch x := e.(type) {
	case *ast.Ident:
		return x.Name
	case *ast.SelectorExpr:
		return exprString(x.X) + "." + x.Sel.Name
	case *ast.CallExpr:
		return exprString(x.Fun) + "()"
	case *ast.StarExpr:
		return "*" + exprString(x.X)
	case *ast.ParenExpr:
		return exprString(x.X)
	}
	return "?"
}

// censusSites returns the sorted site tokens file:function*count.
func censusSites(r *lib.Run) []string {
	root := os.Getenv("VERIF_REPO")
	if root == "" {
		root = "/repo"
	}
	counts := map[string]int{}
	fset := token.NewFileSet()
	filepath.Walk(root, func(path string, info os.FileInfo, err error) error {
		if err != nil {
			return nil
		}
		if info.IsDir() {
			if n := info.Name(); n == "examples" || n == ".git" || n == "vendor" {
				return filepath.SkipDir
			}
			return nil
		}
		if !strings.HasSuffix(path, ".go") || strings.HasSuffix(path, "_test.go") {
			return nil
		}
		f, err := parser.ParseFile(fset, path, nil, 0)
		if err != nil {
			r.Stat("sites.unparsed-file", 1)
			return nil
		}
		rel, _ := filepath.Rel(root, path)
		for _, d := range f.Decls {
			fd, ok := d.(*ast.FuncDecl)
			if !ok || fd.Body == nil {
				continue
			}
			ast.Inspect(fd.Body, func(n ast.Node) bool {
				call, ok := n.(*ast.CallExpr)
				if !ok {
					return true
				}
				sel, ok := call.Fun.(*ast.SelectorExpr)
				if !ok || !sendMethods[sel.Sel.Name] {
					return true
				}
				recv := exprString(sel.X)
				if strings.Contains(recv, "?") {
					r.Stat("sites.unrecognised-receiver-shape", 1)
				}
				// io.WriterTo style calls on buffers are not sends: a send has a destination argument
				if len(call.Args) < 2 {
					r.Stat("sites.writeto-without-destination", 1)
					return true
				}
				counts[filepath.ToSlash(rel)+":"+fd.Name.Name]++
				r.Stat("sites.receiver."+recv+"."+sel.Sel.Name, 1)
				return true
			})
		}
		return nil
	})
	keys := make([]string, 0, len(counts))
	for k := range counts {
		keys = append(keys, k)
	}
	sort.Strings(keys)
	toks := []string{}
	for _, k := range keys {
		toks = append(toks, fmt.Sprintf("%s*%d", k, counts[k]))
	}
	return toks
}

func census(r *lib.Run) {
	toks := censusSites(r)
	seen := map[string]bool{}
	for _, t := range toks {
		k := t[:strings.LastIndex(t, "*")]
		seen[k] = true
		want := 1
		if k == "handlers/dns_naming/mdns.go:sendMDNS" {
			want = 2 // IPv4 and IPv6 branch
		}
		if _, ok := modelledSites[k]; ok && t != fmt.Sprintf("%s*%d", k, want) {
			r.Viol("send-site-not-modelled", "the number of send calls in "+k+" changed ("+t+"): the model covers "+fmt.Sprint(want), "sites "+t)
		}
		if _, ok := modelledSites[k]; !ok {
			r.Viol("send-site-not-modelled", "the library writes to a connection in "+k+", which no send_X of the C07 model covers", "sites "+t)
		}
	}
	for k := range modelledSites {
		if !seen[k] {
			r.Stat("sites.modelled-but-absent."+k, 1)
		}
	}
	if len(toks) == 0 {
		r.Viol("send-site-census-empty", "no send site found in the library tree", "")
		return
	}
	r.Case("sites", toks, strings.Join(toks, ","))
	r.Stat("class.sites", 1)
}
