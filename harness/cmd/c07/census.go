package main

// Source-derived census of the places where the library hands bytes to a connection or socket: every call
// of a method named WriteTo / WriteToUDP / WriteMsgUDP / Sendto in $VERIF_REPO (outside _test.go and
// examples/), keyed file:function*count.  The list goes to the model as one `sites` case; the Coq side
// (Extract/D07.v, send_sites) knows which send_X covers each site.  A site the model does not list is a
// correspondence violation and a `viol send-site-not-modelled`: a send path added to the library cannot
// silently escape C07.

import (
	"fmt"
	"go/ast"
	"go/parser"
	"go/token"
	"os"
	"path/filepath"
	"sort"
	"strings"

	"pvharness/lib"
)

// modelledSites mirrors send_sites of coq/Extract/D07.v (the Go-side oracle of the census).
var modelledSites = map[string]string{
	"session.go:arpRequest":                                "send_arp_request (purge IPv4 probe)",
	"layer_icmp.go:icmp4SendPacket":                        "icmp4_send_packet (send_echo4)",
	"layer_icmp.go:icmp6SendPacket":                        "icmp6_send_packet (send_echo6, send_ns, send_na, send_rs, send_ra, purge IPv6 probes)",
	"handlers/arp_spoofer/arp.go:RequestRaw":               "send_arp op 1 (Request, RequestTo, Probe, AnnounceTo, hunt loop)",
	"handlers/arp_spoofer/arp.go:reply":                    "send_arp op 2 (Reply, spoofed reply of ProcessPacket)",
	"handlers/dhcp4_spoofer/send.go:sendDHCP4Packet":       "send_dhcp4_packet (replies, decline, release)",
	"handlers/dhcp4_spoofer/client.go:SendDiscoverPacket":  "send_discover",
	"handlers/dns_naming/mdns.go:sendMDNS":                 "send_mdns (udp4_send / udp6_send branches)",
	"handlers/dns_naming/nbns.go:sendNBNS":                 "send_nbns",
	"handlers/dns_naming/ssdp.go:SendSSDPSearch":           "send_ssdp_search",
	"nic.go:ExecPing":                                      "exempt: ICMP echo through an OS datagram socket (icmp.ListenPacket), the kernel builds the frame",
	"socketconn.go:WriteTo":                                "exempt: the raw-socket implementation of Conn.WriteTo itself",
	"socketconn.go:Sendto":                                 "exempt: the raw-socket implementation of Conn.WriteTo itself",
}

var sendMethods = map[string]bool{"WriteTo": true, "WriteToUDP": true, "WriteMsgUDP": true, "Sendto": true}

func exprString(e ast.Expr) string {
	switch x := e.(type) {
	case *ast.Ident:
		return x.Name
	case *ast.SelectorExpr:
		return exprString(x.X) + "." + x.Sel.Name
	case *ast.CallExpr:
		return exprString(x.Fun) + "()"
	case *ast.StarExpr:
		return "*" + exprString(x.X)
	case *ast.ParenExpr:
		return exprString(x.X)
	}
	return "?"
}

// censusSites returns the sorted site tokens file:function*count.
func censusSites(r *lib.Run) []string {
	root := os.Getenv("VERIF_REPO")
	if root == "" {
		root = "/repo"
	}
	counts := map[string]int{}
	fset := token.NewFileSet()
	filepath.Walk(root, func(path string, info os.FileInfo, err error) error {
		if err != nil {
			return nil
		}
		if info.IsDir() {
			if n := info.Name(); n == "examples" || n == ".git" || n == "vendor" {
				return filepath.SkipDir
			}
			return nil
		}
		if !strings.HasSuffix(path, ".go") || strings.HasSuffix(path, "_test.go") {
			return nil
		}
		f, err := parser.ParseFile(fset, path, nil, 0)
		if err != nil {
			r.Stat("sites.unparsed-file", 1)
			return nil
		}
		rel, _ := filepath.Rel(root, path)
		for _, d := range f.Decls {
			fd, ok := d.(*ast.FuncDecl)
			if !ok || fd.Body == nil {
				continue
			}
			ast.Inspect(fd.Body, func(n ast.Node) bool {
				call, ok := n.(*ast.CallExpr)
				if !ok {
					return true
				}
				sel, ok := call.Fun.(*ast.SelectorExpr)
				if !ok || !sendMethods[sel.Sel.Name] {
					return true
				}
				recv := exprString(sel.X)
				if strings.Contains(recv, "?") {
					r.Stat("sites.unrecognised-receiver-shape", 1)
				}
				// io.WriterTo style calls on buffers are not sends: a send has a destination argument
				if len(call.Args) < 2 {
					r.Stat("sites.writeto-without-destination", 1)
					return true
				}
				counts[filepath.ToSlash(rel)+":"+fd.Name.Name]++
				r.Stat("sites.receiver."+recv+"."+sel.Sel.Name, 1)
				return true
			})
		}
		return nil
	})
	keys := make([]string, 0, len(counts))
	for k := range counts {
		keys = append(keys, k)
	}
	sort.Strings(keys)
	toks := []string{}
	for _, k := range keys {
		toks = append(toks, fmt.Sprintf("%s*%d", k, counts[k]))
	}
	return toks
}

func census(r *lib.Run) {
	toks := censusSites(r)
	seen := map[string]bool{}
	for _, t := range toks {
		k := t[:strings.LastIndex(t, "*")]
		seen[k] = true
		want := 1
		if k == "handlers/dns_naming/mdns.go:sendMDNS" {
			want = 2 // IPv4 and IPv6 branch
		}
		if _, ok := modelledSites[k]; ok && t != fmt.Sprintf("%s*%d", k, want) {
			r.Viol("send-site-not-modelled", "the number of send calls in "+k+" changed ("+t+"): the model covers "+fmt.Sprint(want), "sites "+t)
		}
		if _, ok := modelledSites[k]; !ok {
			r.Viol("send-site-not-modelled", "the library writes to a connection in "+k+", which no send_X of the C07 model covers", "sites "+t)
		}
	}
	for k := range modelledSites {
		if !seen[k] {
			r.Stat("sites.modelled-but-absent."+k, 1)
		}
	}
	if len(toks) == 0 {
		r.Viol("send-site-census-empty", "no send site found in the library tree", "")
		return
	}
	r.Case("sites", toks, strings.Join(toks, ","))
	r.Stat("class.sites", 1)
	// call graph: every declaration that reaches a send site.  Compared with the model's table: the anchors (exported
	// functions / methods reaching a send site, and functions containing one).  An unexported function without a
	// send site of its own reaches one only through anchors or other such helpers: it inherits their classification
	// (extracting / inlining unexported helpers is silent; counted below).
	anchors, helpers := reachCensus(r)
	for _, k := range anchors {
		if _, ok := reachClass[k]; !ok {
			r.Viol("send-site-reach-not-classified", k+" (exported, or containing a send site) reaches a send site of the library and C07 neither models it nor lists it as a caller / not modelled", "reach "+k)
		}
	}
	all := map[string]bool{}
	for _, k := range anchors {
		all[k] = true
	}
	for _, k := range helpers {
		all[k] = true
		if _, ok := reachClass[k]; !ok {
			r.Stat("reach.inherited", 1) // new unexported helper
		}
	}
	for k := range reachClass {
		if !all[k] {
			r.Stat("reach.listed-but-absent", 1)
		}
	}
	r.Case("reach", anchors, strings.Join(anchors, ","))
	r.Stat("class.reach", 1)
	// loggers: every package-level fastlog logger of the source (the log level is a mode the cases rotate)
	lt := logCensus(r)
	r.Case("logs", lt, strings.Join(lt, ","))
	r.Stat("class.logs", 1)
	// buffer pool discipline: every function that takes a buffer from the shared pool, with its Get / deferred Put / other Put counts
	pt := poolCensus(r)
	r.Case("pool", pt, strings.Join(pt, ","))
	r.Stat("class.pool", 1)
}

// logCensus: every call of fastlog.New in the library (every package): "dir:Name" when it initialises a
// package-level variable Name, "dir:?<function>" when it is anywhere else (a logger the harness cannot name).
func logCensus(r *lib.Run) []string {
	root := os.Getenv("VERIF_REPO")
	if root == "" {
		root = "/repo"
	}
	toks := []string{}
	fset := token.NewFileSet()
	filepath.Walk(root, func(path string, info os.FileInfo, err error) error {
		if err != nil {
			return nil
		}
		if info.IsDir() {
			if n := info.Name(); n == "examples" || n == ".git" || n == "vendor" || n == "fastlog" {
				return filepath.SkipDir
			}
			return nil
		}
		if !strings.HasSuffix(path, ".go") || strings.HasSuffix(path, "_test.go") {
			return nil
		}
		f, err := parser.ParseFile(fset, path, nil, 0)
		if err != nil {
			return nil
		}
		dir, _ := filepath.Rel(root, filepath.Dir(path))
		isNew := func(x ast.Expr) bool {
			c, ok := x.(*ast.CallExpr)
			if !ok {
				return false
			}
			sel, ok := c.Fun.(*ast.SelectorExpr)
			return ok && sel.Sel.Name == "New" && exprString(sel.X) == "fastlog"
		}
		for _, d := range f.Decls {
			switch d := d.(type) {
			case *ast.GenDecl:
				for _, sp := range d.Specs {
					if vs, ok := sp.(*ast.ValueSpec); ok {
						for i, v := range vs.Values {
							if isNew(v) && i < len(vs.Names) {
								toks = append(toks, filepath.ToSlash(dir)+":"+vs.Names[i].Name)
							}
						}
					}
				}
			case *ast.FuncDecl:
				if d.Body != nil {
					ast.Inspect(d.Body, func(x ast.Node) bool {
						if e, ok := x.(ast.Expr); ok && isNew(e) {
							toks = append(toks, filepath.ToSlash(dir)+":?"+d.Name.Name)
						}
						return true
					})
				}
			}
		}
		return nil
	})
	sort.Strings(toks)
	return toks
}

// poolCensus reads the pool discipline off the source (every package): for every function declaration that
// mentions EtherBufferPool, "dir:Receiver.Name:g/d/p" with g = calls of EtherBufferPool.Get, d = `defer
// EtherBufferPool.Put(x)` statements directly in the function body whose x is a variable assigned from a Get of
// this function, p = every other Put (not deferred, in a branch or a function literal, or of something else).
// The model (Model/SendPool.v) assumes g = d and p = 0 everywhere: each buffer is returned exactly once, on
// every path.  No names of locals or receivers in the tokens.
func poolCensus(r *lib.Run) []string {
	root := os.Getenv("VERIF_REPO")
	if root == "" {
		root = "/repo"
	}
	toks := []string{}
	fset := token.NewFileSet()
	filepath.Walk(root, func(path string, info os.FileInfo, err error) error {
		if err != nil {
			return nil
		}
		if info.IsDir() {
			if n := info.Name(); n == "examples" || n == ".git" || n == "vendor" {
				return filepath.SkipDir
			}
			return nil
		}
		if !strings.HasSuffix(path, ".go") || strings.HasSuffix(path, "_test.go") {
			return nil
		}
		f, err := parser.ParseFile(fset, path, nil, 0)
		if err != nil {
			return nil
		}
		dir, _ := filepath.Rel(root, filepath.Dir(path))
		isPool := func(call *ast.CallExpr, method string) bool {
			sel, ok := call.Fun.(*ast.SelectorExpr)
			return ok && sel.Sel.Name == method && strings.HasSuffix(exprString(sel.X), "EtherBufferPool")
		}
		for _, d := range f.Decls {
			fd, ok := d.(*ast.FuncDecl)
			if !ok || fd.Body == nil {
				continue
			}
			gets, defers, puts := 0, 0, 0
			got := map[string]bool{}
			ast.Inspect(fd.Body, func(x ast.Node) bool {
				if as, ok := x.(*ast.AssignStmt); ok && len(as.Lhs) == 1 && len(as.Rhs) == 1 {
					found := false
					ast.Inspect(as.Rhs[0], func(y ast.Node) bool {
						if c, ok := y.(*ast.CallExpr); ok && isPool(c, "Get") {
							found = true
						}
						return true
					})
					if id, ok := as.Lhs[0].(*ast.Ident); ok && found {
						got[id.Name] = true
					}
				}
				if c, ok := x.(*ast.CallExpr); ok {
					if isPool(c, "Get") {
						gets++
					}
					if isPool(c, "Put") {
						puts++
					}
				}
				return true
			})
			for _, st := range fd.Body.List {
				if ds, ok := st.(*ast.DeferStmt); ok && isPool(ds.Call, "Put") && len(ds.Call.Args) == 1 {
					if id, ok := ds.Call.Args[0].(*ast.Ident); ok && got[id.Name] {
						defers++
						puts--
					}
				}
			}
			if gets+defers+puts == 0 {
				continue
			}
			recv := ""
			if fd.Recv != nil && len(fd.Recv.List) == 1 {
				recv = strings.TrimPrefix(exprString(fd.Recv.List[0].Type), "*") + "."
			}
			toks = append(toks, fmt.Sprintf("%s:%s%s:%d/%d/%d", filepath.ToSlash(dir), recv, fd.Name.Name, gets, defers, puts))
		}
		return nil
	})
	sort.Strings(toks)
	return toks
}

// reachClass mirrors send_reach of coq/Extract/D07.v (first word of the classification).
var reachClass = map[string]string{
	".:Config.NewSession": "caller",
	".:ExecPing": "not modelled",
	".:GetIP4DefaultGatewayAddr": "not modelled",
	".:GetLinuxDefaultGateway": "not modelled",
	".:GetNICInfo": "not modelled",
	".:LoadLinuxARPTable": "not modelled",
	".:NewSession": "caller",
	".:Session.ICMP4SendEchoRequest": "model send_echo4",
	".:Session.ICMP6SendEchoRequest": "model send_echo6",
	".:Session.ICMP6SendNeighborAdvertisement": "model send_na",
	".:Session.ICMP6SendNeighbourSolicitation": "model send_ns",
	".:Session.ICMP6SendRouterAdvertisement": "model send_ra",
	".:Session.ICMP6SendRouterSolicitation": "model send_rs",
	".:Session.Ping": "caller",
	".:Session.Ping6": "caller",
	".:Session.ValidateDefaultRouter": "caller",
	".:Session.VerifPingFrom": "caller",
	".:Session.VerifPurge": "model send_purge_arp / send_purge_ip6 (one probe per stale host",
	".:Session.arpRequest": "model send_arp_request",
	".:Session.icmp4SendPacket": "model icmp4_send_packet",
	".:Session.icmp6SendPacket": "model icmp6_send_packet",
	".:Session.ping": "caller",
	".:Session.purge": "model send_purge_arp / send_purge_ip6 (one probe per stale host",
	".:init": "not modelled",
	".:packetConn.WriteTo": "not modelled",
	".:sysSocket.Sendto": "not modelled",
	"handlers/arp_spoofer:Handler.AnnounceTo": "model arp_announce_to",
	"handlers/arp_spoofer:Handler.Probe": "model arp_probe",
	"handlers/arp_spoofer:Handler.ProcessPacket": "caller",
	"handlers/arp_spoofer:Handler.Reply": "model send_arp",
	"handlers/arp_spoofer:Handler.Request": "model arp_request / arp_request_to",
	"handlers/arp_spoofer:Handler.RequestRaw": "model send_arp",
	"handlers/arp_spoofer:Handler.RequestTo": "model arp_request / arp_request_to",
	"handlers/arp_spoofer:Handler.Scan": "caller",
	"handlers/arp_spoofer:Handler.StartHunt": "caller",
	"handlers/arp_spoofer:Handler.WhoIs": "caller",
	"handlers/arp_spoofer:Handler.reply": "model send_arp",
	"handlers/arp_spoofer:Handler.spoofLoop": "caller",
	"handlers/dhcp4_spoofer:Handler.ProcessPacket": "caller",
	"handlers/dhcp4_spoofer:Handler.SendDiscoverPacket": "model send_discover",
	"handlers/dhcp4_spoofer:Handler.StartHunt": "caller",
	"handlers/dhcp4_spoofer:Handler.attackDHCPServer": "caller",
	"handlers/dhcp4_spoofer:Handler.forceDecline": "caller",
	"handlers/dhcp4_spoofer:Handler.forceRelease": "caller",
	"handlers/dhcp4_spoofer:Handler.handleDiscover": "caller",
	"handlers/dhcp4_spoofer:Handler.handleRequest": "caller",
	"handlers/dhcp4_spoofer:Handler.processClientPacket": "caller",
	"handlers/dhcp4_spoofer:Handler.sendDeclineReleasePacket": "model send_decline_release",
	"handlers/dhcp4_spoofer:sendDHCP4Packet": "model send_dhcp4_packet",
	"handlers/dns_naming:DNSHandler.SendLLMNRQuery": "model send_llmnr_query",
	"handlers/dns_naming:DNSHandler.SendMDNSQuery": "model send_mdns_query",
	"handlers/dns_naming:DNSHandler.SendNBNSNodeStatus": "model send_nbns_node_status",
	"handlers/dns_naming:DNSHandler.SendNBNSQuery": "model send_nbns_query",
	"handlers/dns_naming:DNSHandler.SendSSDPSearch": "model send_ssdp_search",
	"handlers/dns_naming:DNSHandler.SendSleepProxyResponse": "event EvMdns (DNS message packed by third-party dnsmessage, carried by send_mdns)",
	"handlers/dns_naming:DNSHandler.Start": "caller",
	"handlers/dns_naming:DNSHandler.sendMDNS": "model send_mdns",
	"handlers/dns_naming:DNSHandler.sendMDNSQuery": "model send_mdns_query",
	"handlers/dns_naming:DNSHandler.sendNBNS": "model send_nbns",
	"handlers/icmp_spoofer:Handler6.PingAll": "caller",
	"handlers/icmp_spoofer:Handler6.ProcessPacket": "caller",
	"handlers/icmp_spoofer:Handler6.StartHunt": "caller",
	"handlers/icmp_spoofer:Handler6.StartRADVS": "caller",
	"handlers/icmp_spoofer:Handler6.spoofLoop": "caller",
	"handlers/icmp_spoofer:Handler6.startRADVS": "caller",
	"handlers/icmp_spoofer:RADVS.SendRA": "caller",
	"handlers/icmp_spoofer:RADVS.sendAdvertistementLoop": "caller",
}


// ---------------------------------------------------------------- call graph: who reaches a send site

// reachCensus builds a name-based call graph of the library from the source (every package, no _test.go, no
// examples/): nodes are function declarations keyed dir:Receiver.Name, a call x.Name(...) or Name(...) has an
// edge to every declaration called Name (an over-approximation that needs no type information and does not
// depend on the names of locals or receivers).  It returns, sorted, every declaration (anchors: exported or containing a send site; helpers: the rest) from which a send site
// (a WriteTo / WriteToUDP / WriteMsgUDP / Sendto call with a destination) is reachable, function literals and
// goroutines started inside a function included.
func reachCensus(r *lib.Run) (anchors, helpers []string) {
	root := os.Getenv("VERIF_REPO")
	if root == "" {
		root = "/repo"
	}
	type node struct {
		key    string
		dir    string
		method bool
		name   string
		mcalls map[string]bool // x.Name(...) with n arguments, as "Name/n": methods called Name, or functions of another package
		fcalls map[string]bool // Name(...) with n arguments: functions of the same package
		npar   int             // number of parameters (-1: variadic)
		sink   bool
	}
	nodes := []*node{}
	fset := token.NewFileSet()
	filepath.Walk(root, func(path string, info os.FileInfo, err error) error {
		if err != nil {
			return nil
		}
		if info.IsDir() {
			if n := info.Name(); n == "examples" || n == ".git" || n == "vendor" {
				return filepath.SkipDir
			}
			return nil
		}
		if !strings.HasSuffix(path, ".go") || strings.HasSuffix(path, "_test.go") {
			return nil
		}
		f, err := parser.ParseFile(fset, path, nil, 0)
		if err != nil {
			return nil
		}
		dir, _ := filepath.Rel(root, filepath.Dir(path))
		for _, d := range f.Decls {
			fd, ok := d.(*ast.FuncDecl)
			if !ok || fd.Body == nil {
				continue
			}
			recv := ""
			if fd.Recv != nil && len(fd.Recv.List) == 1 {
				recv = strings.TrimPrefix(exprString(fd.Recv.List[0].Type), "*") + "."
			}
			n := &node{key: filepath.ToSlash(dir) + ":" + recv + fd.Name.Name, dir: dir, method: recv != "", name: fd.Name.Name,
				mcalls: map[string]bool{}, fcalls: map[string]bool{}}
			for _, p := range fd.Type.Params.List {
				if _, variadic := p.Type.(*ast.Ellipsis); variadic {
					n.npar = -1
					break
				}
				if len(p.Names) == 0 {
					n.npar++
				}
				n.npar += len(p.Names)
			}
			ast.Inspect(fd.Body, func(x ast.Node) bool {
				call, ok := x.(*ast.CallExpr)
				if !ok {
					return true
				}
				switch fn := call.Fun.(type) {
				case *ast.Ident:
					n.fcalls[fmt.Sprintf("%s/%d", fn.Name, len(call.Args))] = true
					n.fcalls[fn.Name+"/-1"] = true
				case *ast.SelectorExpr:
					n.mcalls[fmt.Sprintf("%s/%d", fn.Sel.Name, len(call.Args))] = true
					n.mcalls[fn.Sel.Name+"/-1"] = true
					if sendMethods[fn.Sel.Name] && len(call.Args) >= 2 {
						n.sink = true
					}
				}
				return true
			})
			nodes = append(nodes, n)
		}
		return nil
	})
	reach := map[*node]bool{}
	for changed := true; changed; {
		changed = false
		for _, n := range nodes {
			if reach[n] {
				continue
			}
			hit := n.sink
			for _, m := range nodes {
				if !reach[m] {
					continue
				}
				// Name(...) -> a function of the same package; x.Name(...) -> a method of any package, or a
				// function of another package (pkg.Name)
				sig := fmt.Sprintf("%s/%d", m.name, m.npar) // same name and number of arguments (a variadic callee takes any)
				if (!m.method && m.dir == n.dir && n.fcalls[sig]) || (n.mcalls[sig] && (m.method || m.dir != n.dir)) {
					hit = true
					break
				}
			}
			if hit {
				reach[n], changed = true, true
			}
		}
	}
	isUp := func(s string) bool { return s != "" && s[0] >= 'A' && s[0] <= 'Z' }
	for n := range reach {
		exported := true
		for _, part := range strings.Split(n.key[strings.LastIndex(n.key, ":")+1:], ".") {
			exported = exported && isUp(part)
		}
		if exported || n.sink {
			anchors = append(anchors, n.key)
		} else {
			helpers = append(helpers, n.key)
		}
	}
	sort.Strings(anchors)
	sort.Strings(helpers)
	r.Stat("reach.declarations", int64(len(nodes)))
	r.Stat("reach.reaching-a-send-site", int64(len(anchors)+len(helpers)))
	r.Stat("reach.anchors", int64(len(anchors)))
	return anchors, helpers
}
