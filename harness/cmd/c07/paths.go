package main

// Runners and generators of the send paths beyond the first slice: RS/RA, the IPv6 probes of purge,
// arp_spoofer (exported functions, hunt loop, spoofed reply), dhcp4_spoofer (replies of ProcessPacket,
// the 256-DISCOVER burst, SendDiscoverPacket, decline/release) and dns_naming (mDNS, LLMNR, NBNS,
// SSDP, sleep proxy).

import (
	"bytes"
	"fmt"
	"net"
	"net/netip"
	"os"
	"path/filepath"
	"strconv"
	"strings"
	"time"

	"github.com/irai/packet"
	"github.com/irai/packet/handlers/arp_spoofer"
	"github.com/irai/packet/handlers/dhcp4_spoofer"
	"github.com/irai/packet/handlers/dns_naming"
	"pvharness/lib"
)

func hx(b []byte) string { return lib.Hex(b) }

// ---------------------------------------------------------------- RA argument tokens

type raArgs struct {
	prefixes []packet.PrefixInformation
	rdnss    *packet.RecursiveDNSServer
}

func parseRA(rd, pf string) raArgs {
	var a raArgs
	if pf != "-" {
		for _, x := range strings.Split(pf, ";") {
			f := strings.Split(x, "/")
			a.prefixes = append(a.prefixes, packet.PrefixInformation{PrefixLength: uint8(atoi(f[0])), Prefix: net.IP(lib.UnHex(f[1]))})
		}
	}
	if rd != "-" {
		f := strings.Split(rd, "/")
		a.rdnss = &packet.RecursiveDNSServer{Lifetime: time.Duration(atoi(f[0])) * time.Second}
		for _, x := range f[1:] {
			if x != "" {
				a.rdnss.Servers = append(a.rdnss.Servers, net.IP(lib.UnHex(x)))
			}
		}
	}
	return a
}

func (g gen) prefix() string { return g.prefixP(85) }

// prefixP: a prefix whose host bits are cleared with probability pValid percent (else the marshalling refuses it)
func (g gen) prefixP(pValid int) string {
	r := g.rng
	plen := r.Pick(64, 64, 64, 48, 56, 0, 128, 1, 7, 8, 9, 127)
	p := r.Bytes(16)
	p[0] = 0x20
	if r.Chance(pValid) { // clear the host bits, else marshal refuses
		for i := 0; i < 128; i++ {
			if i >= plen {
				p[i/8] &^= 0x80 >> (i % 8)
			}
		}
	}
	return fmt.Sprintf("%d/%s", plen, hx(p))
}

// ---------------------------------------------------------------- arp_spoofer

func arpHandler(s *packet.Session) *arp_spoofer.Handler {
	h, err := arp_spoofer.New(s)
	if err != nil {
		panic(err)
	}
	return h
}

func isARP(f []byte, op byte) bool { return len(f) >= 42 && f[12] == 8 && f[13] == 6 && f[21] == op }

// hunt runs StartHunt (and StopHunt when stop) on a fresh session and returns the frame the case is about.
func hunt(c nicCfg, mac net.HardwareAddr, ip netip.Addr, stop bool) string {
	s, cn := lib.NewSessionWith(c.nic())
	defer func() { go s.Close() }()
	h := arpHandler(s)
	addr := packet.Addr{MAC: mac, IP: ip}
	if _, err := h.StartHunt(addr); err != nil {
		return "none"
	}
	wait := func(max time.Duration) [][]byte {
		dl := time.Now().Add(max)
		for time.Now().Before(dl) {
			if cn.Len() > 0 {
				return cn.Take()
			}
			time.Sleep(5 * time.Millisecond)
		}
		return nil
	}
	first := wait(2 * time.Second)
	if !stop {
		h.Close()
		return showFrames(first)
	}
	h.StopHunt(addr)
	fs := wait(8 * time.Second) // the loop notices at its next 6 s tick
	h.Close()
	return showFrames(fs)
}

// ---------------------------------------------------------------- dhcp4_spoofer

var dhcpCounter int

func dhcpHandler(s *packet.Session, c nicCfg) (*dhcp4_spoofer.Handler, string) {
	dir := os.Getenv("VERIF_SCRATCH")
	if dir == "" {
		dir = os.TempDir()
	}
	dhcpCounter++
	file := filepath.Join(dir, fmt.Sprintf("c07-dhcp-%d-%d.yaml", os.Getpid(), dhcpCounter))
	hip := c.hostIP.As4()
	nf := netip.PrefixFrom(netip.AddrFrom4([4]byte{hip[0], hip[1], hip[2], 129}), 25)
	h, err := dhcp4_spoofer.Config{Mode: dhcp4_spoofer.ModeSecondaryServer, NetfilterIP: nf, DNSServer: c.routerIP, LeaseFilename: file}.New(s)
	if err != nil {
		panic(err)
	}
	return h, file
}

// dhcpReq builds a client message as a NIC read would deliver it.
func dhcpReq(mt byte, chaddr net.HardwareAddr, xid []byte, srcIP netip.Addr, bcast bool, opts [][]byte) []byte {
	p := make([]byte, 240, 400)
	p[0], p[1], p[2] = 1, 1, 6
	copy(p[4:8], xid)
	if bcast {
		p[10] = 0x80
	}
	copy(p[28:34], chaddr)
	copy(p[236:240], []byte{99, 130, 83, 99})
	p = append(p, 53, 1, mt)
	for _, o := range opts {
		p = append(p, o...)
	}
	p = append(p, 255)
	for len(p) < 300 {
		p = append(p, 0)
	}
	dst := netip.MustParseAddr("255.255.255.255")
	f := lib.MkEther(packet.EthBroadcast, chaddr, 0x0800, lib.MkIP4(srcIP, dst, 17, 64, lib.MkUDP(68, 67, p)))
	buf := make([]byte, packet.EthMaxSize)
	return buf[:copy(buf, f)]
}

// optionOrder returns the option codes of a DHCP payload in wire order.
func optionOrder(p []byte) (codes []string, vals map[byte][]byte) {
	vals = map[byte][]byte{}
	o := p[240:]
	for len(o) >= 2 && o[0] != 255 {
		if o[0] == 0 {
			o = o[1:]
			continue
		}
		n := int(o[1])
		if len(o) < 2+n {
			break
		}
		codes = append(codes, strconv.Itoa(int(o[0])))
		vals[o[0]] = o[2 : 2+n]
		o = o[2+n:]
	}
	return
}

// dhcpCase is one frame emitted along a DHCP scenario, turned into a case line.
type dhcpCase struct {
	kind string
	args []string
	obs  string
}

// classifyDHCP turns one frame emitted along a DHCP scenario into a case (kind "" = unclassifiable).
func classifyDHCP(f []byte, seed string) (kind string, args []string) {
	if len(f) < 14+20+8+240 || f[12] != 8 || f[13] != 0 || f[23] != 17 {
		return "", nil
	}
	sp, dp := be(f[34:36]), be(f[36:38])
	pl := f[42:]
	codes, vals := optionOrder(pl)
	mt := byte(0)
	if v := vals[53]; len(v) == 1 {
		mt = v[0]
	}
	order := strings.Join(codes, "/")
	switch {
	case sp == 67 && dp == 68:
		return "dhcpreply", []string{hx(f[0:6]), hx(f[30:34]), hx(pl), seed}
	case sp == 68 && dp == 67 && mt == 1:
		return "discover", []string{hx(pl[28:34]), hx(pl[12:16]), hx(pl[4:8]), hx(vals[12]), order, seed}
	case sp == 68 && dp == 67 && mt == 4:
		return "decline", []string{hx(pl[28:34]), hx(vals[61]), hx(vals[54]), hx(vals[50]), hx(pl[4:8]), order, seed}
	case sp == 68 && dp == 67 && mt == 7:
		return "release", []string{hx(pl[28:34]), hx(vals[61]), hx(vals[54]), hx(pl[12:16]), hx(pl[4:8]), order, seed}
	}
	return "", nil
}

// dhcpScenario drives one fresh server through DISCOVER (burst of 256 fake DISCOVERs on the first one of the
// process, then OFFER), REQUEST (ACK), a REQUEST for a foreign address (NAK + forced DECLINE), a foreign OFFER
// seen on the client port (forced DECLINE) and StartHunt of the leased address (forced RELEASE).
// It is a deterministic function of (c, sseed): every random choice derives from sseed, the pool poison
// seed too; so a case line that carries (c, sseed, kind, k) reproduces: "the k-th frame of that kind".
// The only library-side randomness is the xid of the forced RELEASE (crypto/rand in mustXID).
func dhcpScenario(c nicCfg, sseed uint64) (cases []dhcpCase, bad []string) {
	rng := lib.NewRand(sseed)
	s, cn := lib.NewSessionWith(c.nic())
	defer func() { go s.Close() }()
	h, file := dhcpHandler(s, c)
	defer func() { h.Close(); os.Remove(file) }()
	setLevels(levelOf("dhcp-scenario", c.toks())) // the level is a function of the configuration: the replay uses the same
	seed := strconv.Itoa(rng.Intn(256))
	// State carried through the shared pool: two scenarios out of three start with refused sends of every kind
	// (one refusal theorem each) on this session, and the pool is not emptied between the steps (keepPool): the
	// forced DECLINE / RELEASE hold two pooled buffers at once, the replies one.  A buffer that a refused send left
	// in the pool twice would be both of them.
	keepPool = false
	poisonPool(atoi(seed))
	if sseed%3 != 0 {
		keepPool = true
		defer func() { keepPool = false }()
		refusedPrelude(s, h, lib.NewRand(sseed^0x706f6f6c))
		cn.Take()
	}
	// expect patches the arguments read from the frame with what the scenario KNOWS was requested at this
	// step (addresses, ids, xid), so that the spec column judges the frame against independent values
	var expect func(label string, kind string, nth int, args []string) []string
	harvest := func(label string) {
		cn.WaitQuiet(30*time.Millisecond, 2*time.Second)
		nth := map[string]int{}
		for _, f := range cn.Take() {
			if k, a := classifyDHCP(f, seed); k != "" {
				a = expect(label, k, nth[k], a)
				nth[k]++
				cases = append(cases, dhcpCase{k, a, hx(f)})
			} else {
				bad = append(bad, hx(f))
			}
		}
	}
	step := func(frame []byte, label string) {
		cn.Take()
		poisonPool(atoi(seed))
		fr, err := s.Parse(frame)
		if err != nil {
			bad = append(bad, "parse:"+label+":"+err.Error())
			return
		}
		h.ProcessPacket(fr)
		harvest(label)
	}
	mac := net.HardwareAddr{0x02, rng.Byte(), rng.Byte(), rng.Byte(), rng.Byte(), rng.Byte()}
	xid := rng.Bytes(4)
	zero := netip.AddrFrom4([4]byte{})
	prl := []byte{55, 4, 1, 3, 6, 15}
	bcast := rng.Bool()
	mac2 := net.HardwareAddr{0x02, rng.Byte(), rng.Byte(), rng.Byte(), rng.Byte(), rng.Byte()}
	xid2, xid3 := rng.Bytes(4), rng.Bytes(4)
	hip := c.hostIP.As4()
	other := []byte{hip[0], hip[1], hip[2], 250}
	var offered netip.Addr
	expect = func(label, kind string, nth int, a []string) []string {
		switch {
		case kind == "dhcpreply": // every request of the scenario comes from 0.0.0.0: replies are broadcast
			a[0], a[1] = "ffffffffffff", "ffffffff"
		case kind == "discover" && label == "discover": // attackDHCPServer: fake MAC ff:ee:dd:cc:bb:i, xid ff ee dd i
			a[0], a[1], a[2], a[3] = fmt.Sprintf("ffeeddccbb%02x", nth), "00000000", fmt.Sprintf("ffeedd%02x", nth), "-"
		case kind == "decline" && label == "request-foreign": // client id = chaddr, server = home router, declined IP = requested
			a[0], a[1], a[2], a[3], a[4] = hx(mac2), hx(mac2), ipTok(c.routerIP), hx([]byte{hip[0], hip[1], hip[2], 77}), hx(xid2)
		case kind == "decline" && label == "foreign-offer": // server = the foreign server id, declined IP = its yiaddr
			a[0], a[1], a[2], a[3], a[4] = hx(mac2), hx(mac2), hx(other), hx([]byte{hip[0], hip[1], hip[2], 60}), hx(xid3)
		case kind == "release" && label == "starthunt": // released IP = the lease; the xid is the library's random one
			a[0], a[1], a[2], a[3] = hx(mac), hx(mac), ipTok(c.routerIP), ipTok(offered)
		default:
			bad = append(bad, "unexpected "+kind+" at step "+label)
		}
		return a
	}
	step(dhcpReq(1, mac, xid, zero, bcast, [][]byte{prl}), "discover")
	for _, l := range h.VerifLeases() {
		if bytes.Equal(l.Addr.MAC, mac) {
			offered = l.IPOffer
			if !offered.IsValid() {
				offered = l.Addr.IP
			}
		}
	}
	if offered.Is4() {
		o4 := offered.As4()
		step(dhcpReq(3, mac, xid, zero, bcast, [][]byte{append([]byte{50, 4}, o4[:]...), append([]byte{54, 4}, hip[:]...), prl}), "request")
	}
	step(dhcpReq(3, mac2, xid2, zero, true, [][]byte{{50, 4, hip[0], hip[1], hip[2], 77}}), "request-foreign")
	offer := make([]byte, 240, 320)
	offer[0], offer[1], offer[2] = 2, 1, 6
	copy(offer[4:8], xid3)
	copy(offer[16:20], []byte{hip[0], hip[1], hip[2], 60})
	copy(offer[28:34], mac2)
	copy(offer[236:240], []byte{99, 130, 83, 99})
	offer = append(offer, 53, 1, 2, 54, 4, other[0], other[1], other[2], other[3], 255)
	for len(offer) < 300 {
		offer = append(offer, 0)
	}
	of := lib.MkEther(packet.EthBroadcast, c.routerMAC, 0x0800, lib.MkIP4(netip.AddrFrom4([4]byte{other[0], other[1], other[2], other[3]}),
		netip.MustParseAddr("255.255.255.255"), 17, 64, lib.MkUDP(67, 68, offer)))
	buf := make([]byte, packet.EthMaxSize)
	step(buf[:copy(buf, of)], "foreign-offer")
	if offered.Is4() {
		cn.Take()
		poisonPool(atoi(seed))
		h.StartHunt(packet.Addr{MAC: mac, IP: offered})
		harvest("starthunt")
	}
	return
}

// refusedPrelude: calls that the library refuses (an error, nothing written), 1..3 times each, in a random order.
func refusedPrelude(s *packet.Session, h *dhcp4_spoofer.Handler, rng *lib.Rand) {
	g := gen{rng}
	m := func() net.HardwareAddr { return net.HardwareAddr{2, rng.Byte(), rng.Byte(), rng.Byte(), rng.Byte(), rng.Byte()} }
	v4 := func() packet.Addr { return packet.Addr{MAC: m(), IP: g.ip4()} }
	v6 := func() packet.Addr { return packet.Addr{MAC: m(), IP: g.ip6()} }
	var pf []packet.PrefixInformation
	for i := 0; i < 50; i++ {
		pf = append(pf, packet.PrefixInformation{PrefixLength: 64, OnLink: true, Prefix: net.IP{0x20, 1, byte(i), rng.Byte(), 0, 0, 0, 0, 0, 0, 0, 0, 0, 0, 0, 0}})
	}
	calls := []func(){
		func() { s.ICMP6SendRouterAdvertisement(pf, nil, v6()) },             // does not fit the buffer
		func() { s.ICMP6SendEchoRequest(v4(), v4(), 1, 1) },                  // wrong family
		func() { s.ICMP4SendEchoRequest(v6(), v6(), 1, 1) },                  // wrong family
		func() { s.ICMP6SendNeighborAdvertisement(v6(), v6(), packet.Addr{MAC: net.HardwareAddr{1, 2, 3}, IP: g.ip6()}) }, // target MAC
		func() { h.SendDiscoverPacket(nil, netip.Addr{}, nil, "x") },         // chaddr
		func() { h.SendDiscoverPacket(net.HardwareAddr{1, 2, 3, 4, 5, 6, 7}, netip.Addr{}, nil, "x") },
	}
	for n := 4 + rng.Intn(8); n > 0; n-- {
		f := calls[rng.Intn(len(calls))]
		for k := 1 + rng.Intn(3); k > 0; k-- {
			func() {
				defer func() { recover() }()
				f()
			}()
		}
	}
}

// scnToken names a frame of a scenario: scn:<sseed>:<k> = the k-th frame of the case's kind.
func scnToken(sseed uint64, k int) string { return fmt.Sprintf("scn:%d:%d", sseed, k) }

// replayDHCP is the runner of dhcpreply / decline / release (and of burst DISCOVERs): the last argument is the
// scenario token; the scenario is re-run and the k-th frame of the kind returned.  The forced RELEASE has a
// library-chosen random xid: the recorded one (argument 4) is written over it so that the replay reproduces.
func replayDHCP(kind string, a []string) string {
	c, a := cfgOf(a)
	tok := strings.Split(a[len(a)-1], ":")
	if len(tok) != 3 || tok[0] != "scn" {
		return "replay-needs-a-scenario-token"
	}
	sseed, _ := strconv.ParseUint(tok[1], 10, 64)
	want := atoi(tok[2])
	// Go map iteration decides the order of the DHCP options that are not pinned by the parameter request
	// list: the scenario is repeated until the frame carries them in the recorded order (at most 5! orders).
	last := "none"
	for try := 0; try < 1500; try++ {
		cases, _ := dhcpScenario(c, sseed)
		k := 0
		for _, dc := range cases {
			if dc.kind != kind {
				continue
			}
			if k == want {
				f := lib.UnHex(dc.obs)
				if kind == "release" {
					copy(f[42+4:42+8], lib.UnHex(a[4]))
				}
				last = hx(f)
				codes, _ := optionOrder(f[42:])
				same := false
				switch kind {
				case "dhcpreply":
					same = hx(f[42:]) == a[2]
				case "discover":
					same = strings.Join(codes, "/") == a[4]
				default:
					same = strings.Join(codes, "/") == a[5]
				}
				if same {
					return last
				}
			}
			k++
		}
	}
	return last
}

// ---------------------------------------------------------------- names

func (g gen) dnsName() string {
	r := g.rng
	if r.Chance(15) { // names dnsmessage refuses, the root, and the length limits 254 / 255 / 256
		long := func(n int) string { // n bytes: 50-byte labels, ends with a dot
			s := ""
			for len(s) < n {
				l := n - len(s) - 1
				if l > 50 {
					l = 50
				}
				s += strings.Repeat("x", l) + "."
			}
			return s
		}
		switch r.Intn(12) {
		case 0:
			return ""
		case 1:
			return "."
		case 2:
			return "nodot.local"
		case 3:
			return "a..local."
		case 4:
			return ".local."
		case 5:
			return strings.Repeat("y", 64) + ".local."
		case 6:
			return strings.Repeat("y", 63) + ".local."
		case 7:
			return long(254)
		case 8:
			return long(255)
		case 9:
			return long(256)
		case 10:
			return long(300)
		case 11:
			return ".."
		}
	}
	const al = "abcdefghijklmnopqrstuvwxyz0123456789-_"
	n := 1 + r.Intn(4)
	s := ""
	for i := 0; i < n; i++ {
		l := r.Pick(1, 2, 5, 8, 20, 63, 1+r.Intn(30))
		for j := 0; j < l; j++ {
			s += string(al[r.Intn(len(al))])
		}
		s += "."
	}
	if r.Chance(30) {
		s += "local."
	}
	if len(s) > 200 {
		s = "x." + s[len(s)-100:]
	}
	return s
}
func (g gen) nbName() string {
	r := g.rng
	const al = "ABCDEFGHIJKLMNOPQRSTUVWXYZ0123456789-_ *$"
	l := r.Pick(0, 1, 5, 15, 16, r.Intn(17), 17, 18+r.Intn(30))
	s := ""
	for j := 0; j < l; j++ {
		s += string(al[r.Intn(len(al))])
	}
	return s
}

// ---------------------------------------------------------------- registration + generation

func registerPaths(r *lib.Run) {
	var dh *dhcp4_spoofer.Handler
	var dn *dns_naming.DNSHandler
	handlers := func(s *packet.Session) {
		if dn == nil {
			dn = dns_naming.VerifNew(s)
			dh, _ = dhcpHandler(s, nicCfg{hostIP: s.NICInfo.HostAddr4.IP, routerIP: s.NICInfo.RouterAddr4.IP})
		}
	}
	reg(r, "rs", func(a []string) string {
		c, a := cfgOf(a)
		return withCfg(c, atoi(a[0]), func(s *packet.Session) { keep(s.ICMP6SendRouterSolicitation()) })
	})
	reg(r, "ra", func(a []string) string {
		c, a := cfgOf(a)
		ra := parseRA(a[2], a[3])
		return withCfg(c, atoi(a[4]), func(s *packet.Session) {
			keep(s.ICMP6SendRouterAdvertisement(ra.prefixes, ra.rdnss, packet.Addr{MAC: tokMAC(a[0]), IP: tokIP(a[1])}))
		})
	})
	// purge6 <cfg> hostmac hostip6 id seed : the IPv6 probe of purge for an online, stale IPv6 host
	reg(r, "purge6", func(a []string) string {
		c, a := cfgOf(a)
		mac, ip := tokMAC(a[0]), tokIP(a[1])
		s, cn := lib.NewSessionWith(c.nic())
		defer func() { go s.Close() }()
		dst := netip.MustParseAddr("ff02::1")
		fr := lib.MkEther(net.HardwareAddr{0x33, 0x33, 0, 0, 0, 1}, mac, 0x86dd, lib.MkIP6(ip, dst, 17, 64, lib.MkUDP(4000, 4000, []byte("x"))))
		if _, err := s.Parse(fr); err != nil {
			return "parse-error"
		}
		if s.FindIP(ip) == nil {
			return "no-host"
		}
		cn.Take()
		poisonPool(atoi(a[3]))
		now := time.Now().Add(packet.DefaultProbeDeadline + time.Second)
		now = now.Add(time.Duration(atoi(a[2])-now.Nanosecond()) * time.Nanosecond) // echo id = uint16(now.Nanosecond())
		s.VerifPurge(now)
		cn.WaitQuiet(20*time.Millisecond, 2*time.Second)
		var mine [][]byte
		for _, f := range cn.Take() {
			if len(f) >= 14 && f[12] == 0x86 && f[13] == 0xdd {
				mine = append(mine, f)
			}
		}
		return showFrames(mine)
	})
	arpKind := func(kind string, call func(h *arp_spoofer.Handler, a []string)) {
		reg(r, kind, func(a []string) string {
			c, a := cfgOf(a)
			return withCfg(c, atoi(a[len(a)-1]), func(s *packet.Session) { call(arpHandler(s), a) })
		})
	}
	ad := func(a []string, i int) packet.Addr { return packet.Addr{MAC: tokMAC(a[i]), IP: tokIP(a[i+1])} }
	arpKind("arpraw", func(h *arp_spoofer.Handler, a []string) { keep(h.RequestRaw(tokMAC(a[0]), ad(a, 1), ad(a, 3))) })
	arpKind("arpreply", func(h *arp_spoofer.Handler, a []string) { keep(h.Reply(tokMAC(a[0]), ad(a, 1), ad(a, 3))) })
	arpKind("arpreq", func(h *arp_spoofer.Handler, a []string) { keep(h.Request(tokIP(a[0]))) })
	arpKind("arpprobe", func(h *arp_spoofer.Handler, a []string) { keep(h.Probe(tokIP(a[0]))) })
	arpKind("arpreqto", func(h *arp_spoofer.Handler, a []string) { keep(h.RequestTo(tokMAC(a[0]), tokIP(a[1]))) })
	arpKind("arpannounce", func(h *arp_spoofer.Handler, a []string) { keep(h.AnnounceTo(tokMAC(a[0]), tokIP(a[1]))) })
	reg(r, "huntstart", func(a []string) string {
		c, a := cfgOf(a)
		return hunt(c, tokMAC(a[0]), tokIP(a[1]), false)
	})
	reg(r, "huntstop", func(a []string) string {
		c, a := cfgOf(a)
		return hunt(c, tokMAC(a[0]), tokIP(a[1]), true)
	})
	// arpspoofreply <cfg> clientmac clientip seed : hunted client asks who has the router IP
	reg(r, "arpspoofreply", func(a []string) string {
		c, a := cfgOf(a)
		mac, ip := tokMAC(a[0]), tokIP(a[1])
		s, cn := lib.NewSessionWith(c.nic())
		defer func() { go s.Close() }()
		h := arpHandler(s)
		defer h.Close()
		h.StartHunt(packet.Addr{MAC: mac, IP: ip})
		time.Sleep(20 * time.Millisecond)
		req := lib.MkEther(packet.EthBroadcast, mac, 0x0806, lib.MkARP(1, mac, ip, net.HardwareAddr{0, 0, 0, 0, 0, 0}, c.routerIP))
		fr, err := s.Parse(req)
		if err != nil {
			return "parse-error"
		}
		cn.Take()
		poisonPool(atoi(a[2]))
		h.ProcessPacket(fr)
		var mine [][]byte
		for _, f := range cn.Take() {
			if isARP(f, 2) {
				mine = append(mine, f)
			}
		}
		return showFrames(mine)
	})
	reg(r, "discover", func(a []string) string {
		if strings.HasPrefix(a[len(a)-1], "scn:") { // a DISCOVER of the burst of a DHCP scenario
			return replayDHCP("discover", a)
		}
		c, a := cfgOf(a)
		var ch net.HardwareAddr
		if a[0] != "-" {
			ch = tokMAC(a[0])
		}
		var xid []byte
		if a[2] != "-" {
			xid = lib.UnHex(a[2])
		}
		name := string(lib.UnHex(a[3]))
		obs := ""
		tries := 300
		if strings.HasPrefix(a[4], "?") { // first run of the generator: any order
			tries = 1
		}
		for try := 0; try < tries; try++ { // map iteration order of the options: repeat until it is the recorded one
			obs = withCfg(c, atoi(a[5]), func(s *packet.Session) {
				handlers(s)
				keep(dh.SendDiscoverPacket(ch, tokIP(a[1]), xid, name))
			})
			if obs == "none" || obs == "panic" {
				break
			}
			if f := lib.UnHex(obs); len(f) > 42+240 {
				codes, _ := optionOrder(f[42:])
				if strings.Join(codes, "/") == a[4] {
					break
				}
			}
		}
		return obs
	})
	for _, k := range []string{"dhcpreply", "decline", "release"} {
		k := k
		reg(r, k, func(a []string) string { return replayDHCP(k, a) })
	}
	reg(r, "mdnsq", func(a []string) string {
		c, a := cfgOf(a)
		return withCfg(c, 0, func(s *packet.Session) { handlers(s); keep(dn.SendMDNSQuery(string(lib.UnHex(a[0])))) })
	})
	reg(r, "llmnrq", func(a []string) string {
		c, a := cfgOf(a)
		return withCfg(c, 0, func(s *packet.Session) { handlers(s); keep(dn.SendLLMNRQuery(string(lib.UnHex(a[0])))) })
	})
	// sleepproxy <cfg> smac sip dmac dip port payload : the payload (dnsmessage.Pack output) is what was sent
	reg(r, "sleepproxy", func(a []string) string {
		c, a := cfgOf(a)
		return withCfg(c, 0, func(s *packet.Session) {
			handlers(s)
			pl := lib.UnHex(a[5])
			dn.SendSleepProxyResponse(ad(a, 0), packet.Addr{MAC: tokMAC(a[2]), IP: tokIP(a[3]), Port: uint16(atoi(a[4]))}, uint16(pl[0])<<8|uint16(pl[1]), "")
		})
	})
	reg(r, "nbnsq", func(a []string) string {
		c, a := cfgOf(a)
		return withCfg(c, atoi(a[6]), func(s *packet.Session) {
			handlers(s)
			keep(dn.SendNBNSQuery(ad(a, 0), ad(a, 2), string(lib.UnHex(a[5]))))
		})
	})
	reg(r, "nbnsstat", func(a []string) string {
		c, a := cfgOf(a)
		return withCfg(c, atoi(a[1]), func(s *packet.Session) { handlers(s); keep(dn.SendNBNSNodeStatus()) })
	})
	reg(r, "ssdp", func(a []string) string {
		c, a := cfgOf(a)
		return withCfg(c, atoi(a[0]), func(s *packet.Session) { handlers(s); keep(dn.SendSSDPSearch()) })
	})
}

// doLate records a case whose arguments are partly read from the emitted frame (sequence numbers,
// payloads built by third-party packers): run first, then build the case line.
func doLate(r *lib.Run, kind string, c nicCfg, pre []string, derive func(f []byte) []string) {
	obs := r.Exec(kind, append(c.toks(), pre...))
	if obs == "none" || obs == "panic" || strings.Contains(obs, ",") {
		args := append([]string{}, pre...)
		for i := range args {
			args[i] = strings.TrimPrefix(args[i], "?") // "?x": a value the first run may replace
		}
		r.Case(kind, append(c.toks(), args...), obs) // refused (or worse): the arguments as given
		oracle(r, kind, c, args, obs)
		if obs == "none" {
			noteCase(kind, append(c.toks(), args...), obs)
		}
		r.Stat("class."+kind+".refused", 1)
		return
	}
	args := derive(lib.UnHex(obs))
	r.Case(kind, append(c.toks(), args...), obs)
	oracle(r, kind, c, args, obs)
	r.Stat("class."+kind, 1)
}

func generatePaths(r *lib.Run, g gen, do func(kind string, c nicCfg, args ...string)) {
	rng := g.rng
	n := 300
	nslow := 2
	ndhcp := 3
	if r.Thorough() {
		n, nslow, ndhcp = 6000, 6, 40
	}
	// hunt-stop cases take ~6 s each (ticker of the spoof loop): run them concurrently with everything else
	type huntRes struct {
		c    nicCfg
		args []string
		obs  chan string
	}
	var hunts []huntRes
	for i := 0; i < nslow; i++ {
		c := g.cfg()
		hip := c.hostIP.As4()
		mac, ip := net.HardwareAddr{2, rng.Byte(), rng.Byte(), rng.Byte(), rng.Byte(), rng.Byte()}, netip.AddrFrom4([4]byte{hip[0], hip[1], hip[2], 20 + rng.Byte()%100})
		hr := huntRes{c, []string{hx(mac), ipTok(ip), "0"}, make(chan string, 1)}
		go func() { hr.obs <- hunt(hr.c, mac, ip, true) }()
		hunts = append(hunts, hr)
	}
	for i := 0; i < ndhcp; i++ {
		c := g.cfg()
		sseed := rng.U64() >> 1
		cases, bad := dhcpScenario(c, sseed)
		for _, b := range bad {
			r.Viol("c07.dhcp.unclassified-frame", "frame emitted by the DHCP handler is not a classifiable BOOTP datagram: "+b, "")
		}
		nth := map[string]int{}
		for _, dc := range cases {
			args := append(append([]string{}, dc.args...), scnToken(sseed, nth[dc.kind]))
			nth[dc.kind]++
			r.Case(dc.kind, append(c.toks(), args...), dc.obs)
			r.Stat("class."+dc.kind, 1)
			oracle(r, dc.kind, c, args, dc.obs)
		}
		r.Stat("class.dhcp-scenario", 1)
	}
	lan := func(c nicCfg) netip.Addr {
		hip := c.hostIP.As4()
		return netip.AddrFrom4([4]byte{hip[0], hip[1], hip[2], 1 + rng.Byte()%250})
	}
	for i := 0; i < n; i++ {
		c := g.cfg()
		do("rs", c, g.seed())
		// RA: destination all-nodes (what icmp_spoofer uses) or a caller-chosen unicast/multicast address
		dm, di := net.HardwareAddr{0x33, 0x33, 0, 0, 0, 1}, netip.MustParseAddr("ff02::1")
		if rng.Chance(40) {
			dm, di = g.mac(), g.ip6()
		}
		npf := rng.Pick(1, 1, 1, 2, 3, 0)
		big := rng.Chance(3)
		if big {
			npf = rng.Pick(44, 45, 46, 50) // around / beyond what fits the 1522-byte buffer: all prefixes valid
		}
		pf := []string{}
		for j := 0; j < npf; j++ {
			if big {
				pf = append(pf, g.prefixP(100))
			} else {
				pf = append(pf, g.prefix())
			}
		}
		pft := "-"
		if len(pf) > 0 {
			pft = strings.Join(pf, ";")
		}
		rd := "-"
		if rng.Chance(60) {
			rd = strconv.Itoa(rng.Pick(0, 1, 1800, 65535, 65536, 4294967295))
			nsrv := rng.Pick(0, 1, 1, 2, 3)
			if !big && rng.Chance(12) {
				// RFC 8106 5.1: as many servers as the length octet allows; 15 / 16 straddle Length = 32 (where
				// Length*8 no longer fits a byte), 86 / 87 what fits the buffer next to one prefix
				nsrv = rng.Pick(15, 16, 17, 31, 40, 86, 87, 127, 128)
			}
			for j := nsrv; j > 0; j-- {
				rd += "/" + ipTok(g.ip6())
			}
			if !strings.Contains(rd, "/") {
				rd += "/"
			}
		}
		do("ra", c, hx(dm), ipTok(di), rd, pft, g.seed())

		// ARP sender / target MACs are payload (the Ethernet source is the NIC MAC): mostly valid; MACs that are not
		// 6 bytes (sender, target or destination) must be refused
		sm, tm, dst := g.mac(), g.mac(), g.mac()
		if rng.Chance(30) {
			sm = g.srcMAC(c)
		}
		if rng.Chance(15) {
			tm = g.srcMAC(c)
		}
		if rng.Chance(5) {
			dst = g.srcMAC(c)
		}
		do("arpraw", c, hx(dst), hx(sm), ipTok(g.ip4()), hx(tm), ipTok(g.ip4()), g.seed())
		do("arpreply", c, hx(dst), hx(sm), ipTok(g.ip4()), hx(tm), ipTok(g.ip4()), g.seed())
		do("arpreq", c, ipTok(g.ip4()), g.seed())
		do("arpprobe", c, ipTok(g.ip4()), g.seed())
		do("arpreqto", c, hx(dst), ipTok(g.ip4()), g.seed())
		do("arpannounce", c, hx(dst), ipTok(g.ip4()), g.seed())
		if rng.Chance(5) { // IPv6 target: Request/RequestTo refuse
			do("arpreq", c, ipTok(g.ip6()), g.seed())
			do("arpreqto", c, hx(dst), ipTok(g.ip6()), g.seed())
		}
		// SendDiscoverPacket: xid / ciaddr given or left unset
		ci, xid, name := ipTok(g.ip4()), hx(rng.Bytes(4)), ""
		if rng.Chance(30) {
			ci = "-"
		}
		if rng.Chance(20) {
			xid = "-"
		}
		if rng.Chance(60) {
			name = g.nbName()
		}
		chaddr := g.mac()
		if rng.Chance(25) { // nil / short / long chaddr: refused
			chaddr = g.srcMAC(c)
		}
		order0 := "?55/53"
		if name != "" {
			order0 = "?12/55/53"
		}
		doLate(r, "discover", c, []string{hx(chaddr), ci, xid, hx([]byte(name)), order0, "0"}, func(f []byte) []string {
			codes, _ := optionOrder(f[42:])
			return []string{hx(f[42+28 : 42+34]), ci, hx(f[42+4 : 42+8]), hx([]byte(name)), strings.Join(codes, "/"), "0"}
		})

		do("mdnsq", c, hx([]byte(g.dnsName())))
		do("llmnrq", c, hx([]byte(g.dnsName())))
		do("ssdp", c, g.seed())
		// NBNS: source either the host itself or another MAC (the function takes it from the caller)
		src := packet.Addr{MAC: g.srcMAC(c), IP: c.hostIP}
		dstA := packet.Addr{MAC: packet.EthBroadcast, IP: netip.MustParseAddr("255.255.255.255")}
		if rng.Bool() {
			dstA = packet.Addr{MAC: g.mac(), IP: lan(c)}
		}
		nb := g.nbName()
		seed := g.seed()
		doLate(r, "nbnsq", c, []string{hx(src.MAC), ipTok(src.IP), hx(dstA.MAC), ipTok(dstA.IP), "0", hx([]byte(nb)), seed}, func(f []byte) []string {
			return []string{hx(src.MAC), ipTok(src.IP), hx(dstA.MAC), ipTok(dstA.IP), strconv.Itoa(be(f[42:44])), hx([]byte(nb)), seed}
		})
		doLate(r, "nbnsstat", c, []string{"0", seed}, func(f []byte) []string { return []string{strconv.Itoa(be(f[42:44])), seed} })
		// sleep proxy response over IPv4 and IPv6; the packed DNS message is taken from the frame
		// the source Addr of the sleep proxy response: IPv4 and IPv6, with every class of source MAC
		sp4 := []string{hx(g.srcMAC(c)), ipTok(c.hostIP), hx(g.mac()), ipTok(netip.AddrFrom4([4]byte{224, 0, 0, 251})), "5353"}
		sp6 := []string{hx(g.srcMAC(c)), ipTok(g.ip6()), hx(g.mac()), ipTok(netip.MustParseAddr("ff02::fb")), "5353"}
		for _, sp := range [][]string{sp4, sp6} {
			sp := sp
			id := uint16(rng.U64())
			doLate(r, "sleepproxy", c, append(append([]string{}, sp...), hx([]byte{byte(id >> 8), byte(id)})), func(f []byte) []string {
				off := 42
				if f[12] == 0x86 {
					off = 62
				}
				return append(append([]string{}, sp...), hx(f[off:]))
			})
		}
		if i%10 == 0 {
			hip := c.hostIP.As4()
			cm, cip := net.HardwareAddr{2, rng.Byte(), rng.Byte(), rng.Byte(), rng.Byte(), rng.Byte()}, netip.AddrFrom4([4]byte{hip[0], hip[1], hip[2], 20 + rng.Byte()%100})
			if cip != c.hostIP && cip != c.routerIP {
				do("huntstart", c, hx(cm), ipTok(cip), "0")
				do("arpspoofreply", c, hx(cm), ipTok(cip), g.seed())
			}
			if c.hostLLA.IsValid() {
				ll := [16]byte{0: 0xfe, 1: 0x80}
				copy(ll[8:], rng.Bytes(8))
				do("purge6", c, hx(cm), ipTok(netip.AddrFrom16(ll)), "0", g.seed())
				gua := [16]byte{0: 0x20, 1: 0x01}
				copy(gua[2:], rng.Bytes(14))
				do("purge6", c, hx(cm), ipTok(netip.AddrFrom16(gua)), strconv.Itoa(int(uint16(rng.U64()))), g.seed())
			}
		}
	}
	for _, hr := range hunts {
		obs := <-hr.obs
		r.Case("huntstop", append(hr.c.toks(), hr.args...), obs)
		oracle(r, "huntstop", hr.c, hr.args, obs)
		r.Stat("class.huntstop", 1)
	}
}
