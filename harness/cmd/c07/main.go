// C07: every frame a library send path writes to the session connection is compared byte for byte
// with the Coq model of that path (coq/Model/Send*.v) and judged by the Coq reference decoder
// (coq/Spec/SendRef.v); an independent Go mini-decoder + RFC 1071 verifier (oracle.go) judges the same
// frames on the Go side.
//
// Junk: every buffer the library takes from packet.EtherBufferPool during a case is pre-filled with the
// poison pattern of the case's seed (pool.New is replaced and the pool is drained before each call), so
// a field a path forgets to write shows up in the frame exactly as the model predicts from `junk`.
package main

import (
	"errors"
	"syscall"
	"sort"
	"bytes"
	"fmt"
	"io"
	"net"
	"net/netip"
	"os"
	"path/filepath"
	"runtime"
	"strconv"
	"strings"
	"time"

	"github.com/irai/packet"
	"github.com/irai/packet/fastlog"
	"github.com/irai/packet/handlers/arp_spoofer"
	"github.com/irai/packet/handlers/dhcp4_spoofer"
	"github.com/irai/packet/handlers/dns_naming"
	"github.com/irai/packet/handlers/icmp_spoofer"
	"pvharness/lib"
)

// ---------------------------------------------------------------- pool poisoning

var (
	poisonSeed int
	newCalled  bool
)

func fillPoison(b *[packet.EthMaxSize]byte, seed int) {
	for i := range b {
		b[i] = byte(seed + 73*i + i/251)
	}
}

func installPool() {
	packet.EtherBufferPool.New = func() interface{} {
		newCalled = true
		b := new([packet.EthMaxSize]byte)
		fillPoison(b, poisonSeed)
		return b
	}
}

// poisonPool makes every buffer the library will Get from now on carry the pattern of seed:
// the pool is drained (Get until New fires: New is only called when private, shared, stolen and
// victim slots are all empty) and New produces poisoned buffers.
func poisonPool(seed int) {
	poisonSeed = seed
	var held []*[packet.EthMaxSize]byte
	for i := 0; i < 10000; i++ {
		newCalled = false
		b := packet.EtherBufferPool.Get().(*[packet.EthMaxSize]byte)
		if newCalled {
			if keepPool {
				seen := map[*[packet.EthMaxSize]byte]bool{}
				for j := len(held) - 1; j >= 0; j-- {
					if seen[held[j]] {
						poolDup++
					}
					seen[held[j]] = true
					fillPoison(held[j], seed)
					packet.EtherBufferPool.Put(held[j])
				}
			}
			return
		}
		held = append(held, b)
	}
	panic("pool does not drain")
}

// Sequence mode (state carried between sends through the shared pool): with keepPool set, poisonPool does not
// empty the pool; the buffers it holds are refilled with the pattern and put back, a buffer the pool holds twice
// (a double Put) stays in it twice and is counted in poolDup.  Single goroutine, GOMAXPROCS(1), no GC reliance:
// what a send leaves in the pool is what the next send of the sequence gets.
var (
	keepPool bool
	poolDup  int
)

// seqKinds: the case kinds a sequence is made of (runners that poison through poisonPool right before the
// send, deterministic arguments; the last argument is the poison seed except for the two name queries).
var seqKinds = map[string]bool{"echo4": true, "echo6": true, "ns": true, "na": true, "rs": true, "ra": true, "arpraw": true,
	"arpreply": true, "arpreq": true, "arpprobe": true, "arpreqto": true, "arpannounce": true, "ssdp": true, "mdnsq": true, "llmnrq": true,
	"discover": true, "nbnsq": true} // the last two: refused calls only

var seqRefused, seqSent = map[string][][]string{}, map[string][][]string{}

// noteCase remembers compared cases as material for the sequences (at most 40 per kind and outcome).
func noteCase(kind string, all []string, obs string) {
	if !seqKinds[kind] || obs == "panic" {
		return
	}
	m, class := seqSent, kind
	if obs == "none" {
		m = seqRefused
		if kind == "ra" && strings.Count(all[len(all)-2], ";") >= 44 {
			class = "ra-that-does-not-fit" // the error path inside icmp6SendPacket (buffer already taken)
		}
	}
	if len(m[class]) < 40 {
		m[class] = append(m[class], append([]string{kind}, all...))
	}
}

// runSeq: the steps (full case lines) one after the other on the same pool, starting from an empty one.  After
// every step the pool is inspected (a buffer held twice -> "+pool-holds-a-buffer-twice"); afterwards every
// step is run again on its own from an empty pool with another pattern: the frame must be the same
// ("+differs-from-a-fresh-pool" otherwise).  The model answers each step independently.
func runSeq(r *lib.Run, a []string) string {
	var steps [][]string
	cur := []string{}
	for _, t := range a {
		if t == "|" {
			steps = append(steps, cur)
			cur = []string{}
		} else {
			cur = append(cur, t)
		}
	}
	steps = append(steps, cur)
	keepPool = false
	poisonPool(0)
	keepPool, poolDup = true, 0
	defer func() { keepPool = false }()
	obs := make([]string, len(steps))
	for i, st := range steps {
		if len(st) == 0 || !seqKinds[st[0]] {
			return "bad-sequence"
		}
		obs[i] = r.Exec(st[0], st[1:])
		poisonPool(0)
		if poolDup > 0 {
			obs[i] += "+pool-holds-a-buffer-twice"
			poolDup = 0
		}
	}
	keepPool = false
	for i, st := range steps {
		b := append([]string{}, st[1:]...)
		if st[0] != "mdnsq" && st[0] != "llmnrq" {
			b[len(b)-1] = strconv.Itoa((atoi(b[len(b)-1]) + 101) % 256)
		}
		if o := r.Exec(st[0], b); o != strings.TrimSuffix(obs[i], "+pool-holds-a-buffer-twice") {
			obs[i] += "+differs-from-a-fresh-pool"
		}
	}
	return strings.Join(obs, ";")
}

// ---------------------------------------------------------------- modes: log level, write failures

// keep remembers the error a send function returned (the last value of its results).
var lastErr error

func keep(v ...interface{}) {
	lastErr = nil
	for _, x := range v {
		if e, ok := x.(error); ok {
			lastErr = e
		}
	}
}

// The log level is a mode of the library, not an input of the model: every case runs at the level derived
// from its kind and configuration tokens (so that a replay runs at the same one); all settable loggers of the
// five packages are set together (the `logs` census lists every package-level fastlog logger of the source).
var levelNames = []string{"error", "info", "debug"}

func levelOf(kind string, a []string) int {
	h := uint32(2166136261)
	mix := func(t string) {
		for i := 0; i < len(t); i++ {
			h = (h ^ uint32(t[i])) * 16777619
		}
	}
	mix(kind)
	for i := 0; i < 6 && i < len(a); i++ {
		mix(a[i])
	}
	return int(h>>7) % 3
}

func setLevels(l int) {
	lv := []fastlog.LogLevel{fastlog.LevelError, fastlog.LevelInfo, fastlog.LevelDebug}[l]
	for _, lg := range []*fastlog.Logger{packet.Logger, arp_spoofer.Logger, dhcp4_spoofer.Logger, dns_naming.Logger,
		dns_naming.LoggerMDNS, icmp_spoofer.Logger4, icmp_spoofer.Logger6} {
		lg.SetLevel(lv)
	}
}

// reg registers the runner of a send kind so that it runs at the level of its case line.
func reg(r *lib.Run, kind string, f func(a []string) string) {
	r.Register(kind, func(a []string) string {
		l := levelOf(kind, a)
		setLevels(l)
		r.Stat("level."+levelNames[l], 1)
		r.Stat("level."+kind+"."+levelNames[l], 1)
		return f(a)
	})
}

var failErrs = map[string]error{"enobufs": syscall.ENOBUFS, "eagain": syscall.EAGAIN, "eintr": syscall.EINTR,
	"enetdown": syscall.ENETDOWN, "emsgsize": syscall.EMSGSIZE, "generic": errors.New("write failed"), "closed": net.ErrClosed}

// runFail: wfail <error> <full case line of a call that sends one frame>.  The first write of the call fails
// with the error (nothing reaches the wire); what the library writes afterwards (a retry) is recorded; the error
// the call returns is classified (injected / nil / other).  Then the same call again on a healthy connection
// and the same pool: its frame, and the pool inspected.  Model: the error is returned, nothing is sent
// (C07_write_error_is_returned), the next call is unaffected.
func runFail(r *lib.Run, a []string) string {
	inj, ok := failErrs[a[0]]
	if !ok || len(a) < 3 || !seqKinds[a[1]] {
		return "bad-wfail"
	}
	if sess == nil {
		sess, conn = lib.NewSession()
	}
	keepPool = false
	poisonPool(0)
	keepPool, poolDup = true, 0
	defer func() { keepPool = false; conn.Fail = nil }()
	first := true
	conn.Fail = func(b []byte) error {
		if first {
			first = false
			return inj
		}
		return nil
	}
	lastErr = nil
	o1 := r.Exec(a[1], a[2:])
	switch {
	case lastErr == nil:
		o1 += "/err=nil"
	case errors.Is(lastErr, inj):
		o1 += "/err=injected"
	default:
		o1 += "/err=other:" + lastErr.Error()
	}
	if first {
		o1 += "/no-write"
	}
	conn.Fail = nil
	o2 := r.Exec(a[1], a[2:])
	poisonPool(0)
	if poolDup > 0 {
		o2 += "+pool-holds-a-buffer-twice"
		poolDup = 0
	}
	return o1 + ";" + o2
}

// ---------------------------------------------------------------- configuration / tokens

type nicCfg struct {
	hostMAC   net.HardwareAddr
	hostIP    netip.Addr
	hostLLA   netip.Addr // zero Addr: no IPv6
	routerMAC net.HardwareAddr
	routerIP  netip.Addr
	mtu       int
}

func ipTok(a netip.Addr) string {
	if !a.IsValid() {
		return "-"
	}
	return lib.Hex(a.AsSlice())
}
func tokIP(s string) netip.Addr {
	b := lib.UnHex(s)
	if len(b) == 0 {
		return netip.Addr{}
	}
	a, ok := netip.AddrFromSlice(b)
	if !ok {
		panic("bad ip token " + s)
	}
	return a
}
func tokMAC(s string) net.HardwareAddr { return net.HardwareAddr(lib.UnHex(s)) }

func (c nicCfg) toks() []string {
	return []string{lib.Hex(c.hostMAC), ipTok(c.hostIP), ipTok(c.hostLLA), lib.Hex(c.routerMAC), ipTok(c.routerIP), strconv.Itoa(c.mtu)}
}
func cfgOf(a []string) (nicCfg, []string) {
	m, _ := strconv.Atoi(a[5])
	return nicCfg{tokMAC(a[0]), tokIP(a[1]), tokIP(a[2]), tokMAC(a[3]), tokIP(a[4]), m}, a[6:]
}
func (c nicCfg) nic() *packet.NICInfo {
	n := &packet.NICInfo{
		IFI:         &net.Interface{MTU: c.mtu, Name: "eth0"},
		HomeLAN4:    lib.HomeLAN,
		HostAddr4:   packet.Addr{MAC: c.hostMAC, IP: c.hostIP},
		RouterAddr4: packet.Addr{MAC: c.routerMAC, IP: c.routerIP},
	}
	if c.hostIP.Is4() {
		n.HomeLAN4 = netip.PrefixFrom(c.hostIP, 24).Masked()
	}
	if c.hostLLA.IsValid() {
		n.HostLLA = netip.PrefixFrom(c.hostLLA, 64)
	}
	return n
}

func atoi(s string) int { v, _ := strconv.Atoi(s); return v }

func showFrames(fs [][]byte) string {
	if len(fs) == 0 {
		return "none"
	}
	s := ""
	for i, f := range fs {
		if i > 0 {
			s += ","
		}
		s += lib.Hex(f)
	}
	return s
}

// one session serves all direct send calls: the send paths only read NICInfo and Conn
var (
	sess *packet.Session
	conn *lib.RecConn
)

func withCfg(c nicCfg, seed int, f func(s *packet.Session)) string {
	if sess == nil {
		sess, conn = lib.NewSession()
	}
	sess.NICInfo = c.nic()
	conn.Take()
	poisonPool(seed)
	f(sess)
	return showFrames(conn.Take())
}

// ---------------------------------------------------------------- generators of addresses

type gen struct{ rng *lib.Rand }

func (g gen) mac() net.HardwareAddr {
	r := g.rng
	switch r.Intn(10) {
	case 0:
		return net.HardwareAddr{0xff, 0xff, 0xff, 0xff, 0xff, 0xff}
	case 1:
		return net.HardwareAddr{0x33, 0x33, r.Byte(), r.Byte(), r.Byte(), r.Byte()}
	case 2:
		return net.HardwareAddr{0, 0, 0, 0, 0, 0}
	}
	return net.HardwareAddr{r.Byte() &^ 1, r.Byte(), r.Byte(), r.Byte(), r.Byte(), r.Byte()}
}
// srcMAC is a MAC argument that is NOT the Ethernet destination (source Addr of a send function, ARP sender or
// target, NA target, DHCP chaddr): the NIC MAC, none, a foreign one, a short and a long one.
func (g gen) srcMAC(c nicCfg) net.HardwareAddr {
	r := g.rng
	switch r.Intn(10) {
	case 0, 1:
		return c.hostMAC
	case 2:
		return nil
	case 3:
		return net.HardwareAddr{0x02, r.Byte(), r.Byte()}
	case 4:
		return net.HardwareAddr{0x02, r.Byte(), r.Byte(), r.Byte(), r.Byte(), r.Byte(), r.Byte(), r.Byte()}
	case 5:
		return net.HardwareAddr{0, 0, 0, 0, 0, 0}
	}
	return g.mac()
}

func (g gen) ip4() netip.Addr {
	r := g.rng
	switch r.Intn(10) {
	case 0:
		return netip.AddrFrom4([4]byte{255, 255, 255, 255})
	case 1:
		return netip.AddrFrom4([4]byte{0, 0, 0, 0})
	case 2:
		return netip.AddrFrom4([4]byte{224, 0, 0, r.Byte()})
	case 3:
		return netip.AddrFrom4([4]byte{169, 254, r.Byte(), r.Byte()})
	case 4, 5:
		return netip.AddrFrom4([4]byte{192, 168, 0, r.Byte()})
	}
	return netip.AddrFrom4([4]byte{r.Byte(), r.Byte(), r.Byte(), r.Byte()})
}
func (g gen) ip6() netip.Addr {
	r := g.rng
	var a [16]byte
	copy(a[:], r.Bytes(16))
	switch r.Intn(10) {
	case 0, 1, 2:
		a[0], a[1] = 0xfe, 0x80|(r.Byte()&0x3f)
	case 3:
		a[0], a[1] = 0xff, 0x02
	case 4:
		a[0], a[1] = 0xff, r.Byte()
	case 5:
		a[0] = 0x20
	case 6: // 4-in-6 mapped
		a = [16]byte{10: 0xff, 11: 0xff, 12: 169, 13: 254, 14: r.Byte(), 15: r.Byte()}
		if r.Bool() {
			a[12], a[13], a[14] = 224, 0, 0
		}
	case 7:
		a = [16]byte{}
		a[15] = r.Byte()
	}
	return netip.AddrFrom16(a)
}
func (g gen) cfg() nicCfg {
	r := g.rng
	c := nicCfg{hostMAC: lib.HostMAC, hostIP: lib.HostIP4, hostLLA: lib.HostLLA, routerMAC: lib.RouterMAC, routerIP: lib.RouterIP4, mtu: 1500}
	switch r.Intn(4) {
	case 0: // standard
	case 1: // no IPv6
		c.hostLLA = netip.Addr{}
	default:
		c.hostMAC = net.HardwareAddr{r.Byte() &^ 1, r.Byte(), r.Byte(), r.Byte(), r.Byte(), r.Byte()}
		c.hostIP = netip.AddrFrom4([4]byte{10, r.Byte(), r.Byte(), 1 + r.Byte()%250})
		ll := [16]byte{0: 0xfe, 1: 0x80}
		copy(ll[8:], r.Bytes(8))
		c.hostLLA = netip.AddrFrom16(ll)
		c.routerMAC = net.HardwareAddr{r.Byte() &^ 1, r.Byte(), r.Byte(), r.Byte(), r.Byte(), r.Byte()}
		hip := c.hostIP.As4()
		c.routerIP = netip.AddrFrom4([4]byte{10, hip[1], hip[2], 254})
		c.mtu = r.Pick(1500, 1280, 9000, 576, 65535)
		if r.Chance(20) {
			c.hostLLA = netip.Addr{}
		}
	}
	return c
}
func (g gen) seed() string { return strconv.Itoa(g.rng.Intn(256)) }

// ---------------------------------------------------------------- main

func main() {
	// one P: sync.Pool then has a single private slot + shared queue, so draining it before a case
	// guarantees that every buffer the library (or a goroutine it starts) takes is a freshly poisoned one
	runtime.GOMAXPROCS(1)
	r := lib.Init()
	defer r.Close()
	rng := r.Rand()
	g := gen{rng}
	installPool()
	fastlog.DefaultIOWriter = io.Discard // the library logs every online transition

	// purgearp <cfg> ip seed : Session.arpRequest through purge (VerifPurge) for an online, stale IPv4 host
	reg(r, "purgearp", func(a []string) string {
		c, a := cfgOf(a)
		ip := tokIP(a[0])
		s, cn := lib.NewSessionWith(c.nic())
		defer func() { go s.Close() }()
		mac := net.HardwareAddr{0x02, 0x11, 0x22, 0x33, 0x44, 0x55}
		fr := lib.MkEther(c.hostMAC, mac, 0x0800, lib.MkIP4(ip, c.hostIP, 17, 64, lib.MkUDP(4000, 4000, []byte("x"))))
		if _, err := s.Parse(fr); err != nil {
			return "parse-error"
		}
		cn.Take()
		poisonPool(atoi(a[1]))
		s.VerifPurge(time.Now().Add(packet.DefaultProbeDeadline + time.Second))
		cn.WaitQuiet(20*time.Millisecond, 2*time.Second)
		// purge probes every stale online host (the router entry too): this case is the probe for ip
		var mine [][]byte
		for _, f := range cn.Take() {
			if len(f) >= 42 && bytes.Equal(f[38:42], ip.AsSlice()) {
				mine = append(mine, f)
			}
		}
		return showFrames(mine)
	})
	reg(r, "echo4", func(a []string) string {
		c, a := cfgOf(a)
		return withCfg(c, atoi(a[6]), func(s *packet.Session) {
			keep(s.ICMP4SendEchoRequest(packet.Addr{MAC: tokMAC(a[0]), IP: tokIP(a[1])}, packet.Addr{MAC: tokMAC(a[2]), IP: tokIP(a[3])}, uint16(atoi(a[4])), uint16(atoi(a[5]))))
		})
	})
	reg(r, "echo6", func(a []string) string {
		c, a := cfgOf(a)
		return withCfg(c, atoi(a[6]), func(s *packet.Session) {
			keep(s.ICMP6SendEchoRequest(packet.Addr{MAC: tokMAC(a[0]), IP: tokIP(a[1])}, packet.Addr{MAC: tokMAC(a[2]), IP: tokIP(a[3])}, uint16(atoi(a[4])), uint16(atoi(a[5]))))
		})
	})
	reg(r, "ns", func(a []string) string {
		c, a := cfgOf(a)
		return withCfg(c, atoi(a[5]), func(s *packet.Session) {
			keep(s.ICMP6SendNeighbourSolicitation(packet.Addr{MAC: tokMAC(a[0]), IP: tokIP(a[1])}, packet.Addr{MAC: tokMAC(a[2]), IP: tokIP(a[3])}, tokIP(a[4])))
		})
	})
	reg(r, "na", func(a []string) string {
		c, a := cfgOf(a)
		return withCfg(c, atoi(a[6]), func(s *packet.Session) {
			keep(s.ICMP6SendNeighborAdvertisement(packet.Addr{MAC: tokMAC(a[0]), IP: tokIP(a[1])}, packet.Addr{MAC: tokMAC(a[2]), IP: tokIP(a[3])}, packet.Addr{MAC: tokMAC(a[4]), IP: tokIP(a[5])}))
		})
	})
	registerPaths(r)
	r.Register("sites", func(a []string) string { return strings.Join(censusSites(r), ",") })
	r.Register("seq", func(a []string) string { return runSeq(r, a) })
	r.Register("wfail", func(a []string) string { return runFail(r, a) })
	r.Register("logs", func(a []string) string { return strings.Join(logCensus(r), ",") })
	r.Register("pool", func(a []string) string { return strings.Join(poolCensus(r), ",") })
	r.Register("reach", func(a []string) string { an, _ := reachCensus(r); return strings.Join(an, ",") })
	if r.Replayed() {
		return
	}

	census(r)
	// corpus first: witnesses of the recorded findings and of past disagreements (one case line per line)
	if dir := os.Getenv("VERIF_CORPUS"); dir != "" {
		files, _ := filepath.Glob(filepath.Join(dir, "*.txt"))
		for _, fn := range files {
			data, _ := os.ReadFile(fn)
			for _, l := range strings.Split(string(data), "\n") {
				f := strings.Fields(l)
				if len(f) < 8 || strings.HasPrefix(l, "#") {
					continue
				}
				obs := r.Do(f[0], f[1:]...)
				c, rest := cfgOf(f[1:])
				oracle(r, f[0], c, rest, obs)
				r.Stat("class.corpus", 1)
			}
		}
	}
	do := func(kind string, c nicCfg, args ...string) {
		all := append(c.toks(), args...)
		obs := r.Do(kind, all...)
		oracle(r, kind, c, args, obs)
		noteCase(kind, all, obs)
		r.Stat("class."+kind, 1)
	}
	n := 1500
	npurge := 40
	if r.Thorough() {
		n, npurge = 40000, 400
	}
	for i := 0; i < npurge; i++ {
		c := g.cfg()
		hip := c.hostIP.As4()
		ip := netip.AddrFrom4([4]byte{hip[0], hip[1], hip[2], 1 + rng.Byte()%200})
		if ip == c.hostIP || ip == c.routerIP {
			continue
		}
		do("purgearp", c, ipTok(ip), g.seed())
	}
	for i := 0; i < n; i++ {
		c := g.cfg()
		id, seq := strconv.Itoa(int(uint16(rng.U64()))), strconv.Itoa(int(uint16(rng.U64())))
		if rng.Chance(10) {
			id, seq = fmt.Sprint(rng.Pick(0, 1, 255, 256, 65535)), fmt.Sprint(rng.Pick(0, 1, 255, 256, 65535))
		}
		// the source Addr's MAC is never the Ethernet source (that is the NIC MAC): every class of it must give the same frame
		do("echo4", c, lib.Hex(g.srcMAC(c)), ipTok(g.ip4()), lib.Hex(g.mac()), ipTok(g.ip4()), id, seq, g.seed())
		do("echo6", c, lib.Hex(g.srcMAC(c)), ipTok(g.ip6()), lib.Hex(g.mac()), ipTok(g.ip6()), id, seq, g.seed())
		do("ns", c, lib.Hex(g.srcMAC(c)), ipTok(g.ip6()), lib.Hex(g.mac()), ipTok(g.ip6()), ipTok(g.ip6()), g.seed())
		tmac := g.mac() // NA target MAC = TLLA option: mostly valid, sometimes a MAC that cannot be advertised (refused)
		if rng.Chance(25) {
			tmac = g.srcMAC(c)
		}
		do("na", c, lib.Hex(g.srcMAC(c)), ipTok(g.ip6()), lib.Hex(g.mac()), ipTok(g.ip6()), lib.Hex(tmac), ipTok(g.ip6()), g.seed())
		if rng.Chance(5) { // wrong address family: the functions must refuse without sending
			do("echo4", c, lib.Hex(g.mac()), ipTok(g.ip6()), lib.Hex(g.mac()), ipTok(g.ip4()), id, seq, g.seed())
			do("echo6", c, lib.Hex(g.mac()), ipTok(g.ip6()), lib.Hex(g.mac()), ipTok(g.ip4()), id, seq, g.seed())
		}
	}
	generatePaths(r, g, do)
	// sequences: a refused send (every refusal class in turn), then ordinary sends, on the same pool
	nseq := 120
	if r.Thorough() {
		nseq = 4000
	}
	keysOf := func(m map[string][][]string) []string {
		ks := []string{}
		for k := range m {
			ks = append(ks, k)
		}
		sort.Strings(ks)
		return ks
	}
	kr, ks := keysOf(seqRefused), keysOf(seqSent)
	for i := 0; i < nseq && len(kr) > 0 && len(ks) > 0; i++ {
		pick := func(m map[string][][]string, k string) []string { return m[k][rng.Intn(len(m[k]))] }
		steps := [][]string{pick(seqSent, ks[rng.Intn(len(ks))]), pick(seqRefused, kr[i%len(kr)])}
		for j := 2 + rng.Intn(3); j > 0; j-- {
			steps = append(steps, pick(seqSent, ks[rng.Intn(len(ks))]))
		}
		if rng.Chance(40) {
			steps = append(steps, pick(seqRefused, kr[rng.Intn(len(kr))]), pick(seqSent, ks[rng.Intn(len(ks))]))
		}
		toks := []string{}
		for j, st := range steps {
			if j > 0 {
				toks = append(toks, "|")
			}
			toks = append(toks, st...)
		}
		r.Do("seq", toks...)
		r.Stat("class.seq", 1)
		r.Stat("class.seq.after-refused-"+kr[i%len(kr)], 1)
	}
	// transient send errors: the first write of a call fails
	nfail := 140
	if r.Thorough() {
		nfail = 4000
	}
	en := []string{"enobufs", "eagain", "eintr", "enetdown", "emsgsize", "generic", "closed"}
	for i := 0; i < nfail && len(ks) > 0; i++ {
		k := ks[i%len(ks)]
		st := seqSent[k][rng.Intn(len(seqSent[k]))]
		r.Do("wfail", append([]string{en[(i/len(ks))%len(en)]}, st...)...)
		r.Stat("class.wfail", 1)
		r.Stat("class.wfail."+en[(i/len(ks))%len(en)], 1)
	}
	carryBoundary(r, g, do)
	r.Sample("purgearp 005555555555 c0a80081 fe800000000000000000000000010129 006666666666 c0a8000b 1500 c0a80005 7 => ffffffff0604... (destination MAC bytes 4,5 overwritten by hlen/plen; arp hlen/plen stale)")
}

// ---------------------------------------------------------------- checksum carry boundaries

// leFold1 is the library's accumulation (little-endian words, odd tail byte) followed by its FIRST fold
// s>>16 + s&0xffff: the value whose range [0xffff, 0x10003] decides whether the second fold and the
// final complement are exercised at their edges.
func leFold1(b []byte) uint32 {
	var s uint32
	for i := 0; i+1 < len(b); i += 2 {
		s += uint32(b[i+1])<<8 | uint32(b[i])
	}
	if len(b)%2 == 1 {
		s += uint32(b[len(b)-1])
	}
	return s>>16 + s&0xffff
}

// steer searches a 16-bit value for the two bytes at off (big-endian) such that leFold1(b) == target.
func steer(b []byte, off int, target uint32) (uint16, bool) {
	for v := 0; v < 65536; v++ {
		b[off], b[off+1] = byte(v>>8), byte(v)
		if leFold1(b) == target {
			return uint16(v), true
		}
	}
	return 0, false
}

// carryBoundary adds echo requests whose ICMP sum (id steered), ICMPv6 pseudo-header sum (id steered) and
// IPv4 header sum (low half of the destination steered) land on every value of [0xffff, 0x10003] after the
// first fold.
func carryBoundary(r *lib.Run, g gen, do func(kind string, c nicCfg, args ...string)) {
	rng := g.rng
	reps := 3
	if r.Thorough() {
		reps = 40
	}
	hello := []byte("HELLO-NETFILTER")
	for rep := 0; rep < reps; rep++ {
		c := g.cfg()
		for target := uint32(0xfffe); target <= 0x10003; target++ {
			seq := uint16(rng.U64())
			// ICMPv4 message: type 8, code 0, checksum 0, id, seq, data
			m := append([]byte{8, 0, 0, 0, 0, 0, byte(seq >> 8), byte(seq)}, hello...)
			if id, ok := steer(m, 4, target); ok {
				do("echo4", c, lib.Hex(g.mac()), ipTok(g.ip4()), lib.Hex(g.mac()), ipTok(g.ip4()), strconv.Itoa(int(id)), strconv.Itoa(int(seq)), g.seed())
				r.Stat("class.carry.icmp4", 1)
			}
			// IPv4 header as CalculateChecksum sees it: bytes 0..9, 12..19, two zero bytes
			src, dst := g.ip4().As4(), g.ip4().As4()
			h := []byte{0x45, 0xc0, 0, 43, 0, 0, 0, 0, 50, 1, src[0], src[1], src[2], src[3], dst[0], dst[1], 0, 0, 0, 0}
			if lo, ok := steer(h, 16, target); ok {
				d := netip.AddrFrom4([4]byte{dst[0], dst[1], byte(lo >> 8), byte(lo)})
				do("echo4", c, lib.Hex(g.mac()), ipTok(netip.AddrFrom4(src)), lib.Hex(g.mac()), ipTok(d), strconv.Itoa(int(uint16(rng.U64()))), strconv.Itoa(int(seq)), g.seed())
				r.Stat("class.carry.ip4hdr", 1)
			}
			// ICMPv6: pseudo header (src, dst, length, next header) + message
			s6, d6 := g.ip6(), g.ip6()
			sa, da := s6.As16(), d6.As16()
			p := append(append(append([]byte{}, sa[:]...), da[:]...), 0, 0, 0, 23, 0, 0, 0, 58)
			p = append(p, 128, 0, 0, 0, 0, 0, byte(seq>>8), byte(seq))
			p = append(p, hello...)
			if id, ok := steer(p, 44, target); ok {
				do("echo6", c, lib.Hex(g.mac()), ipTok(s6), lib.Hex(g.mac()), ipTok(d6), strconv.Itoa(int(id)), strconv.Itoa(int(seq)), g.seed())
				r.Stat("class.carry.icmp6", 1)
			}
		}
		// UDP over IPv6 (sleep proxy response): DNS id steered so that the library's Checksum of pseudo header +
		// datagram is 0 (sent as 0xffff), 1, 0xffff, 0xfffe
		s6 := g.ip6()
		pre := []string{lib.Hex(g.srcMAC(c)), ipTok(s6), lib.Hex(g.mac()), ipTok(netip.MustParseAddr("ff02::fb")), "5353"}
		probe := r.Exec("sleepproxy", append(append(c.toks(), pre...), "0000"))
		if f := lib.UnHex(probe); len(f) > 62+12 && f[12] == 0x86 {
			udp := append([]byte{}, f[54:]...)
			udp[6], udp[7] = 0, 0
			psh := append(append([]byte{}, f[22:54]...), 0, 0, byte(len(udp)>>8), byte(len(udp)), 0, 0, 0, 17)
			psh = append(psh, udp...)
			for _, want := range []uint16{0, 1, 0xffff, 0xfffe} {
				for id := 0; id < 65536; id++ {
					psh[48], psh[49] = byte(id>>8), byte(id)
					s1 := leFold1(psh)
					if ^uint16(s1+s1>>16) == want {
						pl := append([]byte{}, psh[48:]...)
						do("sleepproxy", c, append(append([]string{}, pre...), lib.Hex(pl))...)
						r.Stat("class.carry.udp6", 1)
						break
					}
				}
			}
		}
	}
}
