// C06: online/offline/name-change notifications report every transition exactly once.
// Histories under the property's discipline (Notify after each Parse, channel drained after every
// step); the drained notifications of every step are compared with the model, and on the pure
// frame/purge fragment with the expectation derived from the changes of the C04 reference model.
package main

import (
	"strconv"
	"strings"

	"pvharness/cmd/c05/tables"
	"pvharness/lib"
)

func main() {
	r := lib.Init()
	defer r.Close()
	tables.Quiet()
	rng := r.Rand()

	// t6 <cfg> <t0> <op>... : full notification contents after every op
	r.Register("t6", func(a []string) string {
		cfg := tables.ParseCfg(a[0])
		t0, _ := strconv.ParseInt(a[1], 10, 64)
		sm := tables.NewSim(cfg, t0)
		defer sm.Close()
		var tr []string
		for _, op := range a[2:] {
			out := sm.Apply(op)
			if sm.Dead {
				tr = append(tr, out)
				break
			}
			tr = append(tr, sm.DrainShown(op[0] == 'P', false))
		}
		return strings.Join(tr, ";")
	})
	// t6n <cfg> <t0> <op>... : no implicit drain (outside the discipline): the 128-slot channel fills up; every op's output
	// (the D ops carry what they drained) and the final channel length
	r.Register("t6n", func(a []string) string {
		cfg := tables.ParseCfg(a[0])
		t0, _ := strconv.ParseInt(a[1], 10, 64)
		sm := tables.NewSim(cfg, t0)
		defer sm.Close()
		var tr []string
		for _, op := range a[2:] {
			tr = append(tr, sm.Apply(op))
			if sm.Dead {
				return strings.Join(tr, ";")
			}
		}
		tr = append(tr, "len="+strconv.Itoa(len(sm.S.C)))
		return strings.Join(tr, ";")
	})
	// t6c <cfg> <t0> <ips> <op>... : (address/online) pairs per unit of the pure discipline
	r.Register("t6c", func(a []string) string {
		cfg := tables.ParseCfg(a[0])
		t0, _ := strconv.ParseInt(a[1], 10, 64)
		sm := tables.NewSim(cfg, t0)
		defer sm.Close()
		var tr []string
		ops := a[3:]
		for i := 0; i < len(ops); i++ {
			op := ops[i]
			out := sm.Apply(op)
			if (op[0] == 'R' || op[0] == 'B') && i+1 < len(ops) && ops[i+1] == "N" && !sm.Dead {
				// the channel is only read after Notify: a unit is Parse;Notify
				i++
				out = sm.Apply("N")
			}
			if sm.Dead {
				tr = append(tr, out)
				break
			}
			tr = append(tr, sm.DrainShown(op[0] == 'P', true))
		}
		return strings.Join(tr, ";")
	})
	// rt <cfg> <observation> <t0B> <t0C> <ops B...> <ops C...>: a RECORDED real-time execution (tables/realtime.go): the
	// observation was taken from the library while the schedule ran with real sleeps; the model gets the measured intervals
	r.Register("rt", func(a []string) string { return a[1] })
	if r.Replayed() {
		return
	}

	cfg := tables.StdCfg()
	g := &tables.Gen{U: tables.StdUniverse(), Rng: rng, Discipline: true}
	rtBatch(r, rng)
	// op pairs on one MAC in every order (SetDHCPv4IPOffer x DHCPv4Update x frame x purge), client online / offline / unknown
	for i := 0; i < 432; i += 1 + rng.Intn(2) {
		ops := g.OfferPairHistory(i)
		r.Do("t6", append([]string{cfg.Tok(), "0"}, ops...)...)
		ips6, _ := tables.Candidates(cfg, ops)
		r.Do("t6c", append([]string{cfg.Tok(), "0", tables.IPsTok(ips6)}, ops...)...)
		r.Stat("class.offer-pairs", 1)
	}
	// the address-class domain and the NICInfo domain: every class of IPv4 / IPv6 source x {router, own, client, new MAC} x
	// {IP frame, ARP / NDP}, under the standard configuration and under every NICInfo variant
	{
		envs := append([]tables.Cfg{tables.StdCfg()}, tables.EnvCfgs()...)
		nCls := 6
		if r.Thorough() {
			nCls = 60
		}
		k := 0
		for _, ec := range envs {
			for i := 0; i < nCls; i++ {
				ops := g.AddressClassHistory(ec, k)
				k++
				if i%3 == 1 {
					ops = tables.RawOps(ops, rng, 0, func(s string) { r.Stat(s, 1) })
				}
				r.Do("t6", append([]string{ec.Tok(), "0"}, ops...)...)
				ips6, _ := tables.Candidates(ec, ops)
				r.Do("t6c", append([]string{ec.Tok(), "0", tables.IPsTok(ips6)}, ops...)...)
				r.Stat("class.address-class-x-nicinfo", 1)
			}
			for i := 0; i < 3; i++ { // the usual histories under this NICInfo
				ops := g.ConflictHistory(6 + rng.Intn(20))
				r.Do("t6", append([]string{ec.Tok(), "0"}, ops...)...)
				ips6, _ := tables.Candidates(ec, ops)
				r.Do("t6c", append([]string{ec.Tok(), "0", tables.IPsTok(ips6)}, ops...)...)
				r.Stat("class.nicinfo-conflict", 1)
			}
		}
	}
	nShort, nLong := 300, 400
	if r.Thorough() {
		nShort, nLong = 3000, 10000
	}
	stat := func(ops []string) {
		for _, o := range ops {
			r.Stat("op."+o[:1], 1)
		}
	}
	// directed: the DHCP path of Notify (frame without host, classified DHCPv4, address taken from the MAC's
	// IP4Offer) around an offered address that is online / aged out / renamed / superseded
	u := g.U
	for i := 0; i < 40; i++ {
		m := u.MACs[2+rng.Intn(3)]
		ip := u.IP4s[2+rng.Intn(3)]
		dhcp := func(now int64) string { return tables.RxTok(m, "4", u.IP4s[6], nil, 3, now) }
		ops := []string{"U," + tables.MacTok(m) + "," + tables.IPTok(ip) + "," + strconv.Itoa(rng.Pick(1, 1001, 2101)) + ",10", dhcp(20), "N"}
		now := int64(20)
		for j := 0; j < 2+rng.Intn(5); j++ {
			switch rng.Intn(5) {
			case 0:
				now += int64(rng.Pick(100, 301, 4000))
				ops = append(ops, "P,"+strconv.FormatInt(now, 10))
			case 1:
				ops = append(ops, "M,"+strconv.Itoa(rng.Intn(5))+","+tables.IPTok(ip)+","+strconv.Itoa(rng.Pick(1, 2, 1001, 2002, 120, 2110)))
			case 2:
				now += 5
				ops = append(ops, dhcp(now), "N")
			case 3:
				now += 5
				ops = append(ops, tables.RxTok(m, "4", u.IP4s[2+rng.Intn(3)], nil, 0, now), "N")
			case 4:
				now += 5
				ops = append(ops, "U,"+tables.MacTok(m)+","+tables.IPTok(u.IP4s[2+rng.Intn(3)])+","+strconv.Itoa(rng.Pick(2, 1001, 2102))+","+strconv.FormatInt(now, 10))
			}
		}
		now += 5
		ops = append(ops, dhcp(now), "N")
		r.Do("t6", append([]string{cfg.Tok(), "0"}, ops...)...)
		r.Stat("class.dhcp-path-directed", 1)
	}
	// bounded-exhaustive under the discipline (N after every frame): depth 1..2, depth 1..4 in thorough
	maxDepth := 3
	if r.Thorough() {
		maxDepth = 4
	}
	for d := 1; d <= maxDepth; d++ {
		tables.Exhaustive(u, d, true, func(ops []string) {
			r.Do("t6", append([]string{cfg.Tok(), "0"}, ops...)...)
			r.Stat("class.exhaustive", 1)
		})
	}
	nConf, nDHCP, nName := 400, 500, 400
	if r.Thorough() {
		nConf, nDHCP, nName = 8000, 10000, 8000
	}
	for i := 0; i < nDHCP; i++ {
		ops := g.DHCPExchangeHistory()
		if i%3 == 1 {
			ops = tables.RawOps(ops, rng, 10, func(k string) { r.Stat(k, 1) })
		}
		r.Do("t6", append([]string{cfg.Tok(), "0"}, ops...)...)
		r.Stat("class.dhcp-exchange", 1)
		// the same class against the reference (kind t6c)
		ops2 := g.DHCPExchangeHistory()
		ips2, _ := tables.Candidates(cfg, ops2)
		r.Do("t6c", append([]string{cfg.Tok(), "0", tables.IPsTok(ips2)}, ops2...)...)
	}
	// the three deadlines: every accepted ordering, equal, tiny and huge values; purges straddling each cutoff for an
	// address offline by ageing and by IPv4 supersession (notifications: offline once when it ages, nothing when removed)
	nDl := 5
	if r.Thorough() {
		nDl = 100
	}
	for _, dc := range tables.DeadlineCfgs() {
		for i := 0; i < nDl; i++ {
			ops := g.DeadlineHistory(dc)
			r.Do("t6", append([]string{dc.Tok(), "0"}, ops...)...)
			ops2 := g.DeadlineHistory(dc)
			ips2, _ := tables.Candidates(dc, ops2)
			r.Do("t6c", append([]string{dc.Tok(), "0", tables.IPsTok(ips2)}, ops2...)...)
			r.Stat("class.deadlines", 1)
		}
	}
	// large tables under the discipline: one MAC above 32 / 64 / 128 addresses (more than the channel holds), 150 MACs
	for _, n := range []int{40, 130} {
		var ops []string
		for _, o := range g.ManyAddrsHistory(n, true) {
			if o != "S" {
				ops = append(ops, o)
			}
		}
		r.Do("t6", append([]string{cfg.Tok(), "0"}, ops...)...)
		r.Stat("class.many-addresses-per-mac", 1)
	}
	// outside the discipline: the channel is not drained and fills to its 128 slots (sendNotification drops, makeOffline has
	// cleared the pending mark: the transition is lost), a second Notify with the same Frame (must be silent)
	for i := 0; i < 6; i++ {
		r.Do("t6n", append([]string{cfg.Tok(), "0"}, g.FullChannelHistory(120+rng.Intn(20))...)...)
		r.Stat("class.full-channel", 1)
	}
	for i := 0; i < 60; i++ {
		var ops []string
		for _, o := range g.ConflictHistory(6 + rng.Intn(20)) {
			ops = append(ops, o)
			if o == "N" && rng.Chance(50) {
				ops = append(ops, "N") // Notify twice with the same Frame
			}
			if rng.Chance(15) {
				ops = append(ops, "D")
			}
		}
		ok := true
		for _, o := range ops {
			if o[0] == 'P' { // inside a purge the emission order is the map's
				ok = false
			}
		}
		if ok {
			r.Do("t6n", append([]string{cfg.Tok(), "0"}, append(ops, "D")...)...)
			r.Stat("class.notify-twice", 1)
		}
	}
	// learned names over all four attributes, identical repeats through every source
	for i := 0; i < nName; i++ {
		ops := g.NameRepeatHistory()
		r.Do("t6", append([]string{cfg.Tok(), "0"}, ops...)...)
		r.Stat("class.name-repeat", 1)
		ops2 := g.NameRepeatHistory()
		if i%4 == 1 {
			ops2 = tables.RawOps(ops2, rng, 0, func(k string) { r.Stat(k, 1) })
		}
		ips2, _ := tables.Candidates(cfg, ops2)
		r.Do("t6c", append([]string{cfg.Tok(), "0", tables.IPsTok(ips2)}, ops2...)...)
	}
	for i := 0; i < nConf; i++ {
		var ops []string
		if i%4 == 3 {
			ops = g.OfferDeletionHistory()
		} else if i%4 == 2 {
			ops = g.QuietAddressHistory()
		} else {
			ops = g.ConflictHistory(6 + rng.Intn(25))
		}
		if i%3 != 0 {
			ops = tables.RawOps(ops, rng, 20, func(k string) { r.Stat(k, 1) })
		}
		r.Do("t6", append([]string{cfg.Tok(), "0"}, ops...)...)
		r.Stat("class.conflict", 1)
	}
	for i := 0; i < nShort+nLong; i++ {
		n := 30 + rng.Intn(31)
		if i < nShort {
			n = 1 + rng.Intn(3)
		}
		ops := g.History(n)
		if i%3 != 0 {
			ops = tables.RawOps(ops, rng, 20, func(k string) { r.Stat(k, 1) })
		}
		r.Do("t6", append([]string{cfg.Tok(), "0"}, ops...)...)
		stat(ops)
		pure := g.PureHistory(n)
		if i%3 != 0 {
			pure = tables.RawOps(pure, rng, 15, func(k string) { r.Stat(k, 1) })
		}
		ips, _ := tables.Candidates(cfg, pure)
		r.Do("t6c", append([]string{cfg.Tok(), "0", tables.IPsTok(ips)}, pure...)...)
		stat(pure)
	}
}

// rtBatch: real-time histories in parallel sessions (about 8 s of wall time in quick)
func rtBatch(r *lib.Run, rng *lib.Rand) {
	n := 120
	if r.Thorough() {
		n = 1200
	}
	for _, res := range tables.RealTimeBatch(rng, n, 40) {
		if res.Ambiguous {
			r.Stat("rt.timing-ambiguous-discarded", 1)
			continue
		}
		r.Do("rt", res.Args...)
		r.Stat("class.real-time", 1)
	}
}
