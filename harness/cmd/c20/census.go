package main

// Census (source-derived, every run): what the model lists is what the source has.
//   census line    exported methods of *fastlog.Line (reflection)
//   census logger  exported methods of *fastlog.Logger (reflection)
//   census fastlog every type in $VERIF_REPO that implements FastLog(*fastlog.Line) *fastlog.Line (go/ast, no _test files)
//   census consts  bufSize, hexAscii, byteAscii as written in fastlog/logging.go (go/ast)
// The model side (Extract/D20.v) answers with its own lists; a new method or implementation, a changed constant
// or table entry is a disagreement; renaming a local or reordering declarations is not.

import (
	"go/ast"
	"go/parser"
	"go/token"
	"os"
	"path/filepath"
	"reflect"
	"sort"
	"strings"

	"github.com/irai/packet/fastlog"
	"pvharness/lib"
)

func methodsOf(v interface{}) string {
	t := reflect.TypeOf(v)
	var m []string
	for i := 0; i < t.NumMethod(); i++ {
		m = append(m, t.Method(i).Name)
	}
	sort.Strings(m)
	return strings.Join(m, ",")
}

func repoRoot() string {
	if r := os.Getenv("VERIF_REPO"); r != "" {
		return r
	}
	return "/repo"
}

func fastlogImplementers() string {
	var out []string
	filepath.Walk(repoRoot(), func(path string, info os.FileInfo, err error) error {
		if err != nil {
			return nil
		}
		if info.IsDir() {
			if n := info.Name(); strings.HasPrefix(n, ".") && path != repoRoot() {
				return filepath.SkipDir
			}
			return nil
		}
		if !strings.HasSuffix(path, ".go") || strings.HasSuffix(path, "_test.go") {
			return nil
		}
		f, perr := parser.ParseFile(token.NewFileSet(), path, nil, 0)
		if perr != nil {
			return nil
		}
		for _, d := range f.Decls {
			fd, ok := d.(*ast.FuncDecl)
			if !ok || fd.Recv == nil || fd.Name.Name != "FastLog" || len(fd.Recv.List) != 1 {
				continue
			}
			t := fd.Recv.List[0].Type
			if s, ok := t.(*ast.StarExpr); ok {
				t = s.X
			}
			if id, ok := t.(*ast.Ident); ok {
				out = append(out, f.Name.Name+"."+id.Name)
			}
		}
		return nil
	})
	sort.Strings(out)
	return strings.Join(out, ",")
}

func constsOfLogging() string {
	f, err := parser.ParseFile(token.NewFileSet(), filepath.Join(repoRoot(), "fastlog", "logging.go"), nil, 0)
	if err != nil {
		return "parse-error"
	}
	res := map[string]string{}
	lits := func(e ast.Expr) string {
		cl, ok := e.(*ast.CompositeLit)
		if !ok {
			return "?"
		}
		var v []string
		for _, x := range cl.Elts {
			if b, ok := x.(*ast.BasicLit); ok {
				v = append(v, strings.Trim(b.Value, "\"'"))
			}
		}
		return strings.Join(v, "")
	}
	for _, d := range f.Decls {
		gd, ok := d.(*ast.GenDecl)
		if !ok {
			continue
		}
		for _, sp := range gd.Specs {
			vs, ok := sp.(*ast.ValueSpec)
			if !ok || len(vs.Names) != 1 || len(vs.Values) != 1 {
				continue
			}
			switch vs.Names[0].Name {
			case "bufSize":
				if b, ok := vs.Values[0].(*ast.BasicLit); ok {
					res["bufSize"] = b.Value
				}
			case "hexAscii":
				res["hexAscii"] = lits(vs.Values[0])
			case "byteAscii":
				cl := vs.Values[0].(*ast.CompositeLit)
				var v []string
				for _, x := range cl.Elts {
					v = append(v, strings.Trim(x.(*ast.BasicLit).Value, "\""))
				}
				res["byteAscii"] = strings.Join(v, ".")
			}
		}
	}
	return "bufSize=" + res["bufSize"] + ";hexAscii=" + res["hexAscii"] + ";byteAscii=" + res["byteAscii"]
}

func registerCensus(r *lib.Run) {
	r.Register("census", func(a []string) string {
		switch a[0] {
		case "line":
			return methodsOf(&fastlog.Line{})
		case "logger":
			return methodsOf(&fastlog.Logger{})
		case "fastlog":
			return fastlogImplementers()
		case "consts":
			return constsOfLogging()
		case "pool":
			return poolSites()
		case "stdlib":
			return stdlibCalls()
		}
		panic("harness: unknown census " + a[0])
	})
}

func censusCases(g *gen) {
	for _, k := range []string{"line", "logger", "fastlog", "consts", "pool", "stdlib"} {
		g.r.Do("census", k)
	}
}
