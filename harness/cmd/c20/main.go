// C20: fastlog appenders against the Coq model (Model/Fastlog.v) and the reference
// renderings (Spec/TextSpec.v); the reference renderings against the Go standard
// library; String/FastLog of views and table entries under recover.
//
// A case is a Line in a chosen state (buffer filled with one byte, index set through
// reflect/unsafe so that every index 0..2048 is reachable without writing) followed by a
// sequence of appender calls; the observation is "t:"+hex(ToString()) or "panic".
package main

import (
	"bytes"
	"encoding/hex"
	"errors"
	"fmt"
	"math"
	"net"
	"net/netip"
	"os"
	"reflect"
	"strconv"
	"strings"
	"time"
	"unsafe"

	"github.com/irai/packet/fastlog"
	"pvharness/lib"
)

const bufSize = 2048

// ---------------------------------------------------------------- access to the unexported Line fields

type lineAccess struct {
	l   *fastlog.Line
	buf []byte
	idx *int
}

func access(l *fastlog.Line) lineAccess {
	v := reflect.ValueOf(l).Elem()
	b := v.FieldByName("buffer")
	i := v.FieldByName("index")
	if !b.IsValid() || !i.IsValid() || b.Kind() != reflect.Array || b.Len() != bufSize || i.Kind() != reflect.Int {
		fmt.Fprintln(os.Stderr, "c20: fastlog.Line no longer has buffer [2048]byte / index int; the model's state does not apply")
		os.Exit(3)
	}
	return lineAccess{l: l,
		buf: unsafe.Slice((*byte)(unsafe.Pointer(b.UnsafeAddr())), bufSize),
		idx: (*int)(unsafe.Pointer(i.UnsafeAddr()))}
}

func newLine(fill byte, index int) *fastlog.Line {
	l := new(fastlog.Line)
	a := access(l)
	for i := range a.buf {
		a.buf[i] = fill
	}
	*a.idx = index
	return l
}

// ---------------------------------------------------------------- op tokens -> real calls

type strg struct{ s string }

func (s *strg) String() string { return s.s }

func unhexOpt(s string) ([]byte, bool) { // "n" = nil
	if s == "n" {
		return nil, false
	}
	b := lib.UnHex(s)
	if b == nil {
		b = []byte{}
	}
	return b, true
}

func list(s string) []string {
	if s == "_" {
		return nil
	}
	return strings.Split(s, ",")
}

func atoi(s string) int64 {
	v, err := strconv.ParseInt(s, 10, 64)
	if err != nil {
		panic("harness: bad integer " + s)
	}
	return v
}

func addrOf(b []byte) netip.Addr {
	switch len(b) {
	case 4:
		var a [4]byte
		copy(a[:], b)
		return netip.AddrFrom4(a)
	case 16:
		var a [16]byte
		copy(a[:], b)
		return netip.AddrFrom16(a)
	}
	panic("harness: bad address length")
}

func apply(l *fastlog.Line, tok string) *fastlog.Line {
	if strings.HasPrefix(tok, "st=") {
		if tok == "st=n" {
			return l.Struct(nil)
		}
		if tok == "st=n2" {
			var p *opsLogger
			return l.Struct(p)
		}
		o := opsLogger(strings.Split(tok[3:], "+"))
		return l.Struct(&o)
	}
	f := strings.Split(tok, ":")
	name := ""
	if len(f) > 1 && f[1] != "n" {
		name = string(lib.UnHex(f[1]))
	}
	switch f[0] {
	case "u8":
		return l.Uint8(name, uint8(atoi(f[2])))
	case "u16":
		return l.Uint16(name, uint16(atoi(f[2])))
	case "u32":
		return l.Uint32(name, uint32(atoi(f[2])))
	case "x8":
		return l.Uint8Hex(name, uint8(atoi(f[2])))
	case "x16":
		return l.Uint16Hex(name, uint16(atoi(f[2])))
	case "int":
		return l.Int(name, int(atoi(f[2])))
	case "b":
		return l.Bool(name, f[2] == "T")
	case "mac":
		return l.MAC(name, net.HardwareAddr(lib.UnHex(f[2])))
	case "ips":
		b, ok := unhexOpt(f[2])
		if !ok {
			return l.IPSlice(name, nil)
		}
		return l.IPSlice(name, net.IP(b))
	case "ip":
		b, ok := unhexOpt(f[2])
		if !ok {
			return l.IP(name, netip.Addr{})
		}
		return l.IP(name, addrOf(b))
	case "s":
		return l.String(name, string(lib.UnHex(f[2])))
	case "by":
		return l.Bytes(name, lib.UnHex(f[2]))
	case "lab":
		return l.Label(name)
	case "err":
		return l.Error(errors.New(name))
	case "sgr":
		if f[1] == "n" {
			var p *strg
			return l.Stringer(p)
		}
		return l.Stringer(&strg{name})
	case "dur":
		return l.Duration(name, time.Duration(atoi(f[2])))
	case "time":
		return l.Time(name, time.Unix(0, atoi(f[2])).UTC())
	case "spf":
		return l.Sprintf(name, string(lib.UnHex(f[2])))
	case "spfi":
		return l.Sprintf(name, atoi(f[2]))
	case "spff":
		bits, err := strconv.ParseUint(f[2], 10, 64)
		if err != nil {
			panic("harness: bad float bits")
		}
		return l.Sprintf(name, math.Float64frombits(bits))
	case "tz", "tzm":
		t := time.UnixMilli(atoi(f[2])).In(time.FixedZone("", int(atoi(f[3]))))
		if f[0] == "tzm" { // the same instant carrying a monotonic clock reading
			base := time.Now()
			t = base.Add(t.Sub(base)).In(t.Location())
		}
		return l.Time(name, t)
	case "lf":
		return l.LF()
	case "mod":
		return l.Module(name, string(lib.UnHex(f[2])))
	case "sa":
		var v []string
		for _, e := range list(f[2]) {
			v = append(v, string(lib.UnHex(e)))
		}
		return l.StringArray(name, v)
	case "ia":
		var v []net.IP
		for _, e := range list(f[2]) {
			b, ok := unhexOpt(e)
			if !ok {
				v = append(v, nil)
			} else {
				v = append(v, net.IP(b))
			}
		}
		return l.IPArray(name, v)
	case "ba":
		return l.ByteArray(name, lib.UnHex(f[2]))
	}

	panic("harness: unknown op " + tok)
}

// opsLogger: a FastLog implementation that performs the given calls
type opsLogger []string

func (o *opsLogger) FastLog(l *fastlog.Line) *fastlog.Line {
	for _, t := range *o {
		l = apply(l, t)
	}
	return l
}

func obsText(b []byte) string { return "t:" + hex.EncodeToString(b) }

func runLine(args []string, write bool) string {
	fill := byte(atoi(args[0]))
	l := newLine(fill, int(atoi(args[1])))
	for _, tok := range args[2:] {
		l = apply(l, tok)
	}
	if write {
		var w bytes.Buffer
		fastlog.DefaultIOWriter = &w
		l.Write()
		return obsText(w.Bytes())
	}
	return obsText([]byte(l.ToString()))
}

func runMsg(args []string) string {
	fill := byte(atoi(args[0]))
	l := fastlog.New(string(lib.UnHex(args[1]))).Msg(string(lib.UnHex(args[2])))
	a := access(l)
	if *a.idx >= 0 && *a.idx <= bufSize {
		for i := *a.idx; i < bufSize; i++ { // what a pooled buffer holds beyond the index is the model's FILL
			a.buf[i] = fill
		}
	}
	for _, tok := range args[3:] {
		l = apply(l, tok)
	}
	return obsText([]byte(l.ToString()))
}

// ---------------------------------------------------------------- generators

type gen struct {
	r   *lib.Run
	rng *lib.Rand
}

var nameChars = "abcdefghijklmnopqrstuvwxyzABCDEFGHIJKLMNOPQRSTUVWXYZ0123456789_-."

func (g *gen) asciiN(n int) []byte {
	b := make([]byte, n)
	for i := range b {
		b[i] = nameChars[g.rng.Intn(len(nameChars))]
	}
	return b
}

func (g *gen) name() string {
	switch g.rng.Intn(12) {
	case 0:
		return "-"
	case 1:
		return lib.Hex(g.rng.Bytes(1 + g.rng.Intn(4))) // arbitrary bytes
	case 2:
		return lib.Hex(g.asciiN(10 + g.rng.Intn(30)))
	}
	return lib.Hex(g.asciiN(1 + g.rng.Intn(8)))
}

func (g *gen) textN(max int) []byte {
	if g.rng.Chance(10) {
		return g.rng.Bytes(g.rng.Intn(max + 1))
	}
	return g.asciiN(g.rng.Intn(max + 1))
}

var groupVals = []uint16{0, 0, 0, 1, 0xf, 0x10, 0xff, 0x100, 0xfff, 0x1000, 0xffff, 0xa0b, 0xab0, 0x0a00, 0xfe80, 0x2001, 0xdb8}

func (g *gen) ip6() []byte {
	b := make([]byte, 16)
	mode := g.rng.Intn(10)
	mask := g.rng.Intn(256)
	for i := 0; i < 8; i++ {
		var v uint16
		switch {
		case mode < 6: // zero layout from mask, non-zero groups from the boundary list or random
			if mask>>i&1 == 0 {
				v = groupVals[3+g.rng.Intn(len(groupVals)-3)]
				if g.rng.Chance(40) {
					v = uint16(g.rng.U64()) | 1
				}
			}
		case mode < 8:
			v = groupVals[g.rng.Intn(len(groupVals))]
		default:
			v = uint16(g.rng.U64())
		}
		b[2*i], b[2*i+1] = byte(v>>8), byte(v)
	}
	if g.rng.Chance(4) { // IPv4-mapped
		copy(b, []byte{0, 0, 0, 0, 0, 0, 0, 0, 0, 0, 0xff, 0xff})
	}
	return b
}

var byteVals = []byte{0, 1, 9, 10, 15, 16, 99, 100, 127, 128, 159, 160, 199, 200, 249, 250, 254, 255}

func (g *gen) bval() byte {
	if g.rng.Chance(50) {
		return byteVals[g.rng.Intn(len(byteVals))]
	}
	return g.rng.Byte()
}

func (g *gen) ip4() []byte { return []byte{g.bval(), g.bval(), g.bval(), g.bval()} }

var u32Vals = []uint32{0, 1, 9, 10, 99, 100, 999, 1000, 9999, 10000, 99999, 100000, 999999, 1000000, 9999999, 10000000,
	99999999, 100000000, 999999999, 1000000000, 4294967295, 4294967294, 2147483647, 2147483648, 65535, 65536, 255, 256}

var intVals = []int64{0, 1, -1, 9, 10, -10, 99, 100, 2147483647, 2147483648, -2147483648, -2147483649, 4294967295, 4294967296,
	9223372036854775807, -9223372036854775808, -9223372036854775807, 1000000000000000000, 999999999999999999}

// scalar ops (text never longer than a few hundred bytes)
func (g *gen) scalar() string {
	n := g.name()
	rng := g.rng
	switch rng.Intn(22) {
	case 0:
		return fmt.Sprintf("u8:%s:%d", n, g.bval())
	case 1:
		return fmt.Sprintf("u16:%s:%d", n, uint16(rng.U64()>>uint(rng.Intn(16))))
	case 2:
		if rng.Bool() {
			return fmt.Sprintf("u32:%s:%d", n, u32Vals[rng.Intn(len(u32Vals))])
		}
		return fmt.Sprintf("u32:%s:%d", n, uint32(rng.U64())>>uint(rng.Intn(32)))
	case 3:
		return fmt.Sprintf("x8:%s:%d", n, g.bval())
	case 4:
		return fmt.Sprintf("x16:%s:%d", n, uint16(rng.U64()>>uint(rng.Intn(16))))
	case 5:
		v := intVals[rng.Intn(len(intVals))]
		if rng.Bool() {
			v = int64(rng.U64()) >> uint(rng.Intn(64))
		}
		return fmt.Sprintf("int:%s:%d:%s", n, v, lib.Hex([]byte(strconv.FormatInt(v, 10))))
	case 6:
		return fmt.Sprintf("b:%s:%s", n, map[bool]string{true: "T", false: "F"}[rng.Bool()])
	case 7, 8:
		m := []byte{g.bval(), g.bval(), g.bval(), g.bval(), g.bval(), g.bval()}
		if rng.Chance(8) {
			m = rng.Bytes(rng.Pick(0, 1, 5, 7, 8, 20))
		}
		return fmt.Sprintf("mac:%s:%s", n, lib.Hex(m))
	case 9, 10:
		return fmt.Sprintf("ips:%s:%s", n, lib.Hex(g.ip4()))
	case 11, 12, 13:
		if rng.Chance(6) {
			return fmt.Sprintf("ips:%s:%s", n, []string{"n", "-", "00", "0102030405", lib.Hex(rng.Bytes(15)), lib.Hex(rng.Bytes(17))}[rng.Intn(6)])
		}
		return fmt.Sprintf("ips:%s:%s", n, lib.Hex(g.ip6()))
	case 14, 15:
		if rng.Chance(5) {
			return fmt.Sprintf("ip:%s:n:-", n)
		}
		b := g.ip4()
		if rng.Bool() {
			b = g.ip6()
		}
		return fmt.Sprintf("ip:%s:%s:%s", n, lib.Hex(b), lib.Hex([]byte(addrOf(b).String())))
	case 16:
		return fmt.Sprintf("s:%s:%s", n, lib.Hex(g.textN(40)))
	case 17:
		return fmt.Sprintf("by:%s:%s", n, lib.Hex(g.textN(40)))
	case 18:
		return fmt.Sprintf("lab:%s", n)
	case 19:
		switch rng.Intn(4) {
		case 0:
			return fmt.Sprintf("err:%s", lib.Hex(g.textN(30)))
		case 1:
			if rng.Chance(20) {
				return "sgr:n"
			}
			return fmt.Sprintf("sgr:%s", lib.Hex(g.textN(30)))
		case 2:
			return "lf"
		}
		return fmt.Sprintf("mod:%s:%s", lib.Hex(g.asciiN(rng.Intn(9))), lib.Hex(g.textN(20)))
	case 20:
		if rng.Bool() {
			d := time.Duration(int64(rng.U64()) >> uint(rng.Intn(64)))
			return fmt.Sprintf("dur:%s:%d:%s", n, int64(d), lib.Hex([]byte(d.String())))
		}
		t := int64(rng.U64() >> 2)
		return fmt.Sprintf("time:%s:%d:%s", n, t, lib.Hex(time.Unix(0, t).UTC().AppendFormat(nil, time.StampMilli)))
	}
	return fmt.Sprintf("spf:%s:%s", n, lib.Hex(g.textN(30)))
}

func (g *gen) ipElem() string {
	switch g.rng.Intn(12) {
	case 0:
		return "n"
	case 1:
		return []string{"-", "00", lib.Hex(g.rng.Bytes(5))}[g.rng.Intn(3)]
	case 2, 3:
		return lib.Hex(g.ip4())
	}
	return lib.Hex(g.ip6())
}

// array ops; big: longer than the whole buffer
func (g *gen) array(big bool) string {
	n := g.name()
	rng := g.rng
	switch rng.Intn(3) {
	case 0:
		k := rng.Intn(12)
		if big {
			k = 600 + rng.Intn(400)
		}
		return fmt.Sprintf("ba:%s:%s", n, lib.Hex(rng.Bytes(k)))
	case 1:
		k := rng.Intn(6)
		ml := 12
		if big {
			k, ml = 30+rng.Intn(200), 80
		}
		if k == 0 {
			return fmt.Sprintf("sa:%s:_", n)
		}
		e := make([]string, k)
		for i := range e {
			e[i] = lib.Hex(g.textN(ml))
		}
		return fmt.Sprintf("sa:%s:%s", n, strings.Join(e, ","))
	}
	k := rng.Intn(5)
	if big {
		k = 60 + rng.Intn(100)
	}
	if k == 0 {
		return fmt.Sprintf("ia:%s:_", n)
	}
	e := make([]string, k)
	onlySix := rng.Chance(60)
	for i := range e {
		if onlySix {
			e[i] = lib.Hex(g.ip6())
		} else {
			e[i] = g.ipElem()
		}
	}
	return fmt.Sprintf("ia:%s:%s", n, strings.Join(e, ","))
}

func (g *gen) op(arrays bool) string {
	if g.rng.Chance(4) {
		if g.rng.Chance(25) {
			return []string{"st=n", "st=n2"}[g.rng.Intn(2)]
		}
		k := 1 + g.rng.Intn(3)
		ops := make([]string, k)
		for i := range ops {
			ops[i] = g.scalar()
		}
		return "st=" + strings.Join(ops, "+")
	}
	if arrays && g.rng.Chance(25) {
		return g.array(g.rng.Chance(10))
	}
	return g.scalar()
}

func (g *gen) do(kind string, args ...string) string {
	obs := g.r.Do(kind, args...)
	if obs == "panic" {
		g.r.Stat("obs.panic", 1)
	} else {
		g.r.Stat("obs.text", 1)
	}
	return obs
}

func itoa(i int) string { return strconv.Itoa(i) }

func main() {
	r := lib.Init()
	defer r.Close()
	g := &gen{r: r, rng: r.Rand()}
	rng := g.rng
	r.Register("line", func(a []string) string { return runLine(a, false) })
	r.Register("write", func(a []string) string { return runLine(a, true) })
	r.Register("msg", runMsg)
	registerSpec(r)
	registerViews(r)
	registerCensus(r)
	registerPool(r)
	if r.Replayed() {
		return
	}
	scale := 1
	if r.Thorough() {
		scale = 8
	}
	arrays := os.Getenv("C20_NO_ARRAYS") == ""

	// 0. corpus: refutation witnesses and past disagreements run first
	if dir := os.Getenv("VERIF_CORPUS"); dir != "" {
		files, _ := os.ReadDir(dir)
		for _, f := range files {
			data, err := os.ReadFile(dir + "/" + f.Name())
			if err != nil {
				continue
			}
			for _, ln := range strings.Split(string(data), "\n") {
				fs := strings.Fields(ln)
				if len(fs) == 0 || strings.HasPrefix(fs[0], "#") {
					continue
				}
				g.do(fs[0], fs[1:]...)
				r.Stat("corpus.cases", 1)
			}
		}
	}

	// 0b. census of the source against the model's lists
	censusCases(g)

	// 1. reference renderings against the standard library
	specCases(g)

	// 2. exhaustive small domains, batched 64 values per line
	for base := 0; base < 65536; base += 64 {
		var a, b []string
		for v := base; v < base+64; v++ {
			a = append(a, "u16:61:"+itoa(v))
			b = append(b, "x16:61:"+itoa(v))
		}
		g.do("line", append([]string{"46", "0"}, a...)...)
		g.do("line", append([]string{"46", "0"}, b...)...)
	}
	stdlibOracle(r, rng)
	for v := 0; v < 256; v++ {
		x := byte(v)
		y := rng.Byte()
		g.do("line", "46", "0", "u8:61:"+itoa(v), "x8:62:"+itoa(v),
			"mac:63:"+lib.Hex([]byte{x, y, x, x, y, x}), "mac:64:"+lib.Hex([]byte{y, x, y, y, x, y}),
			"ips:65:"+lib.Hex([]byte{x, y, y, x}), "ips:66:"+lib.Hex([]byte{y, x, x, y}),
			"ba:67:"+lib.Hex([]byte{x, y, x}))
	}
	for _, v := range u32Vals {
		g.do("line", "46", "7", fmt.Sprintf("u32:61:%d", v))
	}
	for _, v := range intVals {
		g.do("line", "46", "7", fmt.Sprintf("int:61:%d:%s", v, lib.Hex([]byte(strconv.FormatInt(v, 10)))))
	}

	// 3. IPv6: every zero layout x several group fillings, through IPSlice, IP and IPArray
	for mask := 0; mask < 256; mask++ {
		for rep := 0; rep < 4*scale; rep++ {
			b := make([]byte, 16)
			for i := 0; i < 8; i++ {
				if mask>>i&1 == 0 {
					v := groupVals[3+rng.Intn(len(groupVals)-3)]
					if rep%2 == 1 {
						v = uint16(rng.U64()) | 1
					}
					b[2*i], b[2*i+1] = byte(v>>8), byte(v)
				}
			}
			h := lib.Hex(b)
			g.do("line", "46", "0", "ips:61:"+h, "ip:62:"+h+":"+lib.Hex([]byte(addrOf(b).String())))
			if arrays {
				g.do("line", "46", "0", "ia:61:"+h+","+h)
			}
			ip6Oracle(r, b)
		}
	}

	// 4. every index 1990..2048 x every kind of call
	for idx := 1990; idx <= 2048; idx++ {
		for rep := 0; rep < 40*scale; rep++ {
			kind := "line"
			if rep%8 == 7 {
				kind = "write"
			}
			g.do(kind, "46", itoa(idx), g.op(arrays))
		}
		// exact-fit and one-over for a String and a Bytes value
		room := bufSize - idx
		for _, d := range []int{-1, 0, 1} {
			if k := room - 4 - 1 + d; k >= 0 { // ' ' 'a' '=' '"' value '"'
				g.do("line", "46", itoa(idx), "s:61:"+lib.Hex(g.asciiN(k)))
			}
			if k := room - 3 + d; k >= 0 {
				g.do("line", "46", itoa(idx), "by:61:"+lib.Hex(g.asciiN(k)))
			}
		}
	}

	// 4b. every kind of call placed so that its text ends 2 before, 1 before, exactly at, and 1-3 past byte 2048
	for i := 0; i < 1500*scale; i++ {
		tok := g.op(arrays)
		var n int
		if p, _ := lib.Catch(func() { n = len(apply(newLine('.', 0), tok).ToString()) }); p || n > 1500 {
			continue
		}
		for _, d := range []int{-2, -1, 0, 1, 2, 3} {
			if idx := bufSize - n + d; idx >= 0 && idx <= bufSize {
				g.do("line", "46", itoa(idx), tok)
			}
		}
	}
	// 4c. array guards at their comparison constants: ByteArray rem vs 3*len, IPArray room 39+2
	if arrays {
		for i := 0; i < 300*scale; i++ {
			idx := 1700 + rng.Intn(349)
			nm := g.asciiN(rng.Intn(6))
			rem := bufSize - idx - 3 - len(nm)
			for _, d := range []int{-4, -3, -2, -1, 0, 1, 2, 3} {
				if k := (rem + d) / 3; k >= 0 {
					g.do("line", "46", itoa(idx), "ba:"+lib.Hex(nm)+":"+lib.Hex(rng.Bytes(k)))
				}
			}
			for _, d := range []int{-1, 0, 1} { // index after " name=[" is 2048-41+d
				if at := bufSize - 41 + d - 3 - len(nm); at >= 0 {
					g.do("line", "46", itoa(at), "ia:"+lib.Hex(nm)+":"+lib.Hex(g.ip6())+","+g.ipElem())
					g.do("line", "46", itoa(at), "ia:"+lib.Hex(nm)+":11112222333344445555666677778888,"+g.ipElem())
				}
			}
		}
	}

	// 5. random field sequences: short lines, lines that approach, reach and pass the limit
	for i := 0; i < 3000*scale; i++ {
		start := rng.Pick(0, 7, 7, 7, rng.Intn(200))
		if i%3 == 1 {
			start = 1500 + rng.Intn(549)
		}
		if i%3 == 2 {
			start = 1900 + rng.Intn(149)
		}
		n := 1 + rng.Intn(12)
		if i%3 != 0 {
			n = 1 + rng.Intn(30)
		}
		ops := make([]string, n)
		for j := range ops {
			ops[j] = g.op(arrays)
		}
		kind := "line"
		if i%10 == 9 {
			kind = "write"
		}
		fill := itoa(rng.Pick(46, 0, 255, 35))
		g.do(kind, append([]string{fill, itoa(start)}, ops...)...)
	}
	// Msg + fields
	for i := 0; i < 300*scale; i++ {
		n := rng.Intn(6)
		ops := make([]string, n)
		for j := range ops {
			ops[j] = g.op(arrays)
		}
		msg := lib.Hex(g.textN(30))
		if i%7 == 0 {
			msg = lib.Hex(g.asciiN(2030 + rng.Intn(30)))
		}
		g.do("msg", append([]string{"46", lib.Hex(g.asciiN(rng.Intn(9))), msg}, ops...)...)
	}

	// 5b. argument domains of the prefix writers: module names of every length 0..12, ASCII and arbitrary bytes,
	//     through New+Msg and through Module, with and without a message
	for n := 0; n <= 12; n++ {
		for rep := 0; rep < 4; rep++ {
			name := g.asciiN(n)
			if rep%2 == 1 {
				name = rng.Bytes(n)
			}
			msg := "-"
			if rep >= 2 {
				msg = lib.Hex(g.textN(10))
			}
			g.do("msg", "46", lib.Hex(name), msg, "u8:61:7")
			g.do("line", "46", itoa(rng.Pick(0, 7, 100)), "mod:"+lib.Hex(name)+":"+msg, "lab:78")
			g.do("line", "46", itoa(bufSize-9+rep), "mod:"+lib.Hex(name)+":"+msg)
		}
	}

	// 5c. structured values for the appenders whose text comes from the standard library
	stdValueCases(g)

	// 6. arrays longer than the buffer, from every kind of starting index
	if arrays {
		for i := 0; i < 150*scale; i++ {
			start := rng.Pick(0, 7, rng.Intn(2049), 1990+rng.Intn(59), 2048)
			g.do("line", "46", itoa(start), g.array(true))
		}
		for idx := 1980; idx <= 2048; idx++ { // small arrays near the end
			for rep := 0; rep < 6*scale; rep++ {
				g.do("line", "46", itoa(idx), g.array(false))
			}
		}
	}

	// 6b. the writer and the pool as state: interleaved lines, failing writers, nested String()
	poolCases(g)

	// 7. String/FastLog of views and table entries: exact text against the model's call lists, then the
	//    no-panic oracle over the remaining views
	viewModelCases(g)
	viewCases(g)
}

// ip6Oracle: Go-side check of fastlog's IPv6 rendering against net.IP.String (independent of the Coq side)
func ip6Oracle(r *lib.Run, b []byte) {
	want := " a=" + net.IP(b).String()
	var got string
	p, _ := lib.Catch(func() { got = newLine('.', 0).IPSlice("a", net.IP(b)).ToString() })
	if p || got != want {
		key := "c20-ip6-oracle"
		if !p && longestZeroRun(b) == 2 {
			key = "c20-ip6-run2"
		}
		r.Viol(key, fmt.Sprintf("IPSlice(%x) = %q, net.IP.String = %q", b, got, want), "line 46 0 ips:61:"+lib.Hex(b))
	}
	r.Stat("oracle.ip6", 1)
}

func longestZeroRun(b []byte) int {
	best, cur := 0, 0
	for i := 0; i < 8; i++ {
		if b[2*i] == 0 && b[2*i+1] == 0 {
			cur++
			if cur > best {
				best = cur
			}
		} else {
			cur = 0
		}
	}
	return best
}

// stdlibOracle: Go-side comparison of the scalar appenders with the standard library itself
// (independent of the Coq side): all 65536 uint16 in decimal and hex, all 256 bytes in MAC / hex /
// dotted-quad position, boundary uint32.
func stdlibOracle(r *lib.Run, rng *lib.Rand) {
	check := func(what, got, want, replay string) {
		if got != want {
			r.Viol("c20-stdlib-oracle-"+what, fmt.Sprintf("%s: fastlog %q, standard library %q", what, got, want), replay)
		}
		r.Stat("oracle."+what, 1)
	}
	for v := 0; v < 65536; v++ {
		check("Uint16", newLine('.', 0).Uint16("a", uint16(v)).ToString(), " a="+strconv.FormatUint(uint64(v), 10), "line 46 0 u16:61:"+itoa(v))
		check("Uint16Hex", newLine('.', 0).Uint16Hex("a", uint16(v)).ToString(), fmt.Sprintf(" a=0x%04x", v), "line 46 0 x16:61:"+itoa(v))
	}
	for v := 0; v < 256; v++ {
		x, y := byte(v), rng.Byte()
		check("Uint8", newLine('.', 0).Uint8("a", x).ToString(), " a="+strconv.Itoa(v), "line 46 0 u8:61:"+itoa(v))
		check("Uint8Hex", newLine('.', 0).Uint8Hex("a", x).ToString(), fmt.Sprintf(" a=0x%02x", v), "line 46 0 x8:61:"+itoa(v))
		m := net.HardwareAddr{x, y, x, y, x, y}
		check("MAC", newLine('.', 0).MAC("a", m).ToString(), " a="+m.String(), "line 46 0 mac:61:"+lib.Hex(m))
		ip := net.IP{x, y, y, x}
		check("IPSlice4", newLine('.', 0).IPSlice("a", ip).ToString(), " a="+ip.String(), "line 46 0 ips:61:"+lib.Hex(ip))
	}
	for _, v := range u32Vals {
		check("Uint32", newLine('.', 0).Uint32("a", v).ToString(), " a="+strconv.FormatUint(uint64(v), 10), fmt.Sprintf("line 46 0 u32:61:%d", v))
	}
	for i := 0; i < 20000; i++ {
		v := uint32(rng.U64()) >> uint(rng.Intn(32))
		check("Uint32", newLine('.', 0).Uint32("a", v).ToString(), " a="+strconv.FormatUint(uint64(v), 10), fmt.Sprintf("line 46 0 u32:61:%d", v))
	}
}
