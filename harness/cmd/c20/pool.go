package main

// Kind "pool": the writer and the pool as state. A history of Msg / appender / Write / ToString calls on up to
// ten line handles, several lines alive at once, writers that fail or succeed in any order, a view's String()
// evaluated while another line is open; run single-goroutine (no -race: sync.Pool drops Puts under the race
// detector). Observation: what every Write handed to the writer and every ToString returned, in order.
// The model (Model/FastlogPool.v) gives every live line its own buffer; the text of a line does not depend on
// which free buffer it got, so the pool's order needs no control.

import (
	"errors"
	"fmt"
	"go/ast"
	"go/parser"
	"go/token"
	"path/filepath"
	"strings"

	"github.com/irai/packet/fastlog"
	"pvharness/lib"
)

type recWriter struct {
	fail bool
	got  []byte
}

func (w *recWriter) Write(b []byte) (int, error) {
	w.got = append([]byte{}, b...)
	if w.fail {
		return 0, errors.New("write failed")
	}
	return len(b), nil
}

func runPool(args []string) string {
	var lines [10]*fastlog.Line
	var outs []string
	for _, tok := range args {
		k := int(tok[1] - '0')
		switch tok[0] {
		case 'm':
			f := strings.Split(tok[2:], ":")
			lines[k] = fastlog.New(string(lib.UnHex(f[1]))).Msg(string(lib.UnHex(f[2])))
		case 'a':
			lines[k] = apply(lines[k], tok[3:])
		case 's':
			f := strings.Split(tok[3:], ":")
			lines[k] = lines[k].Stringer(viewOf(f[0], lib.UnHex(f[1])))
		case 'w':
			w := &recWriter{fail: tok[2:] == ":fail"}
			fastlog.DefaultIOWriter = w
			lines[k].Write()
			outs = append(outs, obsText(w.got))
			lines[k] = nil
		case 't':
			outs = append(outs, obsText([]byte(lines[k].ToString())))
			lines[k] = nil
		default:
			panic("harness: bad pool token " + tok)
		}
	}
	return strings.Join(outs, "|")
}

// poolSites: per function of fastlog/logging.go, the number of lines.Get / lines.Put call sites it executes,
// counting one level of nested calls to the finishing methods ToString / Write (go/ast; names of locals are irrelevant).
func poolSites() string {
	f, err := parser.ParseFile(token.NewFileSet(), filepath.Join(repoRoot(), "fastlog", "logging.go"), nil, 0)
	if err != nil {
		return "parse-error"
	}
	type cnt struct{ get, put, callsToString, callsWrite int }
	m := map[string]*cnt{}
	for _, d := range f.Decls {
		fd, ok := d.(*ast.FuncDecl)
		if !ok || fd.Body == nil {
			continue
		}
		c := &cnt{}
		ast.Inspect(fd.Body, func(n ast.Node) bool {
			ce, ok := n.(*ast.CallExpr)
			if !ok {
				return true
			}
			if se, ok := ce.Fun.(*ast.SelectorExpr); ok {
				if id, ok := se.X.(*ast.Ident); ok && id.Name == "lines" {
					if se.Sel.Name == "Get" {
						c.get++
					}
					if se.Sel.Name == "Put" {
						c.put++
					}
				} else if fd.Recv != nil { // a method of Line calling a finishing method
					if se.Sel.Name == "ToString" {
						c.callsToString++
					}
					if se.Sel.Name == "Write" && !isWriterField(se) {
						c.callsWrite++
					}
				}
			}
			return true
		})
		if c.get+c.put+c.callsToString+c.callsWrite > 0 {
			m[fd.Name.Name] = c
		}
	}
	total := func(name string) (int, int) {
		c := m[name]
		if c == nil {
			return 0, 0
		}
		put := c.put
		if t := m["ToString"]; t != nil {
			put += c.callsToString * t.put
		}
		if w := m["Write"]; w != nil && name != "Write" {
			put += c.callsWrite * w.put
		}
		return c.get, put
	}
	var parts []string
	for _, n := range []string{"Msg", "ToString", "Write"} {
		g, p := total(n)
		parts = append(parts, fmt.Sprintf("%s:get=%d,put=%d", n, g, p))
	}
	// any other function that touches the pool is reported by name
	for n := range m {
		if n != "Msg" && n != "ToString" && n != "Write" {
			g, p := total(n)
			if g+p > 0 {
				parts = append(parts, fmt.Sprintf("%s:get=%d,put=%d", n, g, p))
			}
		}
	}
	return strings.Join(parts, ";")
}

// DefaultIOWriter.Write is the io.Writer's Write, not Line.Write
func isWriterField(se *ast.SelectorExpr) bool {
	id, ok := se.X.(*ast.Ident)
	return ok && id.Name == "DefaultIOWriter"
}

func registerPool(r *lib.Run) { r.Register("pool", runPool) }

func poolCases(g *gen) {
	rng := g.rng
	n := 400
	if g.r.Thorough() {
		n = 4000
	}
	small := func() string { // a short scalar field: histories never approach the end of a buffer
		for {
			t := g.scalar()
			if len(t) < 120 && !strings.HasPrefix(t, "mod:") {
				return t
			}
		}
	}
	for i := 0; i < n; i++ {
		var toks []string
		live := []int{}
		next := 0
		steps := 6 + rng.Intn(30)
		failedYet := false
		for s := 0; s < steps; s++ {
			switch {
			case len(live) < 3 && next < 10 && (len(live) == 0 || rng.Chance(30)):
				toks = append(toks, fmt.Sprintf("m%d:%s:%s", next, lib.Hex(g.asciiN(rng.Intn(8))), lib.Hex(g.textN(12))))
				live = append(live, next)
				next++
			case rng.Chance(20) && len(live) > 0:
				j := rng.Intn(len(live))
				k := live[j]
				live = append(live[:j], live[j+1:]...)
				if rng.Chance(70) {
					res := "ok"
					if rng.Chance(50) || !failedYet && s > 2 {
						res, failedYet = "fail", true
					}
					toks = append(toks, fmt.Sprintf("w%d:%s", k, res))
				} else {
					toks = append(toks, fmt.Sprintf("t%d", k))
				}
			case rng.Chance(15) && len(live) > 0: // a view's String() builds its own line while this one is open
				k := live[rng.Intn(len(live))]
				arp := lib.MkARP(uint16(1+rng.Intn(2)), g.mac(), g.a4(), g.mac(), g.a4())
				udp := lib.MkUDP(uint16(rng.U64()), uint16(rng.U64()), rng.Bytes(rng.Intn(8)))
				if rng.Bool() {
					toks = append(toks, fmt.Sprintf("s%d=arp:%s", k, lib.Hex(arp)))
				} else {
					toks = append(toks, fmt.Sprintf("s%d=ip4:%s", k, lib.Hex(lib.MkIP4(g.a4(), g.a4(), 17, 64, udp))))
				}
			case len(live) > 0:
				toks = append(toks, fmt.Sprintf("a%d=%s", live[rng.Intn(len(live))], small()))
			}
		}
		for _, k := range live { // finish what is still open
			if rng.Bool() {
				toks = append(toks, fmt.Sprintf("w%d:ok", k))
			} else {
				toks = append(toks, fmt.Sprintf("t%d", k))
			}
		}
		if next >= 10 {
			continue
		}
		g.do("pool", toks...)
	}
}
