package main

// Structured value domains for every appender whose text comes from the standard library: the argument is built
// from its STRUCTURE (k x unit around every power of two, zero, negatives, the type's extremes; instants at the
// epoch, year 1 and 9999, zone offsets, monotonic readings; ints and floats of every width), the reference text is
// computed here by the standard library on the SAME value and carried in the case line, so the model's expected line
// contains it: a library that stops calling the standard function gives a concrete failing value.

import (
	"fmt"
	"go/ast"
	"go/parser"
	"go/token"
	"math"
	"path/filepath"
	"sort"
	"strconv"
	"strings"
	"time"

	"pvharness/lib"
)

func durTok(d time.Duration) string {
	return fmt.Sprintf("dur:64:%d:%s", int64(d), lib.Hex([]byte(d.String())))
}

func timeTok(t time.Time, mono bool) string { // t in its own zone
	_, off := t.Zone()
	k := "tz"
	if mono {
		k = "tzm"
	}
	return fmt.Sprintf("%s:74:%d:%d:%s", k, t.UnixMilli(), off, lib.Hex(t.AppendFormat(nil, time.StampMilli)))
}

func intTok(v int64) string {
	return fmt.Sprintf("int:69:%d:%s", v, lib.Hex([]byte(strconv.FormatInt(v, 10))))
}

func stdValueCases(g *gen) {
	emit := func(tok string) { g.do("line", "46", "7", tok) }
	// Duration: k x unit, k around every power of two up to 2^63/unit, both signs, +-1 ns
	units := []time.Duration{time.Nanosecond, time.Microsecond, time.Millisecond, time.Second, time.Minute, time.Hour}
	seen := map[time.Duration]bool{}
	dur := func(d time.Duration) {
		if !seen[d] {
			seen[d] = true
			emit(durTok(d))
		}
	}
	dur(0)
	dur(math.MaxInt64)
	dur(math.MinInt64)
	for _, u := range units {
		for e := uint(0); e < 63; e++ {
			for _, dk := range []int64{-1, 0, 1} {
				k := int64(1)<<e + dk
				if k <= 0 || k > math.MaxInt64/int64(u) {
					continue
				}
				d := time.Duration(k) * u
				dur(d)
				dur(-d)
				if u > time.Nanosecond {
					dur(d + 1)
					dur(d - 1)
				}
			}
		}
		// decimal boundaries of the unit: 59/60/61, 999/1000/1001 ...
		for _, k := range []int64{9, 10, 59, 60, 61, 99, 100, 999, 1000, 1001, 3599, 3600, 3601, 86399, 86400, 0xffffffff, 0x100000000, 0x100000001} {
			if k <= math.MaxInt64/int64(u) {
				dur(time.Duration(k) * u)
			}
		}
	}
	// Time: zero time, epoch, year 1 / 9999, day and month boundaries, zone offsets of every shape, monotonic reading
	zones := []*time.Location{time.UTC, time.FixedZone("", 0), time.FixedZone("E", 5*3600+30*60), time.FixedZone("W", -(9*3600 + 30*60)),
		time.FixedZone("S", 37), time.FixedZone("F", 14*3600), time.FixedZone("B", -12*3600)}
	instants := []time.Time{{}, time.Unix(0, 0), time.Unix(0, 999e6), time.Unix(-1, 0), time.Date(1, 1, 1, 0, 0, 0, 0, time.UTC),
		time.Date(9999, 12, 31, 23, 59, 59, 999e6, time.UTC), time.Date(2024, 2, 29, 23, 59, 59, 999e6, time.UTC),
		time.Date(2023, 3, 1, 0, 0, 0, 1e6, time.UTC), time.Date(2026, 10, 9, 9, 5, 3, 40e6, time.UTC), time.Date(2026, 1, 10, 12, 0, 0, 0, time.UTC),
		time.Date(1969, 12, 31, 23, 59, 59, 500e6, time.UTC), time.Date(2038, 1, 19, 3, 14, 8, 0, time.UTC)}
	for e := uint(0); e < 47; e += 3 { // milliseconds around powers of two
		instants = append(instants, time.UnixMilli(int64(1)<<e), time.UnixMilli(-(int64(1) << e)), time.UnixMilli(int64(1)<<e-1))
	}
	for _, t := range instants {
		for _, z := range zones {
			emit(timeTok(t.In(z), false))
		}
		if d := time.Since(t); d > -200*365*24*time.Hour && d < 200*365*24*time.Hour { // Time.Sub saturates beyond ~292 years
			emit(timeTok(t.In(zones[2]), true))
		}
	}
	// Int: 0, +-1, +-2^k, +-(2^k - 1), min, max
	ints := map[int64]bool{0: true, math.MaxInt64: true, math.MinInt64: true}
	for e := uint(0); e < 63; e++ {
		for _, v := range []int64{1 << e, 1<<e - 1, 1<<e + 1} {
			ints[v], ints[-v] = true, true
		}
	}
	for _, e := range []int64{9, 10, 99, 100, 999999999, 1000000000, 999999999999999999, 1000000000000000000} {
		ints[e], ints[-e] = true, true
	}
	keys := make([]int64, 0, len(ints))
	for v := range ints {
		keys = append(keys, v)
	}
	sort.Slice(keys, func(i, j int) bool { return keys[i] < keys[j] })
	for _, v := range keys {
		emit(intTok(v))
		emit(fmt.Sprintf("spfi:73:%d:%s", v, lib.Hex([]byte(fmt.Sprintf("%+v", v)))))
	}
	// unsigned widths at every power of two
	for e := uint(0); e < 32; e++ {
		for _, v := range []uint64{1 << e, 1<<e - 1, 1<<e + 1} {
			if v <= math.MaxUint32 {
				emit(fmt.Sprintf("u32:75:%d", v))
			}
			if v <= math.MaxUint16 {
				emit(fmt.Sprintf("u16:75:%d", v))
				emit(fmt.Sprintf("x16:75:%d", v))
			}
		}
	}
	// Sprintf of floats: zero, negative zero, subnormal, powers of two and ten, extremes, infinities, NaN
	floats := []float64{0, math.Copysign(0, -1), 1, -1, 0.1, 1e6, 1e20, 1e21, 1e-4, 1e-5, math.SmallestNonzeroFloat64, math.MaxFloat64,
		-math.MaxFloat64, math.Inf(1), math.Inf(-1), math.NaN(), math.Pi, 1 << 53, 1<<53 + 2, 123456789.125}
	for e := -60; e <= 60; e += 7 {
		floats = append(floats, math.Ldexp(1, e), -math.Ldexp(3, e))
	}
	for _, f := range floats {
		emit(fmt.Sprintf("spff:73:%d:%s", math.Float64bits(f), lib.Hex([]byte(fmt.Sprintf("%+v", f)))))
	}
}

// stdlibCalls: for the appenders that delegate their rendering, the calls that LEAVE package fastlog today (go/ast):
// standard-library functions (qualified) and methods invoked on values that are not the Line (String, AppendTo,
// AppendFormat, Error, FastLog, reflect's Kind/IsNil ...), collected transitively through package-local helpers;
// builtins, conversions and package-local calls (appendByte, a helper extracted from several appenders ...) are not
// listed, so refactoring inside the package is silent and replacing a standard rendering is not.
func stdlibCalls() string {
	f, err := parser.ParseFile(token.NewFileSet(), filepath.Join(repoRoot(), "fastlog", "logging.go"), nil, 0)
	if err != nil {
		return "parse-error"
	}
	want := map[string]bool{"Duration": true, "Time": true, "Sprintf": true, "Int": true, "IP": true, "Error": true, "Stringer": true, "Struct": true}
	pkgs := map[string]bool{}
	for _, im := range f.Imports {
		p := strings.Trim(im.Path.Value, "\"")
		pkgs[p[strings.LastIndex(p, "/")+1:]] = true
	}
	local := map[string]*ast.FuncDecl{} // package-local functions and methods by name
	for _, d := range f.Decls {
		if fd, ok := d.(*ast.FuncDecl); ok && fd.Body != nil {
			if _, dup := local[fd.Name.Name]; !dup || fd.Recv != nil && recvIsLine(fd) {
				local[fd.Name.Name] = fd
			}
		}
	}
	var collect func(fd *ast.FuncDecl, set map[string]bool, seen map[string]bool)
	collect = func(fd *ast.FuncDecl, set map[string]bool, seen map[string]bool) {
		if seen[fd.Name.Name] {
			return
		}
		seen[fd.Name.Name] = true
		recv := ""
		if fd.Recv != nil && len(fd.Recv.List) == 1 && len(fd.Recv.List[0].Names) == 1 {
			recv = fd.Recv.List[0].Names[0].Name
		}
		var isLocalCall func(ce *ast.CallExpr) *ast.FuncDecl
		isLocalCall = func(ce *ast.CallExpr) *ast.FuncDecl {
			switch fn := ce.Fun.(type) {
			case *ast.Ident:
				return local[fn.Name]
			case *ast.SelectorExpr:
				callee := local[fn.Sel.Name]
				if callee == nil || callee.Recv == nil {
					return nil
				}
				switch x := fn.X.(type) {
				case *ast.Ident:
					if x.Name == recv && recv != "" {
						return callee
					}
				case *ast.CallExpr: // l.printInt(x).appendByte(c)
					if isLocalCall(x) != nil {
						return callee
					}
				}
			}
			return nil
		}
		ast.Inspect(fd.Body, func(n ast.Node) bool {
			ce, ok := n.(*ast.CallExpr)
			if !ok {
				return true
			}
			if callee := isLocalCall(ce); callee != nil {
				collect(callee, set, seen)
				return true
			}
			if se, ok := ce.Fun.(*ast.SelectorExpr); ok {
				if id, ok := se.X.(*ast.Ident); ok && pkgs[id.Name] {
					set[id.Name+"."+se.Sel.Name] = true
				} else {
					set[se.Sel.Name] = true
				}
			}
			return true
		})
	}
	var parts []string
	for _, d := range f.Decls {
		fd, ok := d.(*ast.FuncDecl)
		if !ok || fd.Recv == nil || fd.Body == nil || !want[fd.Name.Name] || !recvIsLine(fd) {
			continue
		}
		set := map[string]bool{}
		collect(fd, set, map[string]bool{})
		var names []string
		for n := range set {
			names = append(names, n)
		}
		sort.Strings(names)
		parts = append(parts, fd.Name.Name+":"+strings.Join(names, ","))
	}
	sort.Strings(parts)
	return strings.Join(parts, ";")
}

func recvIsLine(fd *ast.FuncDecl) bool {
	if fd.Recv == nil || len(fd.Recv.List) != 1 {
		return false
	}
	t := fd.Recv.List[0].Type
	if s, ok := t.(*ast.StarExpr); ok {
		t = s.X
	}
	id, ok := t.(*ast.Ident)
	return ok && id.Name == "Line"
}
