package main

import (
	"fmt"
	"net"
	"strconv"
	"strings"

	"pvharness/lib"
)

// registerSpec: the standard-library side of the "sp_*" kinds; the model side is Spec/TextSpec.v.
func registerSpec(r *lib.Run) {
	rangeOf := func(f func(v uint64) string) func(a []string) string {
		return func(a []string) string {
			start, n := uint64(atoiU(a[0])), int(atoi(a[1]))
			out := make([]string, n)
			for i := range out {
				out[i] = f(start + uint64(i))
			}
			return strings.Join(out, ",")
		}
	}
	r.Register("sp_dec", rangeOf(func(v uint64) string { return strconv.FormatUint(v, 10) }))
	r.Register("sp_hex2", rangeOf(func(v uint64) string { return fmt.Sprintf("%02x", uint8(v)) }))
	r.Register("sp_hex4", rangeOf(func(v uint64) string { return fmt.Sprintf("%04x", uint16(v)) }))
	r.Register("sp_hexnl", rangeOf(func(v uint64) string { return strconv.FormatUint(v, 16) }))
	r.Register("sp_decz", func(a []string) string { return strconv.FormatInt(atoi(a[0]), 10) })
	r.Register("sp_bool", func(a []string) string { return strconv.FormatBool(a[0] == "T") })
	r.Register("sp_mac", func(a []string) string { return net.HardwareAddr(lib.UnHex(a[0])).String() })
	r.Register("sp_ip", func(a []string) string { return addrOf(lib.UnHex(a[0])).String() })
	r.Register("sp_netip", func(a []string) string { return net.IP(lib.UnHex(a[0])).String() })
}

func atoiU(s string) uint64 {
	v, err := strconv.ParseUint(s, 10, 64)
	if err != nil {
		panic("harness: bad unsigned " + s)
	}
	return v
}

func specCases(g *gen) {
	rng := g.rng
	for base := 0; base < 65536; base += 64 {
		g.r.Do("sp_dec", itoa(base), "64")
		g.r.Do("sp_hex4", itoa(base), "64")
		g.r.Do("sp_hexnl", itoa(base), "64")
	}
	g.r.Do("sp_hex2", "0", "256")
	// powers of ten and of two, +-1, up to 2^64-1
	p := uint64(1)
	for i := 0; i < 20; i++ {
		g.r.Do("sp_dec", strconv.FormatUint(p-1, 10), "3")
		if i < 19 {
			p *= 10
		}
	}
	for i := uint(1); i < 64; i++ {
		g.r.Do("sp_dec", strconv.FormatUint(uint64(1)<<i-1, 10), "2")
	}
	g.r.Do("sp_dec", "18446744073709551615", "1")
	for _, v := range intVals {
		g.r.Do("sp_decz", strconv.FormatInt(v, 10))
	}
	for i := 0; i < 300; i++ {
		g.r.Do("sp_decz", strconv.FormatInt(int64(rng.U64())>>uint(rng.Intn(64)), 10))
		g.r.Do("sp_dec", strconv.FormatUint(rng.U64()>>uint(rng.Intn(64)), 10), "1")
	}
	g.r.Do("sp_bool", "T")
	g.r.Do("sp_bool", "F")
	for i := 0; i < 300; i++ {
		g.r.Do("sp_mac", lib.Hex([]byte{g.bval(), g.bval(), g.bval(), g.bval(), g.bval(), g.bval()}))
		b := g.ip4()
		g.r.Do("sp_ip", lib.Hex(b))
		g.r.Do("sp_netip", lib.Hex(b))
	}
	// every zero layout of an IPv6 address x group fillings
	for mask := 0; mask < 256; mask++ {
		for rep := 0; rep < 6; rep++ {
			b := make([]byte, 16)
			for i := 0; i < 8; i++ {
				if mask>>i&1 == 0 {
					v := groupVals[3+rng.Intn(len(groupVals)-3)]
					if rep%2 == 1 {
						v = uint16(rng.U64()) | 1
					}
					b[2*i], b[2*i+1] = byte(v>>8), byte(v)
				}
			}
			g.r.Do("sp_ip", lib.Hex(b))
			g.r.Do("sp_netip", lib.Hex(b))
		}
	}
	for i := 0; i < 400; i++ {
		b := g.ip6()
		if i%4 == 0 { // IPv4-mapped and its near misses
			copy(b, []byte{0, 0, 0, 0, 0, 0, 0, 0, 0, 0, 0xff, 0xff})
			if i%8 == 0 {
				b[rng.Intn(12)] ^= byte(1 << uint(rng.Intn(8)))
			}
		}
		g.r.Do("sp_ip", lib.Hex(b))
		g.r.Do("sp_netip", lib.Hex(b))
	}
}
