package main

// String/FastLog of protocol views and table entries: every value for which IsValid()
// reports no error (well-formed frames from independent writers, and random byte strings
// that happen to pass IsValid) must render without panic. Go-side oracle (viol records);
// the no-panic theorem for a line that fits is C20_line, the views compose appenders.

import (
	"fmt"
	"net"
	"net/netip"
	"time"

	"github.com/irai/packet"
	"github.com/irai/packet/fastlog"
	"github.com/irai/packet/handlers/dhcp4_spoofer"
	"pvharness/lib"
)

type view interface {
	IsValid() error
	String() string
	FastLog(*fastlog.Line) *fastlog.Line
}

type entry interface {
	FastLog(*fastlog.Line) *fastlog.Line
}

func (g *gen) checkView(kind string, v view, raw []byte) {
	if v.IsValid() != nil {
		g.r.Stat("view.invalid."+kind, 1)
		return
	}
	g.r.Stat("view.valid."+kind, 1)
	g.checkEntry(kind, v, raw)
	if p, msg := lib.Catch(func() { _ = v.String() }); p {
		g.r.Viol("c20-view-panic-"+kind+"-String", fmt.Sprintf("%s.String() panics on a value accepted by IsValid: %s: %s", kind, lib.Hex(raw), msg), "view "+kind+" "+lib.Hex(raw))
	}
}

func (g *gen) checkEntry(kind string, v entry, raw []byte) {
	var text string
	p, msg := lib.Catch(func() { text = v.FastLog(newLine('.', 7)).ToString() })
	if p {
		g.r.Viol("c20-view-panic-"+kind+"-FastLog", fmt.Sprintf("%s.FastLog() panics on a valid value: %s: %s", kind, lib.Hex(raw), msg), "view "+kind+" "+lib.Hex(raw))
		return
	}
	if len(text) > 1500 {
		g.r.Stat("view.longtext."+kind, 1)
	}
}

func (g *gen) mac() net.HardwareAddr {
	return net.HardwareAddr{g.bval() &^ 1, g.bval(), g.bval(), g.bval(), g.bval(), g.bval()}
}
func (g *gen) a4() netip.Addr { return addrOf(g.ip4()) }
func (g *gen) a6() netip.Addr { return addrOf(g.ip6()) }

func dhcp4Frame(g *gen) []byte {
	b := make([]byte, 240)
	b[0] = byte(1 + g.rng.Intn(2))
	b[1], b[2] = 1, 6
	copy(b[4:8], g.rng.Bytes(4))
	copy(b[12:16], g.ip4())
	copy(b[16:20], g.ip4())
	copy(b[28:34], g.mac())
	copy(b[236:240], []byte{99, 130, 83, 99})
	b = append(b, 53, 1, byte(1+g.rng.Intn(8)))
	if g.rng.Bool() {
		h := g.asciiN(1 + g.rng.Intn(20))
		b = append(b, 12, byte(len(h)))
		b = append(b, h...)
	}
	if g.rng.Bool() {
		b = append(b, 50, 4)
		b = append(b, g.ip4()...)
	}
	b = append(b, 255)
	return b
}

func viewCases(g *gen) {
	rng := g.rng
	// witness of the LLDP finding repaired in /repo 5551427 (a TLV of type 88, length 1): regression check
	lw := lib.UnHex("b001cbd6f46e39ecb6cc2a1440bf6ad4377f0badd4b459b28a205a36")
	g.checkView("LLDP", packet.LLDP(lw), lw)
	n := 300
	if g.r.Thorough() {
		n = 3000
	}
	for i := 0; i < n; i++ {
		payload := rng.Bytes(rng.Intn(64))
		smac, dmac := g.mac(), g.mac()
		udp := lib.MkUDP(uint16(rng.U64()), uint16(rng.U64()), payload)
		ip4 := lib.MkIP4(g.a4(), g.a4(), 17, g.bval(), udp)
		ip6 := lib.MkIP6(g.a6(), g.a6(), 17, g.bval(), udp)
		arp := lib.MkARP(uint16(1+rng.Intn(2)), smac, g.a4(), dmac, g.a4())
		echo := lib.MkICMPEcho(byte(rng.Pick(0, 8)), 0, uint16(rng.U64()), uint16(rng.U64()), payload)
		s6, d6 := g.a6(), g.a6()
		ns := lib.MkICMP6(s6, d6, 135, 0, append(append([]byte{0, 0, 0, 0}, g.ip6()...), append([]byte{1, 1}, smac...)...))
		na := lib.MkICMP6(s6, d6, 136, 0, append(append([]byte{0x60, 0, 0, 0}, g.ip6()...), append([]byte{2, 1}, smac...)...))
		rs := lib.MkICMP6(s6, d6, 133, 0, append([]byte{0, 0, 0, 0}, append([]byte{1, 1}, smac...)...))
		ra := lib.MkICMP6(s6, d6, 134, 0, append([]byte{64, 0, 7, 8, 0, 0, 0, 0, 0, 0, 0, 0}, append([]byte{1, 1}, smac...)...))
		echo6 := lib.MkICMP6(s6, d6, byte(rng.Pick(128, 129)), 0, append([]byte{1, 2, 3, 4}, payload...))
		g.checkView("Ether", packet.Ether(lib.MkEther(dmac, smac, 0x0800, ip4)), nil)
		g.checkView("Ether", packet.Ether(lib.MkEther(dmac, smac, 0x86dd, ip6)), nil)
		g.checkView("Ether", packet.Ether(lib.MkEther(dmac, smac, 0x0806, arp)), nil)
		g.checkView("IP4", packet.IP4(ip4), ip4)
		g.checkView("IP4", packet.IP4(lib.MkIP4(g.a4(), g.a4(), 1, 64, echo)), nil)
		g.checkView("IP6", packet.IP6(ip6), ip6)
		g.checkView("UDP", packet.UDP(udp), udp)
		g.checkView("ARP", packet.ARP(arp), arp)
		g.checkView("ICMP", packet.ICMP(echo), echo)
		g.checkView("ICMPEcho", packet.ICMPEcho(echo), echo)
		g.checkView("ICMP", packet.ICMP(ns), ns)
		g.checkView("ICMPEcho", packet.ICMPEcho(echo6), echo6)
		g.checkView("ICMP6NeighborSolicitation", packet.ICMP6NeighborSolicitation(ns), ns)
		g.checkView("ICMP6NeighborAdvertisement", packet.ICMP6NeighborAdvertisement(na), na)
		g.checkView("ICMP6RouterSolicitation", packet.ICMP6RouterSolicitation(rs), rs)
		g.checkView("ICMP6RouterAdvertisement", packet.ICMP6RouterAdvertisement(ra), ra)
		d4 := dhcp4Frame(g)
		g.checkView("DHCP4", packet.DHCP4(d4), d4)
		dns := append([]byte{byte(rng.U64()), byte(rng.U64()), byte(rng.Pick(0, 0x80, 0x84)), byte(rng.Intn(6)), 0, 1, 0, byte(rng.Intn(3)), 0, 0, 0, 0},
			append([]byte{3, 'w', 'w', 'w', 2, 'a', 'b', 0}, 0, 1, 0, 1)...)
		g.checkView("DNS", packet.DNS(dns), dns)
		llc := append([]byte{0x42, 0x42, 0x03}, payload...)
		g.checkView("LLC", packet.LLC(llc), llc)
		snap := append([]byte{0xaa, 0xaa, 0x03, 0, 0, 0x0c, 0x20, 0x00}, payload...)
		g.checkView("SNAP", packet.SNAP(snap), snap)
		pause := append([]byte{0, 1, byte(rng.U64()), byte(rng.U64())}, make([]byte, 42)...)
		g.checkView("EthernetPause", packet.EthernetPause(pause), pause)
		i1905 := append([]byte{0, 0, 0, byte(rng.Intn(12)), byte(rng.U64()), byte(rng.U64()), 0, 0x80}, payload...)
		g.checkView("IEEE1905", packet.IEEE1905(i1905), i1905)
		lldp := []byte{2, 7, 4}
		lldp = append(lldp, smac...)
		lldp = append(lldp, 4, 3, 5, 'e', '0', 6, 2, 0, 120)
		if rng.Bool() {
			nm := g.asciiN(1 + rng.Intn(12))
			lldp = append(lldp, 10, byte(len(nm)))
			lldp = append(lldp, nm...)
		}
		lldp = append(lldp, 0, 0)
		g.checkView("LLDP", packet.LLDP(lldp), lldp)
		rrcp := append([]byte{byte(rng.Pick(1, 0x23)), byte(rng.U64()), 0x23, 0x79}, rng.Bytes(12+rng.Intn(50))...)
		g.checkView("RRCP", packet.RRCP(rrcp), rrcp)

		// random byte strings of every plausible length: rendered only when IsValid accepts them
		raw := rng.Bytes(rng.Pick(0, 1, 3, 6, 8, 12, 16, 20, 24, 28, 40, 46, 60, 240, 300, rng.Intn(80)))
		if rng.Bool() && len(raw) > 0 {
			raw[0] = byte(rng.Pick(0x45, 0x46, 0x4f, 0x60, 1, 2, 8, 133, 134, 135, 136, 137))
		}
		g.checkView("Ether", packet.Ether(raw), raw)
		g.checkView("IP4", packet.IP4(raw), raw)
		g.checkView("IP6", packet.IP6(raw), raw)
		g.checkView("UDP", packet.UDP(raw), raw)
		g.checkView("ARP", packet.ARP(raw), raw)
		g.checkView("ICMP", packet.ICMP(raw), raw)
		g.checkView("ICMPEcho", packet.ICMPEcho(raw), raw)
		g.checkView("ICMP4Redirect", packet.ICMP4Redirect(raw), raw)
		g.checkView("ICMP6NeighborSolicitation", packet.ICMP6NeighborSolicitation(raw), raw)
		g.checkView("ICMP6NeighborAdvertisement", packet.ICMP6NeighborAdvertisement(raw), raw)
		g.checkView("ICMP6RouterSolicitation", packet.ICMP6RouterSolicitation(raw), raw)
		g.checkView("ICMP6RouterAdvertisement", packet.ICMP6RouterAdvertisement(raw), raw)
		g.checkView("DHCP4", packet.DHCP4(raw), raw)
		g.checkView("DNS", packet.DNS(raw), raw)
		g.checkView("LLC", packet.LLC(raw), raw)
		g.checkView("SNAP", packet.SNAP(raw), raw)
		g.checkView("EthernetPause", packet.EthernetPause(raw), raw)
		g.checkView("IEEE1905", packet.IEEE1905(raw), raw)
		g.checkView("LLDP", packet.LLDP(raw), raw)
		g.checkView("RRCP", packet.RRCP(raw), raw)

		// table entries and addresses
		name := packet.NameEntry{Type: "mdns", Name: string(g.textN(40)), Model: string(g.textN(20)), Manufacturer: string(g.textN(20)), OS: string(g.textN(8)), Expire: time.Unix(int64(rng.Intn(2000000000)), 0)}
		addr := packet.Addr{MAC: smac, IP: g.a4(), Port: uint16(rng.Pick(0, 0, int(uint16(rng.U64()))))}
		if rng.Chance(30) {
			addr.IP = g.a6()
		}
		if rng.Chance(10) {
			addr = packet.Addr{}
		}
		me := &packet.MACEntry{MAC: smac, Captured: rng.Bool(), Online: rng.Bool(), IP4: g.a4(), IP6GUA: g.a6(), IP6LLA: g.a6(),
			LastSeen: time.Now().Add(-time.Duration(rng.Intn(1000000)) * time.Millisecond), Manufacturer: string(g.textN(30)), DHCP4Name: name, MDNSName: name}
		if rng.Bool() {
			me.IP4Offer = g.a4()
		}
		host := &packet.Host{Addr: addr, MACEntry: me, Online: rng.Bool(), HuntStage: packet.HuntStage(rng.Intn(5)), LastSeen: time.Now(),
			Manufacturer: string(g.textN(30)), DHCP4Name: name, NBNSName: name}
		me.HostList = append(me.HostList, host)
		g.checkEntry("Addr", addr, nil)
		g.checkEntry("NameEntry", name, nil)
		g.checkEntry("MACEntry", me, nil)
		g.checkEntry("Host", *host, nil)
		g.checkEntry("Notification", packet.Notification{Addr: addr, Online: rng.Bool(), Manufacturer: string(g.textN(30)), DHCP4Name: name, IsRouter: rng.Bool()}, nil)
		// dhcp4_spoofer.Lease.FastLog dereferences the unexported subnet pointer, which only the handler can
		// set: leases are rendered through the handler in cmd/c11; only State.String is exercised here
		_ = dhcp4_spoofer.State(rng.Intn(4)).String()
		for _, s := range []func(){func() { _ = addr.String() }, func() { _ = me.String() }, func() { _ = host.String() }} {
			if p, msg := lib.Catch(s); p {
				g.r.Viol("c20-entry-panic-String", "String() of a table entry panics: "+msg, "")
			}
		}
	}
}
