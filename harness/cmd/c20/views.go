package main

// viewCases: String/FastLog of views and table entries (filled in by the next slice)
func viewCases(g *gen) {}
