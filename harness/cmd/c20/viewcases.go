package main

// Kinds vw / vs / ve: the exact text of FastLog / String of protocol views and table entries,
// compared with the model's list of appender calls (Model/FastlogViews.v).

import (
	"fmt"
	"net"
	"net/netip"
	"strings"
	"time"

	"github.com/irai/packet"
	"github.com/irai/packet/fastlog"
	"github.com/irai/packet/handlers/dhcp4_spoofer"
	"pvharness/lib"
)

func viewOf(kind string, b []byte) view {
	switch kind {
	case "ether":
		return packet.Ether(b)
	case "ip4":
		return packet.IP4(b)
	case "ip6":
		return packet.IP6(b)
	case "udp":
		return packet.UDP(b)
	case "arp":
		return packet.ARP(b)
	case "icmp":
		return packet.ICMP(b)
	case "echo":
		return packet.ICMPEcho(b)
	case "rs":
		return packet.ICMP6RouterSolicitation(b)
	case "ra":
		return packet.ICMP6RouterAdvertisement(b)
	case "na":
		return packet.ICMP6NeighborAdvertisement(b)
	case "ns":
		return packet.ICMP6NeighborSolicitation(b)
	case "dhcp4":
		return packet.DHCP4(b)
	case "dns":
		return packet.DNS(b)
	case "pause":
		return packet.EthernetPause(b)
	case "ieee1905":
		return packet.IEEE1905(b)
	case "llc":
		return packet.LLC(b)
	case "snap":
		return packet.SNAP(b)
	case "rrcp":
		return packet.RRCP(b)
	case "redirect":
		return packet.ICMP4Redirect(b)
	case "lldp":
		return packet.LLDP(b)
	}
	panic("harness: unknown view kind " + kind)
}

// views whose String() is Logger.Msg("").Struct(p).ToString() (or the same through FastLog)
var stringViaFastLog = map[string]bool{"ether": true, "ip4": true, "ip6": true, "udp": true, "arp": true, "icmp": true,
	"echo": true, "rs": true, "ra": true, "na": true, "ns": true, "dhcp4": true, "pause": true, "ieee1905": true,
	"llc": true, "snap": true, "rrcp": true, "redirect": true, "lldp": true}

func optAddr(s string) netip.Addr {
	if s == "n" {
		return netip.Addr{}
	}
	return addrOf(lib.UnHex(s))
}

func addrOfTok(s string) packet.Addr {
	f := strings.Split(s, ":")
	a := packet.Addr{IP: optAddr(f[1]), Port: uint16(atoi(f[2]))}
	if f[0] != "-" {
		a.MAC = net.HardwareAddr(lib.UnHex(f[0]))
	}
	return a
}

// the instant whose StampMilli text is carried in the token: the token holds unix nanoseconds in decimal,
// the model gets the text (see genName)
func nameOfTok(s string, times map[string]time.Time) packet.NameEntry {
	f := strings.Split(s, ":")
	n := packet.NameEntry{Type: string(lib.UnHex(f[0])), Name: string(lib.UnHex(f[1])), Model: string(lib.UnHex(f[2])),
		OS: string(lib.UnHex(f[3])), Manufacturer: string(lib.UnHex(f[4]))}
	if f[5] != "z" {
		t, err := time.ParseInLocation(time.StampMilli, string(lib.UnHex(f[5])), time.UTC)
		if err != nil {
			panic("harness: bad expire text")
		}
		n.Expire = t
	}
	return n
}

func registerViews(r *lib.Run) {
	packet.Logger = fastlog.New("packet")
	r.Register("vw", func(a []string) string {
		b := lib.UnHex(a[1])
		v := viewOf(a[0], b)
		if v.IsValid() != nil {
			return "invalid"
		}
		return obsText([]byte(v.FastLog(newLine('.', 7)).ToString()))
	})
	r.Register("vs", func(a []string) string {
		b := lib.UnHex(a[1])
		v := viewOf(a[0], b)
		if v.IsValid() != nil {
			return "invalid"
		}
		return obsText([]byte(v.String()))
	})
	r.Register("ve", func(a []string) string {
		l := newLine('.', 7)
		switch a[0] {
		case "addr":
			return obsText([]byte(addrOfTok(a[1]).FastLog(l).ToString()))
		case "name":
			return obsText([]byte(nameOfTok(a[1], nil).FastLog(l).ToString()))
		case "host":
			h := packet.Host{Addr: addrOfTok(a[1]), Online: a[2] == "T", MACEntry: &packet.MACEntry{Captured: a[3] == "T"},
				HuntStage: packet.HuntStage(atoi(a[4])), Manufacturer: string(lib.UnHex(a[5])),
				DHCP4Name: nameOfTok(a[6], nil), MDNSName: nameOfTok(a[7], nil), SSDPName: nameOfTok(a[8], nil),
				LLMNRName: nameOfTok(a[9], nil), NBNSName: nameOfTok(a[10], nil)}
			// LastSeen stays the zero time: time.Since saturates at the maximal Duration, whose text is a[11]
			return obsText([]byte(h.FastLog(l).ToString()))
		case "mac":
			e := &packet.MACEntry{Captured: a[2] == "T", Online: a[3] == "T", IP4: optAddr(a[4]), IP6GUA: optAddr(a[5]),
				IP6LLA: optAddr(a[6]), IP4Offer: optAddr(a[7]), Manufacturer: string(lib.UnHex(a[10])),
				DHCP4Name: nameOfTok(a[11], nil), MDNSName: nameOfTok(a[12], nil), SSDPName: nameOfTok(a[13], nil),
				LLMNRName: nameOfTok(a[14], nil), NBNSName: nameOfTok(a[15], nil)}
			if a[1] != "-" {
				e.MAC = net.HardwareAddr(lib.UnHex(a[1]))
			}
			e.HostList = make([]*packet.Host, atoi(a[8]))
			return obsText([]byte(e.FastLog(l).ToString()))
		case "notif":
			n := packet.Notification{Addr: addrOfTok(a[1]), Online: a[2] == "T", Manufacturer: string(lib.UnHex(a[3])),
				DHCP4Name: nameOfTok(a[4], nil), MDNSName: nameOfTok(a[5], nil), SSDPName: nameOfTok(a[6], nil),
				LLMNRName: nameOfTok(a[7], nil), NBNSName: nameOfTok(a[8], nil), IsRouter: a[9] == "T"}
			return obsText([]byte(n.FastLog(l).ToString()))
		case "ipname":
			return obsText([]byte(packet.IPNameEntry{Addr: addrOfTok(a[1]), NameEntry: nameOfTok(a[2], nil)}.FastLog(l).ToString()))
		case "dnsname":
			return obsText([]byte(packet.DNSNameEntry{Addr: addrOfTok(a[1]), Name: string(lib.UnHex(a[2])), Model: string(lib.UnHex(a[3]))}.FastLog(l).ToString()))
		case "dnsentry":
			// at most one record per map: Go's map order is then irrelevant (the model takes the order as a parameter)
			d := packet.NewDNSEntry()
			d.Name = string(lib.UnHex(a[1]))
			for _, e := range list(a[2]) {
				ip := netip.MustParseAddr(string(lib.UnHex(e)))
				d.IP4Records[ip] = packet.IPResourceRecord{IP: ip}
			}
			for _, e := range list(a[3]) {
				ip := netip.MustParseAddr(string(lib.UnHex(e)))
				d.IP6Records[ip] = packet.IPResourceRecord{IP: ip}
			}
			for _, e := range list(a[4]) {
				d.CNameRecords[string(lib.UnHex(e))] = packet.NameResourceRecord{CName: string(lib.UnHex(e))}
			}
			return obsText([]byte(d.FastLog(l).ToString()))
		case "lease":
			lan, err := netip.ParsePrefix(string(lib.UnHex(a[8])))
			if err != nil {
				panic("harness: bad prefix")
			}
			ls := dhcp4_spoofer.VerifLeaseWithSubnet(
				dhcp4_spoofer.Lease{ClientID: lib.UnHex(a[1]), State: dhcp4_spoofer.State(atoi(a[2])), Addr: addrOfTok(a[3]),
					Name: string(lib.UnHex(a[4])), IPOffer: optAddr(a[5])},
				dhcp4_spoofer.SubnetConfig{Stage: packet.HuntStage(atoi(a[6])), DefaultGW: optAddr(a[7]), LAN: lan, ID: string(lib.UnHex(a[9]))})
			return obsText([]byte(ls.FastLog(l).ToString()))
		}
		panic("harness: unknown entry kind " + a[0])
	})
}

var sinceZero = lib.Hex([]byte(time.Duration(1<<63 - 1).String()))

func (g *gen) genAddrTok() string {
	m := lib.Hex(g.mac())
	if g.rng.Chance(10) {
		m = []string{"-", lib.Hex(g.rng.Bytes(5)), lib.Hex(g.rng.Bytes(8))}[g.rng.Intn(3)]
	}
	ip := "n"
	switch g.rng.Intn(5) {
	case 0, 1, 2:
		ip = lib.Hex(g.ip4())
	case 3:
		ip = lib.Hex(g.ip6())
	}
	port := 0
	if g.rng.Chance(40) {
		port = int(uint16(g.rng.U64()))
	}
	return fmt.Sprintf("%s:%s:%d", m, ip, port)
}

func (g *gen) genNameTok(long bool) string {
	f := func(max int) string {
		if g.rng.Chance(35) {
			return "-"
		}
		if long {
			max *= 8
		}
		return lib.Hex(g.asciiN(1 + g.rng.Intn(max)))
	}
	exp := "z"
	if g.rng.Chance(40) {
		t := time.Unix(int64(g.rng.Intn(2000000000)), int64(g.rng.Intn(1000))*1000000).UTC()
		exp = lib.Hex([]byte(t.Format(time.StampMilli)))
	}
	typ := []string{"mdns", "dhcp4", "ssdp", "llmnr", "nbns", ""}[g.rng.Intn(6)]
	return fmt.Sprintf("%s:%s:%s:%s:%s:%s", lib.Hex([]byte(typ)), f(30), f(20), f(10), f(20), exp)
}

func tf2(b bool) string {
	if b {
		return "T"
	}
	return "F"
}

func (g *gen) optIP(six bool) string {
	if g.rng.Chance(25) {
		return "n"
	}
	if six {
		return lib.Hex(g.ip6())
	}
	return lib.Hex(g.ip4())
}

func viewModelCases(g *gen) {
	rng := g.rng
	n := 150
	if g.r.Thorough() {
		n = 1500
	}
	kinds := []string{"ether", "ip4", "ip6", "udp", "arp", "icmp", "echo", "rs", "ra", "na", "ns", "dhcp4", "dns", "pause", "ieee1905",
		"llc", "snap", "rrcp", "redirect", "lldp"}
	do := func(kind string, b []byte) {
		obs := g.r.Do("vw", kind, lib.Hex(b))
		g.r.Stat("vw."+kind+"."+map[bool]string{true: "invalid", false: "valid"}[obs == "invalid"], 1)
		// String() renders on a line from the sync.Pool; since /repo's ByteArray blanks its truncation gap the text
		// no longer depends on what the pooled line held
		if stringViaFastLog[kind] && rng.Chance(50) {
			g.r.Do("vs", kind, lib.Hex(b))
		}
	}
	for i := 0; i < n; i++ {
		payload := rng.Bytes(rng.Intn(64))
		if i%25 == 0 {
			payload = rng.Bytes(600 + rng.Intn(900)) // ByteArray fields longer than the line
		}
		smac, dmac := g.mac(), g.mac()
		udp := lib.MkUDP(uint16(rng.U64()), uint16(rng.U64()), payload)
		ip4 := lib.MkIP4(g.a4(), g.a4(), 17, g.bval(), udp)
		if rng.Chance(30) { // fragment offset and flags
			ip4[6], ip4[7] = rng.Byte(), rng.Byte()
		}
		ip6 := lib.MkIP6(g.a6(), g.a6(), 17, g.bval(), udp)
		ip6[0], ip6[1] = 0x60|rng.Byte()&0x0f, rng.Byte()
		arp := lib.MkARP(uint16(1+rng.Intn(2)), smac, g.a4(), dmac, g.a4())
		echo := lib.MkICMPEcho(byte(rng.Pick(0, 8)), 0, uint16(rng.U64()), uint16(rng.U64()), payload)
		s6, d6 := g.a6(), g.a6()
		lla := func(t byte) []byte {
			if rng.Chance(25) {
				return nil
			}
			o := append([]byte{t, 1}, smac...)
			if rng.Chance(15) {
				o[rng.Intn(2)] ^= 1
			}
			return o
		}
		ns := lib.MkICMP6(s6, d6, 135, 0, append(append([]byte{0, 0, 0, 0}, g.ip6()...), lla(1)...))
		na := lib.MkICMP6(s6, d6, 136, 0, append(append([]byte{rng.Byte() & 0xe0, 0, 0, 0}, g.ip6()...), lla(2)...))
		rs := lib.MkICMP6(s6, d6, 133, 0, append([]byte{0, 0, 0, 0}, lla(1)...))
		ra := lib.MkICMP6(s6, d6, 134, 0, append([]byte{rng.Byte(), rng.Byte(), rng.Byte(), rng.Byte(), rng.Byte(), rng.Byte(), rng.Byte(), rng.Byte(), rng.Byte(), rng.Byte(), rng.Byte(), rng.Byte()}, lla(1)...))
		do("ether", lib.MkEther(dmac, smac, uint16(rng.Pick(0x0800, 0x86dd, 0x0806, int(uint16(rng.U64())))), ip4))
		do("ip4", ip4)
		do("ip6", ip6)
		do("ip6", append(append([]byte{}, ip6...), rng.Bytes(1+rng.Intn(6))...)) // trailing bytes (padding, FCS)
		if len(ip6) > 41 {
			do("ip6", ip6[:len(ip6)-1-rng.Intn(2)]) // shorter than the payload length says
		}
		do("udp", udp)
		do("arp", arp)
		do("icmp", echo)
		do("icmp", ns)
		do("echo", echo)
		do("ns", ns)
		do("na", na)
		do("rs", rs)
		do("ra", ra)
		d4 := dhcp4Frame(g)
		do("dhcp4", d4)
		if rng.Chance(30) { // damaged options
			d4 = append([]byte{}, d4...)
			d4[240+rng.Intn(len(d4)-240)] = rng.Byte()
			do("dhcp4", d4)
			do("dhcp4", d4[:240+rng.Intn(len(d4)-239)])
		}
		do("dns", rng.Bytes(12+rng.Intn(30)))
		do("pause", append([]byte{0, 1, rng.Byte(), rng.Byte()}, make([]byte, 42)...))
		do("ieee1905", append(rng.Bytes(8), payload...))
		do("llc", append([]byte{byte(rng.Pick(0xaa, 0x42, int(rng.Byte()))), byte(rng.Pick(0xaa, 0x42, int(rng.Byte()))), byte(rng.Pick(3, 1, 0, int(rng.Byte())))}, payload...))
		do("snap", append([]byte{0xaa, 0xaa, 3, rng.Byte(), rng.Byte(), rng.Byte(), rng.Byte(), rng.Byte()}, payload...))
		do("rrcp", append([]byte{byte(rng.Pick(1, 0x23, int(rng.Byte()))), rng.Byte()}, rng.Bytes(14+rng.Intn(50))...))
		{ // ICMPv4 router advertisement style redirect: n addresses of size 4 or 10 words
			nAddr, size := rng.Intn(4), rng.Pick(4, 10)
			rd := []byte{137, rng.Byte(), rng.Byte(), rng.Byte(), byte(nAddr), byte(size), rng.Byte(), rng.Byte()}
			for k := 0; k < nAddr; k++ {
				e := rng.Bytes(size * 4)
				if size == 10 && rng.Bool() {
					copy(e, g.ip6())
				}
				rd = append(rd, e...)
			}
			if rng.Chance(15) && len(rd) > 8 {
				rd = rd[:len(rd)-1-rng.Intn(4)]
			}
			do("redirect", rd)
		}
		{ // LLDP: a sequence of TLVs of every type, lengths 0..40 (one in fifteen frames carries TLVs of hundreds of bytes)
			var f []byte
			nt := 1 + rng.Intn(7)
			for k := 0; k < nt; k++ {
				t := rng.Pick(1, 2, 3, 4, 5, 6, 7, 8, 9, 127, rng.Intn(128))
				ln := rng.Pick(0, 1, 2, 3, 7, rng.Intn(40))
				if i%15 == 0 {
					ln = 200 + rng.Intn(311)
				}
				f = append(f, byte(t<<1|ln>>8), byte(ln))
				f = append(f, rng.Bytes(ln)...)
			}
			if rng.Chance(80) {
				f = append(f, 0, 0)
			} else if len(f) > 3 {
				f = f[:len(f)-1-rng.Intn(3)]
			}
			do("lldp", f)
		}
		// random bytes of boundary lengths through every kind: validity itself is compared
		raw := rng.Bytes(rng.Pick(0, 7, 8, 11, 12, 13, 14, 15, 16, 19, 20, 23, 24, 27, 28, 31, 32, 39, 40, 45, 46, 239, 240, 241, 242, 260, rng.Intn(90)))
		if len(raw) > 0 && rng.Bool() {
			raw[0] = byte(rng.Pick(0x45, 0x46, 0x4f, 0x44, 0x60, 1, 2, 133, 0))
		}
		if len(raw) > 5 && rng.Bool() {
			copy(raw, []byte{0, 1, 8, 0, 6, 4})
		}
		if len(raw) >= 40 && rng.Bool() {
			raw[4], raw[5] = byte((len(raw)-40)>>8), byte(len(raw)-40)
		}
		k := kinds[rng.Intn(len(kinds))]
		do(k, raw)
		do(kinds[rng.Intn(len(kinds))], raw)

		// table entries
		long := i%20 == 0
		g.r.Do("ve", "addr", g.genAddrTok())
		g.r.Do("ve", "name", g.genNameTok(long))
		names := func() []string {
			return []string{g.genNameTok(long), g.genNameTok(false), g.genNameTok(long), g.genNameTok(false), g.genNameTok(false)}
		}
		mf := lib.Hex(g.asciiN(rng.Intn(30)))
		g.r.Do("ve", append([]string{"host", g.genAddrTok(), tf2(rng.Bool()), tf2(rng.Bool()), itoa(rng.Intn(5)), mf}, append(names(), sinceZero)...)...)
		mm := lib.Hex(g.mac())
		if rng.Chance(8) {
			mm = "-"
		}
		g.r.Do("ve", append([]string{"mac", mm, tf2(rng.Bool()), tf2(rng.Bool()), g.optIP(false), g.optIP(true), g.optIP(true), g.optIP(false),
			itoa(rng.Intn(4)), sinceZero, mf}, names()...)...)
		g.r.Do("ve", append(append([]string{"notif", g.genAddrTok(), tf2(rng.Bool()), mf}, names()...), tf2(rng.Bool()))...)
		g.r.Do("ve", "ipname", g.genAddrTok(), g.genNameTok(long))
		g.r.Do("ve", "dnsname", g.genAddrTok(), lib.Hex(g.asciiN(rng.Intn(40))), lib.Hex(g.asciiN(rng.Intn(20))))
		one := func(s string) string {
			if rng.Chance(40) {
				return "_"
			}
			return lib.Hex([]byte(s))
		}
		g.r.Do("ve", "dnsentry", lib.Hex(g.asciiN(rng.Intn(60))), one(g.a4().String()), one(g.a6().String()), one(string(g.asciiN(1+rng.Intn(60)))))
		lan := netip.PrefixFrom(g.a4(), 8+rng.Intn(24)).Masked().String()
		g.r.Do("ve", "lease", lib.Hex(rng.Bytes(rng.Intn(9))), itoa(rng.Intn(4)), g.genAddrTok(), lib.Hex(g.asciiN(rng.Intn(30))),
			g.optIP(false), itoa(rng.Intn(5)), g.optIP(false), lib.Hex([]byte(lan)), lib.Hex(g.asciiN(rng.Intn(12))))
	}
	// entries whose text cannot fit (strings are unbounded): outside the property's "whose text fits";
	// the rendering panics in appendByte, the model agrees (evidence for docs/C20.md, not a finding)
	big := func() string {
		return fmt.Sprintf("%s:%s:%s:-:-:z", lib.Hex([]byte("mdns")), lib.Hex(g.asciiN(450+rng.Intn(100))), lib.Hex(g.asciiN(200)))
	}
	for i := 0; i < 3; i++ {
		obs := g.r.Do("ve", "host", g.genAddrTok(), "T", "F", "1", lib.Hex(g.asciiN(20)), big(), big(), big(), big(), big(), sinceZero)
		g.r.Stat("ve.overflow."+map[bool]string{true: "panic", false: "text"}[obs == "panic"], 1)
	}
}
