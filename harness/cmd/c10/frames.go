package main

// Independent frame writers for the handler protocols. Every builder returns the frame and the
// locators (offset.length in the frame) of the fields the library retains: they are what the Coq
// model reads instead of re-parsing variable-format messages.

import (
	"fmt"
	"net"
	"net/netip"
	"strings"

	"pvharness/lib"
)

func loc(off, n int) string { return fmt.Sprintf("%d.%d", off, n) }

func dash(s string) string {
	if s == "" {
		return "-"
	}
	return s
}

// ---------------------------------------------------------------- DHCP

type dhcpSpec struct {
	typ    byte
	mac    net.HardwareAddr
	xid    []byte
	ciaddr netip.Addr
	srcIP  netip.Addr
	cid    []byte
	name   string
	reqip  netip.Addr // invalid = option absent
	server netip.Addr // invalid = option absent
	bcast  bool
}

const dhcpOff = 42 // 14 + 20 + 8

// mkDHCP returns frame, cid loc, name loc, effective requested-address loc, request class.
func mkDHCP(sp dhcpSpec, rng *lib.Rand) (frame []byte, cidLoc, nameLoc, reqLoc string, cls int) {
	d := make([]byte, 240)
	d[0], d[1], d[2] = 1, 1, 6
	copy(d[4:8], sp.xid)
	if sp.bcast {
		d[10] = 0x80
	}
	if sp.ciaddr.IsValid() {
		c := sp.ciaddr.As4()
		copy(d[12:16], c[:])
	}
	copy(d[28:34], sp.mac)
	copy(d[236:240], []byte{99, 130, 83, 99})
	cidLoc, nameLoc, reqLoc = "-", "-", "-"
	add := func(code byte, v []byte) int {
		d = append(d, code, byte(len(v)))
		off := len(d)
		d = append(d, v...)
		return dhcpOff + off
	}
	add(53, []byte{sp.typ})
	type opt struct {
		code byte
		v    []byte
	}
	var opts []opt
	if sp.cid != nil {
		opts = append(opts, opt{61, sp.cid})
	}
	if sp.name != "" {
		opts = append(opts, opt{12, []byte(sp.name)})
	}
	if sp.reqip.IsValid() {
		a := sp.reqip.As4()
		opts = append(opts, opt{50, a[:]})
	}
	if sp.server.IsValid() {
		a := sp.server.As4()
		opts = append(opts, opt{54, a[:]})
	}
	opts = append(opts, opt{55, []byte{1, 3, 6, 15}})
	// random option order
	for i := len(opts) - 1; i > 0; i-- {
		j := rng.Intn(i + 1)
		opts[i], opts[j] = opts[j], opts[i]
	}
	optReq := "-"
	for _, o := range opts {
		off := add(o.code, o.v)
		switch o.code {
		case 61:
			cidLoc = loc(off, len(o.v))
		case 12:
			nameLoc = loc(off, len(o.v))
		case 50:
			optReq = loc(off, 4)
		}
	}
	d = append(d, 255)
	for len(d) < 300 {
		d = append(d, 0)
	}
	src := sp.srcIP
	dst := netip.MustParseAddr("255.255.255.255")
	frame = lib.MkEther(bcastMAC, sp.mac, 0x0800, lib.MkIP4(src, dst, 17, 64, lib.MkUDP(68, 67, d)))

	// request classification (request.go): selecting / renewing / rebooting
	zero := netip.MustParseAddr("0.0.0.0")
	reqSet := sp.reqip.IsValid() && sp.reqip != zero
	switch {
	case sp.server.IsValid() && sp.server != zero:
		if reqSet {
			cls, reqLoc = 1, optReq
		}
	case !reqSet:
		// renewing (sender is never the broadcast address here): requested address = ciaddr
		if sp.ciaddr.IsValid() && sp.ciaddr != zero {
			cls, reqLoc = 2, loc(dhcpOff+12, 4)
		}
	default:
		cls, reqLoc = 3, optReq
	}
	if sp.typ == 1 {
		cls, reqLoc = 0, optReq
	} else if sp.typ != 3 { // DECLINE / RELEASE / INFORM: the model reads neither
		cls, reqLoc = 0, "-"
	}
	return
}

// ---------------------------------------------------------------- DNS message writer with compression

type dnsW struct {
	b    []byte
	base int                 // offset of the DNS message in the frame
	seen map[string]int      // dotted suffix -> offset in message
	locs map[string][]string // dotted suffix -> label locators
}

func newDNSW(base int, id uint16, flags uint16, qd, an, ns, ar int) *dnsW {
	w := &dnsW{base: base, seen: map[string]int{}, locs: map[string][]string{}}
	w.b = []byte{byte(id >> 8), byte(id), byte(flags >> 8), byte(flags), 0, byte(qd), 0, byte(an), 0, byte(ns), 0, byte(ar)}
	return w
}

// name writes a domain name (labels), compressing against earlier names when compress is set.
// Returns the label locators joined with '+' ("-" for the root).
func (w *dnsW) name(labels []string, compress bool) string {
	var out []string
	for i := range labels {
		suffix := strings.Join(labels[i:], ".")
		if off, ok := w.seen[suffix]; ok && compress && off < 0x3fff {
			w.b = append(w.b, 0xc0|byte(off>>8), byte(off))
			out = append(out, w.locs[suffix]...)
			w.fixup(labels, i, out)
			return dash(strings.Join(out, "+"))
		}
		off := len(w.b)
		w.b = append(w.b, byte(len(labels[i])))
		w.b = append(w.b, labels[i]...)
		out = append(out, loc(w.base+off+1, len(labels[i])))
		if _, ok := w.seen[suffix]; !ok {
			w.seen[suffix] = off
		}
	}
	w.b = append(w.b, 0)
	w.fixup(labels, len(labels), out)
	return dash(strings.Join(out, "+"))
}

// fixup records the locators of every suffix of a freshly written name.
func (w *dnsW) fixup(labels []string, _ int, out []string) {
	for i := range labels {
		suffix := strings.Join(labels[i:], ".")
		if _, ok := w.locs[suffix]; !ok {
			w.locs[suffix] = append([]string{}, out[i:]...)
		}
	}
}

func (w *dnsW) u16(v int) { w.b = append(w.b, byte(v>>8), byte(v)) }
func (w *dnsW) u32(v int) { w.b = append(w.b, byte(v>>24), byte(v>>16), byte(v>>8), byte(v)) }

// rrHead writes owner name, type, class, ttl and a placeholder rdlength; returns name locators and the rdlength offset.
func (w *dnsW) rrHead(labels []string, typ, class int, compress bool) (string, int) {
	n := w.name(labels, compress)
	w.u16(typ)
	w.u16(class)
	w.u32(120)
	w.u16(0)
	return n, len(w.b) - 2
}
func (w *dnsW) rrEnd(lenOff int) {
	n := len(w.b) - lenOff - 2
	w.b[lenOff], w.b[lenOff+1] = byte(n>>8), byte(n)
}

const udp4Off = 42 // DNS message offset in an Ethernet/IPv4/UDP frame

func udp4Frame(dstMAC, srcMAC net.HardwareAddr, src, dst netip.Addr, sp, dp uint16, payload []byte) []byte {
	return lib.MkEther(dstMAC, srcMAC, 0x0800, lib.MkIP4(src, dst, 17, 64, lib.MkUDP(sp, dp, payload)))
}

// ---------------------------------------------------------------- NDP router advertisement

type raSpec struct {
	srcMAC   net.HardwareAddr
	src      netip.Addr
	slla     net.HardwareAddr // nil = no option
	prefixes []netip.Prefix
	rdnss    []netip.Addr
	dnssl    [][]string
	route    *netip.Prefix
	mtu      bool
}

const raOptOff = 14 + 40 + 16

// mkRA returns the frame and the locator fields: slla, prefixes, rdnss, dnssl, route.
func mkRA(sp raSpec, rng *lib.Rand) (frame []byte, fields []string) {
	body := []byte{64, 0x40, 0x07, 0x08, 0, 0, 0, 0, 0, 0, 0, 0} // hop limit, flags, lifetime, reachable, retrans
	var opts []byte
	slla, pf, rd, ds, rt := "-", []string{}, []string{}, []string{}, "-"
	type wr func()
	var ws []wr
	if sp.slla != nil {
		ws = append(ws, func() {
			off := raOptOff + len(opts)
			opts = append(opts, 1, 1)
			opts = append(opts, sp.slla...)
			slla = fmt.Sprint(off + 2)
		})
	}
	for _, p := range sp.prefixes {
		p := p
		ws = append(ws, func() {
			off := raOptOff + len(opts)
			opts = append(opts, 3, 4, byte(p.Bits()), 0xc0, 0, 0, 0x0e, 0x10, 0, 0, 0x07, 0x08, 0, 0, 0, 0)
			a := p.Addr().As16()
			opts = append(opts, a[:]...)
			pf = append(pf, loc(p.Bits(), off+16))
		})
	}
	if len(sp.rdnss) > 0 {
		ws = append(ws, func() {
			off := raOptOff + len(opts)
			opts = append(opts, 25, byte(1+2*len(sp.rdnss)), 0, 0, 0, 0, 0x02, 0x58)
			for i, a := range sp.rdnss {
				b := a.As16()
				opts = append(opts, b[:]...)
				rd = append(rd, fmt.Sprint(off+8+16*i))
			}
		})
	}
	if len(sp.dnssl) > 0 {
		ws = append(ws, func() {
			off := raOptOff + len(opts)
			v := []byte{31, 0, 0, 0, 0, 0, 0x02, 0x58}
			for _, dn := range sp.dnssl {
				var ls []string
				for _, l := range dn {
					v = append(v, byte(len(l)))
					ls = append(ls, loc(off+len(v), len(l)))
					v = append(v, l...)
				}
				v = append(v, 0)
				ds = append(ds, strings.Join(ls, "+"))
			}
			for len(v)%8 != 0 {
				v = append(v, 0)
			}
			v[1] = byte(len(v) / 8)
			opts = append(opts, v...)
		})
	}
	if sp.route != nil {
		ws = append(ws, func() {
			off := raOptOff + len(opts)
			pl := sp.route.Bits()
			n := 1
			if pl > 64 {
				n = 3
			} else if pl > 0 {
				n = 2
			}
			v := make([]byte, 8*n)
			v[0], v[1], v[2], v[3] = 24, byte(n), byte(pl), 0x08
			v[6], v[7] = 0x0e, 0x10
			a := sp.route.Addr().As16()
			copy(v[8:], a[:])
			opts = append(opts, v...)
			rt = loc(pl, off+8)
		})
	}
	if sp.mtu {
		ws = append(ws, func() { opts = append(opts, 5, 1, 0, 0, 0, 0, 0x05, 0xdc) })
	}
	for i := len(ws) - 1; i > 0; i-- {
		j := rng.Intn(i + 1)
		ws[i], ws[j] = ws[j], ws[i]
	}
	for _, w := range ws {
		w()
	}
	dst := netip.MustParseAddr("ff02::1")
	msg := lib.MkICMP6(sp.src, dst, 134, 0, append(body, opts...))
	frame = lib.MkEther(net.HardwareAddr{0x33, 0x33, 0, 0, 0, 1}, sp.srcMAC, 0x86dd, lib.MkIP6(sp.src, dst, 58, 255, msg))
	return frame, []string{slla, dash(strings.Join(pf, ",")), dash(strings.Join(rd, ",")), dash(strings.Join(ds, ";")), rt}
}
