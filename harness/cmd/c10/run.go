package main

import (
	"bytes"
	"encoding/hex"
	"fmt"
	"net/netip"
	"os"
	"path/filepath"
	"sort"
	"strings"
	"sync/atomic"
	"time"

	"github.com/irai/packet"
	"github.com/irai/packet/handlers/arp_spoofer"
	"github.com/irai/packet/handlers/dhcp4_spoofer"
	"github.com/irai/packet/handlers/dns_naming"
	"github.com/irai/packet/handlers/icmp_spoofer"
	"pvharness/lib"
)

const bufSize = 2048

// env is one fresh instance of the library: session + handlers on a recording connection.
type env struct {
	s        *packet.Session
	conn     *lib.RecConn
	dhcp     *dhcp4_spoofer.Handler
	icmp6    *icmp_spoofer.Handler6
	dns      *dns_naming.DNSHandler
	lease    string
	pend     [][]byte // emitted frames not yet reported
	lateMode bool
	late     []string // hm: frames of the decline/release goroutines, compared per history
	arp      *arp_spoofer.Handler
	cw       string  // caller-write class: the application overwrites every byte slice the library hands back ("" = none)
	lazy     bool    // leave notifications queued in Session.C across packets (and scribbles)
	slots    []*slot // one per step, filled when the channel is drained
	given    int     // notifications already attributed to a slot
}

type slot struct {
	n    int
	text string
}

var envSeq int64

func scratchDir() string {
	if d := os.Getenv("VERIF_SCRATCH"); d != "" {
		return d
	}
	return os.TempDir()
}

func newEnv() *env {
	s, conn := lib.NewSession()
	e := &env{s: s, conn: conn}
	e.lease = filepath.Join(scratchDir(), fmt.Sprintf("c10-leases-%d-%d.yaml", os.Getpid(), atomic.AddInt64(&envSeq, 1)))
	os.Remove(e.lease)
	var err error
	e.dhcp, err = dhcp4_spoofer.Config{Mode: dhcp4_spoofer.ModeSecondaryServer, DNSServer: lib.RouterIP4,
		NetfilterIP: netip.PrefixFrom(lib.HostIP4, 24), LeaseFilename: e.lease}.New(s)
	if err != nil {
		panic(err)
	}
	e.icmp6, err = icmp_spoofer.New6(s)
	if err != nil {
		panic(err)
	}
	e.dns = dns_naming.VerifNew(s)
	conn.Take()
	return e
}

func (e *env) close() {
	e.dhcp.Close()
	e.icmp6.Close()
	os.Remove(e.lease)
	go e.s.Close() // Close sleeps 1 s
}

func hx(b []byte) string { return hex.EncodeToString(b) }

func ipKey(a netip.Addr) string {
	if !a.IsValid() {
		return ""
	}
	return hx(a.AsSlice())
}

// runHistory executes ops on a fresh library instance. shared: one receive buffer that is
// overwritten (byte i = fill + i*stp) after every packet; otherwise a private buffer of the same
// capacity per packet that is never touched again by the harness.
// Returns the projected transcript (compared with the model) and the full transcript
// (compared between the two runs).
func runHistory(ops []op, shared bool, fill, stp byte, lazy bool, cw string) (string, string) {
	e := newEnv()
	e.lazy = lazy
	e.cw = cw
	defer e.close()
	var buf []byte
	if shared {
		buf = make([]byte, bufSize)
	}
	var proj, full []string
	for i := range ops {
		pj, fl := e.apply(&ops[i], buf, shared, fill, stp)
		proj = append(proj, pj)
		full = append(full, fl)
	}
	e.callerWritesGetters()
	proj = append(proj, e.dump())
	full = append(full, e.dumpFull())
	e.flush()
	fix := func(x string) string {
		for i, sl := range e.slots {
			x = strings.ReplaceAll(x, fmt.Sprintf("\x01%d\x01", i), sl.text)
		}
		if strings.HasPrefix(x, "\x02") {
			if x = x[1:]; x == "" {
				x = "-"
			}
		}
		return strings.ReplaceAll(x, "\x02", "")
	}
	for i := range proj {
		proj[i] = fix(proj[i])
		full[i] = fix(full[i])
	}
	return strings.Join(proj, "|"), strings.Join(full, "|")
}

// flush drains the notification channel and attributes the notifications to the steps that queued them.
func (e *env) flush() {
	for _, sl := range e.slots {
		for ; sl.n > 0; sl.n-- {
			select {
			case n := <-e.s.C:
				sl.text += "N(" + showNotification(n) + ")"
				e.callerWritesNotification(n)
			default:
				sl.text += "N(lost)"
			}
		}
	}
	e.given = 0
}

// apply executes one operation and returns its projected and full outputs.
func (e *env) apply(o *op, buf []byte, shared bool, fill, stp byte) (string, string) {
	switch o.kind {
	case 'x':
		e.purge(o.keys)
		return e.outputs(0)
	case 'o':
		return e.outputsCat(e.offline(o.keys[0]), 'P')
	case 'u':
		return e.outputs(e.hunt(o.keys[0]))
	case 'q':
		e.callerWritesGetters()
		return e.dump(), e.dumpFull()
	}
	var p []byte
	if shared {
		n := copy(buf, o.frame)
		p = buf[:n]
	} else {
		// the handlers build replies in place using the capacity of the packet buffer
		// (EncodeDHCP4: b[:cap(b)]), so the private buffer has the same capacity as the shared one
		b := make([]byte, bufSize)
		n := copy(b, o.frame)
		p = b[:n]
	}
	async, tag := e.recv(p, o)
	if shared {
		for i := range buf {
			buf[i] = fill + byte(i)*stp
		}
	}
	pj, fl := e.outputs(async)
	return pj, tag + " " + fl
}

// recv is what an application does with a received frame: Parse, dispatch to the handler of the
// payload, apply learned names to the host table, Notify. Returns the number of frames that
// goroutines started by the handler will still emit.
func (e *env) recv(p []byte, o *op) (async int, tag string) {
	frame, err := e.s.Parse(p)
	if err != nil {
		return 0, "perr"
	}
	tag = frame.PayloadID.String()
	async = e.dispatch(frame, p, o)
	e.s.Notify(frame)
	return async, tag
}

// dispatch hands the parsed frame to the handler of its payload and applies what the handler learned.
func (e *env) dispatch(frame packet.Frame, p []byte, o *op) (async int) {
	switch frame.PayloadID {
	case packet.PayloadDHCP4:
		e.dhcp.ProcessPacket(frame)
		async = e.dhcpAsync(o)
	case packet.PayloadICMP6:
		icmp_spoofer.VerifSetRepeat(3) // every router advertisement is processed
		e.icmp6.ProcessPacket(frame)
	case packet.PayloadDNS:
		ent, _ := e.dns.ProcessDNS(frame)
		if e.cw == "dnsret" || e.cw == "all" {
			bogus := netip.MustParseAddr("203.0.113.9")
			for _, m := range []map[netip.Addr]packet.IPResourceRecord{ent.IP4Records, ent.IP6Records} {
				if m != nil {
					for k := range m {
						delete(m, k)
					}
					m[bogus] = packet.IPResourceRecord{Name: "overwritten", IP: bogus}
				}
			}
			if ent.CNameRecords != nil {
				ent.CNameRecords["overwritten"] = packet.NameResourceRecord{Name: "overwritten", CName: "overwritten"}
			}
		}
	case packet.PayloadMDNS, packet.PayloadLLMNR:
		ipv4, ipv6, _ := e.dns.ProcessMDNS(frame)
		for _, ent := range append(ipv4, ipv6...) {
			h := frame.Host
			if ent.Addr.IP.IsValid() {
				h = e.s.FindIP(ent.Addr.IP)
			}
			if h == nil {
				continue
			}
			if frame.PayloadID == packet.PayloadMDNS {
				h.UpdateMDNSName(ent.NameEntry)
			} else {
				h.UpdateLLMNRName(ent.NameEntry)
			}
		}
		if e.cw == "mdnsret" || e.cw == "all" {
			// the application owns what ProcessMDNS returned: it overwrites it
			for _, l := range [][]packet.IPNameEntry{ipv4, ipv6} {
				for i := range l {
					flip(l[i].Addr.MAC)
					l[i].NameEntry.Name, l[i].NameEntry.Model = "overwritten", "overwritten"
				}
			}
		}
	case packet.PayloadNBNS:
		if name, err := e.dns.ProcessNBNS(frame.Host, frame.Ether(), frame.Payload()); err == nil && frame.Host != nil {
			frame.Host.UpdateNBNSName(name)
		}
	case packet.PayloadSSDP:
		if name, _, err := e.dns.ProcessSSDP(frame.Host, frame.Ether(), frame.Payload()); err == nil && frame.Host != nil {
			frame.Host.UpdateSSDPName(name)
		}
	}
	// direct API calls of the application with views of the frame it is looking at
	switch o.kind {
	case 'c':
		e.s.Capture(frame.SrcAddr.MAC)
	case 'e':
		e.s.Release(frame.SrcAddr.MAC)
	case 'a', 'f':
		if len(o.f) == 2 {
			io, _ := parseLoc(o.f[0])
			no, nl := parseLoc(o.f[1])
			if io+4 <= len(p) && no+nl <= len(p) {
				ip, _ := netip.AddrFromSlice(p[io : io+4])
				name := packet.NameEntry{Type: "app", Name: string(p[no : no+nl])}
				if o.kind == 'a' {
					e.s.DHCPv4Update(frame.SrcAddr.MAC, ip, name)
				} else {
					e.s.SetDHCPv4IPOffer(frame.SrcAddr.MAC, ip, name)
				}
			}
		}
	}
	return async
}

// dhcpAsync: how many decline frames the handler's goroutines will send for this message
// (discover with a usable requested address that got an offer; rebooting request answered by NAK).
func (e *env) dhcpAsync(o *op) int {
	if len(o.f) < 6 {
		return 0
	}
	reply := byte(0)
	e.collect()
	for _, f := range e.pend {
		if t, ok := dhcpType(f, 67, 68); ok {
			reply = t
		}
	}
	switch {
	case o.f[0] == "1" && o.f[3] != "-" && reply == 2:
		off, _ := parseLoc(o.f[3])
		if off+4 <= len(o.frame) && !allZero(o.frame[off:off+4]) {
			return 1
		}
	case o.f[0] == "3" && o.f[4] == "3" && reply == 6:
		return 1
	case o.f[0] == "2": // OFFER of another server on the client port
		return 1
	}
	return 0
}

func allZero(b []byte) bool {
	for _, x := range b {
		if x != 0 {
			return false
		}
	}
	return true
}

func parseLoc(s string) (int, int) {
	a, b, _ := strings.Cut(s, ".")
	return atoi(a), atoi(b)
}

// dhcpType returns the DHCP message type of an Ethernet/IPv4/UDP frame with the given ports.
func dhcpType(f []byte, sp, dp int) (byte, bool) {
	if len(f) < 42+240 || f[12] != 0x08 || f[13] != 0x00 || f[23] != 17 {
		return 0, false
	}
	if int(f[34])<<8|int(f[35]) != sp || int(f[36])<<8|int(f[37]) != dp {
		return 0, false
	}
	if v := dhcpOpt(f, 53); len(v) == 1 {
		return v[0], true
	}
	return 0, false
}

func dhcpOpt(f []byte, code byte) []byte {
	o := f[42+240:]
	for len(o) >= 2 && o[0] != 255 {
		if o[0] == 0 {
			o = o[1:]
			continue
		}
		n := int(o[1])
		if len(o) < 2+n {
			return nil
		}
		if o[0] == code {
			return o[2 : 2+n]
		}
		o = o[2+n:]
	}
	return nil
}

func (e *env) collect() { e.pend = append(e.pend, e.conn.Take()...) }

func (e *env) count(cat byte) int {
	n := 0
	for _, f := range e.pend {
		if _, c := classify(f); c == cat {
			n++
		}
	}
	return n
}

// outputs waits for the announced asynchronous frames (decline/release frames for DHCP steps,
// probes for purge steps), then collects notifications and emitted frames: projected items
// N.. R.. D.. P.. and the full (sorted) frame list.
func (e *env) outputs(async int) (string, string) { return e.outputsCat(async, 'D') }

func (e *env) outputsCat(async int, cat byte) (string, string) {
	e.collect()
	if async > 0 {
		deadline := time.Now().Add(3 * time.Second)
		for e.count(cat) < async && time.Now().Before(deadline) {
			time.Sleep(100 * time.Microsecond)
			e.collect()
		}
	}
	var ns, rs, ds, ps, fs []string
	if e.lazy {
		// the notifications stay in the channel while later packets are processed and the buffer is scribbled;
		// only their number is taken now
		sl := &slot{n: len(e.s.C) - e.given}
		e.given += sl.n
		e.slots = append(e.slots, sl)
		ns = append(ns, fmt.Sprintf("\x01%d\x01", len(e.slots)-1))
		if len(e.s.C) > 64 {
			e.flush()
		}
	} else {
		for {
			select {
			case n := <-e.s.C:
				ns = append(ns, "N("+showNotification(n)+")")
				e.callerWritesNotification(n)
				continue
			default:
			}
			break
		}
	}
	for _, f := range e.pend {
		it, cat := classify(f)
		switch cat {
		case 'B': // DISCOVER burst of attackDHCPServer: rate limited by a process global, not part of any transcript
			continue
		case 'R':
			rs = append(rs, it)
			fs = append(fs, canonDHCP(f, false))
			continue
		case 'D':
			if e.lateMode { // hm: decline/release goroutine frames are compared per history, not per step
				e.late = append(e.late, canonDHCP(f, strings.HasPrefix(it, "D(7,")))
				continue
			}
			ds = append(ds, it)
			fs = append(fs, canonDHCP(f, strings.HasPrefix(it, "D(7,"))) // release: random xid
			continue
		case 'P':
			ps = append(ps, it)
			// not functions of the history: the ARP probe carries two stale bytes of a pooled send buffer
			// (session.go arpRequest writes hlen/plen into the Ethernet header instead), the echo probe
			// uses the wall clock as identifier
			g := append([]byte{}, f...)
			if g[12] == 0x08 && g[13] == 0x06 {
				g[18], g[19] = 0, 0
			} else if len(g) >= 60 && g[54] == 128 {
				g[56], g[57], g[58], g[59] = 0, 0, 0, 0
			}
			f = g
		}
		fs = append(fs, hx(f))
	}
	e.pend = nil
	sort.Strings(fs)
	items := append(append(append(ns, rs...), ds...), ps...)
	pj := strings.Join(items, "")
	if pj == "" {
		pj = "-"
	}
	if e.lazy { // "-" iff nothing at all, known only after the flush
		pj = "\x02" + pj
	}
	return pj, pj + " F[" + strings.Join(fs, ",") + "]"
}

// classify maps an emitted frame to its projected item and category:
// 'R' DHCP server reply, 'D' decline/release sent as a fake client, 'P' purge probe, 'B' discover burst, 0 other.
func classify(f []byte) (string, byte) {
	if len(f) < 14 {
		return "", 0
	}
	et := int(f[12])<<8 | int(f[13])
	switch {
	case et == 0x0806 && len(f) >= 42 && f[21] == 1:
		return "P(arp," + hx(f[38:42]) + ")", 'P'
	case et == 0x86dd && len(f) >= 14+40+8 && f[20] == 58:
		switch f[54] {
		case 128:
			return "P(" + hx(f[0:6]) + "," + hx(f[38:54]) + ")", 'P'
		case 135:
			if len(f) >= 14+40+24 {
				return "P(" + hx(f[0:6]) + "," + hx(f[62:78]) + ")", 'P'
			}
		}
	case et == 0x0800:
		if t, ok := dhcpType(f, 67, 68); ok {
			return fmt.Sprintf("R(%d,%s,%s,%s)", t, hx(f[70:76]), hx(f[46:50]), hx(f[58:62])), 'R'
		}
		if t, ok := dhcpType(f, 68, 67); ok {
			switch t {
			case 1:
				return "", 'B'
			case 4:
				return fmt.Sprintf("D(4,%s,%s,%s,%s)", hx(dhcpOpt(f, 61)), hx(f[70:76]), hx(dhcpOpt(f, 50)), hx(f[46:50])), 'D'
			case 7:
				return fmt.Sprintf("D(7,%s,%s,%s,)", hx(dhcpOpt(f, 61)), hx(f[70:76]), hx(f[54:58])), 'D'
			}
		}
	}
	return "", 0
}

// canonDHCP prints a DHCP frame with its options sorted by code (the library appends them in Go map
// order) and the UDP checksum cleared; noXID also clears the transaction id.
func canonDHCP(f []byte, noXID bool) string {
	g := append([]byte{}, f[:42+240]...)
	g[40], g[41] = 0, 0
	if noXID {
		g[46], g[47], g[48], g[49] = 0, 0, 0, 0
	}
	var opts []string
	o := f[42+240:]
	for len(o) >= 2 && o[0] != 255 {
		if o[0] == 0 {
			o = o[1:]
			continue
		}
		n := int(o[1])
		if len(o) < 2+n {
			break
		}
		opts = append(opts, fmt.Sprintf("%03d=%s", o[0], hx(o[2:2+n])))
		o = o[2+n:]
	}
	sort.Strings(opts)
	return hx(g) + "{" + strings.Join(opts, ",") + "}" + fmt.Sprint(len(f))
}

// strCov: which packet-derived string fields of the retained state have been seen non-empty in a dump
var strCov = map[string]bool{}

func cov(field, v string) string {
	if v != "" {
		strCov[field] = true
	}
	return v
}

func hstr(s string) string { return hx([]byte(s)) }

func showName(n packet.NameEntry) string {
	return hstr(cov("NameEntry.Name", n.Name)) + "." + hstr(cov("NameEntry.Model", n.Model)) + "." + hstr(cov("NameEntry.Manufacturer", n.Manufacturer)) + "." + hstr(cov("NameEntry.OS", n.OS))
}

func showNames(l ...packet.NameEntry) string {
	out := make([]string, len(l))
	for i, n := range l {
		out[i] = showName(n)
	}
	return strings.Join(out, "/")
}

func tf(b bool) string {
	if b {
		return "T"
	}
	return "F"
}

func showNotification(n packet.Notification) string {
	return ipKey(n.Addr.IP) + "/" + hx(n.Addr.MAC) + "/" + tf(n.Online) + "/" + tf(n.IsRouter) + "/" +
		showNames(n.DHCP4Name, n.MDNSName, n.SSDPName, n.LLMNRName, n.NBNSName)
}

func (e *env) purge(keys [][]byte) {
	for _, k := range keys {
		a, ok := netip.AddrFromSlice(k)
		if !ok {
			continue
		}
		if h := e.s.FindIP(a); h != nil {
			h.MACEntry.Row.Lock()
			h.Online = false
			h.LastSeen = time.Now().Add(-2 * packet.DefaultPurgeDeadline)
			h.MACEntry.Row.Unlock()
		}
	}
	e.s.VerifPurge(time.Now())
}

// offline makes purge find this one host silent for longer than the offline deadline:
// it is probed and set offline. Returns the number of probe frames to wait for.
func (e *env) offline(key []byte) int {
	a, ok := netip.AddrFromSlice(key)
	if !ok {
		return 0
	}
	h := e.s.FindIP(a)
	if h == nil {
		return 0
	}
	h.MACEntry.Row.Lock()
	on := h.Online
	if on {
		h.LastSeen = time.Now().Add(-2 * packet.DefaultOfflineDeadline)
	}
	h.MACEntry.Row.Unlock()
	if !on {
		return 0
	}
	e.s.VerifPurge(time.Now())
	return 1
}

// hunt calls the DHCP handler's StartHunt for the address; returns the number of release frames to wait for.
func (e *env) hunt(key []byte) int {
	a, ok := netip.AddrFromSlice(key)
	if !ok {
		return 0
	}
	n := 0
	for _, l := range e.dhcp.VerifLeases() {
		if l.Addr.IP == a && l.SubnetID == "net1" {
			n = 1
		}
	}
	e.dhcp.StartHunt(packet.Addr{IP: a})
	return n
}

// dump: the retained byte strings of all tables, as the model prints them.
func (e *env) dump() string {
	hosts := e.s.GetHosts()
	hs := make([]string, 0, len(hosts))
	for _, h := range hosts {
		hs = append(hs, ipKey(h.Addr.IP)+"="+hx(h.Addr.MAC)+":"+tf(h.Online)+":"+
			showNames(h.DHCP4Name, h.MDNSName, h.SSDPName, h.LLMNRName, h.NBNSName))
	}
	sort.Strings(hs)
	ms := make([]string, 0, len(e.s.MACTable.Table))
	for _, m := range e.s.MACTable.Table {
		ips := make([]string, 0, len(m.HostList))
		for _, h := range m.HostList {
			ips = append(ips, ipKey(h.Addr.IP))
		}
		ms = append(ms, hx(m.MAC)+"["+strings.Join(ips, "+")+"]"+tf(m.Online)+tf(m.Captured)+":"+ipKey(m.IP4Offer)+":"+
			showNames(m.DHCP4Name, m.MDNSName, m.SSDPName, m.LLMNRName, m.NBNSName))
	}
	// lease table, sorted by key (= string(ClientID) at insertion; the hook reports ClientID)
	var ls []string
	leases := e.dhcp.VerifLeases()
	sort.Slice(leases, func(i, j int) bool { return bytes.Compare(leases[i].ClientID, leases[j].ClientID) < 0 })
	for _, l := range leases {
		ls = append(ls, hx(l.ClientID)+"="+hx(l.ClientID)+"/"+hx(l.Addr.MAC)+"/"+hx(l.XID)+"/"+hstr(cov("Lease.Name", l.Name))+"/"+tf(l.SubnetID == "net2"))
	}
	// router table
	e.icmp6.Lock()
	var rs []string
	for ip, r := range e.icmp6.LANRouters {
		var pf, rd, ds []string
		for _, p := range r.Options.Prefixes {
			pf = append(pf, hx(p.Prefix))
		}
		for _, a := range r.Options.RDNSS.Servers {
			rd = append(rd, hx(a))
		}
		for _, d := range r.Options.DNSSearchList.DomainNames {
			ds = append(ds, hstr(cov("DNSSearchList.DomainNames", d)))
		}
		_ = ip
		rs = append(rs, ipKey(r.Addr.IP)+"="+hx(r.Addr.MAC)+"/"+hx(r.Options.SourceLLA.MAC)+"/"+strings.Join(pf, "+")+"/"+
			strings.Join(rd, "+")+"/"+strings.Join(ds, "+")+"/"+hx(r.Options.RouteInformation.Prefix))
	}
	e.icmp6.Unlock()
	sort.Strings(rs)
	// DNS table
	var dn []string
	keys := make([]string, 0, len(e.dns.DNSTable))
	for k := range e.dns.DNSTable {
		keys = append(keys, k)
	}
	sort.Strings(keys)
	for _, k := range keys {
		ent := e.dns.DNSFind(k)
		var a4, a6, cn []string
		for ip, r := range ent.IP4Records {
			a4 = append(a4, ipKey(ip)+"\x00"+ipKey(r.IP)+"="+hstr(cov("IPResourceRecord.Name", r.Name)))
		}
		for ip, r := range ent.IP6Records {
			a6 = append(a6, ipKey(ip)+"\x00"+ipKey(r.IP)+"="+hstr(r.Name))
		}
		for key, r := range ent.CNameRecords {
			cn = append(cn, hstr(cov("DNSEntry.CNameRecords", key))+"\x00"+hstr(cov("NameResourceRecord.CName", r.CName))+"="+hstr(cov("NameResourceRecord.Name", r.Name)))
		}
		var pt []string
		for key, r := range ent.PTRRecords {
			pt = append(pt, hstr(cov("DNSEntry.PTRRecords", key))+"\x00"+ipKey(r.IP)+"="+hstr(r.Name))
		}
		dn = append(dn, hstr(cov("DNSEntry.Name", ent.Name))+"{"+sortedVals(a4)+"/"+sortedVals(a6)+"/"+sortedVals(cn)+"/"+sortedVals(pt)+"}")
	}
	// mDNS response cache (verif hook), sorted by key
	cache := e.dns.VerifMDNSCache()
	sort.Slice(cache, func(i, j int) bool { return bytes.Compare(cache[i].Key, cache[j].Key) < 0 })
	var cs []string
	for _, c := range cache {
		var es []string
		for i := range c.Names {
			es = append(es, hstr(c.Names[i])+"."+hx(c.MACs[i])+"."+hstr(c.Models[i]))
		}
		cs = append(cs, hx(c.Key)+"="+strings.Join(es, "+"))
	}
	return "H:" + strings.Join(hs, ",") + ";M:" + strings.Join(ms, ",") + ";L:" + strings.Join(ls, ",") +
		";R:" + strings.Join(rs, ",") + ";D:" + strings.Join(dn, ",") + ";C:" + strings.Join(cs, ",")
}

// sortedVals sorts "key\x00value" strings by key and returns the values joined by '+'.
func sortedVals(l []string) string {
	sort.Strings(l)
	out := make([]string, len(l))
	for i, s := range l {
		_, v, _ := strings.Cut(s, "\x00")
		out[i] = v
	}
	return strings.Join(out, "+")
}

// dumpFull adds the fields the model does not predict (flags, lease states, addresses, TTLs, ...).
func (e *env) dumpFull() string {
	hosts := e.s.GetHosts()
	hs := make([]string, 0, len(hosts))
	for _, h := range hosts {
		hs = append(hs, fmt.Sprintf("%s=%s on=%v st=%v man=%q me=%s types=%s%s%s%s%s", ipKey(h.Addr.IP), hx(h.Addr.MAC), h.Online, h.HuntStage,
			h.Manufacturer, hx(h.MACEntry.MAC), h.DHCP4Name.Type, h.MDNSName.Type, h.SSDPName.Type, h.LLMNRName.Type, h.NBNSName.Type))
	}
	sort.Strings(hs)
	var ms []string
	for _, m := range e.s.MACTable.Table {
		ms = append(ms, fmt.Sprintf("%s cap=%v on=%v rt=%v ip4=%s offer=%s gua=%s lla=%s man=%q", hx(m.MAC), m.Captured, m.Online, m.IsRouter,
			m.IP4, m.IP4Offer, m.IP6GUA, m.IP6LLA, m.Manufacturer))
	}
	var ls []string
	for _, l := range e.dhcp.VerifLeases() {
		ls = append(ls, fmt.Sprintf("%s st=%v ip=%s offer=%s net=%s", hx(l.ClientID), l.State, l.Addr.IP, l.IPOffer, l.SubnetID))
	}
	sort.Strings(ls)
	e.icmp6.Lock()
	var rs []string
	for _, r := range e.icmp6.LANRouters {
		var extra []string
		for _, x := range r.Options.Routes {
			extra = append(extra, "rt:"+hx(x.Prefix))
		}
		for _, x := range r.Options.RDNSSList {
			for _, a := range x.Servers {
				extra = append(extra, "dns:"+hx(a))
			}
		}
		for _, x := range r.Options.DNSSearchLists {
			extra = append(extra, "sl:"+strings.Join(x.DomainNames, "+"))
		}
		rs = append(rs, strings.Join(extra, ";")+fmt.Sprintf(" %s M=%v O=%v pref=%d hop=%d life=%v reach=%d retr=%d mtu=%d first=%s rdl=%v dsl=%v tlla=%s",
			ipKey(r.Addr.IP), r.ManagedFlag, r.OtherCondigFlag, r.Preference, r.CurHopLimit, r.DefaultLifetime, r.ReacheableTime, r.RetransTimer,
			r.Options.MTU, hx(r.Options.FirstPrefix), r.Options.RDNSS.Lifetime, r.Options.DNSSearchList.Lifetime, hx(r.Options.TargetLLA.MAC)))
	}
	e.icmp6.Unlock()
	sort.Strings(rs)
	var dn []string
	for k, ent := range e.dns.DNSTable {
		var ttl []string
		for ip, r := range ent.IP4Records {
			ttl = append(ttl, fmt.Sprintf("%s:%d", ip, r.TTL))
		}
		for ip, r := range ent.IP6Records {
			ttl = append(ttl, fmt.Sprintf("%s:%d", ip, r.TTL))
		}
		for c, r := range ent.CNameRecords {
			ttl = append(ttl, fmt.Sprintf("%s:%d", c, r.TTL))
		}
		for c, r := range ent.PTRRecords {
			ttl = append(ttl, fmt.Sprintf("%s:%s:%d", c, r.IP, r.TTL))
		}
		sort.Strings(ttl)
		dn = append(dn, hstr(k)+"["+strings.Join(ttl, ",")+"]")
	}
	sort.Strings(dn)
	pj, fl := e.outputs(0)
	_ = pj
	nw, _ := packet.VerifPingWaiters()
	fl += fmt.Sprintf(" PW:%d", nw)
	return e.dump() + " HF:" + strings.Join(hs, ",") + " MF:" + strings.Join(ms, ",") + " LF:" + strings.Join(ls, ",") +
		" RF:" + strings.Join(rs, ",") + " DF:" + strings.Join(dn, ",") + " " + fl
}

// ---------------------------------------------------------------------------
// caller writes: the application overwrites every byte slice it legitimately got back by value

func flip(b []byte) {
	for i := range b {
		b[i] ^= 0xff
	}
}

func (e *env) callerWritesNotification(n packet.Notification) {
	if e.cw == "notif" || e.cw == "all" {
		flip(n.Addr.MAC)
	}
}

// callerWritesGetters calls the by-value getters and overwrites what they return.
// (Pointers handed out by contract - *Host, *MACEntry, Frame.Host, the exported maps - are the tables
// themselves and are not written.)
func (e *env) callerWritesGetters() {
	if e.cw == "" {
		return
	}
	var macList [][]byte
	for _, m := range e.s.MACTable.Table {
		macList = append(macList, append([]byte{}, m.MAC...))
	}
	if e.cw == "findbymac" || e.cw == "all" {
		for _, m := range macList {
			for _, a := range e.s.FindByMAC(m) {
				flip(a.MAC)
			}
		}
	}
	if e.cw == "ipaddrs" || e.cw == "all" {
		for _, m := range macList {
			for _, a := range e.s.IPAddrs(m) {
				flip(a.MAC)
			}
		}
	}
	if e.cw == "gethosts" || e.cw == "all" {
		// the slice is the caller's (a shallow copy); the pointers in it are the table's records, shared by contract
		l := e.s.GetHosts()
		for i := range l {
			l[i] = nil
		}
		_ = append(l[:0], nil, nil)
	}
	if e.cw == "whois" || e.cw == "all" {
		if e.arp == nil {
			e.arp, _ = arp_spoofer.New(e.s)
		}
		for _, h := range e.s.GetHosts() {
			if h.Addr.IP.Is4() && e.arp != nil {
				if a, err := e.arp.WhoIs(h.Addr.IP); err == nil {
					flip(a.MAC)
				}
			}
		}
	}
	if e.cw == "findrouter" || e.cw == "all" {
		e.icmp6.Lock()
		var ips []netip.Addr
		for ip := range e.icmp6.LANRouters {
			ips = append(ips, ip)
		}
		e.icmp6.Unlock()
		for _, ip := range ips {
			r := e.icmp6.FindRouter(ip)
			flip(r.Addr.MAC)
			flip(r.Options.SourceLLA.MAC)
			flip(r.Options.TargetLLA.MAC)
			flip(r.Options.FirstPrefix)
			flip(r.Options.RouteInformation.Prefix)
			for _, p := range r.Options.Prefixes {
				flip(p.Prefix)
			}
			for _, p := range r.Prefixes {
				_ = p // the same slices as Options.Prefixes: flipped once
			}
			for _, a := range r.Options.RDNSS.Servers {
				flip(a)
			}
			for i := range r.Options.DNSSearchList.DomainNames {
				r.Options.DNSSearchList.DomainNames[i] = "overwritten"
			}
		}
	}
	if e.cw == "dnsfind" || e.cw == "all" {
		e.icmp6.Lock()
		e.icmp6.Unlock()
		var names []string
		for k := range e.dns.DNSTable {
			names = append(names, k)
		}
		bogus := netip.MustParseAddr("203.0.113.9")
		for _, k := range names {
			ent := e.dns.DNSFind(k)
			if ent.IP4Records != nil {
				ent.IP4Records[bogus] = packet.IPResourceRecord{Name: "overwritten", IP: bogus}
			}
			if ent.PTRRecords != nil {
				ent.PTRRecords["overwritten"] = packet.IPResourceRecord{Name: "overwritten", IP: bogus}
			}
			for _, l := range [][]netip.Addr{ent.IP4List(), ent.IP6List()} {
				for i := range l {
					l[i] = bogus
				}
			}
			for cl, i := ent.CNameList(), 0; i < len(cl); i++ {
				cl[i] = "overwritten"
			}
		}
	}
}

var cwClasses = []string{"notif", "gethosts", "findbymac", "ipaddrs", "whois", "findrouter", "mdnsret", "dnsret", "dnsfind"}
