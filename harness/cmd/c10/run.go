package main

import (
	"encoding/hex"
	"fmt"
	"net/netip"
	"sort"
	"strings"
	"time"

	"github.com/irai/packet"
	"pvharness/lib"
)

const bufSize = 2048

// env is one fresh instance of the library: session + handlers on a recording connection.
type env struct {
	s    *packet.Session
	conn *lib.RecConn
}

func newEnv() *env {
	s, conn := lib.NewSession()
	return &env{s: s, conn: conn}
}

func (e *env) close() {
	go e.s.Close() // Close sleeps 1 s
}

func hx(b []byte) string { return hex.EncodeToString(b) }

func ipKey(a netip.Addr) string { return hx(a.AsSlice()) }

// runHistory executes ops on a fresh library instance. shared: one receive buffer that is
// overwritten (byte i = fill + i*stp) after every packet; otherwise a private exact-size
// buffer per packet that is never touched again by the harness.
// Returns the projected transcript (compared with the model) and the full transcript
// (compared between the two runs).
func runHistory(ops []op, shared bool, fill, stp byte) (string, string) {
	e := newEnv()
	defer e.close()
	var buf []byte
	if shared {
		buf = make([]byte, bufSize)
	}
	var proj, full []string
	for _, o := range ops {
		switch o.kind {
		case 'p':
			var p []byte
			if shared {
				n := copy(buf, o.frame)
				p = buf[:n]
			} else {
				p = make([]byte, len(o.frame))
				copy(p, o.frame)
			}
			pj, fl := e.recv(p)
			if shared {
				for i := range buf {
					buf[i] = fill + byte(i)*stp
				}
			}
			proj = append(proj, pj)
			full = append(full, fl)
		case 'x':
			e.purge(o.keys)
			proj = append(proj, "-")
			full = append(full, "-"+e.drain())
		case 'q':
			proj = append(proj, e.dump())
			full = append(full, e.dumpFull())
		}
	}
	proj = append(proj, e.dump())
	full = append(full, e.dumpFull())
	return strings.Join(proj, "|"), strings.Join(full, "|")
}

// recv is what an application does with a received frame: Parse, dispatch to the handlers, Notify.
func (e *env) recv(p []byte) (string, string) {
	frame, err := e.s.Parse(p)
	if err != nil {
		return "-", "perr" + e.drain()
	}
	e.s.Notify(frame)
	return "-", "ok" + e.drain()
}

// drain collects the notifications and emitted frames produced so far (full transcript only).
func (e *env) drain() string {
	var sb strings.Builder
	for {
		select {
		case n := <-e.s.C:
			sb.WriteString(" N(" + showNotification(n) + ")")
			continue
		default:
		}
		break
	}
	for _, f := range e.conn.Take() {
		sb.WriteString(" F(" + hx(f) + ")")
	}
	return sb.String()
}

func showName(n packet.NameEntry) string {
	return fmt.Sprintf("%q/%q/%q/%q/%q", n.Type, n.Name, n.Model, n.Manufacturer, n.OS)
}

func showNotification(n packet.Notification) string {
	return fmt.Sprintf("%s %s on=%v rt=%v %s %s %s %s %s", ipKey(n.Addr.IP), hx(n.Addr.MAC), n.Online, n.IsRouter,
		showName(n.DHCP4Name), showName(n.MDNSName), showName(n.SSDPName), showName(n.LLMNRName), showName(n.NBNSName))
}

func (e *env) purge(keys [][]byte) {
	for _, k := range keys {
		a, ok := netip.AddrFromSlice(k)
		if !ok {
			continue
		}
		if h := e.s.FindIP(a); h != nil {
			h.MACEntry.Row.Lock()
			h.Online = false
			h.LastSeen = time.Now().Add(-2 * packet.DefaultPurgeDeadline)
			h.MACEntry.Row.Unlock()
		}
	}
	e.s.VerifPurge(time.Now())
}

// dump: the retained byte strings of the host and MAC tables, as the model prints them.
func (e *env) dump() string {
	hosts := e.s.GetHosts()
	hs := make([]string, 0, len(hosts))
	for _, h := range hosts {
		hs = append(hs, ipKey(h.Addr.IP)+"="+hx(h.Addr.MAC))
	}
	sort.Strings(hs)
	ms := make([]string, 0, len(e.s.MACTable.Table))
	for _, m := range e.s.MACTable.Table {
		ips := make([]string, 0, len(m.HostList))
		for _, h := range m.HostList {
			ips = append(ips, ipKey(h.Addr.IP))
		}
		ms = append(ms, hx(m.MAC)+"["+strings.Join(ips, "+")+"]")
	}
	return "H:" + strings.Join(hs, ",") + ";M:" + strings.Join(ms, ",")
}

// dumpFull adds the fields the model does not predict (flags, names, ...).
func (e *env) dumpFull() string {
	hosts := e.s.GetHosts()
	hs := make([]string, 0, len(hosts))
	for _, h := range hosts {
		hs = append(hs, fmt.Sprintf("%s=%s on=%v st=%v man=%q %s %s %s %s %s me=%s", ipKey(h.Addr.IP), hx(h.Addr.MAC), h.Online, h.HuntStage,
			h.Manufacturer, showName(h.DHCP4Name), showName(h.MDNSName), showName(h.SSDPName), showName(h.LLMNRName), showName(h.NBNSName),
			hx(h.MACEntry.MAC)))
	}
	sort.Strings(hs)
	var ms []string
	for _, m := range e.s.MACTable.Table {
		ms = append(ms, fmt.Sprintf("%s cap=%v on=%v rt=%v ip4=%s offer=%s gua=%s lla=%s man=%q %s %s %s %s %s", hx(m.MAC), m.Captured, m.Online, m.IsRouter,
			m.IP4, m.IP4Offer, m.IP6GUA, m.IP6LLA, m.Manufacturer,
			showName(m.DHCP4Name), showName(m.MDNSName), showName(m.SSDPName), showName(m.LLMNRName), showName(m.NBNSName)))
	}
	return e.dump() + " HF:" + strings.Join(hs, ",") + " MF:" + strings.Join(ms, ",") + e.drain()
}
