package main

// k6: hunt list of the ICMPv6 spoofer. The application hunts the sender of the frame it has just
// parsed (StartHunt(frame.SrcAddr): the Addr carries a view of the receive buffer) and later stops
// the hunt with a MAC it owns. Observation: how many spoof loops are still running at the end
// (each answers a router advertisement with one neighbour advertisement per known router).

import (
	"net"
	"net/netip"
	"strconv"
	"strings"
	"time"

	"github.com/irai/packet"
	"github.com/irai/packet/handlers/icmp_spoofer"
	"pvharness/lib"
)

var (
	huntRouterMAC = net.HardwareAddr{0x02, 0, 0, 0, 0, 0x09}
	huntRouterLLA = netip.MustParseAddr("fe80::1:9")
	huntLLAs      = []netip.Addr{netip.MustParseAddr("fe80::1:5"), netip.MustParseAddr("fe80::1:6"), netip.MustParseAddr("fe80::1:7"), netip.MustParseAddr("fe80::1:8")}
)

func huntRA() []byte {
	all := netip.MustParseAddr("ff02::1")
	body := append([]byte{64, 0, 7, 8, 0, 0, 0, 0, 0, 0, 0, 0}, append([]byte{1, 1}, huntRouterMAC...)...)
	return lib.MkEther(net.HardwareAddr{0x33, 0x33, 0, 0, 0, 1}, huntRouterMAC, 0x86dd,
		lib.MkIP6(huntRouterLLA, all, 58, 255, lib.MkICMP6(huntRouterLLA, all, 134, 0, body)))
}

func runHuntCase(a []string) string {
	if len(a) < 2 {
		return "badargs"
	}
	fill, stp := byte(atoi(a[0])), byte(atoi(a[1]))
	na := huntRun(a[2:], true, fill, stp)
	nb := huntRun(a[2:], false, 0, 0)
	if na < 0 || nb < 0 {
		return "badargs"
	}
	return tf(na == nb) + " " + strconv.Itoa(na)
}

// countNA: number of distinct destinations of the neighbour advertisements (one per running hunt; a loop
// whose own 2 s timer fires inside the window sends a second one to the same destination)
func countNA(fs [][]byte) int {
	seen := map[string]bool{}
	for _, f := range fs {
		if len(f) > 54 && f[12] == 0x86 && f[13] == 0xdd && f[20] == 58 && f[54] == 136 {
			seen[string(f[0:6])] = true
		}
	}
	return len(seen)
}

func huntRun(toks []string, shared bool, fill, stp byte) int {
	e := newEnv()
	defer e.close()
	buf := make([]byte, bufSize)
	recv := func(f []byte) packet.Frame {
		p := buf
		if !shared {
			p = make([]byte, bufSize)
		}
		p = p[:copy(p, f)]
		fr, err := e.s.Parse(p)
		if err != nil {
			panic(err)
		}
		if fr.PayloadID == packet.PayloadICMP6 {
			icmp_spoofer.VerifSetRepeat(3)
			e.icmp6.ProcessPacket(fr)
		}
		return fr
	}
	scribble := func() {
		if shared {
			for i := range buf {
				buf[i] = fill + byte(i)*stp
			}
		}
	}
	recv(huntRA()) // the router is known: spoof loops have something to advertise
	scribble()
	hunted := map[string]bool{} // what the hunt list holds if StartHunt keeps its own copy of the MAC
	for _, t := range toks {
		k, arg, _ := strings.Cut(t, ":")
		switch k {
		case "s":
			f := lib.UnHex(arg)
			fr := recv(f)
			hunted[hx(f[6:12])] = true
			e.icmp6.StartHunt(fr.SrcAddr)
			scribble()
		case "t":
			delete(hunted, arg)
			e.icmp6.StopHunt(packet.Addr{MAC: net.HardwareAddr(lib.UnHex(arg))})
		default:
			return -1
		}
	}
	// waits are by count, not by time, so that a busy machine cannot change the observation: every new loop sends
	// one advertisement at once; after the wake-up every running hunt sends one more. A short quiet period afterwards
	// lets advertisements nobody expects (a hunt that should have stopped) show up.
	var seen [][]byte
	waitFor := func(enough func() bool) {
		deadline := time.Now().Add(4 * time.Second)
		for {
			seen = append(seen, e.conn.Take()...)
			if enough() || time.Now().After(deadline) {
				return
			}
			time.Sleep(200 * time.Microsecond)
		}
	}
	// (a loop whose hunt was stopped before its goroutine ran sends nothing: only the hunts still on are waited for)
	waitFor(func() bool { return countNA(seen) >= len(hunted) })
	e.conn.WaitQuiet(10*time.Millisecond, 100*time.Millisecond)
	e.conn.Take()
	seen = nil
	recv(huntRA())
	scribble()
	waitFor(func() bool { return countNA(seen) >= len(hunted) })
	e.conn.WaitQuiet(15*time.Millisecond, 200*time.Millisecond)
	seen = append(seen, e.conn.Take()...)
	return countNA(seen)
}

// generator
func (g *gen) huntHistory(depth int) []string {
	f, s := g.scribble()
	toks := []string{f, s}
	for i := 0; i < depth; i++ {
		m := g.umac()
		if g.rng.Chance(55) {
			src := huntLLAs[g.rng.Intn(len(huntLLAs))]
			fr := lib.MkEther(lib.RouterMAC, m, 0x86dd, lib.MkIP6(src, huntRouterLLA, 58, 64, lib.MkICMP6(src, huntRouterLLA, 128, 0, []byte{0, 1, 0, 1})))
			toks = append(toks, "s:"+lib.Hex(fr))
		} else {
			toks = append(toks, "t:"+lib.Hex(m))
		}
	}
	return toks
}
