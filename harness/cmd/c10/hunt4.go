package main

// ka: hunt list of the ARP spoofer. s:<frame> the application hunts the sender of the IPv4 frame it has
// just parsed (StartHunt(frame.SrcAddr)); t:<mac> StopHunt with an owned MAC; w waits one period of the
// loops' 6 s ticker; r:<frame> an ARP request handed to ProcessPacket. Observation: the ARP frames the
// handler emits at every operation (A = announcement "router is at us" to the hunted MAC, Q = restoring
// request when a loop finds its key gone, Y = spoofed reply).

import (
	"net"
	"sort"
	"strings"
	"sync"
	"time"

	"github.com/irai/packet"
	"github.com/irai/packet/handlers/arp_spoofer"
	"pvharness/lib"
)

const arpTick = 6 * time.Second

func runHunt4Case(a []string) string {
	if len(a) < 2 {
		return "badargs"
	}
	fill, stp := byte(atoi(a[0])), byte(atoi(a[1]))
	var ra, rb string
	var wg sync.WaitGroup
	wg.Add(2)
	go func() { defer wg.Done(); ra = hunt4Run(a[2:], true, fill, stp) }()
	go func() { defer wg.Done(); rb = hunt4Run(a[2:], false, 0, 0) }()
	wg.Wait()
	return tf(ra == rb) + " " + ra
}

// arpItem classifies an ARP frame emitted by the handler.
func arpItem(f []byte) (string, string) {
	if len(f) < 42 || f[12] != 0x08 || f[13] != 0x06 {
		return "", ""
	}
	dst := hx(f[0:6])
	op := f[21]
	smac := f[22:28]
	switch {
	case op == 2:
		return "Y(" + dst + ")", dst
	case string(smac) == string(lib.HostMAC):
		return "A(" + dst + ")", dst
	default:
		return "Q(" + dst + ")", dst
	}
}

func hunt4Run(toks []string, shared bool, fill, stp byte) string {
	s, conn := lib.NewSession()
	defer func() { go s.Close() }()
	h, err := arp_spoofer.New(s)
	if err != nil {
		panic(err)
	}
	defer h.Close()
	buf := make([]byte, bufSize)
	recv := func(f []byte) packet.Frame {
		p := buf
		if !shared {
			p = make([]byte, bufSize)
		}
		p = p[:copy(p, f)]
		fr, err := s.Parse(p)
		if err != nil {
			panic(err)
		}
		if fr.PayloadID == packet.PayloadARP {
			h.ProcessPacket(fr)
		}
		return fr
	}
	scribble := func() {
		if shared {
			for i := range buf {
				buf[i] = fill + byte(i)*stp
			}
		}
	}
	hunted := map[string]bool{} // keys of the hunt list
	var order []string          // hunted MACs in start order: the loops run concurrently, their frames are sorted by it
	rank := func(m string) int {
		for i, x := range order {
			if x == m {
				return i
			}
		}
		return len(order)
	}
	collect := func(want int, max time.Duration) string {
		deadline := time.Now().Add(max)
		for conn.Len() < want && time.Now().Before(deadline) {
			time.Sleep(200 * time.Microsecond)
		}
		type it struct{ s, dst string }
		var its []it
		for _, f := range conn.Take() {
			if x, d := arpItem(f); x != "" {
				its = append(its, it{x, d})
			}
		}
		sort.SliceStable(its, func(i, j int) bool {
			if ri, rj := rank(its[i].dst), rank(its[j].dst); ri != rj {
				return ri < rj
			}
			return its[i].s < its[j].s
		})
		out := ""
		for _, x := range its {
			out += x.s
		}
		if out == "" {
			out = "-"
		}
		return out
	}
	var outs []string
	loops := 0
	lastTick := time.Time{}
	for _, t := range toks {
		k, arg, _ := strings.Cut(t, ":")
		switch k {
		case "s":
			f := lib.UnHex(arg)
			fr := recv(f)
			mac := hx(f[6:12])
			known := hunted[mac]
			before := conn.Len()
			h.StartHunt(fr.SrcAddr)
			scribble()
			want := before
			if !known {
				hunted[mac] = true
				order = append(order, mac)
				loops++
				want++
				if lastTick.IsZero() {
					lastTick = time.Now()
				}
			}
			outs = append(outs, collect(want, 2*time.Second))
		case "t":
			delete(hunted, arg)
			h.StopHunt(packet.Addr{MAC: net.HardwareAddr(lib.UnHex(arg))})
			outs = append(outs, collect(0, 0))
		case "w":
			// every loop ticks once: its ticker started at its StartHunt, all within a few ms of each other
			if d := time.Until(lastTick.Add(arpTick + 300*time.Millisecond)); d > 0 {
				time.Sleep(d)
			}
			lastTick = lastTick.Add(arpTick)
			o := collect(loops, 2*time.Second)
			loops -= strings.Count(o, "Q(")
			outs = append(outs, o)
		case "r":
			recv(lib.UnHex(arg))
			scribble()
			outs = append(outs, collect(0, 0))
		default:
			return "badargs"
		}
	}
	return strings.Join(outs, "|")
}

// generator: starts/stops/requests, and (timed) tick operations
func (g *gen) hunt4History(depth int, ticks int) []string {
	f, s := g.scribble()
	toks := []string{f, s}
	zmac := net.HardwareAddr{0, 0, 0, 0, 0, 0}
	for i := 0; i < depth; i++ {
		ci := g.rng.Intn(len(macs))
		m, ip := macs[ci], ip4s[ci]
		switch c := g.rng.Intn(100); {
		case c < 45:
			fr := udp4Frame(lib.RouterMAC, m, ip, lib.RouterIP4, 40000, 2000, []byte{1, 2, 3})
			toks = append(toks, "s:"+lib.Hex(fr))
		case c < 65:
			toks = append(toks, "t:"+lib.Hex(m))
		default:
			target := lib.RouterIP4
			if g.rng.Chance(25) {
				target = ip4s[g.rng.Intn(len(ip4s))]
			}
			toks = append(toks, "r:"+lib.Hex(lib.MkEther(bcastMAC, m, 0x0806, lib.MkARP(1, m, ip, zmac, target))))
		}
		if ticks > 0 && i >= depth/2 && g.rng.Chance(60) {
			toks = append(toks, "w")
			ticks--
		}
	}
	for ; ticks > 0; ticks-- {
		toks = append(toks, "w")
	}
	return toks
}
