package main

// hm: histories in which a share of the frames is truncated or corrupted. The model does not predict
// what a damaged message leaves behind; the check is purely differential: the run with one shared,
// scribbled receive buffer and the run with private buffers must produce the same full transcript
// (whatever was retained from a partially accepted or rejected packet must be a copy).
// Observation "T" (model: "T") or "F@<step>". Whether a frame rejected by Parse changed the tables is
// counted as a statistic only: C10 is about aliasing, and a host created (as a copy) from the IP header of
// a frame whose transport header is then rejected contradicts neither C10 nor C04.

import (
	"fmt"
	"sort"
	"strings"
	"time"

	"pvharness/lib"
)

// damage returns a truncated / corrupted variant of a frame.
func (g *gen) damage(f []byte) []byte {
	b := append([]byte{}, f...)
	switch g.rng.Intn(6) {
	case 0: // truncate anywhere
		return b[:g.rng.Intn(len(b)+1)]
	case 1: // truncate inside the last 40 bytes
		n := len(b) - 1 - g.rng.Intn(40)
		if n < 0 {
			n = 0
		}
		return b[:n]
	case 2: // flip a few bytes after the MAC addresses
		for i := 1 + g.rng.Intn(3); i > 0 && len(b) > 12; i-- {
			b[12+g.rng.Intn(len(b)-12)] ^= byte(1 << g.rng.Intn(8))
		}
	case 3: // overwrite a 2-byte field (lengths, counts, ports, option headers) with a boundary value
		if len(b) > 16 {
			o := 14 + g.rng.Intn(len(b)-15)
			v := [][2]byte{{0, 0}, {0, 1}, {0xff, 0xff}, {0x7f, 0xff}, {0, byte(len(b))}}[g.rng.Intn(5)]
			b[o], b[o+1] = v[0], v[1]
		}
	case 4: // garbage appended
		b = append(b, g.rng.Bytes(1+g.rng.Intn(24))...)
	case 5: // tail replaced by noise
		if len(b) > 20 {
			o := 14 + g.rng.Intn(len(b)-14)
			copy(b[o:], g.rng.Bytes(len(b)-o))
		}
	}
	return b
}

// malformedHistory: a well-formed history in which every packet is followed, with some probability, by damaged copies of itself
func (g *gen) malformedHistory(depth int) []string {
	toks := g.history(depth, [8]int{15, 10, 20, 15, 12, 15, 7, 6})
	out := toks[:2:2]
	if g.rng.Chance(35) {
		// a valid Ethernet + IPv4 header from a LAN host followed by a transport header that is too short:
		// Parse validates the transport layer only after the host entry has been created
		ci := g.rng.Intn(len(macs))
		proto := []byte{17, 6, 1}[g.rng.Intn(3)]
		out = append(out, "p:"+lib.Hex(lib.MkEther(lib.RouterMAC, macs[ci], 0x0800, lib.MkIP4(ip4s[ci], lib.RouterIP4, proto, 64, g.rng.Bytes(1+g.rng.Intn(3))))))
	}
	for _, t := range toks[2:] {
		fs := strings.Split(t, ":")
		isPkt := len(fs) >= 2 && strings.Contains("pdrnmlbscaef", fs[0]) && len(fs[0]) == 1 && fs[0] != "q" && fs[0] != "x" && fs[0] != "o" && fs[0] != "u"
		if isPkt && g.rng.Chance(50) {
			for n := 1 + g.rng.Intn(2); n > 0; n-- {
				out = append(out, "p:"+lib.Hex(g.damage(lib.UnHex(fs[1]))))
			}
			if g.rng.Chance(50) {
				continue // the intact message is not delivered at all
			}
		}
		if isPkt {
			t = "p:" + fs[1] // no locators / oracle needed: the model is not consulted
		}
		out = append(out, t)
	}
	return out
}

func runMalformedCase(a []string) string {
	if len(a) < 2 {
		return "badargs"
	}
	fill, stp := byte(atoi(a[0])), byte(atoi(a[1]))
	ops, ok := parseOps(a[2:])
	if !ok {
		return "badargs"
	}
	done := make(chan string, 1)
	go func() {
		var ta, tb []string
		if osGetenv("C10_ORDER") == "ba" { // which run goes first must not matter
			tb = malformedRun(ops, false, 0, 0)
			ta = malformedRun(ops, true, fill, stp)
		} else {
			ta = malformedRun(ops, true, fill, stp)
			tb = malformedRun(ops, false, 0, 0)
		}
		if n := osGetenv("C10_SHOWSTEP"); n != "" && atoi(n) < len(ta) {
			fmt.Fprintf(osStderr, "STEP %s A: %s\n", n, ta[atoi(n)])
		}
		for i := range ta {
			if i >= len(tb) || ta[i] != tb[i] {
				debugDiff(i, ta, tb)
				done <- fmt.Sprintf("F@%d", i)
				return
			}
		}
		if osGetenv("C10_DEBUG") != "" {
			fmt.Fprintf(osStderr, "hm stats: rejected=%d rejected-but-changed=%d panics=%d %s\n", malformedStats.parseErr, malformedStats.rejectedChanged, malformedStats.panics, malformedSample)
		}
		done <- "T"
	}()
	select {
	case r := <-done:
		return r
	case <-time.After(60 * time.Second):
		return "fuel"
	}
}

var malformedStats struct{ parseErr, rejectedChanged, panics int64 }
var malformedSample, malformedPanic string

func debugDiff(i int, ta, tb []string) {
	if osGetenv("C10_DEBUG") != "" {
		b := ""
		if i < len(tb) {
			b = tb[i]
		}
		fmt.Fprintf(osStderr, "HM step %d\nA: %s\nB: %s\n", i, ta[i], b)
	}
}

// malformedRun returns the full transcript, one entry per operation (a panic ends the run).
func malformedRun(ops []op, shared bool, fill, stp byte) (out []string) {
	e := newEnv()
	e.lateMode = true
	defer e.close()
	buf := make([]byte, bufSize)
	step := func(o *op) (res string) {
		defer func() {
			if r := recover(); r != nil {
				malformedStats.panics++
				if malformedPanic == "" {
					malformedPanic = fmt.Sprintf("panic %v on frame %s", r, lib.Hex(o.frame))
				}
				res = "panic"
			}
		}()
		if strings.IndexByte("xouq", o.kind) >= 0 {
			_, fl := e.apply(o, buf, shared, fill, stp)
			return fl
		}
		p := buf
		if !shared {
			p = make([]byte, bufSize)
		}
		p = p[:copy(p, o.frame)]
		before := e.dump()
		frame, err := e.s.Parse(p)
		tag := "ok"
		if err != nil {
			tag = "perr"
			malformedStats.parseErr++
			if after := e.dump(); after != before {
				malformedStats.rejectedChanged++
				if malformedSample == "" {
					malformedSample = fmt.Sprintf("Parse rejected %s (%v) but the tables changed", lib.Hex(o.frame), err)
				}
				tag = "perr-changed"
			}
		} else {
			e.dispatch(frame, p, o)
			e.s.Notify(frame)
		}
		if shared {
			for i := range buf {
				buf[i] = fill + byte(i)*stp
			}
		}
		e.setAsideLate()
		_, fl := e.outputs(0)
		return tag + " " + fl + " " + e.dump()
	}
	for i := range ops {
		r := step(&ops[i])
		out = append(out, r)
		if r == "panic" {
			return out
		}
	}
	// the decline / release frames are sent by goroutines of the DHCP handler some time after the call that
	// started them (built from copies made before the goroutine starts): for a damaged message the harness cannot
	// tell how many to wait for, so they are compared as one multiset per history, after the connection went quiet
	e.conn.WaitQuiet(80*time.Millisecond, 5*time.Second)
	e.setAsideLate()
	sort.Strings(e.late)
	out = append(out, e.dumpFull(), "late:"+strings.Join(e.late, ","))
	return out
}

// setAsideLate moves the frames sent by the DHCP handler's decline/release goroutines out of the per-step stream.
func (e *env) setAsideLate() {
	e.collect()
	keep := e.pend[:0]
	for _, f := range e.pend {
		if it, cat := classify(f); cat == 'D' {
			e.late = append(e.late, canonDHCP(f, strings.HasPrefix(it, "D(7,")))
		} else {
			keep = append(keep, f)
		}
	}
	e.pend = keep
}
