// C10: retained state never aliases the caller's packet buffer.
//
// Every history is executed TWICE on the real library:
//
//	(a) one shared receive buffer; every frame is copied to its start, handed to
//	    Parse + handlers + Notify, and the whole buffer is overwritten afterwards;
//	(b) a private, never modified, exactly sized buffer per frame.
//
// The observation is "<T|F> <projected transcript of run (a)>": the flag says
// whether the FULL transcripts of (a) and (b) (incl. emitted frames, lease
// states, notifications) are identical; the projected transcript contains the
// retained byte-string fields which the Coq model predicts.
package main

import (
	"io"
	"os"
	"strings"

	"github.com/irai/packet"
	"github.com/irai/packet/fastlog"
	"pvharness/lib"
)

func quiet() {
	fastlog.DefaultIOWriter = io.Discard
	packet.Logger.SetLevel(fastlog.LevelError)
	if dn, err := os.OpenFile(os.DevNull, os.O_WRONLY, 0); err == nil {
		os.Stdout = dn // handlers print with fmt.Println
	}
}

func main() {
	r := lib.Init()
	defer r.Close()
	quiet()
	r.Register("h", func(a []string) string { return runCase(a) })
	if r.Replayed() {
		return
	}
	generate(r)
}

// runCase executes the history twice and builds the observation.
func runCase(a []string) string {
	if len(a) < 2 {
		return "badargs"
	}
	fill, stp := atoi(a[0]), atoi(a[1])
	ops, ok := parseOps(a[2:])
	if !ok {
		return "badargs"
	}
	pa, fa := runHistory(ops, true, byte(fill), byte(stp))
	_, fb := runHistory(ops, false, 0, 0)
	eq := "T"
	if fa != fb {
		eq = "F"
	}
	return eq + " " + pa
}

func atoi(s string) int {
	n := 0
	for _, c := range s {
		if c < '0' || c > '9' {
			return 0
		}
		n = n*10 + int(c-'0')
	}
	return n
}

type op struct {
	kind  byte // 'p' packet, 'x' purge, 'q' dump
	frame []byte
	keys  [][]byte
}

func parseOps(toks []string) ([]op, bool) {
	var ops []op
	for _, t := range toks {
		k, arg, _ := strings.Cut(t, ":")
		switch k {
		case "q":
			ops = append(ops, op{kind: 'q'})
		case "p":
			ops = append(ops, op{kind: 'p', frame: lib.UnHex(arg)})
		case "x":
			o := op{kind: 'x'}
			for _, h := range strings.Split(arg, ",") {
				o.keys = append(o.keys, lib.UnHex(h))
			}
			ops = append(ops, o)
		default:
			return nil, false
		}
	}
	return ops, true
}
