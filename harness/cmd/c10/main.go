// C10: retained state never aliases the caller's packet buffer.
//
// Every history is executed TWICE on the real library:
//
//	(a) one shared receive buffer; every frame is copied to its start, handed to
//	    Parse + handlers + Notify, and the whole buffer is overwritten afterwards;
//	(b) a private, never modified, exactly sized buffer per frame.
//
// The observation is "<T|F> <projected transcript of run (a)>": the flag says
// whether the FULL transcripts of (a) and (b) (incl. emitted frames, lease
// states, notifications) are identical; the projected transcript contains the
// retained byte-string fields which the Coq model predicts.
package main

import (
	"fmt"
	"io"
	"os"
	"strings"
	"time"

	"github.com/irai/packet"
	"github.com/irai/packet/fastlog"
	"github.com/irai/packet/handlers/dhcp4_spoofer"
	"github.com/irai/packet/handlers/dns_naming"
	"github.com/irai/packet/handlers/icmp_spoofer"
	"pvharness/lib"
)

func quiet() {
	fastlog.DefaultIOWriter = io.Discard
	packet.Logger.SetLevel(fastlog.LevelError)
	dhcp4_spoofer.Logger.SetLevel(fastlog.LevelError)
	icmp_spoofer.Logger6.SetLevel(fastlog.LevelError)
	dns_naming.Logger.SetLevel(fastlog.LevelError)
	dns_naming.LoggerMDNS.SetLevel(fastlog.LevelError)
	if dn, err := os.OpenFile(os.DevNull, os.O_WRONLY, 0); err == nil {
		os.Stdout = dn // handlers print with fmt.Println
	}
}

func main() {
	r := lib.Init()
	defer r.Close()
	quiet()
	r.Register("h", func(a []string) string { return runCase(a, false) })
	r.Register("hl", func(a []string) string { return runCase(a, true) })
	r.Register("hw", func(a []string) string { return runCallerWrites(a) })
	r.Register("off", func(a []string) string { return offsetsTable() })
	r.Register("hm", func(a []string) string { return runMalformedCase(a) })
	r.Register("k6", func(a []string) string { return runHuntCase(a) })
	r.Register("ka", func(a []string) string { return runHunt4Case(a) })
	if r.Replayed() {
		return
	}
	checkCensus(r)
	r.Do("off", "-")
	if os.Getenv("C10_CENSUS_ONLY") != "" {
		return
	}
	generate(r)
}

// runCase executes the history twice and builds the observation.
func runCase(a []string, lazy bool) string {
	if len(a) < 2 {
		return "badargs"
	}
	fill, stp := atoi(a[0]), atoi(a[1])
	ops, ok := parseOps(a[2:])
	if !ok {
		return "badargs"
	}
	// watchdog: some handler loops can spin on inputs they do not expect
	done := make(chan string, 1)
	go func() {
		defer func() {
			if e := recover(); e != nil {
				done <- "panic"
			}
		}()
		pa, fa := runHistory(ops, true, byte(fill), byte(stp), lazy, "")
		_, fb := runHistory(ops, false, 0, 0, lazy, "")
		eq := "T"
		if fa != fb {
			eq = "F"
			if os.Getenv("C10_DEBUG") != "" {
				fmt.Fprintf(os.Stderr, "A: %s\nB: %s\n", fa, fb)
			}
		}
		done <- eq + " " + pa
	}()
	select {
	case r := <-done:
		return r
	case <-time.After(30 * time.Second):
		return "fuel"
	}
}

func atoi(s string) int {
	n := 0
	for _, c := range s {
		if c < '0' || c > '9' {
			return 0
		}
		n = n*10 + int(c-'0')
	}
	return n
}

type op struct {
	kind  byte // 'p','d','r','n','m','l','b','s' packets; 'x' purge, 'o' offline, 'u' hunt, 'q' dump
	frame []byte
	keys  [][]byte
	f     []string // remaining fields of a packet token (locators / oracle)
}

func parseOps(toks []string) ([]op, bool) {
	var ops []op
	for _, t := range toks {
		fs := strings.Split(t, ":")
		if len(fs[0]) != 1 {
			return nil, false
		}
		k := fs[0][0]
		switch k {
		case 'q':
			ops = append(ops, op{kind: 'q'})
		case 'x', 'o', 'u':
			if len(fs) != 2 {
				return nil, false
			}
			o := op{kind: k}
			for _, h := range strings.Split(fs[1], ",") {
				o.keys = append(o.keys, lib.UnHex(h))
			}
			ops = append(ops, o)
		case 'p', 'd', 'r', 'n', 'm', 'l', 'b', 's', 'c', 'e', 'a', 'f':
			if len(fs) < 2 {
				return nil, false
			}
			ops = append(ops, op{kind: k, frame: lib.UnHex(fs[1]), f: fs[2:]})
		default:
			return nil, false
		}
	}
	return ops, true
}

// runCallerWrites: the history is executed with private buffers, once untouched and once per output class with
// the application overwriting every byte slice of that class it gets back; the retained state and all later
// outputs must not change. Observation: "T <projected transcript>" or "F:<classes whose run differs> ...".
func runCallerWrites(a []string) string {
	if len(a) < 2 {
		return "badargs"
	}
	ops, ok := parseOps(a[2:])
	if !ok {
		return "badargs"
	}
	done := make(chan string, 1)
	go func() {
		defer func() {
			if e := recover(); e != nil {
				done <- "panic"
			}
		}()
		pj, base := runHistory(ops, false, 0, 0, false, "")
		var bad []string
		for _, c := range cwClasses {
			f := "panic" // a corrupted table can trip the library's own consistency panic
			func() {
				defer func() { recover() }()
				_, f = runHistory(ops, false, 0, 0, false, c)
			}()
			if f != base {
				bad = append(bad, c)
				if os.Getenv("C10_DEBUG") != "" {
					fmt.Fprintf(os.Stderr, "CW %s\nA: %s\nB: %s\n", c, base, f)
				}
			}
		}
		if len(bad) == 0 {
			done <- "T " + pj
		} else {
			done <- "F:" + strings.Join(bad, ",") + " " + pj
		}
	}()
	select {
	case r := <-done:
		return r
	case <-time.After(60 * time.Second):
		return "fuel"
	}
}

var osGetenv = os.Getenv
var osStderr = os.Stderr

// offsetsTable: where the library's own getters read the fields the model reads at fixed positions, measured on a
// pattern frame (byte i = i): the first byte of what a getter returns is its offset in the frame.
func offsetsTable() string {
	f := make([]byte, 400)
	for i := range f {
		f[i] = byte(i)
	}
	eth := packet.Ether(f)
	ip4 := packet.IP4(f[14:])
	ip6 := packet.IP6(f[14:])
	arp := packet.ARP(f[14:])
	dh := packet.DHCP4(f[42:])
	s4 := ip4.Src().As4()
	s6 := ip6.Src().As16()
	as := arp.SrcIP().As4()
	l := func(n string, off byte, ln int) string { return fmt.Sprintf("%s=%d.%d", n, off, ln) }
	return strings.Join([]string{l("ethsrc", eth.Src()[0], len(eth.Src())), l("ip4src", s4[0], 4), l("ip6src", s6[0], 16),
		l("arpsha", arp.SrcMAC()[0], len(arp.SrcMAC())), l("arpspa", as[0], 4), l("arptpa", arp.DstIP().As4()[0], 4),
		l("dhcpxid", dh.XId()[0], len(dh.XId())), l("dhcpchaddr", dh.CHAddr()[0], len(dh.CHAddr()))}, " ")
}
