package main

// Retention-point census: a mechanical cross-check of the model's retention-point table against
// the tree under test ($VERIF_REPO). A "site" is a statement of the anchored files that stores a value
// containing a byte slice ([]byte, net.IP, net.HardwareAddr, a view type, or a struct/slice/map of
// those) into a field, an element, a composite literal, a channel or a goroutine, or an exported
// function handing such a value out by value. Sites whose right-hand side is visibly a fresh copy
// (CopyMAC/CopyIP/CopyBytes/dupBytes/dupMAC, make, append to an empty slice, AsSlice/Mask/To16,
// a []byte(string) conversion, nil) never count: removing such a copy makes the site appear.
//
// Sites are keyed by package + kind + Type.field WITH A MULTIPLICITY (how many such statements the
// package has in the files looked at); file and enclosing function are only reported as information.
// Moving a statement to another function or file of the package (extract / inline function, helper
// files) therefore changes nothing; a (package, Type.field) pair that is not in censusTable, or more
// statements of a pair than the table allows, is reported as
// `viol retention-point-not-modelled`; fewer statements than listed is only a statistic.
//
// Types are resolved with go/types; imports are satisfied by a stub importer (package net with
// IP/HardwareAddr/IPMask as named []byte, everything else empty): the classification only needs
// the types declared in the library itself, and it is the type of the DESTINATION that decides.

import (
	"fmt"
	"go/ast"
	"go/parser"
	"go/token"
	"go/types"
	"os"
	"path/filepath"
	"sort"
	"strings"

	"pvharness/lib"
)

// directories (relative to the repo root) and, per directory, the files that are looked at ("" = all non-test files)
var censusDirs = []struct {
	dir   string
	files []string
}{
	{".", []string{"hosttable.go", "mactable.go", "nic.go", "session.go", "notification.go", "addr.go", "layer_frame.go", "layer_icmp6_options.go", "layer_dns.go"}},
	{"handlers/dhcp4_spoofer", nil},
	{"handlers/icmp_spoofer", nil},
	{"handlers/dns_naming", nil},
	{"handlers/arp_spoofer", nil},
}

type stubImporter struct{ pkgs map[string]*types.Package }

func (s *stubImporter) Import(path string) (*types.Package, error) {
	if p, ok := s.pkgs[path]; ok {
		return p, nil
	}
	name := path[strings.LastIndex(path, "/")+1:]
	p := types.NewPackage(path, name)
	if path == "net" {
		bs := types.NewSlice(types.Typ[types.Byte])
		for _, n := range []string{"IP", "HardwareAddr", "IPMask"} {
			tn := types.NewTypeName(token.NoPos, p, n, nil)
			types.NewNamed(tn, bs, nil)
			p.Scope().Insert(tn)
		}
	}
	p.MarkComplete()
	s.pkgs[path] = p
	return p, nil
}

// holdsBytes: does a value of this type contain a byte slice (directly, or in a field/element)?
func holdsBytes(t types.Type, seen map[types.Type]bool) bool {
	if t == nil || seen[t] {
		return false
	}
	seen[t] = true
	switch u := t.Underlying().(type) {
	case *types.Slice:
		if b, ok := u.Elem().Underlying().(*types.Basic); ok && (b.Kind() == types.Byte || b.Kind() == types.Uint8) {
			return true
		}
		return holdsBytes(u.Elem(), seen)
	case *types.Array:
		return holdsBytes(u.Elem(), seen)
	case *types.Map:
		return holdsBytes(u.Elem(), seen) || holdsBytes(u.Key(), seen)
	case *types.Pointer:
		return holdsBytes(u.Elem(), seen)
	case *types.Struct:
		for i := 0; i < u.NumFields(); i++ {
			if holdsBytes(u.Field(i).Type(), seen) {
				return true
			}
		}
	case *types.Chan:
		return holdsBytes(u.Elem(), seen)
	}
	return false
}

// holdsRef: can a value of this type reach memory that is not part of the value itself?
func holdsRef(t types.Type, seen map[types.Type]bool) bool {
	if t == nil || seen[t] {
		return false
	}
	seen[t] = true
	switch u := t.Underlying().(type) {
	case *types.Slice, *types.Map, *types.Pointer, *types.Chan:
		return true
	case *types.Array:
		return holdsRef(u.Elem(), seen)
	case *types.Struct:
		for i := 0; i < u.NumFields(); i++ {
			if holdsRef(u.Field(i).Type(), seen) {
				return true
			}
		}
	}
	return false
}

func typeName(t types.Type) string {
	for {
		if p, ok := t.(*types.Pointer); ok {
			t = p.Elem()
			continue
		}
		break
	}
	if n, ok := t.(*types.Named); ok {
		return n.Obj().Name()
	}
	return strings.ReplaceAll(t.String(), "github.com/irai/packet.", "")
}

type census struct {
	info  *types.Info
	pkg   string // package directory: the unit of the multiplicity
	file  string
	fn    string
	sites map[string][]string // key -> where (function and position of every statement)
	fset  *token.FileSet
}

// dest renders a destination expression as Type.field... and says whether it can outlive the call.
func (c *census) dest(e ast.Expr) (string, bool) {
	switch x := e.(type) {
	case *ast.ParenExpr:
		return c.dest(x.X)
	case *ast.Ident:
		obj := c.info.ObjectOf(x)
		if v, ok := obj.(*types.Var); ok {
			if v.Parent() != nil && v.Parent().Parent() == types.Universe { // package-level variable
				return "var " + x.Name, true
			}
			return typeName(v.Type()), false // re-binding a local variable stores nothing
		}
		return x.Name, false
	case *ast.SelectorExpr:
		// a field: of an object reached through a pointer, or of a struct value that is built here and then
		// returned / stored by the caller (NewOptions, Frame, ...): both count
		base, _ := c.dest(x.X)
		if t := c.info.TypeOf(x.X); t != nil {
			base = typeName(t)
		}
		return base + "." + x.Sel.Name, true
	case *ast.IndexExpr:
		base, _ := c.dest(x.X)
		return base + "[]", true
	case *ast.StarExpr:
		base, _ := c.dest(x.X)
		return "*" + base, true
	}
	return fmt.Sprintf("%T", e), false
}

func (c *census) add(kind, what string, pos token.Pos) {
	key := c.pkg + ":" + kind + what
	c.sites[key] = append(c.sites[key], c.file+" "+c.fn+" ("+c.fset.Position(pos).String()+")")
}

var copyFuncs = map[string]bool{"CopyMAC": true, "CopyIP": true, "CopyBytes": true, "dupBytes": true, "dupMAC": true, "dup": true,
	"make": true, "AsSlice": true, "Mask": true, "To16": true, "To4": true, "CIDRMask": true}

// fresh: is the expression visibly newly allocated memory (never a view of a packet or of a table)?
func (c *census) fresh(e ast.Expr) bool {
	switch x := e.(type) {
	case *ast.ParenExpr:
		return c.fresh(x.X)
	case *ast.Ident:
		return x.Name == "nil"
	case *ast.UnaryExpr: // &T{...}
		if x.Op == token.AND {
			return c.fresh(x.X)
		}
	case *ast.CompositeLit:
		// a literal slice / array of bytes is fresh; a struct literal is fresh when every field that can hold bytes is
		// (its fields are still looked at one by one as stores)
		t := c.info.TypeOf(x)
		if t == nil {
			return false
		}
		st, isStruct := t.Underlying().(*types.Struct)
		if !isStruct {
			return true
		}
		for i, el := range x.Elts {
			val, ft := el, types.Type(nil)
			if kv, ok := el.(*ast.KeyValueExpr); ok {
				val = kv.Value
				if id, ok := kv.Key.(*ast.Ident); ok {
					for j := 0; j < st.NumFields(); j++ {
						if st.Field(j).Name() == id.Name {
							ft = st.Field(j).Type()
						}
					}
				}
			} else if i < st.NumFields() {
				ft = st.Field(i).Type()
			}
			if ft != nil && holdsBytes(ft, map[types.Type]bool{}) && !c.fresh(val) {
				return false
			}
		}
		return true
	case *ast.CallExpr:
		name := ""
		switch f := x.Fun.(type) {
		case *ast.Ident:
			name = f.Name
		case *ast.SelectorExpr:
			name = f.Sel.Name
		case *ast.ArrayType: // []byte(s): a copy when s is a string
			if len(x.Args) == 1 {
				if t := c.info.TypeOf(x.Args[0]); t != nil {
					if b, ok := t.Underlying().(*types.Basic); ok && b.Info()&types.IsString != 0 {
						return true
					}
				}
			}
			return false
		}
		if copyFuncs[name] {
			return true
		}
		if name == "append" && len(x.Args) > 0 {
			// append to an empty / nil slice copies its arguments' elements (byte elements: a copy of the bytes)
			if t := c.info.TypeOf(x); t != nil {
				if sl, ok := t.Underlying().(*types.Slice); ok {
					if b, ok := sl.Elem().Underlying().(*types.Basic); ok && (b.Kind() == types.Byte || b.Kind() == types.Uint8) {
						return c.fresh(x.Args[0]) || isEmptyLit(x.Args[0])
					}
				}
			}
		}
	}
	return false
}

func isEmptyLit(e ast.Expr) bool {
	switch x := e.(type) {
	case *ast.CompositeLit:
		return len(x.Elts) == 0
	case *ast.CallExpr: // []byte(nil)
		if len(x.Args) == 1 {
			if id, ok := x.Args[0].(*ast.Ident); ok && id.Name == "nil" {
				return true
			}
		}
	}
	return false
}

func (c *census) walk(body ast.Node) {
	ast.Inspect(body, func(n ast.Node) bool {
		switch s := n.(type) {
		case *ast.AssignStmt:
			if s.Tok == token.DEFINE {
				return true
			}
			for i, l := range s.Lhs {
				t := c.info.TypeOf(l)
				if t == nil || !holdsBytes(t, map[types.Type]bool{}) {
					continue
				}
				if len(s.Rhs) == len(s.Lhs) && c.fresh(s.Rhs[i]) {
					continue // stores a fresh copy
				}
				if d, ext := c.dest(l); ext {
					c.add("", d, l.Pos())
				}
			}
		case *ast.CompositeLit:
			t := c.info.TypeOf(s)
			if t == nil {
				return true
			}
			st, ok := t.Underlying().(*types.Struct)
			if !ok {
				return true
			}
			for i, el := range s.Elts {
				var ft types.Type
				name := ""
				if kv, ok := el.(*ast.KeyValueExpr); ok {
					if id, ok := kv.Key.(*ast.Ident); ok {
						name = id.Name
						for j := 0; j < st.NumFields(); j++ {
							if st.Field(j).Name() == name {
								ft = st.Field(j).Type()
							}
						}
					}
				} else if i < st.NumFields() {
					name, ft = st.Field(i).Name(), st.Field(i).Type()
				}
				val := el
				if kv, ok := el.(*ast.KeyValueExpr); ok {
					val = kv.Value
				}
				if ft != nil && holdsBytes(ft, map[types.Type]bool{}) && !c.fresh(val) {
					c.add("", typeName(t)+"."+name, el.Pos()) // same key as an assignment to the field: x.f = v and T{f: v} are one kind
				}
			}
		case *ast.SendStmt:
			if t := c.info.TypeOf(s.Value); t != nil && holdsBytes(t, map[types.Type]bool{}) {
				d, _ := c.dest(s.Chan)
				c.add("send ", d, s.Pos())
			}
		case *ast.GoStmt:
			if fl, ok := s.Call.Fun.(*ast.FuncLit); ok {
				// closure: free variables that hold bytes
				seen := map[string]bool{}
				ast.Inspect(fl.Body, func(m ast.Node) bool {
					if id, ok := m.(*ast.Ident); ok {
						if v, ok := c.info.Uses[id].(*types.Var); ok && !v.IsField() && v.Pos() < fl.Pos() && v.Parent() != nil &&
							v.Parent().Parent() != types.Universe && holdsBytes(v.Type(), map[types.Type]bool{}) && !seen[id.Name] {
							seen[id.Name] = true
							c.add("go closure ", typeName(v.Type()), id.Pos())
						}
					}
					return true
				})
			} else {
				name := "?"
				switch f := s.Call.Fun.(type) {
				case *ast.SelectorExpr:
					name = f.Sel.Name
				case *ast.Ident:
					name = f.Name
				}
				for _, a := range s.Call.Args {
					if t := c.info.TypeOf(a); t != nil && holdsBytes(t, map[types.Type]bool{}) {
						c.add("go "+name+" ", typeName(t), a.Pos())
					}
				}
			}
		}
		return true
	})
}

// runCensus returns every site of the tree.
func runCensus(repo string) (map[string][]string, error) {
	sites := map[string][]string{}
	fset := token.NewFileSet()
	imp := &stubImporter{pkgs: map[string]*types.Package{}}
	for _, d := range censusDirs {
		dir := filepath.Join(repo, d.dir)
		pkgs, err := parser.ParseDir(fset, dir, func(fi os.FileInfo) bool {
			n := fi.Name()
			return !strings.HasSuffix(n, "_test.go") && !strings.HasPrefix(n, "verif_hooks") && !strings.HasPrefix(n, "zz_")
		}, 0)
		if err != nil {
			return nil, err
		}
		for pname, pkg := range pkgs {
			if strings.HasSuffix(pname, "_test") || pname == "main" {
				continue
			}
			var files []*ast.File
			var names []string
			for fn := range pkg.Files {
				names = append(names, fn)
			}
			sort.Strings(names)
			for _, fn := range names {
				files = append(files, pkg.Files[fn])
			}
			info := &types.Info{Types: map[ast.Expr]types.TypeAndValue{}, Defs: map[*ast.Ident]types.Object{}, Uses: map[*ast.Ident]types.Object{}}
			conf := types.Config{Importer: imp, Error: func(error) {}, DisableUnusedImportCheck: true}
			path := "github.com/irai/packet"
			if d.dir != "." {
				path += "/" + d.dir
			}
			tp, _ := conf.Check(path, fset, files, info)
			if d.dir == "." && tp != nil {
				imp.pkgs[path] = tp // the handlers import the real (partially typed) root package
			}
			if tp != nil {
				censusTypes(d.dir, tp, sites)
			}
			want := map[string]bool{}
			for _, f := range d.files {
				want[f] = true
			}
			for _, fn := range names {
				base := filepath.Base(fn)
				if len(want) > 0 && !want[base] {
					continue
				}
				rel := base
				if d.dir != "." {
					rel = d.dir + "/" + base
				}
				// the model takes Go strings to be immutable copies: a file that imports unsafe (zero-copy string / slice
				// conversions) has to be looked at and listed
				for _, im := range pkg.Files[fn].Imports {
					if im.Path.Value == `"unsafe"` {
						key := d.dir + ":import unsafe"
						sites[key] = append(sites[key], rel+" ("+fset.Position(im.Pos()).String()+")")
					}
				}
				for _, decl := range pkg.Files[fn].Decls {
					fd, ok := decl.(*ast.FuncDecl)
					if !ok || fd.Body == nil {
						continue
					}
					name := fd.Name.Name
					if fd.Recv != nil && len(fd.Recv.List) > 0 {
						name = typeName(info.TypeOf(fd.Recv.List[0].Type)) + "." + name
					}
					c := &census{info: info, pkg: d.dir, file: rel, fn: name, sites: sites, fset: fset}
					c.walk(fd.Body)
					// the way out: exported functions whose result, handed over by value, holds byte slices
					if fd.Name.IsExported() && fd.Type.Results != nil {
						for _, res := range fd.Type.Results.List {
							t := info.TypeOf(res.Type)
							if t == nil {
								continue
							}
							// every exported query whose result can reach retained state (pointer, map, slice, byte slice):
							// keyed by its API name; the table says "copy" (then kind hw overwrites the result) or "shared by contract"
							if holdsRef(t, map[types.Type]bool{}) && fd.Name.Name != "FastLog" && fd.Name.Name != "Log" {
								key := d.dir + ":query " + name + " " + typeName(t)
								sites[key] = append(sites[key], rel+" ("+fset.Position(res.Pos()).String()+")")
							}
							if _, isPtr := t.Underlying().(*types.Pointer); isPtr {
								continue // a pointer to a table record: shared by contract (documented locking)
							}
							if holdsBytes(t, map[types.Type]bool{}) {
								c.add("returns ", typeName(t), res.Pos())
							}
						}
					}
				}
			}
		}
	}
	return sites, nil
}

// checkCensus compares the census with the table and reports what is not covered.
func checkCensus(r *lib.Run) {
	repo := os.Getenv("VERIF_REPO")
	if repo == "" {
		repo = "/repo"
	}
	sites, err := runCensus(repo)
	if err != nil {
		r.Viol("retention-census-failed", "census of "+repo+": "+err.Error(), "")
		return
	}
	keys := make([]string, 0, len(sites))
	for k := range sites {
		keys = append(keys, k)
	}
	sort.Strings(keys)
	if os.Getenv("C10_CENSUS_DUMP") != "" {
		for _, k := range keys {
			fmt.Fprintf(os.Stderr, "%s\t%d\t%s\t%s\n", k, len(sites[k]), censusTable[k].note, strings.Join(sites[k], "; "))
		}
	}
	for _, k := range keys {
		ent, ok := censusTable[k]
		n := len(sites[k])
		switch {
		case !ok:
			r.Viol("retention-point-not-modelled", fmt.Sprintf("statements that can retain a byte slice, of a kind the C10 retention table does not list for this file: %s, in %s", k, strings.Join(sites[k], "; ")), "")
			r.Stat("census.unlisted", int64(n))
		case n > ent.n:
			r.Viol("retention-point-not-modelled", fmt.Sprintf("%d statements %s, the C10 retention table covers %d: %s", n, k, ent.n, strings.Join(sites[k], "; ")), "")
			r.Stat("census.unlisted", int64(n-ent.n))
		default:
			if n < ent.n {
				r.Stat("census.fewer_than_listed", int64(ent.n-n)) // code was removed or moved to a listed place: harmless
			}
			if strings.HasPrefix(ent.note, "RP_") || strings.HasPrefix(ent.note, "hunt") || strings.HasPrefix(ent.note, "out:") {
				r.Stat("census.modelled", int64(n))
			} else {
				r.Stat("census.not_a_packet_view", int64(n))
			}
		}
	}
	for k := range censusTable {
		if _, ok := sites[k]; !ok {
			r.Stat("census.table_entry_without_site", 1) // a refactor moved or removed it: harmless
		}
	}
	total := 0
	for _, k := range keys {
		total += len(sites[k])
	}
	r.Stat("census.sites", int64(total))
}

// handle types: their exported fields that can reach retained state are shared with the application by contract
var handleTypes = map[string]bool{"Session": true, "Handler": true, "Handler6": true, "Handler4": true, "DNSHandler": true, "RADVS": true}

// record types of the retained state: every string-typed field is a place where bytes of a packet can be kept as text
var recordTypes = map[string]bool{"Host": true, "MACEntry": true, "NameEntry": true, "Notification": true, "IPNameEntry": true, "DNSNameEntry": true,
	"Lease": true, "DNSEntry": true, "IPResourceRecord": true, "NameResourceRecord": true, "DNSSearchList": true, "Router": true, "HostName": true, "cache": true}

func holdsString(t types.Type, seen map[types.Type]bool) bool {
	if t == nil || seen[t] {
		return false
	}
	seen[t] = true
	switch u := t.Underlying().(type) {
	case *types.Basic:
		return u.Info()&types.IsString != 0
	case *types.Slice:
		return holdsString(u.Elem(), seen)
	case *types.Map:
		return holdsString(u.Key(), seen) || holdsString(u.Elem(), seen)
	}
	return false
}

func censusTypes(dir string, tp *types.Package, sites map[string][]string) {
	for _, n := range tp.Scope().Names() {
		tn, ok := tp.Scope().Lookup(n).(*types.TypeName)
		if !ok {
			continue
		}
		st, ok := tn.Type().Underlying().(*types.Struct)
		if !ok {
			continue
		}
		for i := 0; i < st.NumFields(); i++ {
			f := st.Field(i)
			if handleTypes[n] && f.Exported() && holdsRef(f.Type(), map[types.Type]bool{}) {
				k := dir + ":exported field " + n + "." + f.Name()
				sites[k] = append(sites[k], "type "+n)
			}
			if recordTypes[n] && holdsString(f.Type(), map[types.Type]bool{}) {
				k := dir + ":strfield " + n + "." + f.Name()
				sites[k] = append(sites[k], "type "+n)
			}
		}
	}
}
