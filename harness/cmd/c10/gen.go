package main

import (
	"net"
	"net/netip"
	"strconv"
	"strings"

	"pvharness/lib"
)

// small universe
var (
	macs = []net.HardwareAddr{
		{0x02, 0, 0, 0, 0, 0x01}, {0x02, 0, 0, 0, 0, 0x02}, {0x02, 0, 0, 0, 0, 0x03}, {0x02, 0xaa, 0xbb, 0xcc, 0xdd, 0x04},
	}
	mcastMAC = net.HardwareAddr{0x01, 0x00, 0x5e, 0, 0, 0xfb}
	bcastMAC = net.HardwareAddr{0xff, 0xff, 0xff, 0xff, 0xff, 0xff}
	ip4s     = []netip.Addr{
		netip.MustParseAddr("192.168.0.5"), netip.MustParseAddr("192.168.0.6"), netip.MustParseAddr("192.168.0.7"),
		netip.MustParseAddr("192.168.0.200"),
	}
	ip4odd = []netip.Addr{
		lib.RouterIP4, lib.HostIP4, netip.MustParseAddr("10.0.0.1"), netip.MustParseAddr("0.0.0.0"),
		netip.MustParseAddr("192.168.1.5"), netip.MustParseAddr("255.255.255.255"),
	}
	ip6s = []netip.Addr{
		netip.MustParseAddr("fe80::1:5"), netip.MustParseAddr("fe80::1:6"), netip.MustParseAddr("2001:db8::5"), netip.MustParseAddr("2001:db8::6"),
	}
	ip6odd = []netip.Addr{netip.MustParseAddr("ff02::1"), netip.MustParseAddr("::"), netip.MustParseAddr("::1"), lib.RouterLLA}
)

type gen struct {
	rng *lib.Rand
}

func (g *gen) mac() net.HardwareAddr {
	switch g.rng.Intn(12) {
	case 0:
		return lib.HostMAC
	case 1:
		return lib.RouterMAC
	case 2:
		return mcastMAC
	}
	return macs[g.rng.Intn(len(macs))]
}
func (g *gen) ip4() netip.Addr {
	if g.rng.Chance(20) {
		return ip4odd[g.rng.Intn(len(ip4odd))]
	}
	return ip4s[g.rng.Intn(len(ip4s))]
}
func (g *gen) ip6() netip.Addr {
	if g.rng.Chance(20) {
		return ip6odd[g.rng.Intn(len(ip6odd))]
	}
	return ip6s[g.rng.Intn(len(ip6s))]
}

// plain traffic frames that only exercise Parse
func (g *gen) arp() []byte {
	sm := g.mac()
	eth := sm
	if g.rng.Chance(10) {
		eth = g.mac() // ethernet source differs from the ARP sender hardware address
	}
	op := uint16(1 + g.rng.Intn(2))
	return lib.MkEther(bcastMAC, eth, 0x0806, lib.MkARP(op, sm, g.ip4(), net.HardwareAddr{0, 0, 0, 0, 0, 0}, g.ip4()))
}
func (g *gen) ip4frame() []byte {
	var pl []byte
	proto := byte(17)
	switch g.rng.Intn(3) {
	case 0:
		pl = lib.MkUDP(uint16(1024+g.rng.Intn(100)), uint16(2000+g.rng.Intn(100)), g.rng.Bytes(g.rng.Intn(12)))
	case 1:
		proto = 6
		pl = lib.MkTCP(uint16(1024+g.rng.Intn(100)), 80, g.rng.Bytes(g.rng.Intn(12)))
	case 2:
		proto = 1
		pl = lib.MkICMPEcho(8, 0, 7, 1, g.rng.Bytes(4))
	}
	return lib.MkEther(lib.RouterMAC, g.mac(), 0x0800, lib.MkIP4(g.ip4(), g.ip4(), proto, 64, pl))
}
func (g *gen) ip6frame() []byte {
	src, dst := g.ip6(), g.ip6()
	var pl []byte
	next := byte(17)
	if g.rng.Bool() {
		pl = lib.MkUDP(uint16(1024+g.rng.Intn(100)), uint16(2000+g.rng.Intn(100)), g.rng.Bytes(g.rng.Intn(12)))
	} else {
		next = 58
		pl = lib.MkICMP6(src, dst, 128, 0, []byte{0, 7, 0, 1, 1, 2, 3, 4})
	}
	return lib.MkEther(lib.RouterMAC, g.mac(), 0x86dd, lib.MkIP6(src, dst, next, 64, pl))
}

func (g *gen) purgeTok() string {
	n := 1 + g.rng.Intn(3)
	ks := make([]string, 0, n)
	seen := map[string]bool{}
	for i := 0; i < n; i++ {
		var k string
		if g.rng.Chance(70) {
			k = ipKey(ip4s[g.rng.Intn(len(ip4s))])
		} else {
			k = ipKey(ip6s[g.rng.Intn(len(ip6s))])
		}
		if !seen[k] {
			seen[k] = true
			ks = append(ks, k)
		}
	}
	return "x:" + strings.Join(ks, ",")
}

func (g *gen) scribble() (string, string) {
	fill := []int{0xA5, 0xA5, 0x00, 0xFF, g.rng.Intn(256)}[g.rng.Intn(5)]
	stp := []int{0, 0, 1, 7, 255}[g.rng.Intn(5)]
	return strconv.Itoa(fill), strconv.Itoa(stp)
}

// tableHistory: ARP/IPv4/IPv6 traffic creating hosts, with dumps and purges in between.
func (g *gen) tableHistory(depth int, arpOnly bool) []string {
	f, s := g.scribble()
	toks := []string{f, s}
	for i := 0; i < depth; i++ {
		switch c := g.rng.Intn(100); {
		case c < 8:
			toks = append(toks, "q")
		case c < 16:
			toks = append(toks, g.purgeTok())
		case arpOnly || c < 50:
			toks = append(toks, "p:"+lib.Hex(g.arp()))
		case c < 75:
			toks = append(toks, "p:"+lib.Hex(g.ip4frame()))
		default:
			toks = append(toks, "p:"+lib.Hex(g.ip6frame()))
		}
	}
	return toks
}

func generate(r *lib.Run) {
	g := &gen{rng: r.Rand()}
	nMini, nHist := 300, 400
	if r.Thorough() {
		nMini, nHist = 2000, 6000
	}
	// small cases (<= 400 characters: eligible for in-kernel replay)
	for i := 0; i < nMini; i++ {
		r.Do("h", g.tableHistory(1+g.rng.Intn(4), true)...)
		r.Stat("class.mini", 1)
	}
	for i := 0; i < nHist; i++ {
		r.Do("h", g.tableHistory(30+g.rng.Intn(31), false)...)
		r.Stat("class.tables", 1)
	}
}
