package main

import (
	"fmt"
	"net"
	"net/netip"
	"os"
	"strconv"
	"strings"
	"sync"

	"pvharness/lib"
)

// small universe
var (
	macs = []net.HardwareAddr{
		{0x02, 0, 0, 0, 0, 0x01}, {0x02, 0, 0, 0, 0, 0x02}, {0x02, 0, 0, 0, 0, 0x03}, {0x02, 0xaa, 0xbb, 0xcc, 0xdd, 0x04},
	}
	mcastMAC = net.HardwareAddr{0x01, 0x00, 0x5e, 0, 0, 0xfb}
	bcastMAC = net.HardwareAddr{0xff, 0xff, 0xff, 0xff, 0xff, 0xff}
	ip4s     = []netip.Addr{
		netip.MustParseAddr("192.168.0.5"), netip.MustParseAddr("192.168.0.6"), netip.MustParseAddr("192.168.0.7"),
		netip.MustParseAddr("192.168.0.200"),
	}
	ip4odd = []netip.Addr{
		lib.RouterIP4, lib.HostIP4, netip.MustParseAddr("10.0.0.1"), netip.MustParseAddr("0.0.0.0"),
		netip.MustParseAddr("192.168.1.5"), netip.MustParseAddr("255.255.255.255"),
	}
	ip6s = []netip.Addr{
		netip.MustParseAddr("fe80::1:5"), netip.MustParseAddr("fe80::1:6"), netip.MustParseAddr("2001:db8::5"), netip.MustParseAddr("2001:db8::6"),
	}
	ip6odd    = []netip.Addr{netip.MustParseAddr("ff02::1"), netip.MustParseAddr("::"), netip.MustParseAddr("::1"), lib.RouterLLA}
	hostnames = []string{"alpha", "beta-pc", "gamma7", "Delta Mac", "e"}
	zero4     = netip.MustParseAddr("0.0.0.0")
)

type gen struct {
	rng *lib.Rand
}

func (g *gen) mac() net.HardwareAddr {
	switch g.rng.Intn(12) {
	case 0:
		return lib.HostMAC
	case 1:
		return lib.RouterMAC
	case 2:
		return mcastMAC
	}
	return macs[g.rng.Intn(len(macs))]
}
func (g *gen) umac() net.HardwareAddr { return macs[g.rng.Intn(len(macs))] }
func (g *gen) ip4() netip.Addr {
	if g.rng.Chance(20) {
		return ip4odd[g.rng.Intn(len(ip4odd))]
	}
	return ip4s[g.rng.Intn(len(ip4s))]
}
func (g *gen) ip6() netip.Addr {
	if g.rng.Chance(20) {
		return ip6odd[g.rng.Intn(len(ip6odd))]
	}
	return ip6s[g.rng.Intn(len(ip6s))]
}
func (g *gen) name() string { return hostnames[g.rng.Intn(len(hostnames))] }

// plain traffic frames that only exercise Parse
func (g *gen) arp() []byte {
	sm := g.mac()
	eth := sm
	if g.rng.Chance(10) {
		eth = g.mac() // ethernet source differs from the ARP sender hardware address
	}
	op := uint16(1 + g.rng.Intn(2))
	return lib.MkEther(bcastMAC, eth, 0x0806, lib.MkARP(op, sm, g.ip4(), net.HardwareAddr{0, 0, 0, 0, 0, 0}, g.ip4()))
}
func (g *gen) ip4frame() []byte {
	var pl []byte
	proto := byte(17)
	switch g.rng.Intn(3) {
	case 0:
		pl = lib.MkUDP(uint16(1024+g.rng.Intn(100)), uint16(2000+g.rng.Intn(100)), g.rng.Bytes(g.rng.Intn(12)))
	case 1:
		proto = 6
		pl = lib.MkTCP(uint16(1024+g.rng.Intn(100)), 80, g.rng.Bytes(g.rng.Intn(12)))
	case 2:
		proto = 1
		pl = lib.MkICMPEcho([]byte{8, 0}[g.rng.Intn(2)], 0, 7, 1, g.rng.Bytes(4)) // request or reply (echoNotify)
	}
	return lib.MkEther(lib.RouterMAC, g.mac(), 0x0800, lib.MkIP4(g.ip4(), g.ip4(), proto, 64, pl))
}
func (g *gen) ip6frame() []byte {
	src, dst := g.ip6(), g.ip6()
	var pl []byte
	next := byte(17)
	if g.rng.Bool() {
		pl = lib.MkUDP(uint16(1024+g.rng.Intn(100)), uint16(2000+g.rng.Intn(100)), g.rng.Bytes(g.rng.Intn(12)))
	} else {
		next = 58
		pl = lib.MkICMP6(src, dst, []byte{128, 129}[g.rng.Intn(2)], 0, []byte{0, 7, 0, 1, 1, 2, 3, 4})
	}
	return lib.MkEther(lib.RouterMAC, g.mac(), 0x86dd, lib.MkIP6(src, dst, next, 64, pl))
}

func (g *gen) anyKey() string {
	if g.rng.Chance(70) {
		return ipKey(ip4s[g.rng.Intn(len(ip4s))])
	}
	return ipKey(ip6s[g.rng.Intn(len(ip6s))])
}

func (g *gen) purgeTok() string {
	n := 1 + g.rng.Intn(3)
	ks := make([]string, 0, n)
	seen := map[string]bool{}
	for i := 0; i < n; i++ {
		k := g.anyKey()
		if !seen[k] {
			seen[k] = true
			ks = append(ks, k)
		}
	}
	return "x:" + strings.Join(ks, ",")
}

func (g *gen) scribble() (string, string) {
	fill := []int{0xA5, 0xA5, 0x00, 0xFF, g.rng.Intn(256)}[g.rng.Intn(5)]
	stp := []int{0, 0, 1, 7, 255}[g.rng.Intn(5)]
	return strconv.Itoa(fill), strconv.Itoa(stp)
}

// ---------------------------------------------------------------- history builder with a dry run

// client is what a DHCP client remembers between its messages
type client struct {
	mac   net.HardwareAddr
	cid   []byte
	name  string
	xid   []byte
	offer netip.Addr // last OFFER
	ip    netip.Addr // last ACK
}

// hist builds one history; every operation is applied to a real library instance (the dry run)
// as it is generated, which is where the DHCP oracle fields (reply type, yiaddr) come from and how
// later messages (REQUEST for the offered address, renewals) are made plausible.
type hist struct {
	g       *gen
	dry     *env
	toks    []string
	clients []*client
	known4  []netip.Addr // LAN addresses handed out by the server or seen
}

func (g *gen) newHist() *hist {
	f, s := g.scribble()
	h := &hist{g: g, dry: newEnv(), toks: []string{f, s}}
	for i, m := range macs {
		c := &client{mac: m}
		switch i % 3 {
		case 1:
			c.cid = append([]byte{1}, m...)
		case 2:
			c.cid = []byte{0xde, 0xad, byte(i), 0xbe, 0xef}
		}
		c.name = hostnames[i%len(hostnames)]
		h.clients = append(h.clients, c)
	}
	return h
}

func (h *hist) done() []string {
	h.dry.close()
	return h.toks
}

// add applies a finished token to the dry run and records it; returns the projected output.
func (h *hist) add(tok string) string {
	ops, ok := parseOps([]string{tok})
	if !ok {
		panic("bad token " + tok)
	}
	pj, _ := h.dry.apply(&ops[0], nil, false, 0, 0)
	h.toks = append(h.toks, tok)
	return pj
}

func (h *hist) plain() {
	var f []byte
	switch c := h.g.rng.Intn(100); {
	case c < 50:
		f = h.g.arp()
	case c < 75:
		f = h.g.ip4frame()
	default:
		f = h.g.ip6frame()
	}
	h.add("p:" + lib.Hex(f))
}

// appCall: the application calls a session API with views of the frame it has just parsed
func (h *hist) appCall() {
	g := h.g
	ci := g.rng.Intn(len(macs))
	mac, ip := macs[ci], ip4s[ci]
	if g.rng.Chance(10) {
		mac = lib.RouterMAC
	}
	switch c := g.rng.Intn(100); {
	case c < 35:
		h.add("c:" + lib.Hex(lib.MkEther(bcastMAC, mac, 0x0806, lib.MkARP(1, mac, ip, net.HardwareAddr{0, 0, 0, 0, 0, 0}, lib.RouterIP4))))
	case c < 55:
		h.add("e:" + lib.Hex(lib.MkEther(bcastMAC, mac, 0x0806, lib.MkARP(1, mac, ip, net.HardwareAddr{0, 0, 0, 0, 0, 0}, lib.RouterIP4))))
	default:
		// a UDP datagram whose payload carries an address and a name the application hands to the session
		a := ip4s[g.rng.Intn(len(ip4s))].As4()
		if g.rng.Chance(10) {
			a = [4]byte{}
		}
		name := g.name()
		payload := append(a[:], name...)
		src := ip
		if g.rng.Chance(30) {
			src = zero4
		}
		frame := udp4Frame(lib.HostMAC, mac, src, lib.HostIP4, 40000, 9999, payload)
		k := "a"
		if c >= 80 {
			k = "f"
		}
		h.add(k + ":" + lib.Hex(frame) + ":" + loc(udp4Off, 4) + ":" + loc(udp4Off+4, len(name)))
	}
}

func (h *hist) control() {
	switch c := h.g.rng.Intn(100); {
	case c < 25:
		h.add("q")
	case c < 45:
		h.add(h.g.purgeTok())
	case c < 65:
		h.add("o:" + h.g.anyKey())
	case c < 85:
		h.appCall()
	default:
		// hunt an address that at most one lease holds (findByIP walks a Go map)
		if len(h.known4) > 0 {
			a := h.known4[h.g.rng.Intn(len(h.known4))]
			n := 0
			for _, l := range h.dry.dhcp.VerifLeases() {
				if l.Addr.IP == a {
					n++
				}
			}
			if n <= 1 {
				h.add("u:" + ipKey(a))
			}
		}
	}
}

// dhcp emits one DHCP message of a client and fills the oracle fields from the dry run.
func (h *hist) dhcp() {
	g := h.g
	c := h.clients[g.rng.Intn(len(h.clients))]
	sp := dhcpSpec{mac: c.mac, srcIP: zero4, bcast: g.rng.Bool()}
	if g.rng.Chance(75) {
		sp.cid = c.cid
	} else if g.rng.Chance(50) {
		sp.cid = h.clients[g.rng.Intn(len(h.clients))].cid // somebody else's client id
	}
	if g.rng.Chance(70) {
		sp.name = c.name
	} else if g.rng.Chance(50) {
		sp.name = g.name()
	}
	newXID := func() []byte { return []byte{0x10, byte(g.rng.Intn(4)), g.rng.Byte(), g.rng.Byte()} }
	switch k := g.rng.Intn(100); {
	case k < 35 || c.xid == nil: // DISCOVER
		sp.typ = 1
		if c.xid == nil || g.rng.Chance(70) {
			c.xid = newXID()
		}
		sp.xid = c.xid
		switch g.rng.Intn(4) {
		case 0:
			sp.reqip = ip4s[g.rng.Intn(len(ip4s))]
		case 1:
			sp.reqip = zero4
		}
	case k < 60: // REQUEST selecting our offer
		sp.typ = 3
		sp.xid = c.xid
		sp.server = lib.HostIP4
		sp.reqip = c.offer
		if !c.offer.IsValid() || g.rng.Chance(10) {
			sp.reqip = ip4s[g.rng.Intn(len(ip4s))]
		}
	case k < 70: // REQUEST selecting another server
		sp.typ = 3
		sp.xid = c.xid
		sp.server = lib.RouterIP4
		if g.rng.Chance(80) {
			sp.reqip = ip4s[g.rng.Intn(len(ip4s))]
		}
	case k < 82: // REQUEST renewing
		sp.typ = 3
		sp.xid = newXID()
		if c.ip.IsValid() && g.rng.Chance(85) {
			sp.ciaddr, sp.srcIP = c.ip, c.ip
		} else if g.rng.Chance(50) {
			sp.ciaddr = ip4s[g.rng.Intn(len(ip4s))]
			sp.srcIP = sp.ciaddr
		}
	case k >= 94: // DECLINE / RELEASE / INFORM
		sp.typ = []byte{4, 7, 8}[g.rng.Intn(3)]
		sp.xid = newXID()
		sp.server = []netip.Addr{lib.HostIP4, lib.RouterIP4}[g.rng.Intn(2)]
		addr := c.ip
		if !addr.IsValid() || g.rng.Chance(20) {
			addr = ip4s[g.rng.Intn(len(ip4s))]
		}
		if sp.typ == 4 {
			sp.reqip = addr
		} else {
			sp.ciaddr, sp.srcIP = addr, addr
		}
	default: // REQUEST rebooting
		sp.typ = 3
		sp.xid = newXID()
		if c.ip.IsValid() && g.rng.Chance(60) {
			sp.reqip = c.ip
		} else {
			sp.reqip = ip4s[g.rng.Intn(len(ip4s))]
		}
	}
	frame, cidLoc, nameLoc, reqLoc, cls := mkDHCP(sp, g.rng)
	if g.rng.Chance(8) {
		// an OFFER of the LAN's own DHCP server (router) to this client, seen on the client port
		sp.typ, sp.server, sp.xid = 2, lib.RouterIP4, newXID()
		sp.reqip, sp.ciaddr, sp.srcIP = netip.Addr{}, netip.Addr{}, lib.RouterIP4
		frame, cidLoc, nameLoc, _, _ = mkDHCP(sp, g.rng)
		// server -> client: ports 67 -> 68, from the router, yiaddr filled in
		yi := ip4s[g.rng.Intn(len(ip4s))].As4()
		copy(frame[6:12], lib.RouterMAC)
		frame[34], frame[35], frame[36], frame[37] = 0, 67, 0, 68
		frame[dhcpOff] = 2
		copy(frame[dhcpOff+16:dhcpOff+20], yi[:])
		cls, reqLoc = 0, loc(dhcpOff+16, 4)
	}
	tok := func(res int, yi string) string {
		// Lease.Addr.IP of this client's lease after the call (server-side decision: oracle)
		key := sp.cid
		if key == nil {
			key = sp.mac
		}
		lip := "-"
		for _, l := range h.dry.dhcp.VerifLeases() {
			if string(l.ClientID) == string(key) && l.Addr.IP.IsValid() {
				lip = ipKey(l.Addr.IP)
			}
		}
		return fmt.Sprintf("d:%s:%d:%s:%s:%s:%d:%d:%s:%s", lib.Hex(frame), sp.typ, cidLoc, nameLoc, reqLoc, cls, res, yi, lip)
	}
	// dry run with a provisional token, then fix the oracle fields
	ops, _ := parseOps([]string{tok(0, "-")})
	pj, _ := h.dry.apply(&ops[0], nil, false, 0, 0)
	res, yi := 0, "-"
	if i := strings.Index(pj, "R("); i >= 0 {
		f := strings.Split(strings.TrimSuffix(pj[i+2:strings.Index(pj[i:], ")")+i], ")"), ",")
		if len(f) == 4 {
			res = atoi(f[0])
			if res == 2 || res == 5 {
				yi = f[3]
				a, _ := netip.AddrFromSlice(lib.UnHex(yi))
				if res == 2 {
					c.offer = a
				} else {
					c.ip = a
				}
				h.known4 = append(h.known4, a)
			}
		}
	}
	h.toks = append(h.toks, tok(res, yi))
}

func (h *hist) ra() {
	g := h.g
	sp := raSpec{srcMAC: g.umac(), src: ip6s[g.rng.Intn(2)]}
	if g.rng.Chance(70) {
		sp.slla = g.umac()
	}
	for i := g.rng.Intn(3); i > 0; i-- {
		a := [16]byte{0x20, 0x01, 0x0d, 0xb8, byte(g.rng.Intn(3)), 0, 0, 1}
		bits := 64
		if g.rng.Chance(40) {
			copy(a[8:], g.rng.Bytes(8)) // host bits set: the library masks them
			bits = []int{64, 48, 60, 3, 127, 128, 0}[g.rng.Intn(7)]
		}
		sp.prefixes = append(sp.prefixes, netip.PrefixFrom(netip.AddrFrom16(a), bits))
	}
	for i := g.rng.Intn(3); i > 0; i-- {
		sp.rdnss = append(sp.rdnss, netip.AddrFrom16([16]byte{0x20, 0x01, 0x48, 0x60, 0x48, 0x60, 0, 0, 0, 0, 0, 0, 0, 0, 0x88, byte(g.rng.Intn(4))}))
	}
	for i := g.rng.Intn(3); i > 0; i-- {
		sp.dnssl = append(sp.dnssl, [][]string{{"lan"}, {"home", "arpa"}, {"corp", "example", "com"}}[g.rng.Intn(3)])
	}
	if g.rng.Chance(40) {
		a := [16]byte{0xfd, 0x00, byte(g.rng.Intn(3)), 1, 2, 3, 4, 5, 6, 7, 8, 9, 10, 11, 12, 13}
		p := netip.PrefixFrom(netip.AddrFrom16(a), []int{0, 8, 48, 64, 96, 128}[g.rng.Intn(6)])
		sp.route = &p
	}
	sp.mtu = g.rng.Bool()
	frame, f := mkRA(sp, g.rng)
	h.add("r:" + lib.Hex(frame) + ":" + strings.Join(f, ":"))
}

var dnsNames = [][]string{{"www", "example", "com"}, {"example", "com"}, {"cdn", "example", "net"}, {"a", "b", "example", "com"}, {"printer", "lan"}}

// dnsPTR: a reverse lookup answered with PTR records (owner x.x.x.x.in-addr.arpa spells the address)
func (h *hist) dnsPTR() {
	g := h.g
	ip := ip4s[g.rng.Intn(len(ip4s))].As4()
	q := []string{fmt.Sprint(ip[3]), fmt.Sprint(ip[2]), fmt.Sprint(ip[1]), fmt.Sprint(ip[0]), "in-addr", "arpa"}
	n := 1 + g.rng.Intn(2)
	w := newDNSW(udp4Off, uint16(g.rng.Intn(65536)), 0x8180, 1, n, 0, 0)
	compress := g.rng.Chance(70)
	qn := w.name(q, false)
	w.u16(12)
	w.u16(1)
	var rrs []string
	for i := 0; i < n; i++ {
		owner, iphex := q, lib.Hex(ip[:])
		if g.rng.Chance(15) {
			owner, iphex = []string{"b", "_dns-sd", "_udp", "lan"}, "-" // not a reverse name: the record is ignored
		}
		_, lo := w.rrHead(owner, 12, 1, compress)
		target := [][]string{{"alpha", "lan"}, {"beta-pc", "lan"}, {"printer", "lan"}}[g.rng.Intn(3)]
		pl := w.name(target, compress)
		w.rrEnd(lo)
		rrs = append(rrs, fmt.Sprintf("p,%s,%s", pl, iphex))
	}
	dst := ip4s[g.rng.Intn(len(ip4s))]
	frame := udp4Frame(g.umac(), lib.RouterMAC, netip.MustParseAddr("8.8.8.8"), dst, 53, uint16(30000+g.rng.Intn(100)), w.b)
	h.add("n:" + lib.Hex(frame) + ":" + qn + ":" + strings.Join(rrs, ";"))
}

func (h *hist) dns() {
	g := h.g
	if g.rng.Chance(20) {
		h.dnsPTR()
		return
	}
	q := dnsNames[g.rng.Intn(len(dnsNames))]
	n := g.rng.Intn(4)
	w := newDNSW(udp4Off, uint16(g.rng.Intn(65536)), 0x8180, 1, n, 0, 0)
	compress := g.rng.Chance(70)
	qn := w.name(q, false)
	w.u16(1)
	w.u16(1)
	owner := q
	var rrs []string
	for i := 0; i < n; i++ {
		switch g.rng.Intn(3) {
		case 0:
			nm, lo := w.rrHead(owner, 1, 1, compress)
			off := w.base + len(w.b)
			w.b = append(w.b, 93, 184, byte(g.rng.Intn(2)), byte(30+g.rng.Intn(3)))
			w.rrEnd(lo)
			rrs = append(rrs, fmt.Sprintf("a,%s,%d", nm, off))
		case 1:
			nm, lo := w.rrHead(owner, 28, 1, compress)
			off := w.base + len(w.b)
			w.b = append(w.b, 0x26, 0x06, 0x28, 0, 2, 0x20, 0, 1, 2, 0x48, 0x18, 0x93, 0x25, 0xc8, 0x19, byte(0x40+g.rng.Intn(3)))
			w.rrEnd(lo)
			rrs = append(rrs, fmt.Sprintf("q,%s,%d", nm, off))
		case 2:
			target := dnsNames[g.rng.Intn(len(dnsNames))]
			nm, lo := w.rrHead(owner, 5, 1, compress)
			cn := w.name(target, compress)
			w.rrEnd(lo)
			rrs = append(rrs, fmt.Sprintf("c,%s,%s", nm, cn))
			owner = target
		}
	}
	dst := ip4s[g.rng.Intn(len(ip4s))]
	frame := udp4Frame(g.umac(), lib.RouterMAC, netip.MustParseAddr("8.8.8.8"), dst, 53, uint16(30000+g.rng.Intn(100)), w.b)
	h.add("n:" + lib.Hex(frame) + ":" + qn + ":" + dash(strings.Join(rrs, ";")))
}

// mdns emits an mDNS (port 5353) or LLMNR (port 5355) query or response from a LAN host.
func (h *hist) mdns(llmnr bool) {
	g := h.g
	ci := g.rng.Intn(len(macs))
	mac, ip := macs[ci], ip4s[ci]
	port := uint16(5353)
	kind := "m"
	if llmnr {
		port, kind = 5355, "l"
	}
	id := uint16([]int{0, 0, 1, 7}[g.rng.Intn(4)])
	host := []string{g.name(), "local"}
	if strings.Contains(host[0], " ") {
		host[0] = "delta"
	}
	var tok string
	if g.rng.Chance(35) {
		// query
		nq := 1 + g.rng.Intn(2)
		w := newDNSW(udp4Off, id, 0, nq, 0, 0, 0)
		var qs []string
		for i := 0; i < nq; i++ {
			nm := host
			switch g.rng.Intn(4) {
			case 0:
				nm = []string{"_ipp", "_tcp", "local"}
			case 1:
				nm = []string{"wpad"}
			}
			qs = append(qs, w.name(nm, g.rng.Bool()))
			w.u16(255)
			w.u16(1)
		}
		tok = fmt.Sprintf("%s:%s:F:%d:%s:-:-", kind, lib.Hex(udp4Frame(mcastMAC, mac, ip, netip.MustParseAddr("224.0.0.251"), port, port, w.b)), udp4Off, strings.Join(qs, ";"))
	} else {
		type rr struct{ k int }
		var plan []int // 1 A, 28 AAAA, 16 TXT, 12 PTR
		plan = append(plan, 1)
		if g.rng.Bool() {
			plan = append(plan, 28)
		}
		if g.rng.Bool() {
			plan = append(plan, 16)
		}
		if g.rng.Bool() {
			plan = append(plan, 12)
		}
		for i := len(plan) - 1; i > 0; i-- {
			j := g.rng.Intn(i + 1)
			plan[i], plan[j] = plan[j], plan[i]
		}
		w := newDNSW(udp4Off, id, 0x8400, 0, len(plan), 0, 0)
		compress := g.rng.Chance(70)
		var as4, as6 []string
		model := "-"
		for _, k := range plan {
			switch k {
			case 1:
				nm, lo := w.rrHead(host, 1, 0x8001, compress)
				off := w.base + len(w.b)
				a := ip.As4()
				if g.rng.Chance(15) {
					a = ip4s[g.rng.Intn(len(ip4s))].As4()
				}
				w.b = append(w.b, a[:]...)
				w.rrEnd(lo)
				as4 = append(as4, fmt.Sprintf("%s,%d,4", nm, off))
			case 28:
				nm, lo := w.rrHead(host, 28, 0x8001, compress)
				off := w.base + len(w.b)
				a := ip6s[g.rng.Intn(len(ip6s))].As16()
				w.b = append(w.b, a[:]...)
				w.rrEnd(lo)
				as6 = append(as6, fmt.Sprintf("%s,%d,16", nm, off))
			case 16:
				_, lo := w.rrHead([]string{host[0], "_device-info", "_tcp", "local"}, 16, 0x8001, compress)
				mv := []string{"MacBookPro14,1", "J105aAP", "Chromecast"}[g.rng.Intn(3)]
				key := []string{"model", "md", "ty"}[g.rng.Intn(3)]
				strs := []string{"osxvers=20", key + "=" + mv, "ecolor=157,157,160"}
				if g.rng.Chance(20) {
					strs = strs[:2] // two strings only: parseTXT ignores the record
				}
				for _, s := range strs {
					w.b = append(w.b, byte(len(s)))
					if strings.HasPrefix(s, key+"=") && len(strs) > 2 {
						model = loc(w.base+len(w.b)+len(key)+1, len(mv))
					}
					w.b = append(w.b, s...)
				}
				w.rrEnd(lo)
			case 12:
				_, lo := w.rrHead([]string{"_device-info", "_tcp", "local"}, 12, 1, compress)
				w.name([]string{host[0], "_device-info", "_tcp", "local"}, compress)
				w.rrEnd(lo)
			}
		}
		tok = fmt.Sprintf("%s:%s:T:%d:-:%s:%s", kind, lib.Hex(udp4Frame(mcastMAC, mac, ip, netip.MustParseAddr("224.0.0.251"), port, port, w.b)), udp4Off,
			dash(strings.Join(append(as4, as6...), ";")), model)
	}
	h.add(tok)
}

func (h *hist) nbns() {
	g := h.g
	ci := g.rng.Intn(len(macs))
	mac, ip := macs[ci], ip4s[ci]
	w := newDNSW(udp4Off, uint16(g.rng.Intn(65536)), 0x8400, 0, 1, 0, 0)
	// RR name: 0x20 + 32 half-ascii bytes of "*" + 15 NULs
	w.b = append(w.b, 0x20, 'C', 'K')
	for i := 0; i < 30; i++ {
		w.b = append(w.b, 'A')
	}
	w.b = append(w.b, 0)
	w.u16(0x21)
	w.u16(1)
	w.u32(0)
	w.u16(0)
	lo := len(w.b) - 2
	names := []string{"WORKSTATION-1", "ALPHA", "MYPC", "X"}
	nm := names[g.rng.Intn(len(names))]
	n := 1 + g.rng.Intn(3)
	w.b = append(w.b, byte(n))
	nameOff := w.base + len(w.b)
	suffix := []byte{0x00, 0x20, 0x03}[g.rng.Intn(3)]
	first := make([]byte, 0, 16)
	for i := 0; i < n; i++ {
		e := []byte(fmt.Sprintf("%-15s", nm))
		e = append(e, suffix)
		flags := []byte{0x04, 0x00}
		if i > 0 && g.rng.Bool() {
			e = append([]byte(fmt.Sprintf("%-15s", "WORKGROUP")), 0x00)
			flags = []byte{0x84, 0x00}
		}
		if i == 0 {
			first = append(first, e...)
		}
		w.b = append(w.b, e...)
		w.b = append(w.b, flags...)
	}
	w.b = append(w.b, make([]byte, 46)...) // statistics
	w.rrEnd(lo)
	// length of the first name after TrimRight("\x00") then TrimRight(" ")
	tl := 16
	for tl > 0 && first[tl-1] == 0 {
		tl--
	}
	for tl > 0 && first[tl-1] == ' ' {
		tl--
	}
	frame := udp4Frame(lib.HostMAC, mac, ip, lib.HostIP4, 137, 137, w.b)
	h.add("b:" + lib.Hex(frame) + ":" + loc(nameOff, tl))
}

func (h *hist) ssdp() {
	g := h.g
	ci := g.rng.Intn(len(macs))
	mac, ip := macs[ci], ip4s[ci]
	uas := []struct{ ua, model, manuf, os string }{
		{"Chromium/74.0.3729.131 Linux", "", "", "Linux"},
		{"My App/4 (iPhone; iOS 12.4) CocoaSSDP/0.1.0/1", "iPhone", "Apple, Inc.", "iOS"},
		{"Microsoft Edge/91.0.864.64 Windows", "", "", "Windows"},
		{"Foo (iPad)", "iPad", "Apple, Inc.", ""},
		{"unknown/1.0", "", "", ""},
	}
	u := uas[g.rng.Intn(len(uas))]
	var msg string
	tok := ""
	if g.rng.Chance(75) {
		msg = "M-SEARCH * HTTP/1.1\r\nHOST: 239.255.255.250:1900\r\nMAN: \"ssdp:discover\"\r\nMX: 1\r\nST: ssdp:all\r\nUSER-AGENT: " + u.ua + "\r\n\r\n"
		tok = ":" + lib.Hex([]byte(u.model)) + ":" + lib.Hex([]byte(u.manuf)) + ":" + lib.Hex([]byte(u.os))
	} else {
		msg = "NOTIFY * HTTP/1.1\r\nHOST: 239.255.255.250:1900\r\nCACHE-CONTROL: max-age=1800\r\nLOCATION: http://192.168.0.5:80/desc.xml\r\nNT: upnp:rootdevice\r\nNTS: ssdp:alive\r\nSERVER: x\r\nUSN: uuid:1\r\n\r\n"
		tok = ":-:-:-"
	}
	frame := udp4Frame(net.HardwareAddr{0x01, 0x00, 0x5e, 0x7f, 0xff, 0xfa}, mac, ip, netip.MustParseAddr("239.255.255.250"), uint16(40000+g.rng.Intn(100)), 1900, []byte(msg))
	h.add("s:" + lib.Hex(frame) + tok)
}

// history of a given flavour: weights of the operation classes
func (g *gen) history(depth int, w [8]int) []string {
	h := g.newHist()
	total := 0
	for _, x := range w {
		total += x
	}
	for i := 0; i < depth; i++ {
		c := g.rng.Intn(total)
		k := 0
		for c >= w[k] {
			c -= w[k]
			k++
		}
		switch k {
		case 0:
			h.plain()
		case 1:
			h.control()
		case 2:
			h.dhcp()
		case 3:
			h.ra()
		case 4:
			h.dns()
		case 5:
			h.mdns(g.rng.Chance(30))
		case 6:
			h.nbns()
		case 7:
			h.ssdp()
		}
	}
	return h.done()
}

// tableHistory: small ARP-only histories (<= 400 characters: eligible for in-kernel replay)
func (g *gen) miniHistory(depth int) []string {
	f, s := g.scribble()
	toks := []string{f, s}
	for i := 0; i < depth; i++ {
		switch c := g.rng.Intn(100); {
		case c < 8:
			toks = append(toks, "q")
		case c < 16:
			toks = append(toks, g.purgeTok())
		case c < 24:
			toks = append(toks, "o:"+g.anyKey())
		default:
			toks = append(toks, "p:"+lib.Hex(g.arp()))
		}
	}
	return toks
}

// exhaustive enumerates every history of the given depth over a small alphabet of table operations.
func (g *gen) exhaustive(r *lib.Run, depth int) {
	a, b := macs[0], macs[1]
	ipA, ipB := ip4s[0], ip4s[1]
	zmac := net.HardwareAddr{0, 0, 0, 0, 0, 0}
	alpha := []string{
		"p:" + lib.Hex(lib.MkEther(bcastMAC, a, 0x0806, lib.MkARP(1, a, ipA, zmac, ipB))),
		"p:" + lib.Hex(lib.MkEther(bcastMAC, b, 0x0806, lib.MkARP(1, b, ipA, zmac, ipB))), // same address, other MAC
		"p:" + lib.Hex(lib.MkEther(bcastMAC, a, 0x0806, lib.MkARP(2, a, ipB, zmac, ipA))), // same MAC, other address
		"x:" + ipKey(ipA),
		"o:" + ipKey(ipA),
		"o:" + ipKey(ipB),
		"q",
	}
	idx := make([]int, depth)
	for {
		toks := []string{"165", "0"}
		for _, i := range idx {
			toks = append(toks, alpha[i])
		}
		r.Do("h", toks...)
		r.Stat("class.exhaustive", 1)
		k := depth - 1
		for k >= 0 {
			idx[k]++
			if idx[k] < len(alpha) {
				break
			}
			idx[k] = 0
			k--
		}
		if k < 0 {
			return
		}
	}
}

func generate(r *lib.Run) {
	g := &gen{rng: r.Rand()}
	// ARP hunt histories with real 6 s ticker periods run beside the rest of the generation
	var timed sync.WaitGroup
	nTimed, nTicks := 1, 1
	if r.Thorough() {
		nTimed, nTicks = 12, 2
	}
	tg := &gen{rng: g.rng.Fork()}
	for i := 0; i < nTimed; i++ {
		toks := tg.hunt4History(3+tg.rng.Intn(4), nTicks)
		timed.Add(1)
		go func() {
			defer timed.Done()
			r.Do("ka", toks...)
			r.Stat("class.hunt4timed", 1)
		}()
	}
	defer timed.Wait()
	scale := 2
	if r.Thorough() {
		scale = 40
		for d := 1; d <= 4; d++ {
			g.exhaustive(r, d)
		}
	} else {
		g.exhaustive(r, 2)
	}
	for i := 0; i < 150*scale; i++ {
		r.Do("h", g.miniHistory(1+g.rng.Intn(4))...)
		r.Stat("class.mini", 1)
	}
	// one or two operations of every handler: short enough for the in-kernel replay of the model
	for i := 0; i < 60*scale; i++ {
		w := [8]int{0, 0, 0, 3, 3, 3, 1, 1}
		if g.rng.Chance(30) {
			w = [8]int{2, 1, 0, 2, 2, 2, 0, 0}
		}
		r.Do("h", g.history(1+g.rng.Intn(2), w)...)
		r.Stat("class.minihandler", 1)
	}
	// every retention point in isolation: a history of one received message of one kind (DHCP: two, a REQUEST needs
	// its DISCOVER), the buffer scribbled after it, then the dump of every table
	iso := []struct {
		name string
		f    func(h *hist)
	}{
		{"mactable_mac,host_ip", func(h *hist) { h.plain() }},
		{"lease_key,lease_cid,lease_mac,lease_name,lease_xid,decline_cid,decline_mac,decline_xid,name_entry", func(h *hist) { h.dhcp(); h.dhcp() }},
		{"router_mac,router_key,ndp_lla,ndp_prefix,ndp_route,ndp_rdnss,ndp_dnssl", func(h *hist) { h.ra() }},
		{"dns_name,dns_rr_name,dns_cname,dns_ip", func(h *hist) { h.dns() }},
		{"dns_rr_name(ptr)", func(h *hist) { h.dnsPTR() }},
		{"mdns_name,mdns_mac,mdns_model,mdns_cache_key", func(h *hist) { h.mdns(false) }},
		{"mdns_name(llmnr)", func(h *hist) { h.mdns(true) }},
		{"nbns_name", func(h *hist) { h.nbns() }},
		{"name_entry(ssdp)", func(h *hist) { h.ssdp() }},
		{"name_entry(api),mactable_mac(capture)", func(h *hist) { h.appCall() }},
	}
	for _, c := range iso {
		for i := 0; i < 6*scale; i++ {
			h := g.newHist()
			c.f(h)
			r.Do("h", h.done()...)
			r.Stat("rp."+c.name, 1)
		}
	}
	// hunt list of the ICMPv6 spoofer (StartHunt on a frame's address view, StopHunt, wake-up)
	for i := 0; i < 20*scale; i++ {
		r.Do("k6", g.huntHistory(1+g.rng.Intn(5))...)
		r.Stat("class.hunt6", 1)
	}
	// hunt list of the ARP spoofer without waiting for the ticker (first announcement, StopHunt, spoofed replies)
	for i := 0; i < 20*scale; i++ {
		r.Do("ka", g.hunt4History(1+g.rng.Intn(6), 0)...)
		r.Stat("class.hunt4", 1)
	}
	// the application overwrites every byte slice it gets back by value (notifications, FindByMAC, IPAddrs,
	// FindRouter, ProcessMDNS / ProcessDNS / DNSFind results): the tables must not change
	for i := 0; i < 40*scale; i++ {
		toks := g.history(10+g.rng.Intn(25), [8]int{25, 20, 10, 12, 8, 15, 5, 5})
		obs := r.Exec("hw", toks)
		r.Stat("class.callerwrites", 1)
		if strings.HasPrefix(obs, "F:") {
			// a Go-side oracle record per output class whose values share storage with the tables
			cls, _, _ := strings.Cut(obs[2:], " ")
			for _, c := range strings.Split(cls, ",") {
				r.Viol("c10-out-alias-"+c, "overwriting the values handed out by value at output class "+c+" changed the retained state or later outputs", "hw "+strings.Join(toks, " "))
			}
			continue
		}
		r.Case("hw", toks, obs)
	}
	// truncated / corrupted frames of every kind between the well-formed ones (differential only)
	nhm := 60 * scale
	if v := os.Getenv("C10_STRESS_HM"); v != "" { // stress run of this class only
		nhm = atoi(v)
	}
	for i := 0; i < nhm; i++ {
		r.Do("hm", g.malformedHistory(10+g.rng.Intn(25))...)
		r.Stat("class.malformed", 1)
	}
	if os.Getenv("C10_STRESS_HM") != "" {
		return
	}
	r.Stat("malformed.parse_rejected", malformedStats.parseErr)
	r.Stat("malformed.rejected_but_tables_changed", malformedStats.rejectedChanged)
	r.Stat("malformed.panics", malformedStats.panics)
	if malformedSample != "" {
		// not a C10 matter (what is stored is a copy; C04 does not ask for a valid transport header): informational only
		r.Sample(malformedSample)
	}
	if malformedPanic != "" {
		r.Sample("malformed frame made the library panic (same in both runs; C08 matter): " + malformedPanic)
	}
	defer func() {
		// behavioural side of the string census: every packet-derived string field of the retained records was
		// seen non-empty in a dump taken after the scribble (and predicted by the model) at least once
		for _, f := range []string{"NameEntry.Name", "NameEntry.Model", "NameEntry.Manufacturer", "NameEntry.OS", "Lease.Name",
			"DNSSearchList.DomainNames", "DNSEntry.Name", "IPResourceRecord.Name", "NameResourceRecord.Name", "NameResourceRecord.CName",
			"DNSEntry.CNameRecords", "DNSEntry.PTRRecords"} {
			if strCov[f] {
				r.Stat("strcov."+f, 1)
			} else {
				r.Viol("c10-string-field-not-exercised", "no history of this run left the retained string field "+f+" non-empty", "")
			}
		}
	}()
	classes := []struct {
		name  string
		n     int
		depth int
		w     [8]int
	}{
		{"tables", 75, 40, [8]int{80, 20, 0, 0, 0, 0, 0, 0}},
		{"dhcp", 60, 30, [8]int{20, 15, 65, 0, 0, 0, 0, 0}},
		{"ra", 40, 25, [8]int{25, 15, 0, 60, 0, 0, 0, 0}},
		{"dns", 40, 25, [8]int{20, 10, 0, 0, 70, 0, 0, 0}},
		{"names", 60, 30, [8]int{25, 15, 0, 0, 0, 35, 15, 10}},
		{"mixed", 75, 45, [8]int{25, 12, 25, 8, 8, 12, 5, 5}},
	}
	for _, c := range classes {
		for i := 0; i < c.n*scale; i++ {
			kind := "h"
			if g.rng.Chance(25) {
				kind = "hl" // notifications stay queued in Session.C while later packets arrive and the buffer is scribbled
				r.Stat("class.lazydrain", 1)
			}
			r.Do(kind, g.history(c.depth/2+g.rng.Intn(c.depth), c.w)...)
			r.Stat("class."+c.name, 1)
		}
	}
}
