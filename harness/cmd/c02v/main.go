// C02, views unit: every field getter of a valid view returns the value at its RFC-defined
// position. Observation = value (see cmd/c01v/vlib).
package main

import "pvharness/cmd/c01v/vlib"

func main() { vlib.Main(false) }
