// C04: host tracking follows the discovery, IP-change, re-binding, ageing and purge rules.
// Histories of real frames, DHCPv4Update calls and virtual-time purges; after every step the
// (MAC, IP, online) triples are read through the public API (GetHosts, FindIP, IPAddrs, FindByMAC,
// FindMACEntry) and compared with the model state and with the reference model of the property text.
package main

import (
	"strconv"
	"strings"

	"pvharness/cmd/c05/tables"
	"pvharness/lib"
)

func main() {
	r := lib.Init()
	defer r.Close()
	tables.Quiet()
	rng := r.Rand()

	// t4 <cfg> <t0> <ips> <macs> <op>...
	r.Register("t4", func(a []string) string {
		cfg := tables.ParseCfg(a[0])
		t0, _ := strconv.ParseInt(a[1], 10, 64)
		ips, macs := tables.ParseIPs(a[2]), tables.ParseMacs(a[3])
		sm := tables.NewSim(cfg, t0)
		defer sm.Close()
		tr := []string{sm.Views(ips, macs)}
		for _, op := range a[4:] {
			out := sm.Apply(op)
			sm.Drain()
			if sm.Dead {
				tr = append(tr, out)
				break
			}
			tr = append(tr, sm.Views(ips, macs))
		}
		if !sm.Dead {
			sm.Scribble()
			tr = append(tr, sm.Views(ips, macs))
		}
		return strings.Join(tr, ";")
	})
	// rt <cfg> <observation> <t0B> <t0C> <ops B...> <ops C...>: a RECORDED real-time execution (tables/realtime.go): the
	// observation was taken from the library while the schedule ran with real sleeps; the model gets the measured intervals
	r.Register("rt", func(a []string) string { return a[1] })
	if r.Replayed() {
		return
	}

	cfg := tables.StdCfg()
	dcfgs := tables.DeadlineCfgs()
	g := &tables.Gen{U: tables.StdUniverse(), Rng: rng}
	nrun := 0
	run := func(ops []string) {
		nrun++
		cfg := cfg
		if nrun%4 == 1 { // a quarter of all histories runs under other deadlines (orderings, equal, tiny, huge)
			cfg = dcfgs[rng.Intn(len(dcfgs))]
			r.Stat("cfg.non-default-deadlines", 1)
		}
		if nrun%3 != 0 { // frames as raw bytes, a fifth of them damaged
			ops = tables.RawOps(ops, rng, 20, func(k string) { r.Stat(k, 1) })
		}
		ips, macs := tables.Candidates(cfg, ops)
		r.Do("t4", append([]string{cfg.Tok(), "0", tables.IPsTok(ips), tables.MacsTok(macs)}, ops...)...)
		for _, o := range ops {
			r.Stat("op."+o[:1], 1)
		}
	}
	rtBatch(r, rng)
	// exported fields the application owns are inputs: Host.HuntStage set to hunt / redirected / normal (op H), then the
	// duplicate-IP branch and the usual ops; and the conflict histories with stage writes sprinkled in
	nHunt := 150
	if r.Thorough() {
		nHunt = 3000
	}
	for i := 0; i < nHunt; i++ {
		ops := g.HuntStageHistory()
		if i%3 == 2 {
			ops = g.WithStages(g.ConflictHistory(6+rng.Intn(20)), 20)
		}
		ips, macs := tables.Candidates(cfg, ops)
		r.Do("t4", append([]string{cfg.Tok(), "0", tables.IPsTok(ips), tables.MacsTok(macs)}, ops...)...)
		r.Stat("class.application-fields", 1)
	}
	// op pairs on one MAC in every order (SetDHCPv4IPOffer x DHCPv4Update x frame x purge), client online / offline / unknown
	for i := 0; i < 432; i += 1 + rng.Intn(2) {
		ops := g.OfferPairHistory(i)
		ips, macs := tables.Candidates(cfg, ops)
		r.Do("t4", append([]string{cfg.Tok(), "0", tables.IPsTok(ips), tables.MacsTok(macs)}, ops...)...)
		r.Stat("class.offer-pairs", 1)
	}
	// the address-class domain and the NICInfo domain: every class of IPv4 / IPv6 source x {router, own, client, new MAC} x
	// {IP frame, ARP / NDP}, under the standard configuration and under every NICInfo variant
	{
		envs := append([]tables.Cfg{tables.StdCfg()}, tables.EnvCfgs()...)
		nCls := 6
		if r.Thorough() {
			nCls = 60
		}
		k := 0
		for _, ec := range envs {
			for i := 0; i < nCls; i++ {
				ops := g.AddressClassHistory(ec, k)
				k++
				if i%3 == 1 {
					ops = tables.RawOps(ops, rng, 0, func(s string) { r.Stat(s, 1) })
				}
				ips, macs := tables.Candidates(ec, ops)
				r.Do("t4", append([]string{ec.Tok(), "0", tables.IPsTok(ips), tables.MacsTok(macs)}, ops...)...)
				r.Stat("class.address-class-x-nicinfo", 1)
			}
			for i := 0; i < 3; i++ { // the usual histories under this NICInfo
				ops := g.ConflictHistory(6 + rng.Intn(20))
				ips, macs := tables.Candidates(ec, ops)
				r.Do("t4", append([]string{ec.Tok(), "0", tables.IPsTok(ips), tables.MacsTok(macs)}, ops...)...)
				r.Stat("class.nicinfo-conflict", 1)
			}
		}
	}
	nShort, nLong := 400, 600
	if r.Thorough() {
		nShort, nLong = 4000, 15000
	}
	// the three deadlines: every accepted ordering, equal, tiny and huge values; purges straddling each cutoff for an
	// address offline by ageing and by IPv4 supersession
	nDl := 12
	if r.Thorough() {
		nDl = 200
	}
	for _, dc := range dcfgs {
		for i := 0; i < nDl; i++ {
			ops := g.DeadlineHistory(dc)
			if i%3 == 2 {
				ops = tables.RawOps(ops, rng, 0, func(k string) { r.Stat(k, 1) })
			}
			ips, macs := tables.Candidates(dc, ops)
			r.Do("t4", append([]string{dc.Tok(), "0", tables.IPsTok(ips), tables.MacsTok(macs)}, ops...)...)
			r.Stat("class.deadlines", 1)
		}
	}
	for i := 0; i < nShort; i++ {
		run(g.History(1 + rng.Intn(3)))
	}
	// bounded-exhaustive: every history of depth 1..3 over the 19-letter alphabet; depth 4 in thorough
	maxDepth := 3
	if r.Thorough() {
		maxDepth = 4
	}
	for d := 1; d <= maxDepth; d++ {
		tables.Exhaustive(g.U, d, false, func(ops []string) { run(ops); r.Stat("class.exhaustive", 1) })
	}
	for i := 0; i < nLong; i++ {
		run(g.History(30 + rng.Intn(31)))
	}
	// address conflicts between MACs that own several hosts; DHCP offer pending when the only host is deleted
	nConf, nOff := 500, 200
	if r.Thorough() {
		nConf, nOff = 10000, 3000
	}
	for i := 0; i < nConf; i++ {
		run(g.ConflictHistory(6 + rng.Intn(25)))
		r.Stat("class.conflict", 1)
	}
	for i := 0; i < nOff; i++ {
		run(g.OfferDeletionHistory())
		r.Stat("class.offer-deletion", 1)
	}
	// one address of a MAC silent while the MAC stays active; purges at the host's and the MAC's deadlines +-1
	for i := 0; i < nOff; i++ {
		run(g.QuietAddressHistory())
		r.Stat("class.quiet-address", 1)
	}
	// the DHCP name path: SetDHCPv4IPOffer / DHCPv4Update with names on hosts that are online and announced
	for i := 0; i < 2*nOff; i++ {
		run(g.DHCPExchangeHistory())
		r.Stat("class.dhcp-exchange", 1)
	}
}

// rtBatch: real-time histories in parallel sessions (about 8 s of wall time in quick)
func rtBatch(r *lib.Run, rng *lib.Rand) {
	n := 120
	if r.Thorough() {
		n = 1200
	}
	for _, res := range tables.RealTimeBatch(rng, n, 40) {
		if res.Ambiguous {
			r.Stat("rt.timing-ambiguous-discarded", 1)
			continue
		}
		r.Do("rt", res.Args...)
		r.Stat("class.real-time", 1)
	}
}
