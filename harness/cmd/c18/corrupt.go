package main

// Crash-point / corruption search: every byte prefix, single-byte substitutions, line deletions and
// duplications of lease files written by the real saveConfig.  Each damaged text is loaded by the real
// constructor (recover + watchdog); the model is fed what yaml.Unmarshal made of the text (kind newt);
// the Go-side oracle checks the property clause "intact bindings or empty table, never a binding absent
// from the original file / outside the home subnet / without client id".

import (
	"bytes"
	"fmt"
	"strings"
	"sync"

	"pvharness/lib"
)

type editT struct {
	kind string // prefix | subst | linedel | linedup
	text []byte
	desc string
}

func substValues(orig byte, rng *lib.Rand, n int) []byte {
	cand := []byte{'0', '1', '9', ' ', '\n', '-', ':', '#', '.', '/', 'a', '[', '"', 0x00, 0xff, orig ^ 1, orig + 1}
	var out []byte
	for len(out) < n {
		v := cand[rng.Intn(len(cand))]
		if v != orig {
			out = append(out, v)
		}
	}
	return out
}

func edits(f savedFile, rng *lib.Rand, thorough bool, first bool) (out []editT) {
	t := f.text
	// every byte prefix (first files: all offsets; later files in the quick tier: a sample)
	for n := 0; n < len(t); n++ {
		if first || thorough || rng.Chance(15) {
			out = append(out, editT{"prefix", t[:n], fmt.Sprintf("cut at %d of %d", n, len(t))})
		}
	}
	// single-byte substitutions
	per := 1
	if thorough {
		per = 4
	}
	for i := 0; i < len(t); i++ {
		if !thorough && !first && !rng.Chance(20) {
			continue
		}
		for _, v := range substValues(t[i], rng, per) {
			x := append([]byte{}, t...)
			x[i] = v
			out = append(out, editT{"subst", x, fmt.Sprintf("byte %d: %q -> %q", i, t[i], v)})
		}
	}
	// line deletions and duplications
	lines := bytes.SplitAfter(t, []byte("\n"))
	for i := range lines {
		if len(lines[i]) == 0 {
			continue
		}
		var del, dup []byte
		for j := range lines {
			if j != i {
				del = append(del, lines[j]...)
			}
			dup = append(dup, lines[j]...)
			if j == i {
				dup = append(dup, lines[j]...)
			}
		}
		out = append(out, editT{"linedel", del, fmt.Sprintf("line %d deleted: %q", i, lines[i])})
		out = append(out, editT{"linedup", dup, fmt.Sprintf("line %d duplicated: %q", i, lines[i])})
	}
	return
}

func subset(a, b []bindingT) bool {
	for _, x := range a {
		in := false
		for _, y := range b {
			if x == y {
				in = true
			}
		}
		if !in {
			return false
		}
	}
	return true
}

func corruptions(r *lib.Run, rng *lib.Rand, files []savedFile) {
	type job struct {
		f savedFile
		e editT
	}
	var jobs []job
	for i, f := range files {
		if (!r.Thorough() && i >= 4) || i >= 6 {
			break
		}
		for _, e := range edits(f, rng, r.Thorough(), i == 0) {
			jobs = append(jobs, job{f, e})
		}
		r.Stat("corrupt.files", 1)
		r.Stat("corrupt.file-bytes", int64(len(f.text)))
	}
	var reported sync.Map
	ch := make(chan job, 64)
	var wg sync.WaitGroup
	for w := 0; w < 12; w++ {
		wg.Add(1)
		go func() {
			defer wg.Done()
			for j := range ch {
				toks := docTokens(j.e.text)
				args := append([]string{j.f.c.tok(), j.f.capTok, lib.Hex(j.e.text)}, toks...)
				if toks[0] == "yamlpanic" {
					r.Viol("yaml-unmarshal-panics", j.e.kind+": "+j.e.desc, "newt "+strings.Join(args, " "))
					continue
				}
				obs := r.Do("newt", args...)
				r.Stat("corrupt.edits."+j.e.kind, 1)
				// validation of the hypothesis checksum_detects of C18_damaged_intact_or_empty: a damaged text reads as
				// an error, a checksum mismatch, the original document, or (no checksum line left) a lease-less document
				orig := docTokens(j.f.text)
				cls := "undetected"
				switch {
				case toks[0] == "err":
					cls = "error"
				case toks[0] == "docbad":
					cls = "mismatch"
				case strings.Join(toks[1:], " ") == strings.Join(orig[1:], " "):
					cls = "original-document-" + toks[0]
				case toks[0] == "doc" && len(toks) == 3:
					cls = "no-leases"
				}
				r.Stat("corrupt.read."+j.e.kind+"."+cls, 1)
				if cls == "undetected" {
					if _, dup := reported.LoadOrStore("undetected-"+j.e.kind, true); !dup {
						r.Viol("checksum-undetected-"+j.e.kind, j.e.desc+": the damaged text is accepted as "+toks[0]+" with a different document",
							"newt "+strings.Join(args, " "))
					}
				}
				// oracle
				outcome := ""
				switch {
				case obs == "panic" || obs == "fuel":
					outcome = obs
				case !strings.HasPrefix(obs, "ok "):
					outcome = "constructor-error"
				default:
					var got []bindingT
					if f := strings.Fields(obs); len(f) == 4 && f[3] != "-" {
						for _, l := range strings.Split(f[3], ";") {
							p := strings.Split(l, ",")
							got = append(got, bindingT{p[0], p[1], p[2]})
						}
					}
					switch {
					case len(got) == 0:
						outcome = "empty"
					case sameBindings(got, j.f.bindings):
						outcome = "intact"
					default:
						outcome = "strict-subset"
						if !subset(got, j.f.bindings) {
							outcome = "altered-binding"
						}
						for _, b := range got {
							if b.cid == "-" {
								outcome = "no-clientid"
							} else if a := tokAddr(b.ip); !j.f.c.nic.home.Contains(a) {
								outcome = "outside-home-subnet"
							}
						}
					}
				}
				r.Stat("corrupt.outcome."+j.e.kind+"."+outcome, 1)
				if outcome == "empty" || outcome == "intact" || outcome == "panic" { // a panic is keyed by the model (column 3)
					continue
				}
				pre := map[string]string{"prefix": "trunc", "subst": "subst", "linedel": "linedel", "linedup": "linedup"}[j.e.kind]
				key := pre + "-" + outcome
				if _, dup := reported.LoadOrStore(key, true); !dup {
					r.Viol(key, fmt.Sprintf("%s; original bindings %s; constructor gave %s", j.e.desc, showBindings(j.f.bindings), obs),
						"newt "+strings.Join(args, " "))
				}
			}
		}()
	}
	for _, j := range jobs {
		ch <- j
	}
	close(ch)
	wg.Wait()
}
