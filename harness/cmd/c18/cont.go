package main

// Continuation histories after a restart: a NEW session (no hosts: the lease table is the only protection of the
// restored bindings) and a new handler built from the lease file; then restored clients re-DISCOVER / REQUEST /
// renew / reboot, new clients DISCOVER with and without requested addresses (incl. restored ones), REQUESTs in
// either order, MinuteTicker.  Every reply and the final table are compared with the DHCP cluster's model
// (Model/DHCP.v run) started from the restored state (kind cont); Go-side oracles: a restored address is never
// offered / acknowledged to another client while its lease is not free, and the REQUEST of a restored client for
// its own address is acknowledged.

import (
	"bytes"
	"fmt"
	"net"
	"net/netip"
	"os"
	"sort"
	"strings"
	"time"

	dhcp "github.com/irai/packet/handlers/dhcp4_spoofer"
	"pvharness/lib"
)

type contClient struct {
	cl       clientT
	ip       netip.Addr // address it holds (restored or acknowledged)
	offer    netip.Addr // last OFFER
	offerXid uint32
	restored bool
}

func hex4(a netip.Addr) string {
	if !a.Is4() {
		return "-"
	}
	b := a.As4()
	return fmt.Sprintf("%02x%02x%02x%02x", b[0], b[1], b[2], b[3])
}

func cidTok(c clientT) string {
	if c.cid0 {
		return "-"
	}
	if c.cid == nil {
		return "~"
	}
	return lib.Hex(c.cid)
}

// msgTok: an op of Model/DHCPShow.v: K,chaddr,xid,ciaddr,cid,req,sid,b,src,prl
func msgTok(kind string, c clientT, xid uint32, ciaddr, req, sid, src netip.Addr) string {
	opt := func(a netip.Addr) string {
		if !a.IsValid() {
			return "~"
		}
		return hex4(a)
	}
	z := func(a netip.Addr) string {
		if !a.IsValid() {
			return "00000000"
		}
		return hex4(a)
	}
	return strings.Join([]string{kind, lib.Hex(c.mac), fmt.Sprintf("%08x", xid), z(ciaddr), cidTok(c), opt(req), opt(sid), "F", z(src), "-"}, ",")
}

func replyTok(rp replyT, ok bool) string {
	if !ok {
		return "-"
	}
	switch rp.mtype {
	case 2:
		return "O" + hex4(rp.yiaddr)
	case 5:
		return "A" + hex4(rp.yiaddr)
	case 6:
		return "N"
	}
	return "?"
}

func cfgDTok(c cfgT) []string {
	dns := c.dns
	if !dns.IsValid() {
		dns = c.nic.router
	}
	return []string{"1", hex4(c.nic.host), lib.Hex(lib.HostMAC), hex4(c.nic.router), lib.Hex(lib.RouterMAC),
		hex4(c.nic.home.Addr()), fmt.Sprint(c.nic.home.Bits()), hex4(c.netfilter.Addr()), fmt.Sprint(c.netfilter.Bits()), hex4(dns)}
}

func tableObs(ls []dhcp.VerifLease) (string, bool) {
	sort.Slice(ls, func(i, j int) bool { return bytes.Compare(ls[i].ClientID, ls[j].ClientID) < 0 })
	var out []string
	seen := map[netip.Addr]bool{}
	dup := false
	for _, l := range ls {
		st := map[dhcp.State]string{dhcp.StateFree: "F", dhcp.StateDiscover: "D", dhcp.StateAllocated: "A"}[l.State]
		net := "1"
		if l.SubnetID == "net2" {
			net = "2"
		}
		out = append(out, lib.Hex(l.ClientID)+"/"+st+"/"+hex4(l.Addr.IP)+"/"+net)
		if l.Addr.IP.IsValid() {
			if seen[l.Addr.IP] {
				dup = true
			}
			seen[l.Addr.IP] = true
		}
	}
	if len(out) == 0 {
		return "-", dup
	}
	return strings.Join(out, ";"), dup
}

// one continuation: symbols are chosen by pick(step, n) so that the same driver serves the random, the scripted and
// the bounded-exhaustive generators
func continuation(r *lib.Run, c cfgT, captured []net.HardwareAddr, text []byte, clients []clientT, depth int, pick func(step, n int) int, label string) {
	f := tmpName()
	defer os.Remove(f)
	os.WriteFile(f, text, 0644)
	sv := newServer(c, captured, f) // fresh session
	defer sv.close()
	sv.xid = 0x9000
	b := construct(sv.s, c, f)
	if b.h == nil {
		return
	}
	sv.h = b.h
	t0 := time.Now()
	restored := sv.h.VerifLeases()
	sort.Slice(restored, func(i, j int) bool { return bytes.Compare(restored[i].ClientID, restored[j].ClientID) < 0 })
	args := cfgDTok(c)
	args = append(args, fmt.Sprint(len(restored)))
	var cs []*contClient
	for _, l := range restored {
		net := "1"
		if l.SubnetID == "net2" {
			net = "2"
		}
		args = append(args, strings.Join([]string{lib.Hex(l.ClientID), lib.Hex(l.Addr.MAC), hex4(l.Addr.IP), net,
			fmt.Sprint(int64(l.DHCPExpiry.Sub(t0) / time.Second))}, ","))
		for _, cl := range clients {
			if bytes.Equal(cl.key(), l.ClientID) && len(cs) < 2 {
				cs = append(cs, &contClient{cl: cl, ip: l.Addr.IP, restored: true})
			}
		}
	}
	if len(cs) == 0 {
		return
	}
	nRestored := len(cs)
	cs = append(cs, &contClient{cl: clientT{mac: net.HardwareAddr{0x02, 0, 0, 0, 0, 0x71}, name: "n1"}},
		&contClient{cl: clientT{mac: net.HardwareAddr{0x02, 0, 0, 0, 0, 0x72}, cid: []byte{0xc2}, name: "n2"}})
	var obs []string
	for _, m := range captured {
		args = append(args, "C,"+lib.Hex(m))
		obs = append(obs, "-")
	}
	// who may hold which address: restored/acknowledged address -> client index
	check := func(i int, rp replyT, ok bool, what string) {
		if !ok || (rp.mtype != 2 && rp.mtype != 5) {
			return
		}
		for j, o := range cs {
			if j != i && o.ip.IsValid() && o.ip == rp.yiaddr {
				// is o's lease still non-free with that address?
				for _, l := range sv.h.VerifLeases() {
					if bytes.Equal(l.ClientID, o.cl.key()) && l.State != dhcp.StateFree && l.Addr.IP == o.ip {
						r.Viol("restart-bound-address-given-away", fmt.Sprintf("%s: %s answered with %v, which client %x still holds (%s)", label, what, rp.yiaddr, o.cl.key(), strings.Join(args, " ")), "")
					}
				}
			}
		}
	}
	host := c.nic.host
	dupStop := false
	for step := 0; step < depth && !dupStop; step++ {
		nsym := 5*len(cs) + 2
		sym := pick(step, nsym)
		if sym >= 5*len(cs) { // MinuteTicker now / after every lease expired
			secs := int64(0)
			if sym == 5*len(cs)+1 {
				secs = 6 * 3600
			}
			sv.h.MinuteTicker(t0.Add(time.Duration(secs) * time.Second))
			if secs > 0 {
				for _, o := range cs {
					o.ip = netip.Addr{}
				}
			}
			args = append(args, fmt.Sprintf("T,%d", secs))
			obs = append(obs, "-")
		} else {
			i, kind := sym/5, sym%5
			x := cs[i]
			sv.xid++
			xid := sv.xid
			switch kind {
			case 0, 1: // DISCOVER, plain or asking for the address of the first / second restored client
				want := netip.Addr{}
				if kind == 1 { // the address of a restored client other than itself
					j := 0
					if i == 0 {
						j = 1 % nRestored
					}
					want = cs[j].ip
				}
				o := x.cl.opts()
				if want.Is4() {
					a := want.As4()
					o = append(o, optT{50, a[:]})
				}
				rp, ok := sv.exchange(x.cl.mac, zero4, bcast4, bcastMAC, mkDHCP(1, xid, netip.Addr{}, x.cl.mac, o), xid)
				args = append(args, msgTok("D", x.cl, xid, netip.Addr{}, want, netip.Addr{}, netip.Addr{}))
				obs = append(obs, replyTok(rp, ok))
				check(i, rp, ok, "DISCOVER")
				if ok && rp.mtype == 2 {
					x.offer, x.offerXid = rp.yiaddr, xid
				}
			case 2: // REQUEST selecting the last offer (or, without one, the address the client holds)
				req, rx := x.offer, x.offerXid
				if !req.IsValid() {
					req, rx = x.ip, xid
				}
				if !req.IsValid() {
					req = netip.MustParseAddr("192.168.0.77")
				}
				a, h4 := req.As4(), host.As4()
				rp, ok := sv.exchange(x.cl.mac, zero4, bcast4, bcastMAC, mkDHCP(3, rx, netip.Addr{}, x.cl.mac, append(x.cl.opts(), optT{50, a[:]}, optT{54, h4[:]})), rx)
				args = append(args, msgTok("R", x.cl, rx, netip.Addr{}, req, host, netip.Addr{}))
				obs = append(obs, replyTok(rp, ok))
				check(i, rp, ok, "REQUEST(selecting)")
				if ok && rp.mtype == 5 {
					x.ip, x.offer = rp.yiaddr, netip.Addr{}
				}
				if x.restored && ok && rp.mtype == 6 && req == x.ip && x.offer == x.ip {
					r.Viol("restart-own-address-refused", fmt.Sprintf("%s: restored client %x was offered its address %v and its REQUEST was NAKed (%s)", label, x.cl.key(), req, strings.Join(args, " ")), "")
				}
			case 3: // renew (unicast, ciaddr)
				a := x.ip
				if !a.IsValid() {
					a = netip.MustParseAddr("192.168.0.78")
				}
				rp, ok := sv.exchange(x.cl.mac, a, host, lib.HostMAC, mkDHCP(3, xid, a, x.cl.mac, x.cl.opts()), xid)
				args = append(args, msgTok("R", x.cl, xid, a, netip.Addr{}, netip.Addr{}, a))
				obs = append(obs, replyTok(rp, ok))
				check(i, rp, ok, "REQUEST(renewing)")
			case 4: // reboot (requested address, no server id, broadcast from 0.0.0.0)
				a := x.ip
				if !a.IsValid() {
					a = netip.MustParseAddr("192.168.0.79")
				}
				a4 := a.As4()
				rp, ok := sv.exchange(x.cl.mac, zero4, bcast4, bcastMAC, mkDHCP(3, xid, netip.Addr{}, x.cl.mac, append(x.cl.opts(), optT{50, a4[:]})), xid)
				args = append(args, msgTok("R", x.cl, xid, netip.Addr{}, a, netip.Addr{}, netip.Addr{}))
				obs = append(obs, replyTok(rp, ok))
				check(i, rp, ok, "REQUEST(rebooting)")
				if ok && rp.mtype == 5 {
					x.ip = rp.yiaddr
				}
			}
		}
		// two leases with one address: findByIP depends on the Go map order from here on; stop
		if _, dup := tableObs(sv.h.VerifLeases()); dup {
			dupStop = true
			r.Stat("cont.stopped-duplicate-address", 1)
		}
	}
	tb, _ := tableObs(sv.h.VerifLeases())
	r.Case("cont", args, strings.Join(obs, " ")+" | "+tb)
	r.Stat("cont."+label, 1)
}

// continuations generates, for one saved file: the scripted scenario (a restored client re-DISCOVERs, a new client
// DISCOVERs plainly and for that very address, both REQUEST in either order), random histories, and in the thorough
// tier every history of depth 4.
func continuations(r *lib.Run, rng *lib.Rand, c cfgT, captured []net.HardwareAddr, text []byte, clients []clientT, exhaustive bool) {
	nc := 4 // two restored + two new clients when two were restored; symbols are taken modulo what exists
	sym := func(client, kind int) int { return client*5 + kind }
	scripts := [][]int{
		// A re-DISCOVERs; C DISCOVERs plain, then for A's address; C REQUESTs; A REQUESTs
		{sym(0, 0), sym(nc-2, 0), sym(nc-2, 1), sym(nc-2, 2), sym(0, 2)},
		// the same with A's REQUEST first
		{sym(0, 0), sym(nc-2, 1), sym(0, 2), sym(nc-2, 2)},
		// a new client asks for a restored address straight away, REQUESTs; the restored client renews and reboots
		{sym(nc-2, 1), sym(nc-2, 2), sym(0, 3), sym(0, 4)},
		// every lease expires, then the new client may have the address
		{5*nc + 1, sym(nc-2, 1), sym(nc-2, 2), sym(0, 3)},
	}
	for si, sc := range scripts {
		sc := sc
		continuation(r, c, captured, text, clients, len(sc), func(step, n int) int { return sc[step] % n }, fmt.Sprintf("script%d", si))
	}
	for k := 0; k < 3; k++ {
		rr := rng.Fork()
		continuation(r, c, captured, text, clients, 4+rr.Intn(6), func(step, n int) int { return rr.Intn(n) }, "random")
	}
	if exhaustive {
		// bounded-exhaustive depth 4 over the symbols of one restored client, one new client and the two ticks
		alpha := []int{sym(0, 0), sym(0, 2), sym(0, 3), sym(0, 4), sym(nc-2, 0), sym(nc-2, 1), sym(nc-2, 2), 5*nc + 1}
		n := len(alpha)
		for code := 0; code < n*n*n*n; code++ {
			cd := code
			continuation(r, c, captured, text, clients, 4, func(step, m int) int {
				d := cd
				for i := 0; i < step; i++ {
					d /= n
				}
				return alpha[d%n] % m
			}, "exhaustive4")
		}
	}
}
