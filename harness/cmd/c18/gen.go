package main

// Generated documents: every validation branch of newSubnet / loadByteArray / configChanged.

import (
	"fmt"
	"net"
	"net/netip"
	"os"
	"strings"
	"time"

	"github.com/irai/packet"
	dhcp "github.com/irai/packet/handlers/dhcp4_spoofer"
	yaml "gopkg.in/yaml.v2"
	"pvharness/lib"
)

var (
	stdNIC  = nicT{home: lib.HomeLAN, host: lib.HostIP4, router: lib.RouterIP4}
	stdCfg  = cfgT{nic: stdNIC, netfilter: netip.MustParsePrefix("192.168.0.129/25"), dns: netip.MustParseAddr("8.8.8.8")}
	macUniv = []net.HardwareAddr{
		{0x02, 0, 0, 0, 0, 1}, {0x02, 0, 0, 0, 0, 2}, {0x02, 0, 0, 0, 0, 3}, {0x02, 0, 0, 0, 0, 4},
	}
)

func ip(s string) netip.Addr { return netip.MustParseAddr(s) }

// the subnet configurations a handler built from cfg c saves
func goodNets(c cfgT) (n1, n2 dhcp.SubnetConfig) {
	dns := c.dns
	if !dns.IsValid() {
		dns = c.nic.router
	}
	n1 = dhcp.SubnetConfig{LAN: c.nic.home.Masked(), DefaultGW: c.nic.router, DHCPServer: c.nic.host, DNSServer: dns,
		FirstIP: c.nic.home.Masked().Addr().Next(), Duration: 4 * time.Hour, Stage: packet.StageNormal, ID: "net1"}
	n2 = dhcp.SubnetConfig{LAN: c.netfilter.Masked(), DefaultGW: c.netfilter.Addr(), DHCPServer: c.nic.host, DNSServer: ip("1.1.1.3"),
		FirstIP: c.netfilter.Masked().Addr().Next(), Duration: 4 * time.Hour, Stage: packet.StageRedirected, ID: "net2"}
	return
}

func mutateNet(rng *lib.Rand, n *dhcp.SubnetConfig) string {
	switch rng.Intn(16) {
	case 0:
		n.LAN = netip.PrefixFrom(n.LAN.Addr(), rng.Pick(0, 8, 16, 22, 23, 25, 26, 30, 32))
		return "bits"
	case 1:
		n.LAN = netip.Prefix{}
		return "lan-invalid"
	case 2:
		n.LAN = netip.MustParsePrefix([]string{"fe80::/64", "::ffff:192.168.0.0/120", "::ffff:192.168.0.0/24", "2001:db8::1/32"}[rng.Intn(4)])
		return "lan-v6"
	case 3:
		n.LAN = netip.MustParsePrefix([]string{"192.168.1.0/24", "10.0.0.0/8", "192.168.0.77/24", "255.255.255.255/32", "0.0.0.0/0"}[rng.Intn(5)])
		return "lan-other"
	case 4:
		n.DefaultGW = []netip.Addr{ip("192.168.0.12"), ip("10.0.0.1"), {}, ip("::1"), ip("::ffff:192.168.0.11")}[rng.Intn(5)]
		return "gw"
	case 5:
		n.DHCPServer = []netip.Addr{ip("192.168.0.130"), {}, ip("fe80::1%eth0"), ip("0.0.0.0")}[rng.Intn(4)]
		return "dhcp"
	case 6:
		n.DNSServer = []netip.Addr{ip("0.0.0.0"), ip("::"), {}, ip("9.9.9.9"), ip("::%z")}[rng.Intn(5)]
		return "dns"
	case 7:
		n.FirstIP = []netip.Addr{{}, ip("0.0.0.0"), ip("192.168.0.50"), ip("192.168.0.200"), ip("10.1.1.1"), ip("::1"), ip("192.168.0.255")}[rng.Intn(7)]
		return "first"
	case 8:
		n.Duration = []time.Duration{0, time.Hour, -1, 1}[rng.Intn(4)]
		return "dur"
	case 9:
		n.Stage = packet.HuntStage(rng.Pick(0, 1, 2, 3, 4, 255))
		return "stage"
	}
	return "intact"
}

var cidUniv = [][]byte{{1, 2, 3}, {1, 2}, {1, 2, 3, 4}, {0xaa}, {}, nil, {0, 0}, {2, 0, 0, 0, 0, 1}}
var ipUniv = []string{"192.168.0.12", "192.168.0.13", "192.168.0.130", "192.168.0.131", "192.168.0.0", "192.168.0.255",
	"192.168.0.127", "192.168.0.128", "192.168.1.5", "192.168.3.7", "10.0.0.1", "0.0.0.0", "255.255.255.255",
	"::1", "::ffff:192.168.0.12", "fe80::1%eth0", "", "192.168.0.11", "192.168.0.129"}

func genLease(rng *lib.Rand) dhcp.Lease {
	l := dhcp.Lease{}
	l.ClientID = cidUniv[rng.Intn(len(cidUniv))]
	if rng.Chance(10) {
		l.ClientID = rng.Bytes(1 + rng.Intn(8))
	}
	l.State = dhcp.StateAllocated
	if rng.Chance(20) {
		l.State = dhcp.State(rng.Pick(0, 1, 3, -1, 2000000))
	}
	switch k := rng.Intn(10); {
	case k < 8:
		l.Addr.MAC = macUniv[rng.Intn(len(macUniv))]
	case k == 8:
		l.Addr.MAC = net.HardwareAddr(rng.Bytes(rng.Intn(9)))
	}
	if s := ipUniv[rng.Intn(len(ipUniv))]; s != "" {
		l.Addr.IP = ip(s)
	}
	if rng.Chance(50) {
		l.Addr.IP = netip.AddrFrom4([4]byte{192, 168, byte(rng.Pick(0, 0, 0, 1)), rng.Byte()})
	}
	switch rng.Intn(4) {
	case 0: // zero
	case 1:
		l.DHCPExpiry = time.Unix(1790000000+int64(rng.Intn(100000)), int64(rng.Intn(1000000000))).UTC()
	case 2:
		l.DHCPExpiry = time.Unix(int64(rng.Intn(2000000000)), 0).UTC()
	case 3:
		l.DHCPExpiry = time.Date(1960+rng.Intn(400), 1, 1, 0, 0, 0, rng.Intn(1000), time.UTC)
	}
	l.Name = []string{"", "host", "a b"}[rng.Intn(3)]
	return l
}

func genDocs(r *lib.Run, rng *lib.Rand) {
	n := 2500
	if r.Thorough() {
		n = 40000
	}
	cfgs := []cfgT{stdCfg,
		{nic: stdNIC, netfilter: netip.MustParsePrefix("192.168.0.129/24"), dns: ip("8.8.8.8")},
		{nic: stdNIC, netfilter: netip.MustParsePrefix("192.168.0.65/26"), dns: netip.Addr{}},
		{nic: stdNIC, netfilter: netip.MustParsePrefix("192.168.0.200/30"), dns: ip("9.9.9.9")},
		{nic: nicT{home: netip.MustParsePrefix("192.168.0.0/23"), host: lib.HostIP4, router: lib.RouterIP4}, netfilter: netip.MustParsePrefix("192.168.1.1/24"), dns: ip("8.8.8.8")},
		{nic: nicT{home: netip.MustParsePrefix("192.168.0.129/24"), host: lib.HostIP4, router: lib.RouterIP4}, netfilter: netip.MustParsePrefix("192.168.0.129/25"), dns: ip("8.8.8.8")}, // home not masked
	}
	badCfgs := []cfgT{
		{nic: stdNIC, netfilter: netip.Prefix{}, dns: ip("8.8.8.8")},
		{nic: stdNIC, netfilter: netip.MustParsePrefix("10.0.0.1/24"), dns: ip("8.8.8.8")},
		{nic: stdNIC, netfilter: netip.MustParsePrefix("192.168.0.129/16"), dns: ip("8.8.8.8")},                                    // wider than the home LAN
		{nic: stdNIC, netfilter: netip.MustParsePrefix("192.168.0.129/25"), dns: ip("0.0.0.0")},                                    // reset fails: invalid DNS
		{nic: nicT{home: lib.HomeLAN, host: lib.HostIP4, router: ip("10.0.0.1")}, netfilter: stdCfg.netfilter, dns: ip("8.8.8.8")}, // router outside home
	}
	caps := []string{"-", macsTok(macUniv[:1]), macsTok(macUniv[:2]), macsTok(macUniv)}
	for i := 0; i < n; i++ {
		c := cfgs[0]
		if rng.Chance(30) {
			c = cfgs[rng.Intn(len(cfgs))]
		}
		if rng.Chance(4) {
			c = badCfgs[rng.Intn(len(badCfgs))]
		}
		capTok := caps[rng.Intn(len(caps))]
		if rng.Chance(1) {
			r.Do("new", c.tok(), capTok, "nofile")
			r.Stat("class.new.no-filename", 1)
			continue
		}
		if rng.Chance(3) {
			r.Do("new", c.tok(), capTok, "err")
			r.Stat("class.new.missing-file", 1)
			continue
		}
		n1, n2 := goodNets(c)
		d := docT{Net1: &n1, Net2: &n2}
		cls := "intact"
		if rng.Chance(35) {
			cls = "net1-" + mutateNet(rng, &n1)
		}
		if rng.Chance(20) {
			cls = "net2-" + mutateNet(rng, &n2)
		}
		if rng.Chance(7) {
			d.Net1 = nil
			cls = "net1-nil"
		}
		if rng.Chance(7) {
			d.Net2 = nil
			cls = "net2-nil"
		}
		k := rng.Intn(6)
		for j := 0; j < k; j++ {
			d.Leases = append(d.Leases, genLease(rng))
		}
		text, err := yaml.Marshal(&d)
		if err != nil {
			r.Stat("class.new.marshal-error", 1)
			continue
		}
		toks := docTokens(text)
		if isDoc(toks[0]) { // legacy text, text with its checksum line, text with a wrong checksum line
			toks[0] = []string{"doc", "doc", "docok", "docok", "docok", "docbad"}[rng.Intn(6)]
			r.Stat("class.new.sum-"+toks[0], 1)
		}
		obs := r.Do("new", append([]string{c.tok(), capTok}, toks...)...)
		r.Stat("class.new."+cls, 1)
		r.Stat("obs.new."+firstWord(obs), 1)
	}
}

func firstWord(s string) string {
	for i := 0; i < len(s); i++ {
		if s[i] == ' ' {
			return s[:i]
		}
	}
	return s
}

// bigDocs: restarts on LARGE lease files (the code has no size limit, so neither has the model): an ordinary table
// of 230 clients (> 64 KiB of YAML) in the quick tier; in the thorough tier files of about 16/32/64/128 KiB with
// client ids of 1..255 bytes (incl. 0x00 and 0xff bytes) and long host names.  Each document is loaded by the real
// constructor (kind newt), and so is the file the constructor re-saves (the real saveConfig on the big table).
func bigDocs(r *lib.Run, rng *lib.Rand) {
	type spec struct {
		leases  int
		longCID bool
		target  int // stop adding leases at about this many bytes (0: use leases)
	}
	specs := []spec{{leases: 230}}
	if r.Thorough() {
		specs = append(specs, spec{longCID: true, target: 16 << 10}, spec{longCID: true, target: 32 << 10},
			spec{longCID: true, target: 64 << 10}, spec{longCID: true, target: 128 << 10}, spec{leases: 250}, spec{longCID: true, target: 65600})
	}
	c := stdCfg
	s := sessionFor(c.nic, "-")
	for _, sp := range specs {
		n1, n2 := goodNets(c)
		d := docT{Net1: &n1, Net2: &n2}
		size := 0
		for i := 0; (sp.target == 0 && i < sp.leases) || (sp.target > 0 && size < sp.target && i < 250); i++ {
			l := dhcp.Lease{State: dhcp.StateAllocated}
			l.Addr.MAC = net.HardwareAddr{0x02, 0, 0, 1, byte(i >> 8), byte(i)}
			l.Addr.IP = netip.AddrFrom4([4]byte{192, 168, 0, byte(2 + i)})
			l.ClientID = append([]byte{1}, l.Addr.MAC...)
			l.Name = fmt.Sprintf("host-%d.home.lan", i)
			l.XID = []byte{0, 0, byte(0x10 + i>>8), byte(i)} // as a lease acknowledged through DISCOVER/REQUEST carries them
			l.OfferExpiry = time.Unix(1789990000+int64(i), 0).UTC()
			if sp.longCID {
				l.ClientID = rng.Bytes(1 + rng.Intn(255))
				l.ClientID[0] = byte(i) // distinct keys
				if len(l.ClientID) > 2 {
					l.ClientID[1], l.ClientID[len(l.ClientID)-1] = 0x00, 0xff
				}
				l.Name = strings.Repeat("n", 1+rng.Intn(200))
			}
			l.DHCPExpiry = time.Unix(1790000000+int64(i), int64(rng.Intn(1000000000))).UTC()
			d.Leases = append(d.Leases, l)
			size += 60 + 8*len(l.ClientID) + len(l.Name) + 160
		}
		body, err := yaml.Marshal(&d)
		if err != nil {
			continue
		}
		text := withSum(body)
		run := func(text []byte, what string) []byte {
			toks := docTokens(text)
			obs := r.Do("newt", append([]string{c.tok(), "-", lib.Hex(text)}, toks...)...)
			r.Stat("big."+what, 1)
			r.Stat("big.bytes."+what, int64(len(text)))
			// Go-side oracle: every lease of the document is restored
			n := 0
			if f := strings.Fields(obs); len(f) == 4 && f[3] != "-" {
				n = len(strings.Split(f[3], ";"))
			}
			if n != len(d.Leases) {
				r.Viol("restart-large-table-lost", fmt.Sprintf("%s: lease file of %d bytes with %d leases, %d restored", what, len(text), len(d.Leases), n), "")
			}
			// the file the constructor re-saved
			fname := tmpName()
			defer os.Remove(fname)
			os.WriteFile(fname, text, 0644)
			if b := construct(s, c, fname); b.h != nil {
				out, _ := os.ReadFile(fname)
				return out
			}
			return nil
		}
		if resaved := run(text, "generated"); resaved != nil {
			run(resaved, "resaved-by-saveConfig")
		}
	}
}
