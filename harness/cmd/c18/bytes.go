package main

// Round 7: the lease file as bytes.
//   sumline   : the byte-level integrity check of loadByteArray in isolation (first-line variants on a valid body)
//   yamlshort : the ten proper prefixes of "checksum: " (hypothesis yaml_short of C18_truncated_intact_or_empty)
//   arbitrary : random, YAML-shaped and mutated byte strings through the real constructor (kind newt): totality of
//               sha256 / yaml.Unmarshal / the loader on arbitrary bytes
//   consts    : constants the model hard-codes against the Go source, read with go/parser on every run
//   crash     : a partially written <file>.tmp next to an intact lease file (every crash point of saveConfig's write)

import (
	"crypto/sha256"
	"encoding/hex"
	"fmt"
	"go/ast"
	"go/parser"
	"go/token"
	"os"
	"path/filepath"
	"strconv"
	"strings"

	yaml "gopkg.in/yaml.v2"
	"pvharness/lib"
)

func sha256hexOf(b []byte) []byte {
	h := sha256.Sum256(b)
	return []byte(hex.EncodeToString(h[:]))
}

// restOf: the text after its first newline (nil when there is none)
func restOf(text []byte) ([]byte, bool) {
	for i, c := range text {
		if c == '\n' {
			return text[i+1:], true
		}
	}
	return nil, false
}

func bytesStream(r *lib.Run, rng *lib.Rand, files []savedFile) {
	c := stdCfg
	s := sessionFor(c.nic, "-")
	// a valid body with two leases
	n1, n2 := goodNets(c)
	d := docT{Net1: &n1, Net2: &n2}
	rr := lib.NewRand(7)
	for len(d.Leases) < 2 {
		l := genLease(rr)
		if l.State == 2 && len(l.ClientID) > 0 && c.nic.home.Contains(l.Addr.IP) && l.Addr.IP.Is4() {
			if len(d.Leases) == 1 && string(d.Leases[0].ClientID) == string(l.ClientID) {
				continue
			}
			d.Leases = append(d.Leases, l)
		}
	}
	body, _ := yaml.Marshal(&d)
	good := string(sha256hexOf(body))

	// ---- sumline: variants of the first line
	firsts := []string{
		"checksum: " + good + "\n",                             // as saveConfig writes it
		"checksum: " + good[:63] + string(good[63]^1) + "\n",   // last digit wrong
		"checksum: " + strings.ToUpper(good) + "\n",            // upper-case hex
		"checksum: " + good[:63] + "\n",                        // 63 digits
		"checksum: " + good + "0\n",                            // 65 digits
		"checksum: " + good + " \n",                            // trailing space
		"checksum:  " + good + "\n",                            // two spaces
		"checksum: " + good + "\r\n",                           // CRLF
		"checksum: \n",                                         // empty
		"checksum:" + good + "\n",                              // no space: not the key
		"Checksum: " + good + "\n",                             // other key
		" checksum: " + good + "\n",                            // leading space
		"",                                                     // no line at all (older file)
		"# checksum: " + good + "\n",                           // a comment
		"checksum: " + good + "\nchecksum: " + good + "\n",     // twice
		"checksum: " + string(sha256hexOf([]byte("x"))) + "\n", // hash of something else
		"checksum: " + string(sha256hexOf(append([]byte("\n"), body...))) + "\n\n", // an empty line belongs to the rest
	}
	for _, f := range firsts {
		text := append([]byte(f), body...)
		hashTok := "-"
		if rest, ok := restOf(text); ok {
			hashTok = lib.Hex(sha256hexOf(rest))
		}
		// does yaml.Unmarshal make the body's document of the whole text? (an error, or another document, resets)
		yamlOK := "F"
		if tt, bt := docTokens(text), docTokens(body); isDoc(tt[0]) && strings.Join(tt[1:], " ") == strings.Join(bt[1:], " ") {
			yamlOK = "T"
		}
		fname := tmpName()
		os.WriteFile(fname, text, 0644)
		b := construct(s, c, fname)
		os.Remove(fname)
		obs := "reset"
		if len(b.bindings) == 2 {
			obs = "loaded"
		} else if len(b.bindings) != 0 {
			obs = fmt.Sprintf("partial-%d", len(b.bindings))
		}
		r.Case("sumline", []string{lib.Hex(text), hashTok, yamlOK}, obs)
		r.Stat("bytes.sumline."+obs, 1)
	}

	// ---- yamlshort: the proper prefixes of the key (hypothesis yaml_short), also through the real constructor
	key := []byte("checksum: ")
	for n := 0; n < len(key); n++ {
		text := key[:n]
		toks := docTokens(text)
		if !(toks[0] == "err" || (isDoc(toks[0]) && len(toks) == 3)) {
			r.Viol("yaml-short-prefix-has-leases", fmt.Sprintf("yaml.Unmarshal of %q gives %v", text, toks), "")
		}
		args := append([]string{c.tok(), "-", lib.Hex(text)}, toks...)
		r.Do("newt", args...)
		r.Stat("bytes.yamlshort", 1)
	}

	// ---- arbitrary bytes through the real constructor
	n := 150
	if r.Thorough() {
		n = 3000
	}
	frags := []string{"net1:", "net2:", "leases:", "- ", "  ", "\n", ": ", "clientid:", "state: 2", "addr:", "ip: 192.168.0.7", "mac:", "[1, 2]",
		"checksum: ", "&a", "*a", "!!binary ", "|", ">", "{", "}", "[", "]", "\"", "'", "#", "---", "...", "? ", "\t", "\x00", "\xff", "0x7f", "~", "<<: *a", "lan: 10.0.0.0/8"}
	for i := 0; i < n; i++ {
		var text []byte
		switch rng.Intn(4) {
		case 0: // random bytes
			text = rng.Bytes(rng.Intn(200))
		case 1: // YAML-shaped fragments
			for k := rng.Intn(30); k > 0; k-- {
				text = append(text, frags[rng.Intn(len(frags))]...)
			}
		case 2: // a valid file with several random edits
			text = append([]byte{}, withSum(body)...)
			if len(files) > 0 && rng.Bool() {
				text = append([]byte{}, files[rng.Intn(len(files))].text...)
			}
			for k := 1 + rng.Intn(4); k > 0 && len(text) > 0; k-- {
				p := rng.Intn(len(text))
				switch rng.Intn(3) {
				case 0:
					text[p] = rng.Byte()
				case 1:
					text = append(text[:p], text[p+rng.Intn(len(text)-p):]...)
				case 2:
					text = append(text[:p], append(rng.Bytes(rng.Intn(6)), text[p:]...)...)
				}
			}
		case 3: // a valid body (no checksum line, so it is loaded) with a random edit: the legacy path of the validation
			text = append([]byte{}, body...)
			if len(text) > 0 {
				text[rng.Intn(len(text))] = []byte("0123456789 -:\n")[rng.Intn(14)]
			}
		}
		toks := docTokens(text)
		if toks[0] == "yamlpanic" {
			r.Viol("yaml-unmarshal-panics", fmt.Sprintf("on %x", text), "")
			continue
		}
		obs := r.Do("newt", append([]string{c.tok(), "-", lib.Hex(text)}, toks...)...)
		r.Stat("bytes.arbitrary."+firstWord(obs), 1)
	}

	// ---- crash points of saveConfig's write: <file>.tmp holds a prefix of the new content, <file> the old content
	if len(files) > 0 {
		f := files[0]
		sf := sessionFor(f.c.nic, f.capTok)
		newText := f.text
		if len(files) > 1 {
			newText = files[1].text
		}
		step := 37
		if r.Thorough() {
			step = 1
		}
		for cut := 0; cut <= len(newText); cut += step {
			fname := tmpName()
			os.WriteFile(fname, f.text, 0644)
			os.WriteFile(fname+".tmp", newText[:cut], 0644)
			b := construct(sf, f.c, fname)
			if !sameBindings(b.bindings, f.bindings) {
				r.Viol("crash-tmp-file-affects-restart", fmt.Sprintf("intact lease file + %d bytes of a new file in .tmp: restored %s, expected %s", cut, showBindings(b.bindings), showBindings(f.bindings)), "")
			}
			os.Remove(fname)
			os.Remove(fname + ".tmp")
			r.Stat("bytes.crash-tmp-prefix", 1)
		}
	}

	// ---- the directory as part of the initial state: saveConfig with a stale <file>.tmp of every shape (kind savedir),
	// then two further restarts without an intervening save by a client
	{
		d1 := docT{Net1: &n1, Net2: &n2, Leases: d.Leases[:1]}
		b1, _ := yaml.Marshal(&d1)
		x1 := withSum(b1)
		fileTok := func(p string) string {
			t, err := os.ReadFile(p)
			if err != nil {
				return "absent"
			}
			return lib.Hex(t)
		}
		// control runs in a clean directory: what the constructor's save writes for this table / for no file
		control := func(lease []byte) []byte {
			fname := tmpName()
			defer os.Remove(fname)
			if lease != nil {
				os.WriteFile(fname, lease, 0644)
			}
			construct(s, c, fname)
			out, _ := os.ReadFile(fname)
			return out
		}
		other := withSum(body) // a complete save of a different (two-lease) table, longer than the one-lease file
		if len(files) > 0 {
			other = files[0].text
		}
		for _, lease := range [][]byte{x1, nil} {
			content := control(lease)
			want := 0
			if lease != nil {
				want = 1
			}
			flipped := append([]byte{}, content...)
			flipped[len(flipped)/2] ^= 0x20
			shapes := map[string][]byte{
				"absent": nil, "empty": {}, "shorter": content[:len(content)/2], "same-length-other-content": flipped,
				"identical": content, "longer-by-1": append(append([]byte{}, content...), 'x'),
				"longer-by-many": append(append([]byte{}, content...), other...), "older-complete-save": other,
				"random-long": rng.Bytes(len(content) + 300), "random-short": rng.Bytes(40),
			}
			for name, tmp := range shapes {
				fname := tmpName()
				if lease != nil {
					os.WriteFile(fname, lease, 0644)
				}
				if name != "absent" {
					os.WriteFile(fname+".tmp", tmp, 0644)
				}
				tmpTok, leaseTok := fileTok(fname+".tmp"), fileTok(fname)
				b := construct(s, c, fname) // loads, then saves
				r.Case("savedir", []string{tmpTok, leaseTok, lib.Hex(content)}, "lease="+fileTok(fname)+" tmp="+fileTok(fname+".tmp"))
				r.Stat("bytes.savedir."+name, 1)
				ok := len(b.bindings) == want
				// the restart after that save, and one more: the table must still be there
				for k := 2; k <= 3; k++ {
					txt, _ := os.ReadFile(fname)
					toks := docTokens(txt)
					bk := construct(s, c, fname)
					r.Case("newt", append([]string{c.tok(), "-", lib.Hex(txt)}, toks...), bk.obs)
					if len(bk.bindings) != want {
						ok = false
					}
				}
				if !ok {
					r.Viol("restart-after-stale-tmp-lost", fmt.Sprintf("stale temporary file %q (%d bytes) next to a lease file with %d lease(s): the restarts after the save do not restore them", name, len(tmp), want), "")
				}
				os.Remove(fname)
				os.Remove(fname + ".tmp")
			}
		}
		// the same through the save of a real ACK (content carries the clock: only the verdict and the restarts are checked)
		fname := tmpName()
		sv := newServer(c, nil, fname)
		if b0 := construct(sv.s, c, fname); b0.h != nil {
			sv.h = b0.h
			before, _ := os.ReadFile(fname)
			os.WriteFile(fname+".tmp", append(append([]byte{}, before...), rng.Bytes(4000)...), 0644)
			cl := clientT{mac: macUniv[0], name: "stale"}
			if _, acked := sv.acquire(cl, ip("192.168.0.50")); acked {
				txt, _ := os.ReadFile(fname)
				if k := sumKind(txt); k != "docok" {
					r.Viol("save-after-stale-tmp-bad-file", "after an ACK with a longer stale temporary file the lease file reads as "+k, "")
				}
				for k := 0; k < 2; k++ {
					if bk := construct(sessionFor(c.nic, "-"), c, fname); len(bk.bindings) != 1 {
						r.Viol("restart-after-stale-tmp-lost", fmt.Sprintf("ACK saved over a longer stale temporary file: restart %d restores %d bindings", k+1, len(bk.bindings)), "")
					}
				}
				r.Stat("bytes.savedir.ack-path", 1)
			}
		}
		sv.close()
		os.Remove(fname)
		os.Remove(fname + ".tmp")
	}

	// ---- constants of the model against the source
	r.Case("consts", nil, sourceConsts(r))
}

// sourceConsts reads the constants from the Go source of the library under test (robust against reordering: the
// declarations are looked up by name / by shape in the AST).
func sourceConsts(r *lib.Run) string {
	repo := os.Getenv("VERIF_REPO")
	if repo == "" {
		repo = "/repo"
	}
	fset := token.NewFileSet()
	parse := func(rel string) *ast.File {
		f, err := parser.ParseFile(fset, filepath.Join(repo, rel), nil, 0)
		if err != nil {
			return nil
		}
		return f
	}
	constVal := func(f *ast.File, name string) string {
		if f == nil {
			return "?"
		}
		out := "?"
		ast.Inspect(f, func(n ast.Node) bool {
			vs, ok := n.(*ast.ValueSpec)
			if !ok {
				return true
			}
			for i, id := range vs.Names {
				if id.Name == name && i < len(vs.Values) {
					switch v := vs.Values[i].(type) {
					case *ast.BasicLit:
						out = v.Value
					case *ast.CallExpr: // netip.MustParseAddr("1.1.1.3")
						if len(v.Args) == 1 {
							if bl, ok := v.Args[0].(*ast.BasicLit); ok {
								out = bl.Value
							}
						}
					}
				}
			}
			return true
		})
		if s, err := strconv.Unquote(out); err == nil {
			return s
		}
		return out
	}
	sl := parse("handlers/dhcp4_spoofer/subnet_lease.go")
	ls := parse("handlers/dhcp4_spoofer/lease.go")
	ht := parse("hosttable.go")
	se := parse("session.go")
	// the suffix of the temporary file: the string literal added to fname in saveConfig
	suffix := "?"
	dur := "?"
	if sl != nil {
		ast.Inspect(sl, func(n ast.Node) bool {
			fd, ok := n.(*ast.FuncDecl)
			if !ok {
				return true
			}
			ast.Inspect(fd, func(m ast.Node) bool {
				be, ok := m.(*ast.BinaryExpr)
				if !ok {
					return true
				}
				if fd.Name.Name == "saveConfig" && be.Op == token.ADD {
					if id, ok := be.X.(*ast.Ident); ok && id.Name == "fname" {
						if bl, ok := be.Y.(*ast.BasicLit); ok {
							suffix, _ = strconv.Unquote(bl.Value)
						}
					}
				}
				if fd.Name.Name == "newSubnet" && be.Op == token.MUL { // 4 * time.Hour
					if bl, ok := be.X.(*ast.BasicLit); ok {
						if se, ok := be.Y.(*ast.SelectorExpr); ok && se.Sel.Name == "Hour" {
							if k, err := strconv.Atoi(bl.Value); err == nil {
								dur = fmt.Sprint(int64(k) * 3600 * 1000000000)
							}
						}
					}
				}
				return true
			})
			return true
		})
	}
	// how saveConfig opens the temporary file: WriteFile (create-or-TRUNCATE) or an OpenFile whose flags contain O_TRUNC
	trunc := "?"
	if sl != nil {
		ast.Inspect(sl, func(n ast.Node) bool {
			fd, ok := n.(*ast.FuncDecl)
			if !ok || fd.Name.Name != "saveConfig" {
				return true
			}
			ast.Inspect(fd, func(m ast.Node) bool {
				ce, ok := m.(*ast.CallExpr)
				if !ok {
					return true
				}
				sel, ok := ce.Fun.(*ast.SelectorExpr)
				if !ok {
					return true
				}
				switch sel.Sel.Name {
				case "WriteFile":
					trunc = "T"
				case "OpenFile", "Create":
					trunc = "F"
					if sel.Sel.Name == "Create" {
						trunc = "T"
					}
					for _, a := range ce.Args {
						ast.Inspect(a, func(x ast.Node) bool {
							if id, ok := x.(*ast.SelectorExpr); ok && id.Sel.Name == "O_TRUNC" {
								trunc = "T"
							}
							return true
						})
					}
				}
				return true
			})
			return false
		})
	}
	dns := constVal(se, "DNSv4CloudFlareFamily1")
	dnsTok := dns
	if a, err := parseAddr4(dns); err == nil {
		dnsTok = a
	}
	return constVal(sl, "leaseSumKey") + "|" + suffix + "|" +
		constVal(ls, "StateFree") + "," + constVal(ls, "StateDiscover") + "," + constVal(ls, "StateAllocated") + "|" +
		constVal(ht, "StageNormal") + "," + constVal(ht, "StageRedirected") + "|" + dur + "|" + dnsTok + "|trunc=" + trunc
}

func parseAddr4(s string) (string, error) {
	var a, b, c, d uint32
	if _, err := fmt.Sscanf(s, "%d.%d.%d.%d", &a, &b, &c, &d); err != nil {
		return "", err
	}
	return fmt.Sprintf("4_%d", a<<24|b<<16|c<<8|d), nil
}
