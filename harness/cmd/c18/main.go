// C18: lease file persistence of the DHCPv4 server (subnet_lease.go, Config.New) against the Coq model
// of Model/Lease.v.  Three streams:
//
//	new  : generated documents (every validation branch of loadByteArray/newSubnet/configChanged),
//	       written as YAML, loaded by the real constructor; observation = subnets + restored leases
//	hist : real DISCOVER/REQUEST histories, saveConfig (kind save), restart (kind new), Go-side oracles
//	       "restored bindings = acknowledged bindings", "renewal ACKed", "restored address not offered"
//	newt : every byte prefix / substitutions / line deletions+duplications of files produced by histories,
//	       model fed with what yaml.Unmarshal made of the damaged text; Go-side oracle
//	       "intact bindings or empty table"
package main

import (
	"fmt"
	"io"
	"net"
	"net/netip"
	"os"
	"path/filepath"
	"sort"
	"strings"
	"sync"
	"sync/atomic"
	"time"

	"github.com/irai/packet"
	"github.com/irai/packet/fastlog"
	dhcp "github.com/irai/packet/handlers/dhcp4_spoofer"
	yaml "gopkg.in/yaml.v2"
	"pvharness/lib"
)

var (
	scratch string
	fileSeq int64
)

func tmpName() string {
	return filepath.Join(scratch, fmt.Sprintf("lease_%d.yaml", atomic.AddInt64(&fileSeq, 1)))
}

// ---------------------------------------------------------------- sessions

type nicT struct {
	home         netip.Prefix
	host, router netip.Addr
}

var (
	sessMu sync.Mutex
	sessBy = map[string]*packet.Session{}
)

func macsTok(macs []net.HardwareAddr) string {
	if len(macs) == 0 {
		return "-"
	}
	var s []string
	for _, m := range macs {
		s = append(s, lib.Hex(m))
	}
	sort.Strings(s)
	return strings.Join(s, "+")
}

func tokMacs(s string) []net.HardwareAddr {
	if s == "-" {
		return nil
	}
	var out []net.HardwareAddr
	for _, m := range strings.Split(s, "+") {
		out = append(out, net.HardwareAddr(lib.UnHex(m)))
	}
	return out
}

// sessionFor returns a (cached, read-only use) session with the given NIC and captured MAC set.
func sessionFor(n nicT, capTok string) *packet.Session {
	key := prefixTok(n.home) + "," + addrTok(n.host) + "," + addrTok(n.router) + "|" + capTok
	sessMu.Lock()
	defer sessMu.Unlock()
	if s := sessBy[key]; s != nil {
		return s
	}
	s := freshSession(n, tokMacs(capTok))
	sessBy[key] = s
	return s
}

func freshSession(n nicT, captured []net.HardwareAddr) *packet.Session {
	s, _ := lib.NewSessionWith(&packet.NICInfo{
		HomeLAN4:    n.home,
		HostAddr4:   packet.Addr{MAC: lib.HostMAC, IP: n.host},
		RouterAddr4: packet.Addr{MAC: lib.RouterMAC, IP: n.router},
		HostLLA:     netip.PrefixFrom(lib.HostLLA, 64),
		RouterLLA:   netip.PrefixFrom(lib.RouterLLA, 64),
	})
	for _, m := range captured {
		if err := s.Capture(m); err != nil {
			panic(err)
		}
	}
	return s
}

// ---------------------------------------------------------------- construction under recover + watchdog

type cfgT struct {
	nic       nicT
	netfilter netip.Prefix
	dns       netip.Addr
}

func (c cfgT) tok() string {
	return strings.Join([]string{prefixTok(c.nic.home), addrTok(c.nic.host), addrTok(c.nic.router), prefixTok(c.netfilter), addrTok(c.dns)}, ",")
}

func tokCfg(s string) cfgT {
	f := strings.Split(s, ",")
	return cfgT{nic: nicT{home: tokPrefix(f[0]), host: tokAddr(f[1]), router: tokAddr(f[2])}, netfilter: tokPrefix(f[3]), dns: tokAddr(f[4])}
}

type built struct {
	obs      string
	h        *dhcp.Handler
	bindings []bindingT
}

// construct runs the real constructor on the lease file and projects the observation:
//
//	ok <net1 lan> <net2 lan> <leases> | err | panic | fuel
//
// The subnets are read back from the file the constructor re-saves.
func construct(s *packet.Session, c cfgT, fname string) built {
	ch := make(chan built, 1)
	go func() {
		var b built
		defer func() {
			if e := recover(); e != nil {
				b = built{obs: "panic"}
			}
			ch <- b
		}()
		h, err := dhcp.Config{Mode: dhcp.ModePrimaryServer, NetfilterIP: c.netfilter, DNSServer: c.dns, LeaseFilename: fname}.New(s)
		if err != nil || h == nil {
			b = built{obs: "err"}
			return
		}
		lo, bs := leaseObs(h.VerifLeases())
		if fname == "" { // no lease file configured: nothing is saved, only the table is observable
			b = built{obs: "nofile " + lo, h: h, bindings: bs}
			return
		}
		var d docT
		txt, _ := os.ReadFile(fname)
		if err := yaml.Unmarshal(txt, &d); err != nil || d.Net1 == nil || d.Net2 == nil {
			b = built{obs: "ok unreadable-resave", h: h}
			return
		}
		b = built{obs: "ok " + netTok(d.Net1) + " " + netTok(d.Net2) + " " + lo, h: h, bindings: bs}
	}()
	select {
	case b := <-ch:
		return b
	case <-time.After(20 * time.Second):
		return built{obs: "fuel"}
	}
}

// runNew: pure runner of "new <cfg> <captured> err|doc ..." : the document is marshalled with yaml.v2,
// which must give back the same tokens (checked), and loaded by the real constructor.
func runNew(a []string) string {
	c := tokCfg(a[0])
	s := sessionFor(c.nic, a[1])
	fname := tmpName()
	defer os.Remove(fname)
	switch a[2] {
	case "nofile": // LeaseFilename == ""
		return construct(s, c, "").obs
	case "err": // missing file
	case "doc", "docok", "docbad":
		text, err := yaml.Marshal(docOfTokens(a[2:]))
		if err != nil {
			return "marshal-error"
		}
		switch a[2] {
		case "docok": // as saveConfig writes it
			text = withSum(text)
		case "docbad": // a checksum line that does not match (last hex digit changed)
			text = withSum(text)
			text[len("checksum: ")+63] ^= 1
		}
		if got := strings.Join(docTokens(text), " "); got != strings.Join(a[2:], " ") {
			return "yaml-roundtrip-miss " + got
		}
		if err := os.WriteFile(fname, text, 0644); err != nil {
			panic(err)
		}
	default:
		return "unsupported-input"
	}
	return construct(s, c, fname).obs
}

// runNewT: pure runner of "newt <cfg> <captured> <hex of the file text> err|doc ...": writes exactly that
// text; the document tokens must be what yaml.Unmarshal makes of it.
func runNewT(a []string) string {
	c := tokCfg(a[0])
	s := sessionFor(c.nic, a[1])
	text := lib.UnHex(a[2])
	if got := strings.Join(docTokens(text), " "); got != strings.Join(a[3:], " ") {
		return "args-inconsistent " + got
	}
	fname := tmpName()
	defer os.Remove(fname)
	if err := os.WriteFile(fname, text, 0644); err != nil {
		panic(err)
	}
	return construct(s, c, fname).obs
}

func main() {
	r := lib.Init()
	defer r.Close()
	rng := r.Rand()

	scratch = os.Getenv("VERIF_SCRATCH")
	if scratch == "" {
		scratch = os.TempDir()
	}
	scratch = filepath.Join(scratch, fmt.Sprintf("c18_%d", os.Getpid()))
	os.MkdirAll(scratch, 0755)
	defer os.RemoveAll(scratch)

	// silence the library (tens of thousands of constructions)
	fastlog.DefaultIOWriter = io.Discard
	if devnull, err := os.OpenFile(os.DevNull, os.O_WRONLY, 0); err == nil {
		os.Stdout = devnull
	}
	dhcp.Logger.Disable()
	packet.Logger.Disable()

	r.Register("new", runNew)
	r.Register("newt", runNewT)
	r.Register("save", func(a []string) string {
		return "not-replayable: save cases are recorded from DHCP histories; re-run the harness with the same seed"
	})
	if r.Replayed() {
		return
	}

	// corpus first: refutation witnesses and former panic inputs
	if dir := os.Getenv("VERIF_CORPUS"); dir != "" {
		if txt, err := os.ReadFile(filepath.Join(dir, "cases.txt")); err == nil {
			for _, l := range strings.Split(string(txt), "\n") {
				f := strings.Fields(l)
				if len(f) < 2 || strings.HasPrefix(l, "#") {
					continue
				}
				r.Do(f[0], f[1:]...)
				r.Stat("corpus.cases", 1)
			}
		}
	}
	genDocs(r, rng.Fork())
	bigDocs(r, rng.Fork())
	files := histories(r, rng.Fork())
	corruptions(r, rng.Fork(), files)
	bytesStream(r, rng.Fork(), files)
	multiHandlers(r, rng.Fork())
}
