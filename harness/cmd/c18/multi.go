package main

// Round 10: several handler instances over ONE lease file, every order of {ACK on h1, New h2, ACK on h2, Close h1,
// Close h2} (+ third handler, decline, quiet and other API calls in the thorough tier), then a restart.
//   multi   : the clients whose bindings the file holds after every operation, against Model/LeaseMulti.v
//   writers : the exported API functions that transitively reach saveConfig (go/ast call graph), against the model's list
//   inode   : after every API call, was the file rewritten (saveConfig renames a new file over it)?  Non-writing
//             operations (Close, StartHunt, StopHunt, PrintTable, SetMode, DISCOVER) must leave the inode alone.

import (
	"bytes"
	"go/ast"
	"go/parser"
	"go/token"
	"net/netip"
	"os"
	"path/filepath"
	"sort"
	"strings"

	"github.com/irai/packet"
	dhcp "github.com/irai/packet/handlers/dhcp4_spoofer"
	"pvharness/lib"
)

func labelsInFile(fname string, cidLabel map[string]byte) string {
	txt, _ := os.ReadFile(fname)
	toks := docTokens(txt)
	if !isDoc(toks[0]) {
		return "?" + toks[0]
	}
	var ls []byte
	for _, t := range toks[3:] {
		f := strings.Split(t, ",")
		if f[1] != "2" {
			continue
		}
		if l, ok := cidLabel[f[0]]; ok {
			ls = append(ls, l)
		} else {
			ls = append(ls, '?')
		}
	}
	if len(ls) == 0 {
		return "-"
	}
	sort.Slice(ls, func(i, j int) bool { return ls[i] < ls[j] })
	return string(ls)
}

func runMulti(r *lib.Run, ops []string) {
	c := stdCfg
	fname := tmpName()
	defer os.Remove(fname)
	sv := newServer(c, nil, fname)
	defer sv.close()
	handlers := map[byte]*dhcp.Handler{}
	clients := map[byte]clientT{
		'A': {mac: macUniv[0], cid: []byte{0xa1}, name: "a"}, 'B': {mac: macUniv[1], cid: []byte{0xb1}, name: "b"},
		'E': {mac: macUniv[2], cid: []byte{0xe1}, name: "e"}, 'Z': {mac: macUniv[3], name: "z"}}
	cidLabel := map[string]byte{}
	for l, cl := range clients {
		cidLabel[lib.Hex(cl.key())] = l
	}
	held := map[byte]string{} // label -> address acknowledged last
	var obs []string
	executed := []string{}
	for _, op := range ops {
		kind, h := op[0], op[1]
		var before os.FileInfo
		before, _ = os.Stat(fname)
		wrote := func() bool {
			after, err := os.Stat(fname)
			if err != nil || before == nil {
				return err == nil
			}
			return !os.SameFile(before, after)
		}
		skip := false
		switch kind {
		case 'N':
			b := construct(sv.s, c, fname)
			if b.h == nil {
				skip = true
				break
			}
			handlers[h] = b.h
			if !wrote() {
				r.Viol("file-not-written-by-New", "Config.New did not rewrite the lease file ("+strings.Join(ops, " ")+")", "")
			}
		case 'A':
			hd := handlers[h]
			if hd == nil {
				skip = true
				break
			}
			sv.h = hd
			got, ok := sv.acquire(clients[op[2]], tokAddrOr(held[op[2]]))
			if !ok {
				skip = true
				break
			}
			held[op[2]] = addrTok(got)
			if !wrote() {
				r.Viol("file-not-written-by-ack", "an ACK did not rewrite the lease file ("+strings.Join(ops, " ")+")", "")
			}
		case 'D':
			hd := handlers[h]
			a := held[op[2]]
			if hd == nil || a == "" {
				skip = true
				break
			}
			// only when that handler holds the binding (else the DECLINE is ignored and nothing is dropped)
			has := false
			for _, l := range hd.VerifLeases() {
				if bytes.Equal(l.ClientID, clients[op[2]].key()) && l.State == dhcp.StateAllocated && addrTok(l.Addr.IP) == a {
					has = true
				}
			}
			if !has {
				skip = true
				break
			}
			sv.h = hd
			sv.xid++
			cl := clients[op[2]]
			a4, h4 := tokAddr(a).As4(), c.nic.host.As4()
			sv.exchange(cl.mac, zero4, bcast4, bcastMAC, mkDHCP(4, sv.xid, tokAddr("x"), cl.mac, append(cl.opts(), optT{50, a4[:]}, optT{54, h4[:]})), sv.xid)
			delete(held, op[2])
		case 'Q':
			hd := handlers[h]
			if hd == nil {
				skip = true
				break
			}
			sv.h = hd
			sv.discoverOnly(clients['Z'], tokAddr("x"))
			if wrote() {
				r.Viol("file-written-by-nonwriter-discover", "a DISCOVER of a new client rewrote the lease file ("+strings.Join(ops, " ")+")", "")
			}
		case 'C':
			hd := handlers[h]
			if hd == nil {
				skip = true
				break
			}
			hd.Close()
			if wrote() {
				r.Viol("file-written-by-nonwriter-close", "Handler.Close rewrote the lease file ("+strings.Join(ops, " ")+")", "")
			}
		case 'O':
			hd := handlers[h]
			if hd == nil {
				skip = true
				break
			}
			hd.StartHunt(packet.Addr{MAC: macUniv[0], IP: ip("192.168.0.200")})
			hd.StopHunt(packet.Addr{MAC: macUniv[0], IP: ip("192.168.0.200")})
			hd.PrintTable()
			hd.SetMode(hd.Mode())
			if wrote() {
				r.Viol("file-written-by-nonwriter-other", "StartHunt/StopHunt/PrintTable/SetMode rewrote the lease file ("+strings.Join(ops, " ")+")", "")
			}
		}
		if skip {
			continue
		}
		executed = append(executed, op)
		obs = append(obs, labelsInFile(fname, cidLabel))
	}
	if len(executed) == 0 {
		return
	}
	r.Case("multi", executed, strings.Join(obs, " "))
	r.Stat("multi.histories", 1)
}

func tokAddrOr(s string) netip.Addr {
	if s == "" {
		return netip.Addr{}
	}
	return tokAddr(s)
}

func multiHandlers(r *lib.Run, rng *lib.Rand) {
	// every order of the five operations (h2's operations after its New), then a restart as handler 3
	base := []string{"A1A", "N2", "A2B", "C1", "C2"}
	var perm func(cur []string, rest []string)
	perm = func(cur, rest []string) {
		if len(rest) == 0 {
			ops := append(append([]string{"N1"}, cur...), "N3")
			runMulti(r, ops)
			return
		}
		for i := range rest {
			op := rest[i]
			if (op == "A2B" || op == "C2") && !contains(cur, "N2") {
				continue
			}
			nr := append(append([]string{}, rest[:i]...), rest[i+1:]...)
			perm(append(append([]string{}, cur...), op), nr)
		}
	}
	perm(nil, base)
	// random interleavings with a third handler, declines, quiet and other API calls
	n := 30
	if r.Thorough() {
		n = 600
	}
	alpha := []string{"A1A", "A1B", "A2A", "A2B", "A3E", "N2", "N3", "C1", "C2", "C3", "D1A", "D2A", "D2B", "Q1", "Q2", "O1", "O2", "N1"}
	for i := 0; i < n; i++ {
		ops := []string{"N1"}
		for k := 3 + rng.Intn(8); k > 0; k-- {
			ops = append(ops, alpha[rng.Intn(len(alpha))])
		}
		runMulti(r, append(ops, "N4"))
	}
	r.Case("writers", nil, sourceWriters())
}

func contains(l []string, x string) bool {
	for _, y := range l {
		if y == x {
			return true
		}
	}
	return false
}

// sourceWriters: the exported functions/methods of handlers/dhcp4_spoofer (non-test files, verif hooks excluded) from
// which saveConfig is reachable in the package's call graph (calls resolved by name; robust against extracted helpers)
func sourceWriters() string {
	repo := os.Getenv("VERIF_REPO")
	if repo == "" {
		repo = "/repo"
	}
	dir := filepath.Join(repo, "handlers/dhcp4_spoofer")
	fset := token.NewFileSet()
	calls := map[string]map[string]bool{}
	ents, _ := os.ReadDir(dir)
	for _, e := range ents {
		n := e.Name()
		if !strings.HasSuffix(n, ".go") || strings.HasSuffix(n, "_test.go") || strings.HasPrefix(n, "verif_") {
			continue
		}
		f, err := parser.ParseFile(fset, filepath.Join(dir, n), nil, 0)
		if err != nil {
			continue
		}
		for _, d := range f.Decls {
			fd, ok := d.(*ast.FuncDecl)
			if !ok || fd.Body == nil {
				continue
			}
			if calls[fd.Name.Name] == nil {
				calls[fd.Name.Name] = map[string]bool{}
			}
			ast.Inspect(fd.Body, func(x ast.Node) bool {
				ce, ok := x.(*ast.CallExpr)
				if !ok {
					return true
				}
				switch fn := ce.Fun.(type) {
				case *ast.Ident:
					calls[fd.Name.Name][fn.Name] = true
				case *ast.SelectorExpr:
					calls[fd.Name.Name][fn.Sel.Name] = true
				}
				return true
			})
		}
	}
	reach := map[string]bool{"saveConfig": true}
	for changed := true; changed; {
		changed = false
		for f, cs := range calls {
			if reach[f] {
				continue
			}
			for callee := range cs {
				if reach[callee] && calls[callee] != nil {
					reach[f] = true
					changed = true
				}
			}
		}
	}
	var out []string
	for f := range reach {
		if ast.IsExported(f) {
			out = append(out, f)
		}
	}
	sort.Strings(out)
	return strings.Join(out, ",")
}
