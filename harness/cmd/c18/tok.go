package main

// Token encoding of the parsed lease document (the model's input) and of observations.
// See coq/Extract/D18.v for the grammar.

import (
	"bytes"
	"crypto/sha256"
	"encoding/hex"
	"fmt"
	"math/big"
	"net"
	"net/netip"
	"sort"
	"strings"
	"time"

	"github.com/irai/packet"
	dhcp "github.com/irai/packet/handlers/dhcp4_spoofer"
	yaml "gopkg.in/yaml.v2"
	"pvharness/lib"
)

// docT is the structure loadByteArray/saveConfig (un)marshal.
type docT struct {
	Net1   *dhcp.SubnetConfig
	Net2   *dhcp.SubnetConfig
	Leases []dhcp.Lease
}

func addrTok(a netip.Addr) string {
	switch {
	case !a.IsValid():
		return "x"
	case a.Is4():
		b := a.As4()
		return fmt.Sprintf("4_%d", uint32(b[0])<<24|uint32(b[1])<<16|uint32(b[2])<<8|uint32(b[3]))
	default:
		b := a.As16()
		return "6_" + new(big.Int).SetBytes(b[:]).String() + "_" + lib.Hex([]byte(a.Zone()))
	}
}

func tokAddr(s string) netip.Addr {
	f := strings.Split(s, "_")
	switch {
	case s == "x":
		return netip.Addr{}
	case f[0] == "4" && len(f) == 2:
		var n uint32
		fmt.Sscan(f[1], &n)
		return netip.AddrFrom4([4]byte{byte(n >> 24), byte(n >> 16), byte(n >> 8), byte(n)})
	case f[0] == "6" && len(f) == 3:
		v, _ := new(big.Int).SetString(f[1], 10)
		var b [16]byte
		v.FillBytes(b[:])
		a := netip.AddrFrom16(b)
		if z := lib.UnHex(f[2]); len(z) > 0 {
			a = a.WithZone(string(z))
		}
		return a
	}
	panic("bad addr token " + s)
}

func prefixTok(p netip.Prefix) string {
	if !p.IsValid() {
		return "x"
	}
	return fmt.Sprintf("%s/%d", addrTok(p.Addr()), p.Bits())
}

func tokPrefix(s string) netip.Prefix {
	if s == "x" {
		return netip.Prefix{}
	}
	f := strings.Split(s, "/")
	var bits int
	fmt.Sscan(f[1], &bits)
	return netip.PrefixFrom(tokAddr(f[0]), bits)
}

func netTok(c *dhcp.SubnetConfig) string {
	if c == nil {
		return "nil"
	}
	return strings.Join([]string{prefixTok(c.LAN), addrTok(c.DefaultGW), addrTok(c.DHCPServer), addrTok(c.DNSServer),
		addrTok(c.FirstIP), fmt.Sprint(int64(c.Duration)), fmt.Sprint(uint8(c.Stage))}, ",")
}

func tokNet(s string) *dhcp.SubnetConfig {
	if s == "nil" {
		return nil
	}
	f := strings.Split(s, ",")
	var dur int64
	var st uint8
	fmt.Sscan(f[5], &dur)
	fmt.Sscan(f[6], &st)
	return &dhcp.SubnetConfig{LAN: tokPrefix(f[0]), DefaultGW: tokAddr(f[1]), DHCPServer: tokAddr(f[2]), DNSServer: tokAddr(f[3]),
		FirstIP: tokAddr(f[4]), Duration: time.Duration(dur), Stage: packet.HuntStage(st)}
}

var e9 = big.NewInt(1000000000)

// timeZ: unix nanoseconds, exact (the zero time is -62135596800e9)
func timeZ(t time.Time) string {
	z := new(big.Int).Mul(big.NewInt(t.Unix()), e9)
	return z.Add(z, big.NewInt(int64(t.Nanosecond()))).String()
}

func zTime(s string) time.Time {
	z, _ := new(big.Int).SetString(s, 10)
	sec, ns := new(big.Int).DivMod(z, e9, new(big.Int)) // Euclidean: 0 <= ns
	return time.Unix(sec.Int64(), ns.Int64()).UTC()
}

// recTok: cid,state,mac,ip,expiry
func recTok(l *dhcp.Lease) string {
	return strings.Join([]string{lib.Hex(l.ClientID), fmt.Sprint(int(l.State)), lib.Hex(l.Addr.MAC), addrTok(l.Addr.IP), timeZ(l.DHCPExpiry)}, ",")
}

func tokRec(s string) dhcp.Lease {
	f := strings.Split(s, ",")
	var st int
	fmt.Sscan(f[1], &st)
	l := dhcp.Lease{ClientID: lib.UnHex(f[0]), State: dhcp.State(st), Addr: packet.Addr{MAC: net.HardwareAddr(lib.UnHex(f[2])), IP: tokAddr(f[3])}}
	l.DHCPExpiry = zTime(f[4])
	return l
}

// sumKind: the integrity verdict on a lease file text, re-implemented from the rule in the comment of
// loadByteArray: a text starting with "checksum: " must carry, up to its first newline, the sha256 (hex) of
// everything after that newline.  doc = no such line, docok = matches, docbad = does not match.
func sumKind(text []byte) string {
	const key = "checksum: "
	if len(text) < len(key) || string(text[:len(key)]) != key {
		return "doc"
	}
	n := bytes.IndexByte(text, 10)
	if n < 0 {
		return "docbad"
	}
	h := sha256.New()
	h.Write(text[n+1:])
	if string(text[len(key):n]) != hex.EncodeToString(h.Sum(nil)) {
		return "docbad"
	}
	return "docok"
}

// withSum: the text saveConfig writes for a marshalled body
func withSum(body []byte) []byte {
	h := sha256.New()
	h.Write(body)
	return append([]byte("checksum: "+hex.EncodeToString(h.Sum(nil))+"\n"), body...)
}

// docTokens: what the integrity rule and yaml.Unmarshal make of a text, as the input tokens of the model:
// ["err"] or [doc|docok|docbad, net1, net2, lease...]
func docTokens(text []byte) (toks []string) {
	defer func() {
		if e := recover(); e != nil {
			toks = []string{"yamlpanic"}
		}
	}()
	var d docT
	if err := yaml.Unmarshal(text, &d); err != nil {
		return []string{"err"}
	}
	toks = tokensOfDoc(&d)
	toks[0] = sumKind(text)
	return toks
}

func isDoc(tok string) bool { return tok == "doc" || tok == "docok" || tok == "docbad" }

func tokensOfDoc(d *docT) []string {
	toks := []string{"doc", netTok(d.Net1), netTok(d.Net2)}
	for i := range d.Leases {
		toks = append(toks, recTok(&d.Leases[i]))
	}
	return toks
}

func docOfTokens(toks []string) *docT {
	d := &docT{Net1: tokNet(toks[1]), Net2: tokNet(toks[2])}
	for _, t := range toks[3:] {
		d.Leases = append(d.Leases, tokRec(t))
	}
	return d
}

type bindingT struct{ cid, mac, ip string }

// leaseObs: cid,mac,ip,sub,expiry sorted by client id; and the (cid,mac,ip) bindings
func leaseObs(ls []dhcp.VerifLease) (string, []bindingT) {
	sort.Slice(ls, func(i, j int) bool { return bytes.Compare(ls[i].ClientID, ls[j].ClientID) < 0 })
	var out []string
	var bs []bindingT
	for i := range ls {
		l := &ls[i]
		sub := "0"
		switch l.SubnetID {
		case "net1":
			sub = "1"
		case "net2":
			sub = "2"
		}
		out = append(out, strings.Join([]string{lib.Hex(l.ClientID), lib.Hex(l.Addr.MAC), addrTok(l.Addr.IP), sub, timeZ(l.DHCPExpiry)}, ","))
		bs = append(bs, bindingT{lib.Hex(l.ClientID), lib.Hex(l.Addr.MAC), addrTok(l.Addr.IP)})
	}
	if len(out) == 0 {
		return "-", nil
	}
	return strings.Join(out, ";"), bs
}
