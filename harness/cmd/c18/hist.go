package main

// Real DHCP histories: DISCOVER/REQUEST frames (independent byte writers) through Session.Parse +
// Handler.ProcessPacket; saveConfig is observed after every ACK, then the handler is re-constructed
// from the file.

import (
	"bytes"
	"fmt"
	"net"
	"net/netip"
	"os"
	"sort"
	"strings"
	"sync"
	"time"

	"github.com/irai/packet"
	dhcp "github.com/irai/packet/handlers/dhcp4_spoofer"
	"pvharness/lib"
)

type optT struct {
	code byte
	val  []byte
}

// mkDHCP: BOOTP header + magic cookie + options + end, padded to 300 bytes
func mkDHCP(mtype byte, xid uint32, ciaddr netip.Addr, chaddr net.HardwareAddr, opts []optT) []byte {
	b := make([]byte, 240, 320)
	b[0], b[1], b[2] = 1, 1, 6
	b[4], b[5], b[6], b[7] = byte(xid>>24), byte(xid>>16), byte(xid>>8), byte(xid)
	if ciaddr.Is4() {
		a := ciaddr.As4()
		copy(b[12:16], a[:])
	}
	copy(b[28:34], chaddr)
	copy(b[236:240], []byte{99, 130, 83, 99})
	b = append(b, 53, 1, mtype)
	for _, o := range opts {
		b = append(b, o.code, byte(len(o.val)))
		b = append(b, o.val...)
	}
	b = append(b, 255)
	for len(b) < 300 {
		b = append(b, 0)
	}
	return b
}

type replyT struct {
	mtype  byte
	yiaddr netip.Addr
	chaddr net.HardwareAddr
	xid    uint32
}

// decodeReplies: BOOTREPLY frames to UDP port 68 among the frames the server wrote
func decodeReplies(frames [][]byte) (out []replyT) {
	for _, f := range frames {
		if len(f) < 14+20+8+240 || f[12] != 0x08 || f[13] != 0x00 || f[14+9] != 17 {
			continue
		}
		ihl := int(f[14]&0x0f) * 4
		u := f[14+ihl:]
		if len(u) < 8+240 || (uint16(u[2])<<8|uint16(u[3])) != 68 {
			continue
		}
		d := u[8:]
		if d[0] != 2 {
			continue
		}
		rp := replyT{xid: uint32(d[4])<<24 | uint32(d[5])<<16 | uint32(d[6])<<8 | uint32(d[7]),
			yiaddr: netip.AddrFrom4([4]byte{d[16], d[17], d[18], d[19]}), chaddr: net.HardwareAddr(append([]byte{}, d[28:34]...))}
		for i := 240; i+1 < len(d) && d[i] != 255; {
			if d[i] == 0 {
				i++
				continue
			}
			l := int(d[i+1])
			if d[i] == 53 && l == 1 && i+2 < len(d) {
				rp.mtype = d[i+2]
			}
			i += 2 + l
		}
		out = append(out, rp)
	}
	return
}

type clientT struct {
	mac  net.HardwareAddr
	cid  []byte // nil: no option 61 (the server uses chaddr)
	cid0 bool   // send option 61 with length 0
	name string
}

func (c clientT) opts() []optT {
	var o []optT
	if c.cid0 {
		o = append(o, optT{61, []byte{}})
	} else if c.cid != nil {
		o = append(o, optT{61, c.cid})
	}
	if c.name != "" {
		o = append(o, optT{12, []byte(c.name)})
	}
	return o
}

type serverT struct {
	s     *packet.Session
	conn  *lib.RecConn
	h     *dhcp.Handler
	c     cfgT
	fname string
	xid   uint32
	pre   func()
}

func (sv *serverT) exchange(srcMAC net.HardwareAddr, srcIP, dstIP netip.Addr, dstMAC net.HardwareAddr, msg []byte, xid uint32) (rp replyT, ok bool) {
	f := lib.MkEther(dstMAC, srcMAC, 0x0800, lib.MkIP4(srcIP, dstIP, 17, 64, lib.MkUDP(68, 67, msg)))
	sv.conn.Take()
	frame, err := sv.s.Parse(f)
	if err != nil {
		return
	}
	if sv.pre != nil {
		sv.pre() // the state the handler is about to see (Parse may just have created the sender's host)
	}
	sv.h.ProcessPacket(frame)
	for _, x := range decodeReplies(sv.conn.Take()) {
		if x.xid == xid && bytes.Equal(x.chaddr, srcMAC) {
			return x, true
		}
	}
	return
}

var bcastMAC = net.HardwareAddr{0xff, 0xff, 0xff, 0xff, 0xff, 0xff}
var zero4 = netip.AddrFrom4([4]byte{})
var bcast4 = netip.AddrFrom4([4]byte{255, 255, 255, 255})

// acquire: DISCOVER (optionally with a requested address) -> OFFER -> REQUEST(selecting) -> ACK
func (sv *serverT) acquire(c clientT, want netip.Addr) (got netip.Addr, acked bool) {
	sv.xid++
	xid := sv.xid
	o := c.opts()
	if want.IsValid() {
		a := want.As4()
		o = append(o, optT{50, a[:]})
	}
	offer, ok := sv.exchange(c.mac, zero4, bcast4, bcastMAC, mkDHCP(1, xid, netip.Addr{}, c.mac, o), xid)
	if !ok || offer.mtype != 2 {
		return netip.Addr{}, false
	}
	y := offer.yiaddr.As4()
	h := sv.c.nic.host.As4()
	o = append(c.opts(), optT{50, y[:]}, optT{54, h[:]})
	ack, ok := sv.exchange(c.mac, zero4, bcast4, bcastMAC, mkDHCP(3, xid, netip.Addr{}, c.mac, o), xid)
	if !ok || ack.mtype != 5 {
		return offer.yiaddr, false
	}
	return ack.yiaddr, true
}

// discoverOnly: returns the offered address
func (sv *serverT) discoverOnly(c clientT, want netip.Addr) (netip.Addr, bool) {
	sv.xid++
	o := c.opts()
	if want.IsValid() {
		a := want.As4()
		o = append(o, optT{50, a[:]})
	}
	offer, ok := sv.exchange(c.mac, zero4, bcast4, bcastMAC, mkDHCP(1, sv.xid, netip.Addr{}, c.mac, o), sv.xid)
	if !ok || offer.mtype != 2 {
		return netip.Addr{}, false
	}
	return offer.yiaddr, true
}

// renew: unicast REQUEST with ciaddr, no requested-ip, no server-id; reports the reply type (5 ACK, 6 NAK, 0 none)
func (sv *serverT) renew(c clientT, addr netip.Addr) (byte, netip.Addr) {
	sv.xid++
	rp, ok := sv.exchange(c.mac, addr, sv.c.nic.host, lib.HostMAC, mkDHCP(3, sv.xid, addr, c.mac, c.opts()), sv.xid)
	if !ok {
		return 0, netip.Addr{}
	}
	return rp.mtype, rp.yiaddr
}

func newServer(c cfgT, captured []net.HardwareAddr, fname string) *serverT {
	s, conn := lib.NewSessionWith(&packet.NICInfo{
		HomeLAN4:    c.nic.home,
		HostAddr4:   packet.Addr{MAC: lib.HostMAC, IP: c.nic.host},
		RouterAddr4: packet.Addr{MAC: lib.RouterMAC, IP: c.nic.router},
		HostLLA:     netip.PrefixFrom(lib.HostLLA, 64),
		RouterLLA:   netip.PrefixFrom(lib.RouterLLA, 64),
	})
	for _, m := range captured {
		s.Capture(m)
	}
	return &serverT{s: s, conn: conn, c: c, fname: fname, xid: 0x1000}
}

func (sv *serverT) close() { go sv.s.Close() }

// effective client id the server keys the lease by
func (c clientT) key() []byte {
	if c.cid0 { // zero-length option 61 is treated as absent since /repo ec7166b (before: the empty key, lost at restart)
		return c.mac
	}
	if c.cid != nil {
		return c.cid
	}
	return c.mac
}

var inPlaceReported, sumReported bool
var exhaustiveDone int

type savedFile struct {
	text     []byte
	c        cfgT
	capTok   string
	bindings []bindingT // of the handler constructed from the intact text
}

func tableTokens(ls []dhcp.VerifLease) []string {
	sort.Slice(ls, func(i, j int) bool { return bytes.Compare(ls[i].ClientID, ls[j].ClientID) < 0 })
	var out []string
	for i := range ls {
		out = append(out, recTok(&ls[i].Lease))
	}
	if len(out) == 0 {
		return []string{"-"}
	}
	return out
}

func sameBindings(a, b []bindingT) bool {
	if len(a) != len(b) {
		return false
	}
	m := map[bindingT]int{}
	for _, x := range a {
		m[x]++
	}
	for _, x := range b {
		m[x]--
	}
	for _, v := range m {
		if v != 0 {
			return false
		}
	}
	return true
}

func showBindings(bs []bindingT) string {
	var s []string
	for _, b := range bs {
		s = append(s, b.cid+","+b.mac+","+b.ip)
	}
	sort.Strings(s)
	return "[" + strings.Join(s, " ") + "]"
}

// histories drives nh random histories; returns lease files (with >= 2 leases) for the corruption stream.
func histories(r *lib.Run, rng *lib.Rand) (files []savedFile) {
	nh := 40
	if r.Thorough() {
		nh = 400
	}
	// "short" histories (one client, one lease, nobody captured) after the random ones: their renew/offer case
	// lines stay under 400 characters, the size limit of the in-kernel (vm_compute) replay sample of bin/vcheck
	nshort := 40
	if r.Thorough() {
		nshort = 150
	}
	for hi := 0; hi < nh+nshort; hi++ {
		short := hi >= nh
		c := stdCfg
		if rng.Chance(25) && !short {
			c = cfgT{nic: stdNIC, netfilter: netip.MustParsePrefix("192.168.0.65/26"), dns: netip.Addr{}}
		}
		// designated histories reproduce the recorded defect classes on every run; the others avoid them
		special := ""
		if short {
			special = "short"
		}
		sel := hi % 16
		if short {
			sel = -1
		}
		switch sel {
		// ops after which the set of Allocated leases shrinks: is the file re-saved? (checked after EVERY step)
		case 6:
			special = "decline"
		case 7:
			special = "release"
		case 8:
			special = "select-other"
		case 9:
			special = "tick"
		case 10:
			special = "resubnet"
		case 11:
			special = "rediscover"
		case 13:
			// expiry is persisted state: ACK, expiry moved back to +10 min (hook) and saved by another client's ACK,
			// renewal (+4 h, must be saved), restart, MinuteTicker(+1 h), renewal, DISCOVER by another client
			special = "renew-expiry"
		case 12:
			// netfilter prefix WIDER than the home prefix: net2 is not inside net1 (Config.New checks the address only)
			special = "nf-wider"
			c = cfgT{nic: stdNIC, netfilter: netip.MustParsePrefix("192.168.0.129/16"), dns: ip("8.8.8.8")}
		}
		switch sel {
		case 3:
			special = "offsubnet" // DESIGN 11 #22: off-subnet requested address is offered and ACKed
		case 4:
			special = "cid0" // option 61 of length 0
		case 5:
			special = "captured-outside-net2" // captured client ACKed an address of net1 outside net2 (#22)
		}
		var captured []net.HardwareAddr
		isCaptured := map[string]bool{}
		for i, m := range macUniv {
			if (rng.Chance(30) && !short) || ((special == "captured-outside-net2" || special == "nf-wider") && i == 0) {
				captured = append(captured, m)
				isCaptured[lib.Hex(m)] = true
			}
		}
		capTok := macsTok(captured)
		fname := tmpName()
		sv := newServer(c, captured, fname)
		b0 := construct(sv.s, c, fname)
		if b0.h == nil && special == "nf-wider" {
			// since /repo 7a8efa9 the constructor refuses a netfilter prefix wider than the home LAN; the model agrees
			r.Do("new", c.tok(), capTok, "err")
			r.Stat("hist.nf-wider-refused", 1)
			sv.close()
			continue
		}
		if b0.h == nil {
			r.Viol("hist-construct-failed", "cannot construct a handler on a fresh file: "+b0.obs, "")
			continue
		}
		sv.h = b0.h
		// clients: distinct MACs, client id variants
		var clients []clientT
		for i, m := range macUniv {
			cl := clientT{mac: m, name: fmt.Sprintf("h%d", i)}
			switch rng.Intn(6) {
			case 0, 1:
				cl.cid = append([]byte{1}, m...)
			case 2:
				cl.cid = []byte{byte(0xa0 + i)}
			}
			if special == "cid0" && i == 0 {
				cl.cid, cl.cid0 = nil, true
			}
			if short {
				cl.cid = []byte{byte(0xa0 + rng.Intn(16))}
			}
			clients = append(clients, cl)
			if short {
				break
			}
		}
		acked := map[string]bindingT{} // by client key (hex): what the harness saw ACKed
		depth := 3 + rng.Intn(10)
		if short {
			depth = 1
		}
		if special == "renew-expiry" {
			depth = 3
		}
		classes := map[string]bool{}
		stale := map[bindingT]bool{}
		var rebindingKept []bindingT // bindings the file rightly keeps for clients that are re-negotiating (state discover)
		for step := 0; step < depth; step++ {
			cl := clients[rng.Intn(len(clients))]
			k := rng.Intn(10)
			if step == 0 && special != "" {
				cl, k = clients[0], 0
			}
			opName := "acquire"
			if special == "renew-expiry" && step == 1 {
				sv.h.VerifSetLeaseExpiry(clients[0].key(), time.Now().Add(10*time.Minute)) // not a library path: saved by the next ACK
				cl, k = clients[1], 0
			}
			if special == "renew-expiry" && step == 2 {
				cl, k = clients[0], 7
			}
			if step == 1 && special != "renew-expiry" {
				if b, bound := acked[lib.Hex(clients[0].key())]; bound {
					cl = clients[0]
					a := tokAddr(b.ip)
					switch special {
					case "decline": // DHCPDECLINE of the acknowledged address
						sv.xid++
						a4, h4 := a.As4(), c.nic.host.As4()
						sv.exchange(cl.mac, zero4, bcast4, bcastMAC, mkDHCP(4, sv.xid, netip.Addr{}, cl.mac, append(cl.opts(), optT{50, a4[:]}, optT{54, h4[:]})), sv.xid)
						k, opName = 99, "decline"
					case "release": // DHCPRELEASE: the server keeps the lease (handleRelease only logs)
						sv.xid++
						h4 := c.nic.host.As4()
						sv.exchange(cl.mac, a, c.nic.host, lib.HostMAC, mkDHCP(7, sv.xid, a, cl.mac, append(cl.opts(), optT{54, h4[:]})), sv.xid)
						k, opName = 99, "release"
					case "select-other": // REQUEST selecting another server: the lease is freed
						sv.xid++
						a4, o4 := a.As4(), c.nic.router.As4()
						sv.exchange(cl.mac, zero4, bcast4, bcastMAC, mkDHCP(3, sv.xid, netip.Addr{}, cl.mac, append(cl.opts(), optT{50, a4[:]}, optT{54, o4[:]})), sv.xid)
						k, opName = 99, "select-other"
					case "tick": // MinuteTicker after every lease has expired
						sv.h.MinuteTicker(time.Now().Add(6 * time.Hour))
						k, opName = 99, "tick"
					case "resubnet": // the client becomes captured: its next message re-creates the lease on net2
						if !isCaptured[lib.Hex(cl.mac)] {
							sv.s.Capture(cl.mac)
							isCaptured[lib.Hex(cl.mac)] = true
							captured = append(captured, cl.mac)
							capTok = macsTok(captured)
						}
						sv.renew(cl, a)
						k, opName = 99, "resubnet"
					case "rediscover": // DISCOVER of a bound client: lease in state discover, the binding stays on disk
						sv.discoverOnly(cl, netip.Addr{})
						k, opName = 99, "rediscover"
					}
				}
			}
			switch {
			case k == 99:
				classes[opName] = true
				// what the op did to the bindings is read from the table (the op may have been refused)
				still := map[string]bool{}
				for _, l := range sv.h.VerifLeases() {
					if l.State == dhcp.StateAllocated {
						still[lib.Hex(l.ClientID)] = true
					}
				}
				for key := range acked {
					if !still[key] {
						delete(acked, key)
					}
				}
			case k < 6: // acquire, sometimes with a requested address (inside the subnet the client belongs to)
				want := netip.Addr{}
				if rng.Chance(15) {
					if isCaptured[lib.Hex(cl.mac)] {
						b := c.netfilter.Masked().Addr().As4()
						b[3] += byte(5 + rng.Intn(20))
						want = netip.AddrFrom4(b)
					} else {
						want = ip(ipUniv[rng.Intn(4)])
					}
				}
				if step == 0 && special == "offsubnet" {
					want = ip([]string{"192.168.1.5", "10.0.0.1"}[rng.Intn(2)])
				}
				if step == 0 && special == "captured-outside-net2" {
					want = ip("192.168.0.12")
				}
				if step == 0 && special == "nf-wider" {
					want = ip("192.168.5.5") // inside net2 (/16), outside the home LAN (/24)
				}
				// atomicity probe: a hard link to the lease file taken before the ACK keeps the old, complete
				// content iff saveConfig replaces the file (temp + rename); an in-place rewrite (truncate +
				// write) shows through the link, i.e. every byte prefix is a crash state of the real file
				lnk := fname + ".lnk"
				os.Remove(lnk)
				before, _ := os.ReadFile(fname)
				linked := os.Link(fname, lnk) == nil
				got, ok := sv.acquire(cl, want)
				if ok && linked {
					through, _ := os.ReadFile(lnk)
					now, _ := os.ReadFile(fname)
					switch {
					case bytes.Equal(now, before):
						r.Stat("hist.save.unchanged", 1)
					case bytes.Equal(through, before):
						r.Stat("hist.save.replaced-atomically", 1)
					default:
						r.Stat("hist.save.rewritten-in-place", 1)
						if !inPlaceReported {
							inPlaceReported = true
							r.Viol("save-rewrites-in-place", "saveConfig truncated and rewrote the lease file in place (seen through a hard link taken before the ACK): a crash during the write leaves a byte prefix of the file", "")
						}
					}
				}
				os.Remove(lnk)
				if ok {
					acked[lib.Hex(cl.key())] = bindingT{lib.Hex(cl.key()), lib.Hex(cl.mac), addrTok(got)}
					classes["acquire"] = true
					saveCase(r, sv, fname)
				}
			case k < 8: // renew an acknowledged binding
				opName = "renew"
				if b, ok := acked[lib.Hex(cl.key())]; ok {
					mt, _ := sv.renew(cl, tokAddr(b.ip))
					if mt == 5 { // the renewed expiry must be in the file: table (incl. expiry) against file
						saveCase(r, sv, fname)
					}
					classes["renew"] = true
					r.Stat(fmt.Sprintf("hist.renew-before-restart.reply%d", mt), 1)
				}
			default: // DISCOVER without REQUEST by a client without a binding: a lease in state discover, not saved
				// (a DISCOVER of a bound client moves its lease to state discover without saving: the binding is
				// then in flux and the property says nothing about it)
				opName = "discover"
				if _, bound := acked[lib.Hex(cl.key())]; !bound {
					sv.discoverOnly(cl, netip.Addr{})
					classes["discover-only"] = true
				}
			}
			// after EVERY step: the Allocated records on disk against the Allocated leases in memory
			stale, rebindingKept = checkDisk(r, sv, fname, opName, stale)
		}
		// the acknowledged bindings according to the table (hook), cross-checked with the ACK frames seen
		var ackedTable []bindingT
		for _, l := range sv.h.VerifLeases() {
			if l.State == dhcp.StateAllocated {
				ackedTable = append(ackedTable, bindingT{lib.Hex(l.ClientID), lib.Hex(l.Addr.MAC), addrTok(l.Addr.IP)})
			}
		}
		var ackedSeen []bindingT
		for _, b := range acked {
			ackedSeen = append(ackedSeen, b)
		}
		if !sameBindings(ackedTable, ackedSeen) {
			r.Viol("hist-acked-vs-table", "ACK frames seen "+showBindings(ackedSeen)+" but allocated leases are "+showBindings(ackedTable), "")
		}
		expBefore := map[string]string{} // client id -> expiry of its acknowledged lease, as the table has it before the restart
		for _, l := range sv.h.VerifLeases() {
			if l.State == dhcp.StateAllocated {
				expBefore[lib.Hex(l.ClientID)] = timeZ(l.DHCPExpiry)
			}
		}
		// restart: a NEW session (empty host table, as after a process restart); the capture state may have changed
		text, _ := os.ReadFile(fname)
		capTok2, cap2 := capTok, captured
		sameCapture := true
		if rng.Chance(25) && !short {
			cap2 = nil
			for _, m := range macUniv {
				if rng.Chance(50) {
					cap2 = append(cap2, m)
				}
			}
			capTok2 = macsTok(cap2)
			sameCapture = capTok2 == capTok
		}
		toks := docTokens(text)
		f2 := tmpName()
		os.WriteFile(f2, text, 0644)
		sv2 := newServer(c, cap2, f2)
		sv2.xid = 0x8000
		b1 := construct(sv2.s, c, f2)
		r.Case("newt", append([]string{c.tok(), capTok2, lib.Hex(text)}, toks...), b1.obs)
		r.Stat("hist.histories", 1)
		r.Stat("hist.designated."+special, 1)
		r.Stat(fmt.Sprintf("hist.acked-leases.%d", len(ackedSeen)), 1)
		for k := range classes {
			r.Stat("hist.class."+k, 1)
		}
		if len(stale) > 0 {
			// the file was stale at the end (reported per step): the restart restores what the file says
			r.Stat("hist.restart-from-stale-file", 1)
		} else if !sameBindings(b1.bindings, append(append([]bindingT{}, ackedSeen...), rebindingKept...)) {
			key := "restart-bindings-differ"
			for _, b := range ackedSeen {
				in := false
				for _, x := range b1.bindings {
					if x == b {
						in = true
					}
				}
				if !in {
					a := tokAddr(b.ip)
					switch {
					case b.cid == "-":
						key = "restart-drops-empty-clientid"
					case !c.nic.home.Contains(a) && c.netfilter.Bits() < c.nic.home.Bits() && c.netfilter.Masked().Contains(a):
						key = "restart-drops-net2-lease-outside-home"
					case !c.nic.home.Contains(a):
						key = "restart-drops-offsubnet-lease"
					}
				}
			}
			r.Viol(key, "acknowledged "+showBindings(ackedSeen)+" restored "+showBindings(b1.bindings), "newt "+c.tok()+" "+capTok2+" "+lib.Hex(text)+" "+strings.Join(toks, " "))
		}
		// the restored expiry is the last acknowledged one
		if f := strings.Fields(b1.obs); len(f) == 4 && f[0] == "ok" && f[3] != "-" && len(stale) == 0 {
			for _, l := range strings.Split(f[3], ";") {
				q := strings.Split(l, ",")
				if e, ok := expBefore[q[0]]; ok && e != q[4] {
					r.Viol("restart-expiry-differs", fmt.Sprintf("client %s: the table had expiry %s before the restart, the restored lease has %s", q[0], e, q[4]), "")
				}
			}
		}
		if b1.h != nil && special == "renew-expiry" {
			// one hour later: between the expiry saved before the renewal (+10 min) and the renewed one (+4 h)
			b1.h.MinuteTicker(time.Now().Add(time.Hour))
			r.Stat("hist.tick-after-restart", 1)
		}
		if b1.h != nil {
			// keeps serving: every restored binding is renewed with an ACK for the same address, and a new
			// client is not offered a restored address.  Each exchange is also a model case (renew / offer):
			// the arguments are the state the handler sees between Parse and ProcessPacket.
			sv2.h = b1.h
			var nets []string // the validated subnets the handler carries, as it re-saved them
			if rt, _ := os.ReadFile(f2); true {
				if dt := docTokens(rt); isDoc(dt[0]) {
					nets = dt[1:3]
				}
			}
			var pending []string
			sv2.pre = func() {
				var hosts []string
				for a, h := range sv2.s.HostTable.Table {
					hosts = append(hosts, addrTok(a)+"="+lib.Hex(h.MACEntry.MAC))
				}
				sort.Strings(hosts)
				ht := "-"
				if len(hosts) > 0 {
					ht = strings.Join(hosts, "+")
				}
				ls := sv2.h.VerifLeases()
				sort.Slice(ls, func(i, j int) bool { return bytes.Compare(ls[i].ClientID, ls[j].ClientID) < 0 })
				var lt []string
				dupIP := map[string]bool{}
				for i := range ls {
					sub := "0"
					switch ls[i].SubnetID {
					case "net1":
						sub = "1"
					case "net2":
						sub = "2"
					}
					lt = append(lt, recTok(&ls[i].Lease)+","+sub)
					if a := addrTok(ls[i].Addr.IP); a != "x" && dupIP[a] {
						nets = nil // two leases with one address: findByIP depends on the map order; no model case
					} else {
						dupIP[a] = true
					}
				}
				pending = append([]string{ht, timeZ(time.Now())}, lt...)
			}
			emit := func(kind string, cl clientT, a netip.Addr, obs string) {
				if nets == nil || pending == nil {
					r.Stat("hist."+kind+".no-model-case", 1)
					return
				}
				args := append([]string{capTok2, nets[0], nets[1], pending[0], pending[1], lib.Hex(cl.key()), lib.Hex(cl.mac), addrTok(a)}, pending[2:]...)
				r.Case(kind, args, obs)
				pending = nil
			}
			fresh := clientT{mac: net.HardwareAddr{0x02, 0, 0, 0, 0, 0x77}, name: "new"}
			for try := 0; try < 3; try++ {
				want := netip.Addr{}
				if try > 0 && len(b1.bindings) > 0 {
					want = tokAddr(b1.bindings[rng.Intn(len(b1.bindings))].ip) // ask for somebody else's address
				}
				// a handler just constructed (nextIP zero) for every model case; the session has not yet seen the
				// restored clients, so only the lease table keeps their addresses from being offered
				sv2.h = construct(sv2.s, c, f2).h
				if sv2.h == nil {
					break
				}
				off, ok := sv2.discoverOnly(fresh, want)
				obs := "none"
				if ok {
					obs = "offer " + addrTok(off)
				}
				emit("offer", fresh, want, obs)
				if ok {
					r.Stat("hist.offer-after-restart", 1)
					for _, b := range b1.bindings {
						if addrTok(off) == b.ip {
							r.Viol("restart-offers-bound-address", fmt.Sprintf("restored binding %v but %v offered to another client", b, off), "")
						}
					}
				}
			}
			sv2.h = b1.h
			for _, cl := range clients {
				b, ok := acked[lib.Hex(cl.key())]
				if !ok || len(stale) > 0 {
					continue
				}
				restoredHere := false
				for _, x := range b1.bindings {
					if x == b {
						restoredHere = true
					}
				}
				mt, y := sv2.renew(cl, tokAddr(b.ip))
				obs := map[byte]string{0: "none", 5: "ack " + addrTok(y), 6: "nak"}[mt]
				emit("renew", cl, tokAddr(b.ip), obs)
				r.Stat(fmt.Sprintf("hist.renew-after-restart.reply%d", mt), 1)
				// the oracle: a restored binding whose client is still on the subnet it was on is renewed
				if restoredHere && sameCapture && (mt != 5 || addrTok(y) != b.ip) {
					key := "restart-renew-not-acked"
					if isCaptured[b.mac] && !c.netfilter.Masked().Contains(tokAddr(b.ip)) {
						key = "restart-renew-nak-captured-outside-net2"
					}
					r.Viol(key, fmt.Sprintf("renewal of restored binding %v answered type=%d yiaddr=%v; captured=%s restored=%s", b, mt, y, capTok2, b1.obs), "")
				}
			}
		}
		sv2.close()
		// continuation histories after the restart, each on a fresh session, against the DHCP cluster's model
		if len(b1.bindings) >= 2 && len(stale) == 0 {
			exh := r.Thorough() && exhaustiveDone < 2
			if exh {
				exhaustiveDone++
			}
			continuations(r, rng.Fork(), c, cap2, text, clients, exh)
		}
		if len(ackedSeen) >= 2 && len(files) < 12 && sameBindings(b1.bindings, ackedSeen) && sameCapture {
			files = append(files, savedFile{text: text, c: c, capTok: capTok, bindings: b1.bindings})
		}
		os.Remove(fname)
		os.Remove(f2)
		sv.close()
	}
	return files
}

var staleReported sync.Map

// checkDisk compares, after a step, the Allocated records of the lease file with the Allocated leases in memory.
//
//	missing (in memory, not on disk): an acknowledged binding a restart would lose      -> file-misses-acked-binding
//	stale   (on disk, not in memory): a binding a restart would resurrect               -> stale-file-after-<op>,
//	  reported for the op after which the stale set grew; a stale record whose lease is in state discover with the
//	  same address (a bound client re-negotiating) is counted, not reported: the disk is right to keep it.
func checkDisk(r *lib.Run, sv *serverT, fname, op string, prev map[bindingT]bool) (map[bindingT]bool, []bindingT) {
	txt, _ := os.ReadFile(fname)
	toks := docTokens(txt)
	if !isDoc(toks[0]) {
		r.Viol("file-unreadable-after-step", "after "+op+": the lease file reads as "+toks[0], "")
		return prev, nil
	}
	disk := map[bindingT]bool{}
	diskExp := map[bindingT]string{}
	for _, t := range toks[3:] {
		f := strings.Split(t, ",")
		if f[1] == "2" {
			disk[bindingT{f[0], f[2], f[3]}] = true
			diskExp[bindingT{f[0], f[2], f[3]}] = f[4]
		}
	}
	mem := map[bindingT]bool{}
	rebinding := map[bindingT]bool{}
	for _, l := range sv.h.VerifLeases() {
		b := bindingT{lib.Hex(l.ClientID), lib.Hex(l.Addr.MAC), addrTok(l.Addr.IP)}
		switch l.State {
		case dhcp.StateAllocated:
			mem[b] = true
			// the expiry is persisted state too: a renewal that is not saved would be forgotten by a restart
			if e := timeZ(l.DHCPExpiry); disk[b] && diskExp[b] != e {
				r.Stat("hist.disk.expiry-differs-after-"+op, 1)
				if _, dup := staleReported.LoadOrStore("exp-"+op, true); !dup {
					r.Viol("file-expiry-stale-after-"+op, fmt.Sprintf("after %s: %v expires at %s in the table but at %s in the lease file: a restart forgets the renewal", op, b, e, diskExp[b]), "")
				}
			}
		case dhcp.StateDiscover:
			rebinding[b] = true
		}
	}
	r.Stat("hist.disk-checks", 1)
	for b := range mem {
		if !disk[b] {
			r.Viol("file-misses-acked-binding", fmt.Sprintf("after %s: %v is Allocated in memory but not in the lease file", op, b), "")
		}
	}
	stale := map[bindingT]bool{}
	var kept []bindingT
	for b := range disk {
		switch {
		case mem[b]:
		case rebinding[b]:
			kept = append(kept, b)
			r.Stat("hist.disk.rebinding-client-kept", 1)
		default:
			stale[b] = true
			if !prev[b] {
				r.Stat("hist.disk.stale-after-"+op, 1)
				key := "stale-file-after-" + op
				if _, dup := staleReported.LoadOrStore(key, true); !dup {
					r.Viol(key, fmt.Sprintf("after %s: the lease file still holds %v as Allocated, the table does not: a restart resurrects it", op, b), "")
				}
			}
		}
	}
	return stale, kept
}

// saveCase: saveConfig ran inside an ACK: the file (records incl. their expiry) against the table as it is now
func saveCase(r *lib.Run, sv *serverT, fname string) {
	txt, _ := os.ReadFile(fname)
	toks := docTokens(txt)
	if toks[0] != "docok" && !sumReported {
		sumReported = true
		r.Viol("save-without-valid-checksum", "saveConfig wrote a lease file whose integrity verdict is "+toks[0], "")
	}
	// hypothesis hex_no_nl (and the shape of the integrity line): "checksum: " + 64 lower-case hex digits + newline
	if i := bytes.IndexByte(txt, 10); i != 74 || !bytes.HasPrefix(txt, []byte("checksum: ")) || strings.Trim(string(txt[10:74]), "0123456789abcdef") != "" {
		if !sumReported {
			sumReported = true
			r.Viol("save-integrity-line-shape", fmt.Sprintf("first line of the saved file is %q", txt[:min(len(txt), 80)]), "")
		}
	}
	obs := "unreadable"
	if isDoc(toks[0]) {
		obs = "-"
		if len(toks) > 3 {
			recs := append([]string{}, toks[3:]...)
			sort.Slice(recs, func(i, j int) bool {
				return bytes.Compare(lib.UnHex(strings.SplitN(recs[i], ",", 2)[0]), lib.UnHex(strings.SplitN(recs[j], ",", 2)[0])) < 0
			})
			obs = strings.Join(recs, ";")
		}
	}
	r.Case("save", tableTokens(sv.h.VerifLeases()), obs)
}

func min(a, b int) int {
	if a < b {
		return a
	}
	return b
}
