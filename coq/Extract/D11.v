(* Extract/D11.v — C11: a whole DHCP history is one case line; the answer is the
   model's transcript, the spec verdict on that transcript and the class key of
   a recorded finding. *)
From PV Require Import Base.Text Model.DHCP Model.DHCPShow Spec.DHCP Spec.DHCPCheck.
Open Scope string_scope.
Open Scope N_scope.

Definition TAB : string := String (ascii_of_N 9) EmptyString.
Definition out3 (m s k : string) : string := m ++ TAB ++ s ++ TAB ++ k.

Definition dispatch (kind : string) (args : list string) : string :=
  (* hist: all frames through one receive buffer; histf: a fresh buffer per frame.  The model does not
     distinguish them (retained fields are values): any difference is a correspondence failure. *)
  if String.eqb kind "hist" || String.eqb kind "histf" then
    match parse_cfg args with
    | Some (c, rest) =>
        match parse_ops rest with
        | Some ops =>
            let h := with_ch0 ops in
            let '(s, rs) := run c (init c) h in
            let obs := show_run s rs in
            let tr := trace c (init c) h in
            let fs := map (c11_fails c) tr in
            if all_nil fs then out3 obs obs "-"
            else out3 obs ("viol " ++ show_fails fs) (hist_key (c11_class c) (combine tr fs) None)
        | None => BADARGS
        end
    | None => BADARGS
    end
  else if String.eqb kind "stale" then
    (* the same, on a handler that found a lease file written under other prefix lengths;
       ops carry IP source 0 (Session.Parse then leaves the session alone whatever the NIC prefix) *)
    match parse_cfg args with
    | Some (c, hb :: nb :: rest) =>
        match N_of_dec hb, N_of_dec nb, parse_ops rest with
        | Some hb, Some nb, Some ops =>
            if forallb (fun o => match op_msg o with Some m => m_src m =? 0 | None => true end) ops then
              let cm := loaded_cfg c hb nb in
              let h := with_ch0 ops in
              let '(s, rs) := run cm (init cm) h in
              let obs := show_run s rs in
              let tr := trace cm (init cm) h in
              let fs := map (c11_fails c) tr in
              if all_nil fs then out3 obs obs "-"
              else out3 obs ("viol " ++ show_fails fs) (hist_key (c11_class c) (combine tr fs) None)
            else BADARGS
        | _, _, _ => BADARGS
        end
    | _ => BADARGS
    end
  else BADARGS.

Definition dispatch_line (l : string) : string :=
  match words l with
  | k :: args => dispatch k args
  | [] => BADARGS
  end.
