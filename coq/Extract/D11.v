(* Extract/D11.v — C11: a whole DHCP history is one case line; the answer is the
   model's transcript, the spec verdict on that transcript and the class key of
   a recorded finding. *)
From PV Require Import Base.Text Model.DHCP Model.DHCPShow Spec.DHCP Spec.DHCPCheck.
Open Scope string_scope.
Open Scope N_scope.

Definition TAB : string := String (ascii_of_N 9) EmptyString.
Definition out3 (m s k : string) : string := m ++ TAB ++ s ++ TAB ++ k.

Fixpoint before_bar (l : list string) : list string :=
  match l with [] => [] | x :: r => if String.eqb x "|" then [] else x :: before_bar r end.
Fixpoint after_bar (l : list string) : list string :=
  match l with [] => [] | x :: r => if String.eqb x "|" then r else after_bar r end.

(* leading "P,mac" tokens of run 2: MACs captured in the session before the handler is constructed *)
Definition pre_mac (x : string) : option mac :=
  match split ","%char x with
  | [k; m] => if String.eqb k "P" then N_of_hex m else None
  | _ => None
  end.
Fixpoint take_pre (l : list string) : list mac :=
  match l with x :: r => match pre_mac x with Some m => m :: take_pre r | None => [] end | [] => [] end.
Fixpoint drop_pre (l : list string) : list string :=
  match l with x :: r => match pre_mac x with Some _ => drop_pre r | None => l end | [] => [] end.

Definition dispatch (kind : string) (args : list string) : string :=
  (* hist: all frames through one receive buffer; histf: a fresh buffer per frame.  The model does not
     distinguish them (retained fields are values): any difference is a correspondence failure. *)
  if (String.eqb kind "hist" || String.eqb kind "histf") && cfg_rejected args then
    out3 "rejected" "-" "-"      (* (Config).New returns an error for this configuration *)
  else if String.eqb kind "restart" && (cfg_rejected args || cfg_rejected (skip_cfg args)) then
    out3 "rejected" "-" "-"
  else if String.eqb kind "hist" || String.eqb kind "histf" then
    match parse_cfg args with
    | Some (c, rest) =>
        match parse_ops rest with
        | Some ops =>
            let h := with_ch0 ops in
            let '(s, rs) := run c (init c) h in
            let tr := trace c (init c) h in
            let obs := show_trace c tr s in
            let fs := zip_fails (map (c11_fails c) tr) (ghost_fails 0 [] tr) in
            if all_nil fs then out3 obs obs "-"
            else out3 obs ("viol " ++ show_fails fs) (hist_key (c11_class c) (combine tr fs) None)
        | None => BADARGS
        end
    | None => BADARGS
    end
  else if String.eqb kind "restart" then
    (* restart CFG_A CFG_B opsA | opsB : a handler of configuration A runs opsA and leaves its lease file;
       a handler of configuration B starts on that file and runs opsB.  Observation: run 2.  The spec
       column judges run 2 against configuration B. *)
    match parse_cfg args with
    | Some (cA, rest) =>
        match parse_cfg rest with
        | Some (cB, rest2) =>
            match parse_ops (before_bar rest2), parse_ops (drop_pre (after_bar rest2)) with
            | Some opsA, Some opsB =>
                let pre := take_pre (after_bar rest2) in
                let '(sA, saved) := run_saving cA (init cA) [] (with_ch0 opsA) in
                let cL := loaded_cfg (c_sub cA) cB in
                let s0 := restart_state (c_sub cA) cB pre saved in
                let h := with_ch0 opsB in
                let '(s, rs) := run cL s0 h in
                let tr := trace cL s0 h in
                let obs := show_trace cL tr s in
                let fs := zip_fails (map (c11_fails cL) tr) (ghost_fails 0 (grants_of (tbl s0)) tr) in
                if all_nil fs then out3 obs obs "-"
                else out3 obs ("viol " ++ show_fails fs) (hist_key (c11_class cL) (combine tr fs) None)
            | _, _ => BADARGS
            end
        | None => BADARGS
        end
    | None => BADARGS
    end
  else if String.eqb kind "src" then
    (* a constant of the Go source by identifier: the value the model hard-codes *)
    match args with
    | [name] => match src_const name with
                | Some v => out3 (dec_of_N v) "-" "-"
                | None => out3 "unknown-to-the-model" "-" "-"
                end
    | _ => BADARGS
    end
  else BADARGS.

Definition dispatch_line (l : string) : string :=
  match words l with
  | k :: args => dispatch k args
  | [] => BADARGS
  end.
