(* Extract/D19.v — text interpreter of the C19 model: one scenario = one case line.

   scn <next0> tok tok ...
     b4.<p>.<m>.<tmo> / b6.. / br..   Begin of call p (Ping / Ping6 / the internal ping with the router's
                               IP as source (ValidateDefaultRouter's second ping), with timeout argument tmo:
                               <ms> decimal, possibly 0 or negative, n<ns>, or huge); m = g (sent), a (address family error,
                               nothing on the wire), w (Conn.WriteTo failed)
     s                         snapshot of the table size
     @<k>                      the following steps are made on session k of the process (created on first use)
     close.<k> / closed.<k>    Session.Close of session k was called / has returned (model: CloseSession k / nothing)
     q4.<p>.<ms> / q6.<p>.<ms>  call p registered its waiter and is inside its send;  z.<p>.<T|F>  that send returned
     x.<n>                     n address-error calls one after the other (compressed: BulkFail n)
     r.<hex>                   frame handed to Session.Parse
     w.<p>  t.<p>  e.<p>       wait for return / Timeout / End
   observation:  res=<r>,..;ids=<i>,..;sz=<n>,..;next=<n>;early=<k>
     early = number of calls that returned ErrTimeout before their EFFECTIVE timeout had elapsed
             (always 0 in the model: Proofs/PingTime.v timeout_effective)
     res/ids in order of the Begin tokens; r = nil|timeout|err|run; id = '-' for mode a
     sz = waiter-table size at every snapshot token, then at the end. *)
From PV Require Import Base.Text Model.Ping Model.PingTrace Model.PingFrame Model.PingScript Model.PingKnown.
From PV Require Import Spec.PingRFC Spec.PingSpec Model.PingAbs Model.PingVDR.
Open Scope string_scope.
Open Scope N_scope.

Definition TAB : string := String (ascii_of_N 9) EmptyString.
Definition out3 (m s k : string) : string := m ++ TAB ++ s ++ TAB ++ k.

(* timeout field of a b/q token: <ms> (decimal, may be 0 or negative), n<ns>, or huge (2^62 ns) *)
Definition tmo_of_tok (w : string) : option Z :=
  if String.eqb w "huge" then Some (2 ^ 62)%Z
  else match w with
       | String "n"%char r => Z_of_dec r
       | _ => option_map (fun ms => (ms * 1000000)%Z) (Z_of_dec w)
       end.

Definition parse_tok (w : string) : option tok :=
  match split "."%char w with
  | [k] =>
      if String.eqb k "s" then Some TSnap
      else match k with
           | String "@"%char r => option_map TUse (nat_of_dec r)
           | _ => None
           end
  | [k; a] =>
      if String.eqb k "r" then option_map TFrame (bytes_of_tok a)
      else if String.eqb k "close" then option_map TClose (nat_of_dec a)
      else if String.eqb k "closed" then option_map TUse (nat_of_dec a)
      else if String.eqb k "x" then
        match N_of_dec a with Some n => if n <=? 65536 then Some (TBulk n) else None | None => None end
      else if String.eqb k "w" then option_map TWait (nat_of_dec a)
      else if String.eqb k "t" then option_map TTimeout (nat_of_dec a)
      else if String.eqb k "e" then option_map TEnd (nat_of_dec a)
      else None
  | [k; a; m] =>
      if String.eqb k "z" then
        match nat_of_dec a, bool_of_tok m with
        | Some p, Some ok => Some (TSent p ok)
        | _, _ => None
        end
      else if String.eqb k "q4" || String.eqb k "q6" || String.eqb k "qr" then
        match nat_of_dec a, tmo_of_tok m with
        | Some p, Some t => Some (TReg p t)
        | _, _ => None
        end
      else None
  | [k; a; m; tm] =>
      if String.eqb k "b4" || String.eqb k "b6" || String.eqb k "br" then
        match nat_of_dec a, tmo_of_tok tm with
        | Some p, Some t =>
            if String.eqb m "g" then Some (TBegin p t true true)
            else if String.eqb m "w" then Some (TBegin p t false true)
            else if String.eqb m "a" then Some (TBegin p t false false)
            else None
        | _, _ => None
        end
      else None
  | _ => None
  end.

Fixpoint parse_toks (ws : list string) : option (list tok) :=
  match ws with
  | [] => Some []
  | w :: r => match parse_tok w, parse_toks r with
              | Some t, Some ts => Some (t :: ts)
              | _, _ => None
              end
  end.

Definition show_result (o : option result) : string :=
  match o with
  | Some RNil => "nil"
  | Some RTimeout => "timeout"
  | Some RSendErr => "err"
  | Some RBusy => "err"
  | None => "run"
  end.

Definition show_obs (s : state) (sizes : list nat) (bs : list (pid * bool)) : string :=
  "res=" ++ join "," (map (fun b => show_result (result_of s (fst b))) bs)
  ++ ";ids=" ++ join "," (map (fun b : pid * bool =>
                                 if snd b then match id_of s (fst b) with
                                               | Some i => dec_of_N i
                                               | None => "?"
                                               end
                                 else "-") bs)
  ++ ";sz=" ++ join "," (map dec_of_nat sizes)
  ++ ";next=" ++ dec_of_N (next s) ++ ";early=0".

Definition obs_of (fix24 : bool) (n0 : N) (ts : list tok) : string :=
  match run_script fix24 parse_notify (init n0) ts with
  | Ok (s, sizes) => show_obs s (sizes ++ [size s])%list (begun ts)
  | Err _ => "illformed"
  | Panic => "panic"
  | Fuel => "fuel"
  end.

(* ---- spec column: the reference machine of Spec/PingSpec.v driven by the RFC classifier of
   Spec/PingRFC.v; identifiers and next-id are taken from the model (the spec does not say how
   identifiers are chosen) ---- *)
(* reference events of a token: frames are read by the RFC recogniser (independent of Parse's
   model); everything else is the abstraction of the model events (Model/PingAbs.v abs_trace, the
   map the refinement theorem C19_refines is about) *)
Definition sevents_of (s : state) (t : tok) (evs : list event) : list sevent :=
  match t with
  | TFrame f => [match rfc_reply_id f with Some i => SReply i | None => SOther end]
  | _ => abs_trace FIX24 s evs
  end.

Fixpoint spec_script (s : state) (st : sstate) (ts : list tok) : res (state * sstate * list nat) :=
  match ts with
  | [] => Ok (s, st, [])
  | t :: r =>
      (evs <- events_of parse_notify s t ;;
       s' <- run FIX24 s evs ;;
       match srun st (sevents_of s t evs) with
       | None => Err EOther
       | Some st' =>
           '(sf, stf, sizes) <- spec_script s' st' r ;;
           Ok (sf, stf, match t with TSnap => entries st' :: sizes | _ => sizes end)
       end)%res
  end.

Definition show_outcome (o : option call) : string :=
  match o with
  | Some c => match c_out c with
              | Some ONil => "nil" | Some OTimeout => "timeout" | Some OErr => "err" | None => "run"
              end
  | None => "run"
  end.

Definition spec_obs (n0 : N) (ts : list tok) : string :=
  match spec_script (init n0) [] ts with
  | Ok (s, st, sizes) =>
      let bs := begun ts in
      "res=" ++ join "," (map (fun b : pid * bool => show_outcome (sget st (fst b))) bs)
      ++ ";ids=" ++ join "," (map (fun b : pid * bool =>
                                     if snd b then match id_of s (fst b) with
                                                   | Some i => dec_of_N i
                                                   | None => "?"
                                                   end
                                     else "-") bs)
      ++ ";sz=" ++ join "," (map dec_of_nat (sizes ++ [entries st])%list)
      ++ ";next=" ++ dec_of_N (next s) ++ ";early=0"
  | Err _ => "illformed"
  | Panic => "panic"
  | Fuel => "fuel"
  end.

(* ---- recorded defect classes (narrow keys, see known_findings.txt) ---- *)
Definition has_failed_begin (ts : list tok) : bool :=
  existsb (fun t => match t with TBegin _ _ false _ => true | TSent _ false => true | _ => false end) ts.

Definition res_opt_eqb (a : res (option N)) (b : option N) : bool :=
  match a, b with
  | Ok (Some x), Some y => x =? y
  | Ok None, None => true
  | _, _ => false
  end.

(* key of the first frame on which Parse and the RFC reading disagree *)
Fixpoint frame_key (ts : list tok) : string :=
  match ts with
  | [] => "-"
  | TFrame f :: r =>
      if res_opt_eqb (parse_notify f) (rfc_reply_id f) then frame_key r
      else "unclassified_frame_divergence"
  | _ :: r => frame_key r
  end.

Definition key_of (n0 : N) (ts : list tok) : string :=
  let fk := frame_key ts in
  if negb (String.eqb fk "-") then fk
  else if negb FIX24 && has_failed_begin ts then "ping_send_fail_leaks_waiter" else "-".

(* ---- kind "consts": the constants of the ping code as the MODEL computes them from its own
   functions (which ICMP types notify / are requests, first identifier, identifier width, refusal
   bound, timeout normalisation, minimal echo length); the harness extracts the same from the Go
   source with go/ast on every run ---- *)
Definition hdr4 (tl : N) : bytes :=
  [0; 85; 85; 85; 85; 85; 2; 25; 0; 0; 0; 0; 8; 0; 69; 0; 0; tl; 0; 0; 0; 0; 64; 1; 248; 251;
   192; 168; 0; 20; 192; 168; 0; 129].
Definition hdr6 : bytes :=
  [0; 85; 85; 85; 85; 85; 2; 25; 0; 0; 0; 0; 134; 221; 96; 0; 0; 0; 0; 8; 58; 64;
   254; 128; 0; 0; 0; 0; 0; 0; 0; 0; 0; 0; 0; 25; 0; 20; 254; 128; 0; 0; 0; 0; 0; 0; 0; 0; 0; 0; 0; 1; 1; 41].
Definition tmpl4 (t : N) : bytes := (hdr4 28 ++ [t; 0; 0; 0; 0; 7; 0; 1])%list.
Definition tmpl6 (t : N) : bytes := (hdr6 ++ [t; 0; 0; 0; 0; 7; 0; 1])%list.
Definition all_types : list N := map N.of_nat (seq 0 256).
Definition notifies (f : bytes) : bool := match parse_notify f with Ok (Some _) => true | _ => false end.
Definition is_request (f : bytes) : bool := match rfc_request_id f with Some _ => true | None => false end.
Definition types_where (P : bytes -> bool) (tm : N -> bytes) : list N := filter (fun t => P (tm t)) all_types.
Definition min_echo_len : string :=
  match filter (fun n => notifies (hdr4 (20 + N.of_nat n) ++ firstn n [0; 0; 0; 0; 0; 7; 0; 1; 9; 9; 9; 9; 9; 9; 9; 9])%list) (seq 0 17) with
  | n :: _ => dec_of_nat n
  | [] => "?"
  end.
Definition tmax_s : string :=
  match filter (fun k => (eff_timeout (Z.of_nat k * SECOND) =? Z.of_nat k * SECOND)%Z) (rev (seq 1 30)) with
  | k :: _ => dec_of_nat k
  | [] => "?"
  end.
Definition tag (pre : string) (t : N) : string := String.append pre (dec_of_N t).
Definition notify_list : list string :=
  List.app (map (tag "1:") (types_where notifies tmpl4)) (map (tag "58:") (types_where notifies tmpl6)).
Definition request_list : list string :=
  map dec_of_N (List.app (types_where is_request tmpl4) (types_where is_request tmpl6)).
(* one component by name; the harness names only the components it could RESOLVE in the source *)
Definition const_component (n : string) : option string :=
  if String.eqb n "notify" then Some (join "," notify_list)
  else if String.eqb n "request" then Some (join "," request_list)
  else if String.eqb n "id0" then Some (dec_of_N (next init_go))
  else if String.eqb n "idtype" then Some (if (u16 65536 =? 0) && (u16 65535 =? 65535) then "uint16" else "?")
  else if String.eqb n "fullgt" then Some (dec_of_N (TABLE_CAP - 1))
  else if String.eqb n "tmo" then Some (tmax_s ++ "/" ++ dec_of_Z (eff_timeout 0 / SECOND)%Z)
  else if String.eqb n "minlen" then Some min_echo_len
  else None.
Definition consts_obs (names : string) : string :=
  if String.eqb names "-" then ""
  else join ";" (map (fun n => match const_component n with Some v => n ++ "=" ++ v | None => n ++ "=??" end)
                     (split ","%char names)).

Definition dispatch (kind : string) (args : list string) : string :=
  if String.eqb kind "vdr" then
    (* vdr a0 a1 a2: is the k-th echo request answered (T) or left to time out (F) *)
    match map bool_of_tok args with
    | [Some a0; Some a1; Some a2] =>
        let r b := if b : bool then RNil else RTimeout in
        let '(o, n) := vdr (r a0) (r a1) (r a2) in
        out3 ((match o with VNil => "nil" | VTimeout => "timeout" | VNotRedirected => "notredirected" end)
              ++ "/" ++ dec_of_nat n) "-" "-"
    | _ => BADARGS
    end
  else if String.eqb kind "consts" then
    match args with [names] => out3 (consts_obs names) "-" "-" | _ => BADARGS end
  else if String.eqb kind "scn" then
    match args with
    | n :: ws =>
        match N_of_dec n, parse_toks ws with
        | Some n0, Some ts =>
            if n0 <? 65536 then out3 (obs_of FIX24 n0 ts) (spec_obs n0 ts) (key_of n0 ts) else BADARGS
        | _, _ => BADARGS
        end
    | _ => BADARGS
    end
  else BADARGS.

Definition dispatch_line (l : string) : string :=
  match words l with
  | k :: args => dispatch k args
  | [] => BADARGS
  end.
