(* Extract/D19.v — text interpreter of the C19 model: one scenario = one case line.

   scn <next0> tok tok ...
     b4.<p>.<m>.<ms> / b6.<p>.<m>.<ms>   Begin of call p (Ping / Ping6, timeout ms — real time only,
                               ignored by the model); m = g (sent), a (address family error,
                               nothing on the wire), w (Conn.WriteTo failed)
     s                         snapshot of the table size
     r.<hex>                   frame handed to Session.Parse
     w.<p>  t.<p>  e.<p>       wait for return / Timeout / End
   observation:  res=<r>,..;ids=<i>,..;sz=<n>,..;next=<n>
     res/ids in order of the Begin tokens; r = nil|timeout|err|run; id = '-' for mode a
     sz = waiter-table size at every snapshot token, then at the end. *)
From PV Require Import Base.Text Model.Ping Model.PingFrame Model.PingScript.
Open Scope string_scope.
Open Scope N_scope.

Definition TAB : string := String (ascii_of_N 9) EmptyString.
Definition out3 (m s k : string) : string := m ++ TAB ++ s ++ TAB ++ k.

Definition parse_tok (w : string) : option tok :=
  match split "."%char w with
  | [k] => if String.eqb k "s" then Some TSnap else None
  | [k; a] =>
      if String.eqb k "r" then option_map TFrame (bytes_of_tok a)
      else if String.eqb k "w" then option_map TWait (nat_of_dec a)
      else if String.eqb k "t" then option_map TTimeout (nat_of_dec a)
      else if String.eqb k "e" then option_map TEnd (nat_of_dec a)
      else None
  | [k; a; m; _] =>
      if String.eqb k "b4" || String.eqb k "b6" then
        match nat_of_dec a with
        | Some p =>
            if String.eqb m "g" then Some (TBegin p true true)
            else if String.eqb m "w" then Some (TBegin p false true)
            else if String.eqb m "a" then Some (TBegin p false false)
            else None
        | None => None
        end
      else None
  | _ => None
  end.

Fixpoint parse_toks (ws : list string) : option (list tok) :=
  match ws with
  | [] => Some []
  | w :: r => match parse_tok w, parse_toks r with
              | Some t, Some ts => Some (t :: ts)
              | _, _ => None
              end
  end.

Definition show_result (o : option result) : string :=
  match o with
  | Some RNil => "nil"
  | Some RTimeout => "timeout"
  | Some RSendErr => "err"
  | None => "run"
  end.

Definition show_obs (s : state) (sizes : list nat) (bs : list (pid * bool)) : string :=
  "res=" ++ join "," (map (fun b => show_result (result_of s (fst b))) bs)
  ++ ";ids=" ++ join "," (map (fun b : pid * bool =>
                                 if snd b then match id_of s (fst b) with
                                               | Some i => dec_of_N i
                                               | None => "?"
                                               end
                                 else "-") bs)
  ++ ";sz=" ++ join "," (map dec_of_nat sizes)
  ++ ";next=" ++ dec_of_N (next s).

Definition obs_of (fix24 : bool) (n0 : N) (ts : list tok) : string :=
  match run_script fix24 parse_notify (init n0) ts with
  | Ok (s, sizes) => show_obs s (sizes ++ [size s])%list (begun ts)
  | Err _ => "illformed"
  | Panic => "panic"
  | Fuel => "fuel"
  end.

(* recorded defect classes (narrow keys, see known_findings.txt) *)
Definition has_failed_begin (ts : list tok) : bool :=
  existsb (fun t => match t with TBegin _ false _ => true | _ => false end) ts.
Definition key_of (ts : list tok) : string :=
  if negb FIX24 && has_failed_begin ts then "ping_send_fail_leaks_waiter" else "-".

Definition dispatch (kind : string) (args : list string) : string :=
  if String.eqb kind "scn" then
    match args with
    | n :: ws =>
        match N_of_dec n, parse_toks ws with
        | Some n0, Some ts =>
            if n0 <? 65536 then out3 (obs_of FIX24 n0 ts) "-" (key_of ts) else BADARGS
        | _, _ => BADARGS
        end
    | _ => BADARGS
    end
  else BADARGS.

Definition dispatch_line (l : string) : string :=
  match words l with
  | k :: args => dispatch k args
  | [] => BADARGS
  end.
