(* Extract/D09.v — text interpreter of the C09 model.
   oplist                 -> names of all modelled operations, in table order
   ambient                -> goroutines every session runs
   spawns <op>            -> operations started as goroutines by <op>
   table <opA> <opB>      -> the race / panic keys the model predicts for the pair (or "none")
   locks <entry> <op,op>  -> acquire contexts, channel operations and spawns of the templates of these operations
                             (the paths of one Go entry function), canonical text compared with the AST pass
   writes <entry> <op,op> -> every write of a tracked field with the lock classes held there ("F:w@Row:W+Sess:R");
                             the AST pass also reports writes to any other field of the shared structs ("imm:T.f")
   balance / blockcensus / pkgvars -> whole-package censuses (Model/LocksCensus.v): lock/pool balance on every
                             path, locks held at blocking operations, package-level variables written after init
   gocensus               -> the goroutines started by all `go` statements of the five packages
   unlocked <entry> <op,op> -> tracked fields accessed with no lock held / written under read locks only
   mix <op,op,...> <seed> -> "ok": the model's claim for a concurrent mix is that nothing outside the
                             keys predicted for its pairs can be observed (the harness reports
                             "unexpected:<keys>" otherwise) *)
From PV Require Import Base.Text Model.Locks Model.LocksOps Model.LocksStatic Model.LocksCensus.
Open Scope string_scope.

Definition TAB : string := String (ascii_of_N 9) EmptyString.
Definition out3 (m s k : string) : string := m ++ TAB ++ s ++ TAB ++ k.

Definition show_keys (l : list string) : string :=
  match l with [] => "none" | _ => join "," l end.

Definition dispatch (kind : string) (args : list string) : string :=
  if String.eqb kind "oplist" then
    match args with
    | [] => out3 (join "," (map op_name all_ops)) "-" "-"
    | _ => BADARGS
    end
  else if String.eqb kind "ambient" then
    match args with
    | [] => out3 (show_keys (map op_name ambient_ops)) "-" "-"
    | _ => BADARGS
    end
  else if String.eqb kind "spawns" then
    match args with
    | [a] => match op_of_name a with
             | Some x => out3 (show_keys (map op_name (spawns x))) "-" "-"
             | None => BADARGS
             end
    | _ => BADARGS
    end
  else if String.eqb kind "table" then
    match args with
    | [a; b] => match op_of_name a, op_of_name b with
                | Some x, Some y => out3 (show_keys (predicted_keys x y)) "-" "-"
                | _, _ => BADARGS
                end
    | _ => BADARGS
    end
  else if String.eqb kind "locks" then
    match args with
    | [_; ops] => match ops_of_names ops with
                  | Some l => out3 (static_locks l) "-" "-"
                  | None => BADARGS
                  end
    | _ => BADARGS
    end
  else if String.eqb kind "writes" then
    match args with
    | [_; ops] => match ops_of_names ops with
                  | Some l => out3 (static_writes l) "-" "-"
                  | None => BADARGS
                  end
    | _ => BADARGS
    end
  else if String.eqb kind "balance" then
    match args with [] => out3 census_balance "-" "-" | _ => BADARGS end
  else if String.eqb kind "blockcensus" then
    match args with [] => out3 census_blocking "-" "-" | _ => BADARGS end
  else if String.eqb kind "pkgvars" then
    match args with [] => out3 census_pkgvars "-" "-" | _ => BADARGS end
  else if String.eqb kind "switches" then
    match args with [] => out3 census_switches "-" "-" | _ => BADARGS end
  else if String.eqb kind "gocensus" then
    match args with
    | [] => out3 static_gocensus "-" "-"
    | _ => BADARGS
    end
  else if String.eqb kind "unlocked" then
    match args with
    | [_; ops] => match ops_of_names ops with
                  | Some l => out3 (static_unlocked l) "-" "-"
                  | None => BADARGS
                  end
    | _ => BADARGS
    end
  else if String.eqb kind "mix" then
    match args with
    | [ops; _] =>
        (* tokens starting with '@' are harness directives (channel pre-filling, no consumer) *)
        if forallb (fun n => match n with String "@"%char _ => true | _ =>
                      match op_of_name n with Some _ => true | None => false end end) (split ","%char ops)
        then out3 "ok" "-" "-" else BADARGS
    | _ => BADARGS
    end
  else BADARGS.

Definition dispatch_line (l : string) : string :=
  match filter (fun w => negb (String.eqb w "")) (words l) with
  | k :: args => dispatch k args
  | [] => BADARGS
  end.
