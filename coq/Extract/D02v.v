(* Extract/D02v.v -- C02, views unit: text interpreter (see Model/ViewsDispatch.v). *)
From PV Require Import Model.ViewsDispatch.
Definition dispatch_line (l : string) : string := dispatch true line02 l.
