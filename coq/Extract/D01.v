(* Extract/D01.v — C01, Parse unit: text interpreter of the Parse model.

   p hostMAC routerMAC lanAddr lanBits frameHex spareHex
     model column: what Session.Parse and every Frame accessor do on the slice
                   (arr = frame ++ spare, len = |frame|): "err:EFrameLen" | "err:EParseFrame" | "panic" | "ok id src dst views... host"
     spec column:  "-" (C01 is a safety property: the expectation is "no panic, same as with no spare capacity")
     key column:   "-" when the model neither panics (Parse or an accessor) nor depends on the spare capacity;
                   otherwise the key of the recorded defect class the frame lies in
                   (Model/ParseKnown.v, known_C01), or "c01-unrecorded" when it lies in none. *)
From PV Require Import Base.Text Base.Slice Model.Parse Model.ParseShow Model.ParseKnown.
Open Scope string_scope.
Open Scope N_scope.

Definition TAB : string := String (ascii_of_N 9) EmptyString.
Definition out3 (m s k : string) : string := m ++ TAB ++ s ++ TAB ++ k.

Definition c01_key (c : cfg) (b spare : bytes) : string :=
  let s := of_bytes_cap b spare in
  let unsafe := obs_panics c s
                || negb (String.eqb (show_parse_full c s) (show_parse_full c (of_bytes b))) in
  if unsafe then match known_C01 b with Some k => k | None => "c01-unrecorded" end else "-".

Definition dispatch (kind : string) (args : list string) : string :=
  if String.eqb kind "p" then
    match args with
    | [hm; rm; lan; bits; fr; sp] =>
        match cfg_of_toks hm rm lan bits, bytes_of_tok fr, bytes_of_tok sp with
        | Some c, Some b, Some spare =>
            out3 (show_parse_full c (of_bytes_cap b spare)) "-" (c01_key c b spare)
        | _, _, _ => BADARGS
        end
    | _ => BADARGS
    end
  else if String.eqb kind "m" then
    (* m Frame: the exported methods and fields of packet.Frame the accessor theorems cover *)
    match args with
    | [_] => out3 frame_api "-" "-"
    | _ => BADARGS
    end
  else BADARGS.

Definition dispatch_line (l : string) : string :=
  match words l with
  | k :: args => dispatch k args
  | [] => BADARGS
  end.
