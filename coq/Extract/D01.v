(* Extract/D01.v — C01, Parse unit: text interpreter of the Parse model.

   p hostMAC routerMAC lanAddr lanBits frameHex spareHex
     model column: what Session.Parse and every Frame accessor do on the slice
                   (arr = frame ++ spare, len = |frame|): "err:EFrameLen" | "err:EParseFrame" | "panic" | "ok id src dst views... host"
     spec column:  "-" (C01 is a safety property: the expectation is "no panic, same as with no spare capacity")
     key column:   "-" when the model neither panics (Parse or an accessor) nor depends on the spare capacity;
                   otherwise the key of the recorded defect class the frame lies in
                   (Model/ParseKnown.v, known_C01), or "c01-unrecorded" when it lies in none. *)
From PV Require Import Base.Text Base.Slice Model.Parse Model.ParseShow Model.ParseKnown.
Open Scope string_scope.
Open Scope N_scope.

Definition TAB : string := String (ascii_of_N 9) EmptyString.
Definition out3 (m s k : string) : string := m ++ TAB ++ s ++ TAB ++ k.

Definition c01_key (c : cfg) (b spare : bytes) : string :=
  let s := of_bytes_cap b spare in
  let unsafe := obs_panics c s
                || negb (String.eqb (show_parse_full c s) (show_parse_full c (of_bytes b))) in
  if unsafe then match known_C01 b with Some k => k | None => "c01-unrecorded" end else "-".

(* one token k:HEX of a pp history: (carries the pending identifier?, frame) *)
Definition pp_tok (t : string) : option (bool * bytes) :=
  match t with
  | String k (String ":"%char h) =>
      match bytes_of_tok h with
      | Some b => Some (Ascii.eqb k "m"%char, b)
      | None => None
      end
  | _ => None
  end.

Definition pp_cfg : cfg := mkCfg [0;85;85;85;85;85] [0;102;102;102;102;102] [192;168;0;0] 24 current_fixes.

Fixpoint pp_run (toks : list string) (acc : list string) (woken : bool) : option string :=
  match toks with
  | [] => Some (join " | " (rev ((if woken then "ping:ok" else "ping:timeout") :: acc)))
  | t :: r =>
      match pp_tok t with
      | None => None
      | Some (m, b) =>
          (* the FULL observation: Parse is a function of (configuration, bytes); the waiter table is not an input *)
          let o := show_parse_full pp_cfg (of_bytes b) in
          match parse pp_cfg (of_bytes b) with
          | Ok f => pp_run r (o :: acc) (woken || (m && match f_echo f with Some _ => true | None => false end))
          | _ => pp_run r (o :: acc) woken
          end
      end
  end.
Definition pp_line (toks : list string) : option string := pp_run toks [] false.

Definition locks_across_send : string := "-".

Fixpoint gate_line (toks : list string) (acc : list string) : option string :=
  match toks with
  | [] => Some (join " | " ("held" :: rev ("released" :: acc)))
  | t :: r =>
      match bytes_of_tok t with
      | None => None
      | Some b => gate_line r (show_parse_full pp_cfg (of_bytes b) :: acc)
      end
  end.

Definition dispatch (kind : string) (args : list string) : string :=
  if String.eqb kind "census" then
    (* census switches: the runtime-settable switches of the library (package loggers, Debug booleans) the toggler of
       kind tog flips; extracted from the source on every run *)
    match args with
    | [_] => out3 "arp_spoofer.Logger,dhcp4_spoofer.Logger,dns_naming.Debug,dns_naming.Logger,dns_naming.LoggerMDNS,icmp_spoofer.Logger4,icmp_spoofer.Logger6,packet.Logger" "-" "-"
    | _ => BADARGS
    end
  else if String.eqb kind "tog" then
    (* tog N hexA hexB: 2N online transitions parsed while every switch is flipped concurrently: the model has no log
       level and no Debug switch, so every call gives the full observation of its frame *)
    match args with
    | [_; ha; hb] =>
        match bytes_of_tok ha, bytes_of_tok hb with
        | Some a, Some b =>
            let l := "all: " ++ show_parse_full pp_cfg (of_bytes a) ++ " | " ++ show_parse_full pp_cfg (of_bytes b) in
            out3 l l "-"
        | _, _ => BADARGS
        end
    | _ => BADARGS
    end
  else if String.eqb kind "consts" then
    match args with
    | [n] => if String.eqb n "statslen" then out3 (dec_of_N stats_len) "-" "-" else BADARGS
    | _ => BADARGS
    end
  else if String.eqb kind "p" || String.eqb kind "pt" then
    (* pt: the same frame parsed a second time on the same session (its source tracked by then): the result of Parse
       does not depend on the host table, so the model answers as for p *)
    match args with
    | [hm; rm; lan; bits; fr; sp] =>
        match cfg_of_toks hm rm lan bits, bytes_of_tok fr, bytes_of_tok sp with
        | Some c, Some b, Some spare =>
            out3 (show_parse_full c (of_bytes_cap b spare)) "-" (c01_key c b spare)
        | _, _, _ => BADARGS
        end
    | _ => BADARGS
    end
  else if String.eqb kind "m" then
    (* m Frame: the exported methods and fields of packet.Frame the accessor theorems cover *)
    match args with
    | [_] => out3 frame_api "-" "-"
    | _ => BADARGS
    end
  else if String.eqb kind "pp" then
    (* pp FAM MS tok...: frames fed through Parse while a ping is pending.  Model: the pure result class of every
       frame (Parse never panics and never blocks, whatever the waiter table holds: C01_parse_no_panic covers the pure
       part, the waiter table is C19's model) and ping:ok iff some frame carrying the pending identifier (m:) has
       f_echo <> None.  The spec column states the expectation explicitly. *)
    match args with
    | _fam :: _ms :: toks =>
        match pp_line toks with
        | Some l => out3 l l "-"
        | None => BADARGS
        end
    | _ => BADARGS
    end
  else if String.eqb kind "gate" then
    (* gate SEND hex...: frames parsed while a send of that kind is held inside Conn.WriteTo.  The model of Parse has
       no input for a send in flight and no blocking step: its answer is the pure result class of every frame, and the
       expectation (spec column) is that Parse returns for every one of them while the write is held. *)
    match args with
    | _send :: toks =>
        match gate_line toks [] with
        | Some l => out3 l l "-"
        | None => BADARGS
        end
    | _ => BADARGS
    end
  else if String.eqb kind "locks" then
    (* locks send: the mutexes lexically held at a call that can reach Conn.WriteTo, extracted from the source of
       package packet.  The model of Parse has no blocking step; that rests on no sender holding a lock Parse takes
       (session RWMutex, MACEntry row lock, ping-table mutex) across its I/O: the expected table is empty. *)
    match args with
    | [_] => out3 locks_across_send locks_across_send "-"
    | _ => BADARGS
    end
  else BADARGS.

Definition dispatch_line (l : string) : string :=
  match words l with
  | k :: args => dispatch k args
  | [] => BADARGS
  end.
