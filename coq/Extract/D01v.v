(* Extract/D01v.v -- C01, views unit: text interpreter (see Model/ViewsDispatch.v). *)
From PV Require Import Model.ViewsDispatch.
Definition dispatch_line (l : string) : string := dispatch false line01 l.
