(* Extract/D05.v — C05 dispatch: a whole history is one line
     t5 <cfg> <t0> <op> <op> ...
   and the observation is the transcript: for the initial state and after
   every step  <out>|H:<hosts sorted by key>|M:<MAC entries in slice order>|pt=<ok|panic>|inv=<0|1>
   joined by ";", plus a final dump "end" (taken after the harness has overwritten its receive buffer).  The notification channel is drained (and ignored) after every step.
   Kind t5s (large tables): the same, but the state is dumped only where the history carries the token "S" (and at
   the end); every other op contributes its output alone.
   Kind t5q <cfg> <seed> <n> (concurrent executions under the supported pattern): the observation is the verdict of the
   invariant oracle and of PrintTable at the quiescent point; no linearisation: the expected value is the constant
   "inv=1|pt=ok" that C05_reachable / C05_printtable_no_panic give for every sequential history. *)
From PV Require Import Base.Text Model.Tables Model.TablesShow Spec.HostTrackingInv.
Open Scope string_scope.
Open Scope N_scope.

Definition TAB : string := String (ascii_of_N 9) EmptyString.
Definition out3 (m s k : string) : string := m ++ TAB ++ s ++ TAB ++ k.

Definition show_step5 (o : string) (s : state) : string :=
  o ++ "|" ++ show_tables s ++ "|pt=" ++ show_res (fun _ => "ok") (print_table s) ++ "|inv=" ++ b01 (invb s).

(* after the last op the harness overwrites its receive buffer once more and dumps again: "end" *)
Fixpoint run5 (c : cfg) (s : state) (ops : list pop) : list string :=
  match ops with
  | [] => [show_step5 "end" s]
  | p :: r =>
      let (s1, o) := pstep c s p in
      let s2 := set_chan [] s1 in
      show_step5 (show_out o) s2 :: run5 c s2 r
  end.

Fixpoint run5s (c : cfg) (s : state) (toks : list string) : list string :=
  match toks with
  | [] => [show_step5 "end" s]
  | tk :: r =>
      if String.eqb tk "S" then show_step5 "S" s :: run5s c s r
      else match op_of_tok tk with
           | Some p =>
               let (s1, o) := pstep c s (debyte c p) in
               show_out o :: run5s c (set_chan [] s1) r
           | None => ["badop"]
           end
  end.

(* ---- source-derived components (harness/cmd/c05/source.go) ----
   for every API entry point of the statements: the Host / MACEntry fields and the tables it writes, directly or through
   unexported helpers (by bare name; an over-approximation), literals counted like assignments.  The model's steps:
     NewSession -> new_session;  Parse -> Rx (find_or_create, online_transition);  Notify -> notify (notify_host, make_offline);
     DHCPv4Update -> dhcp4_update;  SetDHCPv4IPOffer -> set_offer;  Capture / Release -> capture / release;
     purge -> purge (make_offline, delete_host);  Update*Name -> update_name.
   A NEW field written from an entry point, or a field no longer written, changes the line; helper names do not. *)
Definition writers_expected : list string :=
  [ "Capture:Captured+IP4+IP4Offer+IP6GUA+IP6LLA+MACTable.Table";
    "DHCPv4Update:Addr+HostList+HostTable.Table+HuntStage+IP4+IP4Offer+IP6GUA+IP6LLA+LastSeen+MACEntry+MACTable.Table+Manufacturer+Online+dirty";
    "NewSession:Addr+HostList+HostTable.Table+HuntStage+IP4+IP4Offer+IP6GUA+IP6LLA+IsRouter+LastSeen+MACEntry+MACTable.Table+Manufacturer+Online+dirty";
    "Notify:IP4+IP6GUA+IP6LLA+Online+dirty";
    "Parse:Addr+HostList+HostTable.Table+HuntStage+IP4+IP4Offer+IP6GUA+IP6LLA+LastSeen+MACEntry+MACTable.Table+Manufacturer+Online+dirty";
    "Release:Captured";
    "SetDHCPv4IPOffer:DHCP4Name+IP4+IP4Offer+IP6GUA+IP6LLA+MACTable.Table";
    "UpdateDHCP4Name:DHCP4Name+dirty";
    "UpdateLLMNRName:LLMNRName+dirty";
    "UpdateMDNSName:MDNSName+dirty";
    "UpdateNBNSName:NBNSName+dirty";
    "UpdateSSDPName:SSDPName+dirty";
    "purge:HostList+HostTable.Table+MACTable.Table+Online+dirty" ].

(* every read of the wall clock (time.Now / time.Since) and every comparison of time stamps (Sub / Before / After) in
   hosttable.go, mactable.go, session.go, layer_frame.go, notification.go, counted per FILE (functions get split and renamed):
     findOrCreateHostWithLock: Now -> the [now] of Rx / DHCPv4Update (LastSeen of host and MAC entry, every call);
     Config.NewSession: Now x3 -> [new_session]'s t0 (own host: t0 + year), the purge ticker (purge(now): the [now] of Purge)
       and a log line;  Session.purge: the three cut-off comparisons (probe: not modelled; offline, delete: [age]);
     FastLog (Host, MACEntry): log text only.
   The real-time kind rt (D04, D06) is the behavioural tie of these reads; this list makes a NEW read a tie-only alarm. *)
Definition clocks_expected : list string :=
  [ "hosttable.go:Now*1+Since*1"; "mactable.go:Since*1"; "session.go:Now*3+cmp*3"; "layer_frame.go:"; "notification.go:" ].

(* the exported fields of Host, MACEntry, Session, NICInfo (reflection), classified:
     LIBRARY-written, compared in the dumps: Host.Addr MACEntry Online LastSeen Manufacturer *Name; MACEntry.HostList IP4 IP4Offer
       IP6GUA IP6LLA IsRouter Captured Online LastSeen MAC Manufacturer *Name; Session.C HostTable MACTable;
     APPLICATION-written, varied as an input of the histories: Host.HuntStage (op H; the library sets it at creation only);
     never written nor read by the tables code: MACEntry.IP6Offer, MACEntry.Row (a lock), Session.Statistics (counters);
     CONFIGURATION of the histories: Session.ProbeDeadline OfflineDeadline PurgeDeadline Conn NICInfo; NICInfo.* (cfg token
       incl. its env field) *)
Definition exported_expected : list string :=
  [ "Host:Addr+DHCP4Name+HuntStage+LLMNRName+LastSeen+MACEntry+MDNSName+Manufacturer+NBNSName+Online+SSDPName";
    "MACEntry:Captured+DHCP4Name+HostList+IP4+IP4Offer+IP6GUA+IP6LLA+IP6Offer+IsRouter+LLMNRName+LastSeen+MAC+MDNSName+Manufacturer+NBNSName+Online+Row+SSDPName";
    "Session:C+Conn+HostTable+MACTable+NICInfo+OfflineDeadline+ProbeDeadline+PurgeDeadline+Statistics";
    "NICInfo:HomeLAN4+HostAddr4+HostGUA+HostLLA+IFI+RouterAddr4+RouterGUA+RouterLLA+RouterPrefix" ].

Definition consts_expected : string :=
  "probe=" ++ dec_of_Z default_probe ++ ",offline=" ++ dec_of_Z default_offline ++ ",purge=" ++ dec_of_Z default_purge ++
  ",maxprobe=" ++ dec_of_Z max_probe ++ ",maxoffline=" ++ dec_of_Z max_offline ++ ",maxpurge=" ++ dec_of_Z max_purge ++
  ",probe<=offline=" ++ b01 (negb (deadlines_okb 3 2 1) && deadlines_okb 2 2 1) ++
  ",purge-free=" ++ b01 (deadlines_okb 2 3 1 && deadlines_okb 1 3 2 && deadlines_okb 1 2 3) ++
  ",chan=" ++ dec_of_N (N.of_nat chan_cap).

Definition dispatch (kind : string) (args : list string) : string :=
  if String.eqb kind "src" then
    match args with
    | [w] => if String.eqb w "writers" then out3 (join ";" writers_expected) "-" "-"
             else if String.eqb w "consts" then out3 consts_expected "-" "-"
             else if String.eqb w "observed" then out3 "unobserved=" "-" "-"   (* every written field is in the dumps *)
             else if String.eqb w "exported" then out3 (join ";" exported_expected) "-" "-"
             else if String.eqb w "clocks" then out3 (join ";" clocks_expected) "-" "-" else BADARGS
    | _ => BADARGS
    end
  else if String.eqb kind "dl" then     (* dl <probe> <offline> <purge>: does NewSession accept these deadlines (seconds)? *)
    match args with
    | [p; o; u] => match Z_of_dec p, Z_of_dec o, Z_of_dec u with
                   | Some p, Some o, Some u => out3 (if deadlines_okb p o u then "ok" else "err") "-" "-"
                   | _, _, _ => BADARGS end
    | _ => BADARGS
    end
  else
  if String.eqb kind "t5q" then
    match args with
    | ctok :: _ :: _ :: [] =>
        match cfg_of_tok ctok with
        | Some c => match new_session c 0 with
                    | Ok s0 => out3 ("inv=" ++ b01 (invb s0) ++ "|pt=" ++ show_res (fun _ => "ok") (print_table s0)) "-" "-"
                    | _ => out3 "panic" "-" "-" end
        | None => BADARGS
        end
    | _ => BADARGS
    end
  else
  if String.eqb kind "t5s" then
    match args with
    | ctok :: t0 :: optoks =>
        match cfg_of_tok ctok, Z_of_dec t0 with
        | Some c, Some t0 =>
            match new_session c t0 with
            | Ok s0 => out3 (join ";" (run5s c s0 optoks)) "-" "-"
            | _ => out3 "panic" "-" "-"
            end
        | _, _ => BADARGS
        end
    | _ => BADARGS
    end
  else
  if String.eqb kind "t5" then
    match args with
    | ctok :: t0 :: optoks =>
        match cfg_of_tok ctok, Z_of_dec t0, ops_of_toks optoks with
        | Some c, Some t0, Some ops0 =>
            let ops := map (debyte c) ops0 in
            match new_session c t0 with
            | Ok s0 => out3 (join ";" (show_step5 "init" s0 :: run5 c s0 ops)) "-" "-"
            | _ => out3 "panic" "-" "-"
            end
        | _, _, _ => BADARGS
        end
    | _ => BADARGS
    end
  else BADARGS.

Definition dispatch_line (l : string) : string :=
  match words l with
  | k :: args => dispatch k args
  | [] => BADARGS
  end.
