(* Extract/D05.v — C05 dispatch: a whole history is one line
     t5 <cfg> <t0> <op> <op> ...
   and the observation is the transcript: for the initial state and after
   every step  <out>|H:<hosts sorted by key>|M:<MAC entries in slice order>|pt=<ok|panic>|inv=<0|1>
   joined by ";", plus a final dump "end" (taken after the harness has overwritten its receive buffer).  The notification channel is drained (and ignored) after every step.
   Kind t5s (large tables): the same, but the state is dumped only where the history carries the token "S" (and at
   the end); every other op contributes its output alone. *)
From PV Require Import Base.Text Model.Tables Model.TablesShow Spec.HostTrackingInv.
Open Scope string_scope.
Open Scope N_scope.

Definition TAB : string := String (ascii_of_N 9) EmptyString.
Definition out3 (m s k : string) : string := m ++ TAB ++ s ++ TAB ++ k.

Definition show_step5 (o : string) (s : state) : string :=
  o ++ "|" ++ show_tables s ++ "|pt=" ++ show_res (fun _ => "ok") (print_table s) ++ "|inv=" ++ b01 (invb s).

(* after the last op the harness overwrites its receive buffer once more and dumps again: "end" *)
Fixpoint run5 (c : cfg) (s : state) (ops : list pop) : list string :=
  match ops with
  | [] => [show_step5 "end" s]
  | p :: r =>
      let (s1, o) := step c s (resolve s p) in
      let s2 := set_chan [] s1 in
      show_step5 (show_out o) s2 :: run5 c s2 r
  end.

Fixpoint run5s (c : cfg) (s : state) (toks : list string) : list string :=
  match toks with
  | [] => [show_step5 "end" s]
  | tk :: r =>
      if String.eqb tk "S" then show_step5 "S" s :: run5s c s r
      else match op_of_tok tk with
           | Some p =>
               let (s1, o) := step c s (resolve s (debyte c p)) in
               show_out o :: run5s c (set_chan [] s1) r
           | None => ["badop"]
           end
  end.

Definition dispatch (kind : string) (args : list string) : string :=
  if String.eqb kind "t5s" then
    match args with
    | ctok :: t0 :: optoks =>
        match cfg_of_tok ctok, Z_of_dec t0 with
        | Some c, Some t0 =>
            match new_session c t0 with
            | Ok s0 => out3 (join ";" (run5s c s0 optoks)) "-" "-"
            | _ => out3 "panic" "-" "-"
            end
        | _, _ => BADARGS
        end
    | _ => BADARGS
    end
  else
  if String.eqb kind "t5" then
    match args with
    | ctok :: t0 :: optoks =>
        match cfg_of_tok ctok, Z_of_dec t0, ops_of_toks optoks with
        | Some c, Some t0, Some ops0 =>
            let ops := map (debyte c) ops0 in
            match new_session c t0 with
            | Ok s0 => out3 (join ";" (show_step5 "init" s0 :: run5 c s0 ops)) "-" "-"
            | _ => out3 "panic" "-" "-"
            end
        | _, _, _ => BADARGS
        end
    | _ => BADARGS
    end
  else BADARGS.

Definition dispatch_line (l : string) : string :=
  match words l with
  | k :: args => dispatch k args
  | [] => BADARGS
  end.
