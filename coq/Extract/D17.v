(* Extract/D17.v — text-line interpreter of the C17 model and spec. *)
From PV Require Import Base.Slice Model.DNS Model.DNSMerge Model.DNSRecords Model.DNSNbns Model.DNSMdns Model.DNSConsts Spec.RFC1035 Base.Text.
Open Scope string_scope.
Open Scope N_scope.

Definition TAB : string := String (ascii_of_N 9) EmptyString.
Definition out3 (m s k : string) : string := m ++ TAB ++ s ++ TAB ++ k.

Definition sp (a b : string) : string := a ++ " " ++ b.

(* slice with spare capacity *)
Definition mk_slice (l spare : bytes) : slice := of_bytes_cap l spare.
(* make([]byte, len(pre), len(pre)+n) holding pre *)
Definition mk_buffer (pre : bytes) (n : nat) : slice := of_bytes_cap pre (repeat 0 n).

(* ---- dq: DecodeQuestion ---- *)
Definition show_question (r : question * nat) : string :=
  let q := fst r in
  sp (tok_of_bytes (q_name q)) (sp (dec_of_N (q_type q)) (sp (dec_of_N (q_class q)) (dec_of_nat (snd r)))).

Definition is_err {A} (r : res A) : bool := match r with Err _ => true | _ => false end.
Definition LAX : nat := NAME_LIMIT.   (* since the total-length check the code's limit is the RFC's: no lenient zone left *)
Definition REJECT : string := "err:reject".
(* the spec demands "an error": any error class of the implementation satisfies it *)
Definition reject_as (model_is_err : bool) (model_obs : string) : string :=
  if model_is_err then model_obs else REJECT.

Definition spec_dq (p : bytes) (index : Z) (mobs : string) (merr : bool) : string :=
  match u16_at p 4 with
  | Some qd =>
      if negb (qd =? 1) then mobs               (* DecodeQuestion assumes a single question: API convention *)
      else if Nat.ltb (List.length p) 12 then mobs (* callers validate the header first (IsValid) *)
      else if (index <? 0)%Z then reject_as merr mobs
      else
        let off := Z.to_nat index in
        match ref_decode p off with
        | None => reject_as merr mobs
        | Some (ls, n) =>
            if negb (name_ok NAME_LIMIT ls) then reject_as merr mobs   (* over 255 octets, or a '.' inside a label *)
            else if Nat.ltb 254 (ref_depth (S (List.length p)) p off) then mobs   (* beyond the recursion bound *)
            else match u16_at p n, u16_at p (n + 2) with
                 | Some t, Some c => show_question (mkQ (dotted ls) t c, (n + 4)%nat)
                 | _, _ => reject_as merr mobs
                 end
        end
  | None => mobs
  end.

Definition run_dq (p spare : bytes) (index : Z) (pre : bytes) (n : nat) : string :=
  let ps := mk_slice p spare in
  let buffer := mk_buffer pre n in
  let r := decodeQuestion ps index buffer in
  let mobs := show_res show_question r in
  out3 mobs (spec_dq p index mobs (is_err r)) "-".

(* ---- entry dumps: sections 4 / 6 / c / p, each sorted by key ---- *)
Fixpoint bytes_ltb (a b : bytes) : bool :=
  match a, b with
  | [], [] => false
  | [], _ => true
  | _, [] => false
  | x :: a', y :: b' => if x <? y then true else if y <? x then false else bytes_ltb a' b'
  end.

Definition triple : Type := (bytes * bytes * N)%type.
Fixpoint ins_sorted (x : triple) (l : list triple) : list triple :=
  match l with
  | [] => [x]
  | y :: r => if bytes_ltb (fst (fst x)) (fst (fst y)) then x :: l else y :: ins_sorted x r
  end.
Definition sort_triples (l : list triple) : list triple := fold_right ins_sorted [] l.

Definition show_triple (x : triple) : string :=
  tok_of_bytes (fst (fst x)) ++ "=" ++ tok_of_bytes (snd (fst x)) ++ "=" ++ dec_of_N (snd x).
Definition show_section (tag : string) (l : list triple) : string :=
  tag ++ ":" ++ join "," (map show_triple (sort_triples l)).
Definition show_cache (c : cache) : string :=
  join "/" [show_section "4" (c_a c); show_section "6" (c_aaaa c); show_section "c" (c_cname c); show_section "p" (c_ptr c)].

Definition cache_of_entry (e : dns_entry) : cache :=
  mkCache (map (fun r => (ir_ip r, ir_name r, ir_ttl r)) (de_ip4 e))
          (map (fun r => (ir_ip r, ir_name r, ir_ttl r)) (de_ip6 e))
          (map (fun r => (nr_name r, nr_cname r, nr_ttl r)) (de_cname e))
          (map (fun r => (ir_name r, ir_ip r, ir_ttl r)) (de_ptr e)).
Definition show_entry_dump (e : dns_entry) : string := show_cache (cache_of_entry e).

(* ---- rrs: DecodeAnswers on a fresh entry ---- *)
Definition show_rrs_res (r : res (Z * bool)) : string :=
  show_res (fun x => "ok:" ++ dec_of_Z (fst x) ++ ":" ++ show_bool (snd x)) r.

Fixpoint show_learned (l : list learned) : string :=
  match l with
  | [] => ""
  | LA o i t :: r => "A" ++ tok_of_bytes o ++ tok_of_bytes i ++ dec_of_N t ++ ";" ++ show_learned r
  | LAAAA o i t :: r => "Q" ++ tok_of_bytes o ++ tok_of_bytes i ++ dec_of_N t ++ ";" ++ show_learned r
  | LCNAME o i t :: r => "C" ++ tok_of_bytes o ++ "=" ++ tok_of_bytes i ++ dec_of_N t ++ ";" ++ show_learned r
  | LPTR o i t :: r => "P" ++ tok_of_bytes o ++ tok_of_bytes i ++ dec_of_N t ++ ";" ++ show_learned r
  | LSkip :: r => "S;" ++ show_learned r
  | LBad :: r => "B;" ++ show_learned r
  end.

(* answers of a DecodeAnswers call as the reference reads them: None = malformed *)
Definition ref_answers (lim : nat) (p : bytes) (off : nat) : option (list ref_rr * list learned * nat) :=
  match u16_at p 6 with
  | Some an =>
      match ref_rrs lim (N.to_nat an) p off with
      | Some (rrs, e) =>
          let ls := map (learn lim p) rrs in
          if existsb is_bad ls then None else Some (rrs, ls, e)
      | None => None
      end
  | None => None
  end.

Definition show_ref_answers (x : option (list ref_rr * list learned * nat)) : string :=
  match x with
  | None => "none"
  | Some (_, ls, e) => show_learned ls ++ dec_of_nat e
  end.

(* leniency: a PTR owner with a '.' inside a label (dnsmessage rejects such names; the library reads
   the dotted text): unconstrained *)
Definition has_dot (l : bytes) : bool := existsb (fun c => c =? 46) l.
Definition ptr_dot_owner (rrs : list ref_rr) : bool :=
  existsb (fun r => (rr_type r =? 12) && existsb has_dot (rr_owner r)) rrs.

Definition run_rrs (p spare : bytes) (off : Z) (pre : bytes) (n : nat) : string :=
  let ps := mk_slice p spare in
  let buffer := mk_buffer pre n in
  let e0 := new_entry [] in
  let r := decodeAnswers ps off buffer e0 in
  let mobs := sp (show_rrs_res (fst r)) (show_entry_dump (snd r)) in
  let strict := if (off <? 0)%Z then None else ref_answers NAME_LIMIT p (Z.to_nat off) in
  let lax := if (off <? 0)%Z then None else ref_answers LAX p (Z.to_nat off) in
  let spec :=
    if Nat.ltb (List.length p) 12 then mobs
    else if (off <? 0)%Z then mobs   (* negative offset: API misuse, unconstrained *)
    else if negb (String.eqb (show_ref_answers strict) (show_ref_answers lax)) then mobs
    else match strict with
         | None => reject_as (is_err (fst r)) mobs
         | Some (_, ls, e) =>
             let '(c, u) := learn_all cache_empty false ls in
             sp ("ok:" ++ dec_of_nat e ++ ":" ++ show_bool u) (show_cache c)
         end in
  out3 mobs spec "-".

(* ---- pdns: ProcessDNS history on one handler ---- *)
Definition show_ret (r : res (option dns_entry)) : string :=
  show_res (fun x => match x with
                     | None => "none"
                     | Some e => "upd:" ++ tok_of_bytes (de_name e) ++ ">" ++ show_entry_dump e
                     end) r.

Definition named : Type := (bytes * cache)%type.
Fixpoint ins_named (x : named) (l : list named) : list named :=
  match l with
  | [] => [x]
  | y :: r => if bytes_ltb (fst x) (fst y) then x :: l else y :: ins_named x r
  end.
Definition show_table_c (t : list named) : string :=
  join "|" (map (fun x => tok_of_bytes (fst x) ++ ">" ++ show_cache (snd x)) (fold_right ins_named [] t)).
Definition ctable_of (t : dns_table) : list named := map (fun e => (de_name e, cache_of_entry e)) t.

Definition show_ref_msg (x : option ref_msg) : string :=
  match x with None => "none" | Some m => tok_of_bytes (rm_qname m) ++ ">" ++ show_learned (rm_learned m) end.

Definition msg_ptr_dot (p : bytes) : bool :=
  match u16_at p 6, ref_question_at LAX p 12 with
  | Some an, Some (_, off) =>
      match ref_rrs LAX (N.to_nat an) p off with
      | Some (rrs, _) => ptr_dot_owner rrs
      | None => false
      end
  | _, _ => false
  end.

(* one step: model, spec expectation (given the spec table), key *)
Definition pdns_step (t : dns_table) (st : list named) (p spare : bytes)
  : dns_table * list named * string * string * string :=
  let ps := mk_slice p spare in
  let '(r, t') := processDNS t ps in
  let mobs := show_ret r in
  let strict := ref_message NAME_LIMIT p in
  let lax := ref_message LAX p in
  let unconstrained := negb (String.eqb (show_ref_msg strict) (show_ref_msg lax)) in
  let '(sobs, st') :=
    if unconstrained then (mobs, ctable_of t')
    else match strict with
         | None => (reject_as (is_err r) mobs, ctable_of t')
         | Some m =>
             let '(ret, st1) := ref_process st m in
             (match ret with
              | Some (k, c1) => "upd:" ++ tok_of_bytes k ++ ">" ++ show_cache c1
              | None => "none"
              end, st1)
         end in
  let key := "-" in
  (* after a step on which spec and implementation differ the spec table follows the model *)
  let st'' := if String.eqb mobs sobs then st' else ctable_of t' in
  (t', st'', mobs, sobs, key).

Fixpoint run_pdns (msgs : list string) (t : dns_table) (st : list named)
         (macc sacc : list string) (key : string) : option (string * string * string) :=
  match msgs with
  | [] => Some (sp (join ";" (rev macc)) (show_table_c (ctable_of t)),
                sp (join ";" (rev sacc)) (show_table_c st), key)
  | m :: r =>
      match split ":"%char m with
      | [a; b] =>
          match bytes_of_tok a, bytes_of_tok b with
          | Some p, Some spare =>
              let '(t', st', mobs, sobs, k) := pdns_step t st p spare in
              (* one key per line: the first deviating step's, unless some deviating step has none *)
              let dev := negb (String.eqb mobs sobs) in
              let key' := if negb dev then key
                          else if String.eqb k "-" then "unexplained"
                          else if String.eqb key "-" then k else key in
              run_pdns r t' st' (mobs :: macc) (sobs :: sacc) key'
          | _, _ => None
          end
      | _ => None
      end
  end.

(* ---- nbns: name extracted from a NODE STATUS answer ---- *)
Definition show_nbns (x : option bytes) : string :=
  match x with None => "none" | Some n => "name:" ++ tok_of_bytes n end.

Definition run_nbns (b : bytes) : string :=
  let r := nbns_answer_name (of_bytes b) in
  let mobs := show_res show_nbns r in
  let sobs := show_nbns (node_status_name b) in
  out3 mobs sobs "-".

(* ---- nbenc / nbdec / nna: NetBIOS first-level encoding, whole node-name list ---- *)
Definition run_nbenc (n : bytes) : string :=
  let m := tok_of_bytes (encodeNBNSName n) in
  (* names longer than 16 octets are outside RFC 1001: unconstrained *)
  out3 m (if Nat.ltb 16 (List.length n) then m else tok_of_bytes (nb_encode (nb_pad16 n))) "-".

Definition show_nbdec (x : nat * bytes) : string := sp (dec_of_nat (fst x)) (tok_of_bytes (snd x)).

Definition run_nbdec (b spare : bytes) : string :=
  let r := decodeNBNSName (mk_slice b spare) in
  let mobs := show_res show_nbdec r in
  let sobs := match nb_decode b with
              | Some raw => show_nbdec (33%nat, present_spaces raw)
              | None =>
                  (* no scope-less RFC 1001 name: a scoped name (longer buffer ending in 0) and characters
                     outside 'A'..'P' are decoded leniently; anything else must be an error *)
                  if is_err r then mobs
                  else if Nat.ltb 34 (List.length b) then mobs
                  else if match nb_decode_pairs (firstn 32 (skipn 1 b)) with None => true | Some _ => false end then mobs
                  else REJECT
              end in
  out3 mobs sobs "-".

Definition show_names (l : list bytes) : string :=
  match l with [] => "none" | _ => join "," (map tok_of_bytes l) end.

Definition run_nna (b : bytes) : string :=
  let r := parseNodeNameArray (of_bytes b) in
  let mobs := show_res show_names r in
  let sobs := match node_status_names b with
              | Some l => show_names l
              | None => reject_as (is_err r) mobs
              end in
  out3 mobs sobs "-".

(* ---- mdns: ProcessMDNS histories on one handler ---- *)
Definition comma : ascii := ","%char.
Definition fqdn (n : bytes) : bytes := (n ++ [46])%list.

(* TXT RDATA -> character strings (done by dnsmessage for the implementation) *)
Fixpoint txt_strings (fuel : nat) (b : bytes) : list bytes :=
  match fuel, b with
  | S f, l :: r => firstn (N.to_nat l) r :: txt_strings f (skipn (N.to_nat l) r)
  | _, _ => []
  end.

Definition parse_item (it : string) : option (option bytes * option (string * mres)) :=
  match split ":"%char it with
  | [k; n] => if String.eqb k "q" then option_map (fun x => (Some (fqdn x), None)) (bytes_of_tok n) else None
  | [sec; ty; n; d] =>
      match bytes_of_tok n, bytes_of_tok d with
      | Some n', Some d' =>
          let body := if String.eqb ty "A" then MB_A d' else if String.eqb ty "Q" then MB_AAAA d'
                      else if String.eqb ty "T" then MB_TXT (txt_strings (S (List.length d')) d') else MB_other in
          Some (None, Some (sec, mkRes (fqdn n') body))
      | _, _ => None
      end
  | _ => None
  end.

Fixpoint parse_items (its : list string) : option (list bytes * list (string * mres)) :=
  match its with
  | [] => Some ([], [])
  | it :: r =>
      if String.eqb it "-" then parse_items r else
      match parse_item it, parse_items r with
      | Some (q, rs), Some (qs, rss) =>
          Some (match q with Some x => x :: qs | None => qs end, match rs with Some x => x :: rss | None => rss end)
      | _, _ => None
      end
  end.

(* step = id,R|Q,comp,items[,now]  — now: seconds on the harness' virtual clock (default 0) *)
Definition parse_step (st : string) : option (mmsg * Z) :=
  let mk := fun id qr items now =>
    match N_of_dec id, parse_items (split "/"%char items), Z_of_dec now with
    | Some id', Some (qs, rs), Some now' =>
        (* the wire carries the sections in the order answer, authority, additional *)
        let sect := fun k => map snd (filter (fun x => String.eqb (fst x) k) rs) in
        Some (mkMsg id' (String.eqb qr "R") qs (sect "a" ++ sect "n" ++ sect "r")%list, now')
    | _, _, _ => None
    end in
  match split comma st with
  | [id; qr; _; items] => mk id qr items "0"
  | [id; qr; _; items; now] => mk id qr items now
  | _ => None
  end.

Definition show_ipn (e : ipname) : string :=
  tok_of_bytes (in_ip e) ++ "=" ++ tok_of_bytes (in_name e) ++ "=" ++ tok_of_bytes (in_model e) ++ "=" ++ tok_of_bytes (in_manu e).
Definition show_mdns (r : list ipname * list ipname) : string :=
  "4:" ++ join "," (map show_ipn (fst r)) ++ "|6:" ++ join "," (map show_ipn (snd r)).

(* reference names with the attributes of the model's entries *)
Fixpoint with_names (l : list ipname) (ref : list (bytes * bytes)) : list ipname :=
  match l, ref with
  | e :: l', (ip, n) :: r' => mkIPN ip n (in_model e) (in_manu e) :: with_names l' r'
  | [], (ip, n) :: r' => mkIPN ip n [] [] :: with_names [] r'
  | _, [] => []
  end.

Definition spec_mdns (c : mcache_t) (mac : bytes) (now : Z) (m : mmsg) (r : list ipname * list ipname) : string :=
  if negb (mm_response m) then
    match fst r with
    | e :: _ => show_mdns ([mkIPN [] (ref_query_name (mm_questions m)) [] (in_manu e)], [])
    | [] => if nonempty (ref_query_name (mm_questions m)) then "missing-query-name" else show_mdns r
    end
  else if match cache_find c mac (mm_id m) with Some expiry => (now <? expiry)%Z | None => false end then show_mdns ([], [])
  else show_mdns (with_names (fst r) (ref_mdns_v4 (mm_resources m)), with_names (snd r) (ref_mdns_v6 (mm_resources m))).

Fixpoint run_mdns (steps : list string) (c : mcache_t) (mac : bytes) (macc sacc : list string) : option (string * string) :=
  match steps with
  | [] => Some (join ";" (rev macc), join ";" (rev sacc))
  | st :: r =>
      match parse_step st with
      | Some (m, now) =>
          let '(res, c') := processMDNS_at c mac now m in
          run_mdns r c' mac (show_mdns res :: macc) (spec_mdns c mac now m res :: sacc)
      | None => None
      end
  end.

(* ---- merge / upd ---- *)


Definition parse_entry (f : list string) : option NameEntry :=
  match f with
  | [t; n; m; ma; o; e] =>
      match bytes_of_tok t, bytes_of_tok n, bytes_of_tok m, bytes_of_tok ma, bytes_of_tok o, N_of_dec e with
      | Some t', Some n', Some m', Some ma', Some o', Some e' => Some (mkNE t' n' m' ma' o' e')
      | _, _, _, _, _, _ => None
      end
  | _ => None
  end.

Definition show_entry (e : NameEntry) : string :=
  join "," [tok_of_bytes (ne_type e); tok_of_bytes (ne_name e); tok_of_bytes (ne_model e);
            tok_of_bytes (ne_manufacturer e); tok_of_bytes (ne_os e); dec_of_N (ne_expire e)].

Definition source_of (n : N) : option source :=
  if n =? 0 then Some SDHCP4 else if n =? 1 then Some SLLMNR else if n =? 2 then Some SMDNS
  else if n =? 3 then Some SSSDP else if n =? 4 then Some SNBNS else None.

(* history over hosts sharing ONE MAC entry: state = per-host (names, dirty) list + MAC names *)
Definition hosts_t : Type := list (names * bool).

Fixpoint set_host (i : nat) (v : names * bool) (l : hosts_t) : hosts_t :=
  match l, i with
  | [], _ => []
  | _ :: r, O => v :: r
  | x :: r, S i' => x :: set_host i' v r
  end.

Definition step_upd (hs : hosts_t) (mac : names) (h : nat) (s : source) (n : NameEntry)
  : hosts_t * names * string :=
  let cur := nth h hs (names_zero, false) in
  let st := update s (mkH (fst cur) (snd cur) mac) n in
  (set_host h (h_names st, h_dirty st) hs, m_names st,
   "d" ++ show_bool (h_dirty st) ++ ":" ++ show_entry (nget s (h_names st)) ++ "|" ++ show_entry (nget s (m_names st))).

Fixpoint run_upd (ops : list string) (hs : hosts_t) (mac : names) : option (list string) :=
  match ops with
  | [] => Some []
  | o :: r =>
      match split comma o with
      | h :: s :: ent =>
          match nat_of_dec h, option_map source_of (N_of_dec s), parse_entry ent with
          | Some h', Some (Some s'), Some n =>
              let '(hs', mac', obs) := step_upd hs mac h' s' n in
              option_map (cons obs) (run_upd r hs' mac')
          | _, _, _ => None
          end
      | _ => None
      end
  end.

Definition dispatch (kind : string) (args : list string) : string :=
  if String.eqb kind "dq" then
    match args with
    | [p; spare; index; pre; n] =>
        match bytes_of_tok p, bytes_of_tok spare, Z_of_dec index, bytes_of_tok pre, nat_of_dec n with
        | Some p', Some spare', Some index', Some pre', Some n' =>
            run_dq p' spare' index' pre' n'
        | _, _, _, _, _ => BADARGS
        end
    | _ => BADARGS
    end
  else if String.eqb kind "rrs" then
    match args with
    | [p; spare; off; pre; n] =>
        match bytes_of_tok p, bytes_of_tok spare, Z_of_dec off, bytes_of_tok pre, nat_of_dec n with
        | Some p', Some spare', Some off', Some pre', Some n' => run_rrs p' spare' off' pre' n'
        | _, _, _, _, _ => BADARGS
        end
    | _ => BADARGS
    end
  else if String.eqb kind "pdns" then
    match args with
    | [msgs] =>
        match run_pdns (split ";"%char msgs) [] [] [] [] "-" with
        | Some (m, s, k) => out3 m s k
        | None => BADARGS
        end
    | _ => BADARGS
    end
  else if String.eqb kind "nbns" then
    match args with
    | [b] => match bytes_of_tok b with Some b' => run_nbns b' | None => BADARGS end
    | _ => BADARGS
    end
  else if String.eqb kind "consts" then
    (* consts <name> <value read from the Go source> *)
    match args with
    | [k; v] =>
        match const_lookup k dns_consts, N_of_dec v with
        | Some mv, Some sv => out3 (if mv =? sv then "ok" else "model-has:" ++ dec_of_N mv) "-" "-"
        | None, _ => out3 "unknown-constant" "-" "-"
        | _, None => BADARGS
        end
    | _ => BADARGS
    end
  else if String.eqb kind "mdns" then
    match args with
    | [mac; steps] =>
        match bytes_of_tok mac with
        | Some mac' => match run_mdns (split ";"%char steps) [] mac' [] [] with
                       | Some (m, sp') => out3 m sp' "-"
                       | None => BADARGS
                       end
        | None => BADARGS
        end
    | _ => BADARGS
    end
  else if String.eqb kind "nbenc" then
    match args with
    | [b] => match bytes_of_tok b with Some b' => run_nbenc b' | None => BADARGS end
    | _ => BADARGS
    end
  else if String.eqb kind "nbdec" then
    match args with
    | [b; sp'] => match bytes_of_tok b, bytes_of_tok sp' with Some b', Some s' => run_nbdec b' s' | _, _ => BADARGS end
    | _ => BADARGS
    end
  else if String.eqb kind "nna" then
    match args with
    | [b] => match bytes_of_tok b with Some b' => run_nna b' | None => BADARGS end
    | _ => BADARGS
    end
  else if String.eqb kind "merge" then
    match args with
    | [e; n] =>
        match parse_entry (split comma e), parse_entry (split comma n) with
        | Some e', Some n' =>
            let r := merge e' n' in
            out3 (sp (show_entry (fst r)) (show_bool (snd r))) "-" "-"
        | _, _ => BADARGS
        end
    | _ => BADARGS
    end
  else if String.eqb kind "upd" then
    match args with
    | [ops] =>
        match run_upd (split ";"%char ops) (repeat (names_zero, false) 3) names_zero with
        | Some l => out3 (join ";" l) "-" "-"
        | None => BADARGS
        end
    | _ => BADARGS
    end
  else BADARGS.

Definition dispatch_line (l : string) : string :=
  match words l with
  | k :: args => dispatch k args
  | [] => BADARGS
  end.
