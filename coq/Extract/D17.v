(* Extract/D17.v — text-line interpreter of the C17 model and spec. *)
From PV Require Import Base.Slice Model.DNS Model.DNSMerge Base.Text.
Open Scope string_scope.
Open Scope N_scope.

Definition TAB : string := String (ascii_of_N 9) EmptyString.
Definition out3 (m s k : string) : string := m ++ TAB ++ s ++ TAB ++ k.

Definition sp (a b : string) : string := a ++ " " ++ b.

(* slice with spare capacity *)
Definition mk_slice (l spare : bytes) : slice := of_bytes_cap l spare.
(* make([]byte, len(pre), len(pre)+n) holding pre *)
Definition mk_buffer (pre : bytes) (n : nat) : slice := of_bytes_cap pre (repeat 0 n).

(* ---- dq: DecodeQuestion ---- *)
Definition show_question (r : question * nat) : string :=
  let q := fst r in
  sp (tok_of_bytes (q_name q)) (sp (dec_of_N (q_type q)) (sp (dec_of_N (q_class q)) (dec_of_nat (snd r)))).

Definition run_dq (p spare : bytes) (index : Z) (pre : bytes) (n : nat) : string :=
  show_res show_question (decodeQuestion (mk_slice p spare) index (mk_buffer pre n)).

(* ---- merge / upd ---- *)
Definition comma : ascii := ","%char.

Definition parse_entry (f : list string) : option NameEntry :=
  match f with
  | [t; n; m; ma; o; e] =>
      match bytes_of_tok t, bytes_of_tok n, bytes_of_tok m, bytes_of_tok ma, bytes_of_tok o, N_of_dec e with
      | Some t', Some n', Some m', Some ma', Some o', Some e' => Some (mkNE t' n' m' ma' o' e')
      | _, _, _, _, _, _ => None
      end
  | _ => None
  end.

Definition show_entry (e : NameEntry) : string :=
  join "," [tok_of_bytes (ne_type e); tok_of_bytes (ne_name e); tok_of_bytes (ne_model e);
            tok_of_bytes (ne_manufacturer e); tok_of_bytes (ne_os e); dec_of_N (ne_expire e)].

Definition source_of (n : N) : option source :=
  if n =? 0 then Some SDHCP4 else if n =? 1 then Some SLLMNR else if n =? 2 then Some SMDNS
  else if n =? 3 then Some SSSDP else if n =? 4 then Some SNBNS else None.

(* history over hosts sharing ONE MAC entry: state = per-host (names, dirty) list + MAC names *)
Definition hosts_t : Type := list (names * bool).

Fixpoint set_host (i : nat) (v : names * bool) (l : hosts_t) : hosts_t :=
  match l, i with
  | [], _ => []
  | _ :: r, O => v :: r
  | x :: r, S i' => x :: set_host i' v r
  end.

Definition step_upd (hs : hosts_t) (mac : names) (h : nat) (s : source) (n : NameEntry)
  : hosts_t * names * string :=
  let cur := nth h hs (names_zero, false) in
  let st := update s (mkH (fst cur) (snd cur) mac) n in
  (set_host h (h_names st, h_dirty st) hs, m_names st,
   "d" ++ show_bool (h_dirty st) ++ ":" ++ show_entry (nget s (h_names st)) ++ "|" ++ show_entry (nget s (m_names st))).

Fixpoint run_upd (ops : list string) (hs : hosts_t) (mac : names) : option (list string) :=
  match ops with
  | [] => Some []
  | o :: r =>
      match split comma o with
      | h :: s :: ent =>
          match nat_of_dec h, option_map source_of (N_of_dec s), parse_entry ent with
          | Some h', Some (Some s'), Some n =>
              let '(hs', mac', obs) := step_upd hs mac h' s' n in
              option_map (cons obs) (run_upd r hs' mac')
          | _, _, _ => None
          end
      | _ => None
      end
  end.

Definition dispatch (kind : string) (args : list string) : string :=
  if String.eqb kind "dq" then
    match args with
    | [p; spare; index; pre; n] =>
        match bytes_of_tok p, bytes_of_tok spare, Z_of_dec index, bytes_of_tok pre, nat_of_dec n with
        | Some p', Some spare', Some index', Some pre', Some n' =>
            out3 (run_dq p' spare' index' pre' n') "-" "-"
        | _, _, _, _, _ => BADARGS
        end
    | _ => BADARGS
    end
  else if String.eqb kind "merge" then
    match args with
    | [e; n] =>
        match parse_entry (split comma e), parse_entry (split comma n) with
        | Some e', Some n' =>
            let r := merge e' n' in
            out3 (sp (show_entry (fst r)) (show_bool (snd r))) "-" "-"
        | _, _ => BADARGS
        end
    | _ => BADARGS
    end
  else if String.eqb kind "upd" then
    match args with
    | [ops] =>
        match run_upd (split ";"%char ops) (repeat (names_zero, false) 3) names_zero with
        | Some l => out3 (join ";" l) "-" "-"
        | None => BADARGS
        end
    | _ => BADARGS
    end
  else BADARGS.

Definition dispatch_line (l : string) : string :=
  match words l with
  | k :: args => dispatch k args
  | [] => BADARGS
  end.
