(* Extract/D15.v — executable entry points of the C15 model and spec, as a
   text-line interpreter used by the extracted driver and by kernel replay. *)
From PV Require Import Base.Text Model.Checksum Spec.OnesComplement.
Open Scope string_scope.
Open Scope N_scope.

(* output: model observation, TAB, spec expectation (or "-"), TAB, known-finding key (or "-") *)
Definition TAB : string := String (ascii_of_N 9) EmptyString.
Definition out3 (m s k : string) : string := m ++ TAB ++ s ++ TAB ++ k.

Definition dispatch (kind : string) (args : list string) : string :=
  if String.eqb kind "cs" then
    match args with
    | [h] => match bytes_of_tok h with
             | Some b => out3 (dec_of_N (checksum b)) (dec_of_N (swap16 (rfc1071 b))) "-"
             | None => BADARGS
             end
    | _ => BADARGS
    end
  else if String.eqb kind "ip4calc" then
    (* IP4.CalculateChecksum on a 20-byte header *)
    match args with
    | [h] => match bytes_of_tok h with
             | Some b => out3 (dec_of_N (ip4_calc_checksum b)) "-" "-"
             | None => BADARGS
             end
    | _ => BADARGS
    end
  else if String.eqb kind "ip4store" then
    (* header after the checksum write; spec: it must verify *)
    match args with
    | [h] => match bytes_of_tok h with
             | Some b => let r := ip4_store_checksum b in
                         out3 (tok_of_bytes r) "-" "-"
             | None => BADARGS
             end
    | _ => BADARGS
    end
  else if String.eqb kind "ip4store2" then
    (* re-completion: mode S|A (SetPayload / AppendPayload) on a header whose checksum field may already be
       filled (a second completion of the same header, or a header taken from the wire) *)
    match args with
    | [_; h] => match bytes_of_tok h with
                | Some b => let r := ip4_store_checksum b in
                            out3 (tok_of_bytes r) "-" "-"
                | None => BADARGS
                end
    | _ => BADARGS
    end
  else if String.eqb kind "verify" then
    (* spec-only: does this byte string verify under RFC 1071 *)
    match args with
    | [h] => match bytes_of_tok h with
             | Some b => out3 (show_bool (verifiesb b)) "-" "-"
             | None => BADARGS
             end
    | _ => BADARGS
    end
  else if String.eqb kind "icmp4fin" then
    (* icmp4SendPacket: ICMP(p).SetChecksum(Checksum(p)) on a message whose checksum field is zero *)
    match args with
    | [h] => match bytes_of_tok h with
             | Some p => let r := icmp_set_checksum p (checksum p) in
                         out3 (tok_of_bytes r ++ " " ++ show_bool (verifiesb r)) "-" "-"
             | None => BADARGS
             end
    | _ => BADARGS
    end
  else if String.eqb kind "icmp6fin" then
    (* icmp6SendPacket: checksum over the 40-byte pseudo header ++ message, stored in the message *)
    match args with
    | [s; d; h] =>
        match bytes_of_tok s, bytes_of_tok d, bytes_of_tok h with
        | Some src, Some dst, Some p =>
            let psh := icmp6_pseudo src dst (N.of_nat (List.length p)) in
            let r := icmp_set_checksum p (checksum (psh ++ p)%list) in
            out3 (tok_of_bytes r ++ " " ++ show_bool (verifiesb (psh ++ r)%list)) "-" "-"
        | _, _, _ => BADARGS
        end
    | _ => BADARGS
    end
  else if String.eqb kind "cssplit" then
    (* cssplit <hex> <k>: Checksum of the two pieces b[:k], b[k:] of ONE buffer, then of the whole buffer.
       model: the three values of the pure function; spec: the whole as the one's-complement combination of
       the parts (C15_split: the second part shifted by one byte when k is odd) *)
    match args with
    | [h; ks] =>
        match bytes_of_tok h, N_of_dec ks with
        | Some b, Some kN =>
            let k := N.to_nat kN in
            let a := firstn k b in let t := skipn k b in
            let c1 := checksum a in let c2 := checksum t in
            let comb := 65535 - oc_add (65535 - c1) (65535 - checksum (if Nat.even (List.length a) then t else (0 :: t)%list)) in
            out3 (dec_of_N c1 ++ " " ++ dec_of_N c2 ++ " " ++ dec_of_N (checksum b))
                 (dec_of_N c1 ++ " " ++ dec_of_N c2 ++ " " ++ dec_of_N comb) "-"
        | _, _ => BADARGS
        end
    | _ => BADARGS
    end
  else BADARGS.

Definition dispatch_line (l : string) : string :=
  match words l with
  | k :: args => dispatch k args
  | [] => BADARGS
  end.
