(* Extract/D10.v — text interpreter of the C10 aliasing model.
   Case line:   h FILL STP OP OP ...
     FILL STP   scribble pattern written over the whole shared receive buffer after every
                packet (byte i = FILL + i*STP mod 256)
     OP (fields separated by ':'; loc = off.len; labs = loc+loc+.. ; '-' = absent / empty)
       p:<frame>                                        frame seen by Parse + Notify only
       d:<frame>:<type>:<cid loc>:<name loc>:<reqip loc>:<cls>:<res>:<yiaddr hex>:<lease ip hex>   DHCP (oracle: cls/res/yiaddr/lease ip)
       r:<frame>:<slla off>:<plen.off,..>:<rdnss off,..>:<dnssl labs;labs>:<route plen.off>   router advertisement
       n:<frame>:<qname labs>:<rr;rr..>                 DNS response; rr = a,labs,off | q,labs,off | c,labs,labs | p,labs,<ip hex>
       m:<frame>:<T|F>:<id off>:<qnames labs;..>:<labs,off,n;..>:<model loc>          mDNS (l: = LLMNR)
       b:<frame>:<name loc>                             NBNS node status response
       s:<frame>:<model hex>:<manuf hex>:<os hex>       SSDP M-SEARCH (user-agent constants)
       c:<frame> / e:<frame>                            the application calls Session.Capture / Release(frame.SrcAddr.MAC)
       a:<frame>:<ip loc>:<name loc>                    ... Session.DHCPv4Update(frame.SrcAddr.MAC, address, name from the packet)
       f:<frame>:<ip loc>:<name loc>                    ... Session.SetDHCPv4IPOffer(frame.SrcAddr.MAC, address, name)
       x:<key>,<key>,..    purge deleting these hosts   o:<key>   purge taking this host offline
       u:<ip>              dhcp StartHunt               q         table dump
   Answer: column 1 = "T|F <transcript of the shared-buffer run>" (flag = equals the fresh-buffer run),
           column 2 = "T <transcript of the fresh-buffer run>" (what C10 demands),
           column 3 = known-finding key or "-". *)
From PV Require Import Base.Text Model.Alias Model.AliasHunt.
Open Scope string_scope.
Open Scope N_scope.

Definition TAB : string := String (ascii_of_N 9) EmptyString.
Definition out3 (m s k : string) : string := m ++ TAB ++ s ++ TAB ++ k.

Fixpoint opt_all {A} (l : list (option A)) : option (list A) :=
  match l with
  | [] => Some []
  | Some x :: r => option_map (cons x) (opt_all r)
  | None :: _ => None
  end.
Definition obind {A B} (o : option A) (f : A -> option B) : option B :=
  match o with Some x => f x | None => None end.
Notation "x <-- e1 ;; e2" := (obind e1 (fun x => e2)) (at level 61, e1 at next level, right associativity).

Definition is_dash (t : string) : bool := String.eqb t "-".
(* a separated list; "-" is the empty list *)
Definition p_list {A} (sep : ascii) (f : string -> option A) (t : string) : option (list A) :=
  if is_dash t then Some [] else opt_all (map f (split sep t)).
(* an optional field; "-" is absent *)
Definition p_opt {A} (f : string -> option A) (t : string) : option (option A) :=
  if is_dash t then Some None else option_map Some (f t).

Definition p_pair (sep : ascii) (t : string) : option (nat * nat) :=
  match split sep t with
  | [a; b] => x <-- nat_of_dec a ;; y <-- nat_of_dec b ;; Some (x, y)
  | _ => None
  end.
Definition p_loc : string -> option loc := p_pair "."%char.
Definition p_labs : string -> option (list loc) := p_list "+"%char p_loc.

Definition p_rr (t : string) : option dnsrr :=
  match split ","%char t with
  | [k; a; b] =>
      if String.eqb k "a" then n <-- p_labs a ;; off <-- nat_of_dec b ;; Some (RR_A n off)
      else if String.eqb k "q" then n <-- p_labs a ;; off <-- nat_of_dec b ;; Some (RR_AAAA n off)
      else if String.eqb k "c" then n <-- p_labs a ;; c <-- p_labs b ;; Some (RR_CNAME n c)
      else if String.eqb k "p" then n <-- p_labs a ;; ip <-- bytes_of_tok b ;; Some (RR_PTR n ip)
      else None
  | _ => None
  end.

Definition p_arec (t : string) : option (list loc * nat * nat) :=
  match split ","%char t with
  | [a; b; c] => n <-- p_labs a ;; off <-- nat_of_dec b ;; k <-- nat_of_dec c ;; Some (n, off, k)
  | _ => None
  end.

Definition p_mdns (f : list string) : option mdnsmsg :=
  match f with
  | [resp; id; qn; ar; model] =>
      r <-- bool_of_tok resp ;; i <-- nat_of_dec id ;; q <-- p_list ";"%char p_labs qn ;;
      a <-- p_list ";"%char p_arec ar ;; m <-- p_opt p_loc model ;;
      Some {| mq_resp := r; mq_id := i; mq_qnames := q; mq_a := a; mq_model := m |}
  | _ => None
  end.

Definition parse_op (t : string) : option pop :=
  match split ":"%char t with
  | [k] => if String.eqb k "q" then Some (PLib LDump) else None
  | k :: a :: rest =>
      if String.eqb k "x" then
        match rest with [] => option_map (fun ks => PLib (LPurge ks)) (p_list ","%char bytes_of_tok a) | _ => None end
      else if String.eqb k "o" then
        match rest with [] => option_map (fun x => PLib (LOffline x)) (bytes_of_tok a) | _ => None end
      else if String.eqb k "u" then
        match rest with [] => option_map (fun x => PLib (LHunt x)) (bytes_of_tok a) | _ => None end
      else
        frame <-- bytes_of_tok a ;;
        kind <--
          (if String.eqb k "p" then match rest with [] => Some KPlain | _ => None end
           else if String.eqb k "d" then
             match rest with
             | [ty; cid; name; req; cls; res; yi; lip] =>
                 ty' <-- N_of_dec ty ;; cid' <-- p_opt p_loc cid ;; name' <-- p_opt p_loc name ;; req' <-- p_opt p_loc req ;;
                 cls' <-- N_of_dec cls ;; res' <-- N_of_dec res ;; yi' <-- bytes_of_tok yi ;; lip' <-- bytes_of_tok lip ;;
                 Some (KDhcp {| dm_type := ty'; dm_cid := cid'; dm_name := name'; dm_reqip := req'; dm_cls := cls'; dm_res := res'; dm_yi := yi'; dm_lip := lip' |})
             | _ => None
             end
           else if String.eqb k "r" then
             match rest with
             | [sl; pf; rd; sl2; rt] =>
                 sl' <-- p_opt nat_of_dec sl ;; pf' <-- p_list ","%char p_loc pf ;; rd' <-- p_list ","%char nat_of_dec rd ;;
                 ds' <-- p_list ";"%char p_labs sl2 ;; rt' <-- p_opt p_loc rt ;;
                 Some (KRa {| ra_slla := sl'; ra_prefixes := pf'; ra_rdnss := rd'; ra_dnssl := ds'; ra_route := rt' |})
             | _ => None
             end
           else if String.eqb k "n" then
             match rest with
             | [qn; rrs] => q <-- p_labs qn ;; r <-- p_list ";"%char p_rr rrs ;; Some (KDns {| dq_name := q; dq_rrs := r |})
             | _ => None
             end
           else if String.eqb k "m" then option_map KMdns (p_mdns rest)
           else if String.eqb k "l" then option_map KLlmnr (p_mdns rest)
           else if String.eqb k "b" then
             match rest with [l] => option_map KNbns (p_opt p_loc l) | _ => None end
           else if String.eqb k "c" then match rest with [] => Some KCapture | _ => None end
           else if String.eqb k "e" then match rest with [] => Some KRelease | _ => None end
           else if String.eqb k "a" then
             match rest with [i; n] => i' <-- p_loc i ;; n' <-- p_loc n ;; Some (KApiUpdate i' n') | _ => None end
           else if String.eqb k "f" then
             match rest with [i; n] => i' <-- p_loc i ;; n' <-- p_loc n ;; Some (KApiOffer i' n') | _ => None end
           else if String.eqb k "s" then
             match rest with
             | [a1; a2; a3] => x <-- bytes_of_tok a1 ;; y <-- bytes_of_tok a2 ;; z <-- bytes_of_tok a3 ;; Some (KSsdp x y z)
             | _ => None
             end
           else None) ;;
        Some (PRecv frame kind)
  | _ => None
  end.

Definition show_tr (l : list string) : string := join "|" l.

Definition run_case (fill stp : N) (ops : list pop) : string :=
  let scr := fun _ : nat => {| b_pre := []; b_fill := fill; b_stp := stp |} in
  let ta := show_tr (transcript std_cfg (shared_run scr 0 ops)) in
  let tb := show_tr (transcript std_cfg (fresh_run 0 ops)) in
  out3 (show_bool (String.eqb ta tb) ++ " " ++ ta) ("T " ++ tb) "-".

(* k6 FILL STP OP..   hunt list of the ICMPv6 spoofer: s:<frame> = StartHunt(frame.SrcAddr) on a received frame,
   t:<mac> = StopHunt of an owned MAC.  Observation: "T|F <running hunts, shared-buffer run>" *)
Definition parse_hop (t : string) : option hop :=
  match split ":"%char t with
  | [k; a] =>
      if String.eqb k "s" then option_map HStart (bytes_of_tok a)
      else if String.eqb k "t" then option_map HStop (bytes_of_tok a)
      else None
  | _ => None
  end.

Definition KEY_HUNT6 : string := "c10-hunt6-starthunt-addr-alias".

Definition run_hunt (fill stp : N) (ops : list hop) : string :=
  let scr := fun _ : nat => {| b_pre := []; b_fill := fill; b_stp := stp |} in
  let a := running hunt6_copies (hshared scr 0 ops) in
  let b := running hunt6_copies (hfresh 0 ops) in
  out3 (show_bool (Nat.eqb a b) ++ " " ++ dec_of_nat a) ("T " ++ dec_of_nat b)
       (if negb hunt6_copies && known_C10_hunt6 ops then KEY_HUNT6 else "-").

(* ka FILL STP OP..   hunt list of the ARP spoofer: s:<frame> = StartHunt(frame.SrcAddr) on an IPv4 frame,
   t:<mac> = StopHunt, w = one ticker period, r:<frame> = an ARP request seen by ProcessPacket.
   Observation: "T|F <items of every operation>" *)
Definition parse_h4op (t : string) : option h4op :=
  match split ":"%char t with
  | [k] => if String.eqb k "w" then Some A4Tick else None
  | [k; a] =>
      if String.eqb k "s" then option_map A4Start (bytes_of_tok a)
      else if String.eqb k "t" then option_map A4Stop (bytes_of_tok a)
      else if String.eqb k "r" then option_map A4Request (bytes_of_tok a)
      else None
  | _ => None
  end.

Definition run_hunt4 (fill stp : N) (ops : list h4op) : string :=
  let scr := fun _ : nat => {| b_pre := []; b_fill := fill; b_stp := stp |} in
  let show := fun t => join "|" (map items t) in
  let a := show (h4transcript hunt4_copies (c_router_ip std_cfg) (h4shared scr 0 ops)) in
  let b := show (h4transcript hunt4_copies (c_router_ip std_cfg) (h4fresh 0 ops)) in
  out3 (show_bool (String.eqb a b) ++ " " ++ a) ("T " ++ b) "-".

(* off: the field positions the model reads (the L_ constants of Model/Alias.v), compared with the library's getters on a pattern frame *)
Definition show_loc (n : string) (l : nat * nat) : string := n ++ "=" ++ dec_of_nat (fst l) ++ "." ++ dec_of_nat (snd l).
Definition offsets_table : string :=
  join " " [show_loc "ethsrc" L_ETH_SRC; show_loc "ip4src" L_IP4_SRC; show_loc "ip6src" L_IP6_SRC; show_loc "arpsha" L_ARP_SHA;
            show_loc "arpspa" L_ARP_SPA; show_loc "arptpa" L_ARP_TPA; show_loc "dhcpxid" L_DHCP_XID; show_loc "dhcpchaddr" L_DHCP_CHADDR].

Definition dispatch (kind : string) (args : list string) : string :=
  if String.eqb kind "off" then out3 offsets_table "-" "-"
  else if String.eqb kind "ka" then
    match args with
    | f :: s :: ops =>
        match N_of_dec f, N_of_dec s, opt_all (map parse_h4op ops) with
        | Some fill, Some stp, Some l => run_hunt4 fill stp l
        | _, _, _ => BADARGS
        end
    | _ => BADARGS
    end
  else if String.eqb kind "k6" then
    match args with
    | f :: s :: ops =>
        match N_of_dec f, N_of_dec s, opt_all (map parse_hop ops) with
        | Some fill, Some stp, Some l => run_hunt fill stp l
        | _, _, _ => BADARGS
        end
    | _ => BADARGS
    end
  else if String.eqb kind "hm" then
    (* histories with truncated / corrupted frames: differential only (shared scribbled buffer = private buffers) *)
    out3 "T" "-" "-"
  else if String.eqb kind "hw" then
    (* private buffers; the application overwrites every byte slice it gets back by value: nothing may change *)
    match args with
    | f :: s :: ops =>
        match opt_all (map parse_op ops) with
        | Some l => out3 ("T " ++ show_tr (transcript std_cfg (fresh_run 0 l))) "-" "-"
        | None => BADARGS
        end
    | _ => BADARGS
    end
  else if String.eqb kind "h" || String.eqb kind "hl" then   (* hl: the harness leaves notifications queued across packets *)
    match args with
    | f :: s :: ops =>
        match N_of_dec f, N_of_dec s, opt_all (map parse_op ops) with
        | Some fill, Some stp, Some l => run_case fill stp l
        | _, _, _ => BADARGS
        end
    | _ => BADARGS
    end
  else BADARGS.

Definition dispatch_line (l : string) : string :=
  match words l with
  | k :: args => dispatch k args
  | [] => BADARGS
  end.
