(* Extract/D10.v — text interpreter of the C10 aliasing model.
   Case line:   h FILL STP OP OP ...
     FILL STP   scribble pattern written over the whole shared receive buffer after every
                packet (byte i = FILL + i*STP mod 256)
     OP         p:<framehex>           a received frame (Parse, handlers, Notify)
                x:<key>,<key>,...      purge deleting these hosts (keys = address bytes, hex)
                q                      table dump
   Answer: column 1 = "T|F <transcript of the shared-buffer run>" (flag = equals the fresh-buffer run),
           column 2 = "T <transcript of the fresh-buffer run>" (what C10 demands),
           column 3 = known-finding key or "-". *)
From PV Require Import Base.Text Model.Alias.
Open Scope string_scope.
Open Scope N_scope.

Definition TAB : string := String (ascii_of_N 9) EmptyString.
Definition out3 (m s k : string) : string := m ++ TAB ++ s ++ TAB ++ k.

Fixpoint opt_all {A} (l : list (option A)) : option (list A) :=
  match l with
  | [] => Some []
  | Some x :: r => option_map (cons x) (opt_all r)
  | None :: _ => None
  end.

Definition parse_op (t : string) : option pop :=
  match split ":"%char t with
  | [k] => if String.eqb k "q" then Some (PLib LDump) else None
  | [k; a] =>
      if String.eqb k "p" then option_map PRecv (bytes_of_tok a)
      else if String.eqb k "x" then
        option_map (fun ks => PLib (LPurge ks)) (opt_all (map bytes_of_tok (split ","%char a)))
      else None
  | _ => None
  end.

Definition show_tr (l : list string) : string := join "|" l.

Definition run_case (fill stp : N) (ops : list pop) : string :=
  let scr := fun _ : nat => {| b_pre := []; b_fill := fill; b_stp := stp |} in
  let ta := show_tr (transcript std_cfg (shared_run scr 0 ops)) in
  let tb := show_tr (transcript std_cfg (fresh_run 0 ops)) in
  out3 (show_bool (String.eqb ta tb) ++ " " ++ ta) ("T " ++ tb) "-".

Definition dispatch (kind : string) (args : list string) : string :=
  if String.eqb kind "h" then
    match args with
    | f :: s :: ops =>
        match N_of_dec f, N_of_dec s, opt_all (map parse_op ops) with
        | Some fill, Some stp, Some l => run_case fill stp l
        | _, _, _ => BADARGS
        end
    | _ => BADARGS
    end
  else BADARGS.

Definition dispatch_line (l : string) : string :=
  match words l with
  | k :: args => dispatch k args
  | [] => BADARGS
  end.
