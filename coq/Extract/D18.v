(* Extract/D18.v — text-line interpreter of the C18 model (lease file persistence).

   new <cfg> <captured> nofile|err|doc|docok|docbad <net1> <net2> <lease>*
        doc = text without a checksum line, docok = checksum line matches, docbad = checksum line does not match
        cfg      = home,host,router,netfilter,dns          (prefix,addr,addr,prefix,addr)
        captured = - | mac+mac+...                         (hex MACs the session reports as captured)
        net      = nil | lan,gw,dhcp,dns,first,dur,stage
        lease    = cid,state,mac,ip,expiry
        addr     = x | 4_<dec> | 6_<dec>_<zonehex|->       prefix = x | <addr>/<bits>
      observation: ok <net1> <net2> <lease;lease;...|->  (nofile: nofile <leases>)   (lease = cid,mac,ip,sub,expiry sorted by cid)
                 | err | panic
   newt <cfg> <captured> <hex text> err|doc ...   as new; the text is what the implementation is given,
        the document what yaml.Unmarshal made of it (computed by the harness)
   renew <captured> <net1> <net2> <hosts> <now> <cid> <mac> <ciaddr> <lease6>*
   offer <captured> <net1> <net2> <hosts> <now> <cid> <mac> <reqip> <lease6>*
        hosts  = - | addr=mac+addr=mac...   (session host table: address and MAC of each tracked host)
        lease6 = cid,state,mac,ip,expiry,sub      (the in-memory table in client-id order)
        net1/net2 are the validated configurations the handler carries (as it saves them); nextIP is the
        zero Addr (handler just constructed)
      observation: ack <addr> | offer <addr> | nak | none | fuel
   cont MODE HOSTIP HOSTMAC ROUTERIP ROUTERMAC HOMEIP HOMEBITS NFIP NFBITS DNS <n> <rlease>*n <op>*
        a continuation history after a restart, run by the DHCP cluster's model (Model/DHCP.v [run]) from the
        restored state: table = the n restored leases (rlease = cid,mac,ip,net,expiry-seconds, all Allocated),
        cursors at FirstIP, session = NewSession (own host + router) — ops in Model/DHCPShow.v's format
        (leading C,mac ops set the capture state)
      observation: one token per op (- | N | O<yiaddr> | A<yiaddr>), then " | " and the table sorted by client id
        (cid/state/ip/net)
   sumline <hex text> <hex of sha256hex(text after its first newline) | -> <T|F: yaml.Unmarshal makes the document of the body out of the whole text>
        the byte-level integrity check of loadByteArray (Model/LeaseBytes.v sum_verdict) on a text whose body is a
        valid lease document: observation loaded | reset
   savedir <tmp: hex | - | absent> <lease before: hex | - | absent> <hex of the bytes this save writes>
        saveConfig from an arbitrary directory state (Model/LeaseBytes.v save_fs): observation
        lease=<hex> tmp=<hex|-|absent>  — the two files after the save
   multi <op>*   several handlers over one lease file (Model/LeaseMulti.v): op = N<h> (New), A<h><label> (ACK of client
        label on handler h), D<h><label> (handler h drops label: decline), Q<h> (DISCOVER only), C<h> (Close),
        O<h> (StartHunt/StopHunt/PrintTable/SetMode); observation: the labels in the file after each op (- = none)
   writers     the exported API functions through which the lease file can be written
   consts      the constants the model hard-codes, against the values read from the Go source (go/parser):
        checksum key, temp-file suffix, StateFree/Discover/Allocated, StageNormal/Redirected, default lease
        duration (ns), the netfilter DNS server
   save <lease>*|-   (the in-memory table, any state; a single - for the empty table)
      observation: the lease records of the written document, sorted by client id *)
From PV Require Import Base.Text Model.LeaseBase Model.Lease Model.LeaseKnown Model.LeaseServe.
From PV Require Import Model.LeaseBytes Model.LeaseMulti.
From PV Require Model.DHCP Model.DHCPShow.
Open Scope string_scope.
Open Scope N_scope.

Definition TAB : string := String (ascii_of_N 9) EmptyString.
Definition out3 (m s k : string) : string := m ++ TAB ++ s ++ TAB ++ k.

(* ---------------- parsing ---------------- *)
Definition addr_of_tok (s : string) : option addr :=
  match split "_"%char s with
  | ["x"] => Some AInv
  | ["4"; n] => option_map A4 (N_of_dec n)
  | ["6"; n; z] => match N_of_dec n, bytes_of_tok z with
                   | Some v, Some zb => Some (A6 v zb)
                   | _, _ => None
                   end
  | _ => None
  end.

Definition prefix_of_tok (s : string) : option prefix :=
  match split "/"%char s with
  | ["x"] => Some PInv
  | [a; b] => match addr_of_tok a, N_of_dec b with
              | Some a', Some b' => Some (P a' b')
              | _, _ => None
              end
  | _ => None
  end.

Definition net_of_tok (s : string) : option (option subnetcfg) :=
  if String.eqb s "nil" then Some None else
  match split ","%char s with
  | [lan; gw; dh; dns; first; dur; stage] =>
      match prefix_of_tok lan, addr_of_tok gw, addr_of_tok dh, addr_of_tok dns, addr_of_tok first,
            Z_of_dec dur, N_of_dec stage with
      | Some l, Some g, Some h, Some d, Some f, Some du, Some st =>
          Some (Some {| s_lan := l; s_gw := g; s_dhcp := h; s_dns := d; s_first := f; s_dur := du; s_stage := st |})
      | _, _, _, _, _, _, _ => None
      end
  | _ => None
  end.

Definition rec_of_tok (s : string) : option lease_rec :=
  match split ","%char s with
  | [cid; st; mac; ip; ex] =>
      match bytes_of_tok cid, Z_of_dec st, bytes_of_tok mac, addr_of_tok ip, Z_of_dec ex with
      | Some c, Some s', Some m, Some i, Some e =>
          Some {| r_cid := c; r_state := s'; r_mac := m; r_ip := i; r_expiry := e |}
      | _, _, _, _, _ => None
      end
  | _ => None
  end.

Fixpoint all_some {A} (l : list (option A)) : option (list A) :=
  match l with
  | [] => Some []
  | None :: _ => None
  | Some a :: r => option_map (cons a) (all_some r)
  end.

Definition cfg_of_tok (s : string) : option cfg :=
  match split ","%char s with
  | [home; host; router; nf; dns] =>
      match prefix_of_tok home, addr_of_tok host, addr_of_tok router, prefix_of_tok nf, addr_of_tok dns with
      | Some h, Some ho, Some r, Some n, Some d =>
          Some {| c_home := h; c_host := ho; c_router := r; c_netfilter := n; c_dns := d |}
      | _, _, _, _, _ => None
      end
  | _ => None
  end.

Definition captured_of_tok (s : string) : option sess :=
  if String.eqb s "-" then Some (fun _ => false) else
  match all_some (map bytes_of_tok (split "+"%char s)) with
  | Some macs => Some (fun m => existsb (bytes_eqb m) macs)
  | None => None
  end.

(* ---------------- printing ---------------- *)
Definition show_addr (a : addr) : string :=
  match a with
  | AInv => "x"
  | A4 n => "4_" ++ dec_of_N n
  | A6 v z => "6_" ++ dec_of_N v ++ "_" ++ tok_of_bytes z
  end.
Definition show_prefix (p : prefix) : string :=
  match p with
  | PInv => "x"
  | P a b => show_addr a ++ "/" ++ dec_of_N b
  end.

Fixpoint bytes_ltb (a b : bytes) : bool :=
  match a, b with
  | _, [] => false
  | [], _ :: _ => true
  | x :: a', y :: b' => (x <? y) || ((x =? y) && bytes_ltb a' b')
  end.

Fixpoint ins_sorted {A} (key : A -> bytes) (x : A) (l : list A) : list A :=
  match l with
  | [] => [x]
  | y :: r => if bytes_ltb (key y) (key x) then y :: ins_sorted key x r else x :: l
  end.
Definition sort_by {A} (key : A -> bytes) (l : list A) : list A := fold_right (ins_sorted key) [] l.

Definition show_lease (l : lease) : string :=
  let r := l_rec l in
  tok_of_bytes (r_cid r) ++ "," ++ tok_of_bytes (r_mac r) ++ "," ++ show_addr (r_ip r) ++ "," ++
  dec_of_N (l_sub l) ++ "," ++ dec_of_Z (r_expiry r).
Definition show_rec (r : lease_rec) : string :=
  tok_of_bytes (r_cid r) ++ "," ++ dec_of_Z (r_state r) ++ "," ++ tok_of_bytes (r_mac r) ++ "," ++
  show_addr (r_ip r) ++ "," ++ dec_of_Z (r_expiry r).

Definition show_list (l : list string) : string := match l with [] => "-" | _ => join ";" l end.

Definition show_net (c : subnetcfg) : string :=
  show_prefix (s_lan c) ++ "," ++ show_addr (s_gw c) ++ "," ++ show_addr (s_dhcp c) ++ "," ++ show_addr (s_dns c) ++ "," ++
  show_addr (s_first c) ++ "," ++ dec_of_Z (s_dur c) ++ "," ++ dec_of_N (s_stage c).

(* LeaseFilename == "": nothing is saved, the harness can only see the table *)
Definition show_state_nofile (r : res dstate) : string :=
  match r with
  | Ok s => "nofile " ++ show_list (map show_lease (sort_by l_cid (d_table s)))
  | Err _ => "err"
  | Panic => "panic"
  | Fuel => "fuel"
  end.

Definition show_state (r : res dstate) : string :=
  match r with
  | Ok s => "ok " ++ show_net (n_cfg (d_n1 s)) ++ " " ++ show_net (n_cfg (d_n2 s)) ++ " " ++
            show_list (map show_lease (sort_by l_cid (d_table s)))
  | Err _ => "err"
  | Panic => "panic"
  | Fuel => "fuel"
  end.

(* no recorded defect class is left: column 3 is always "-" *)
Definition key_new (c : cfg) (cap : sess) (i : input) (r : res dstate) : string := "-".

(* ---------------- serving (renew / offer) ---------------- *)
Definition lease6_of_tok (s : string) : option lease :=
  match split ","%char s with
  | [cid; st; mac; ip; ex; sub] =>
      match rec_of_tok (join "," [cid; st; mac; ip; ex]), N_of_dec sub with
      | Some r, Some k => Some {| l_rec := r; l_sub := k |}
      | _, _ => None
      end
  | _ => None
  end.

Definition host_of_tok (s : string) : option (addr * bytes) :=
  match split "="%char s with
  | [a; m] => match addr_of_tok a, bytes_of_tok m with
              | Some a', Some m' => Some (a', m')
              | _, _ => None
              end
  | _ => None
  end.

Definition hosts_of_tok (s : string) : option hostsT :=
  if String.eqb s "-" then Some (fun _ => None) else
  match all_some (map host_of_tok (split "+"%char s)) with
  | Some hs => Some (fun a => option_map snd (find (fun h => addr_eqb (fst h) a) hs))
  | None => None
  end.

Definition subnet_of_tok (s : string) : option subnet :=
  match net_of_tok s with
  | Some (Some c) => match newSubnet c with Ok n => Some n | _ => None end
  | _ => None
  end.

Definition show_reply (r : reply) : string :=
  match r with
  | RNone => "none"
  | RNak => "nak"
  | RAck a => "ack " ++ show_addr a
  | ROffer a => "offer " ++ show_addr a
  end.

Definition serve (kind : string) (args : list string) : string :=
  match args with
  | cap :: n1 :: n2 :: hs :: now :: cid :: mac :: a :: ls =>
      match captured_of_tok cap, subnet_of_tok n1, subnet_of_tok n2, hosts_of_tok hs, Z_of_dec now,
            bytes_of_tok cid, bytes_of_tok mac, addr_of_tok a, all_some (map lease6_of_tok ls) with
      | Some cap', Some s1, Some s2, Some hosts, Some now', Some cid', Some mac', Some a', Some t =>
          if String.eqb kind "renew" then
            out3 (show_reply (fst (renew cap' hosts s1 s2 now' t cid' mac' a'))) "-" "-"
          else
            match discover 5000 (fun x => x) cap' hosts s1 s2 AInv now' t cid' mac' a' with
            | Ok (r, _) => out3 (show_reply r) "-" "-"
            | Fuel => out3 "fuel" "-" "-"
            | _ => out3 "panic" "-" "-"
            end
      | _, _, _, _, _, _, _, _, _ => BADARGS
      end
  | _ => BADARGS
  end.

(* ---------------- continuation after a restart: the DHCP cluster's model from the restored state ---------------- *)
Definition rlease_of_tok (s : string) : option DHCP.lease :=
  match split ","%char s with
  | [cid; mac; ip; net; ex] =>
      match bytes_of_tok cid, DHCPShow.N_of_hex mac, DHCPShow.N_of_hex ip, N_of_dec net, Z_of_dec ex with
      | Some c, Some m, Some a, Some k, Some e =>
          Some (DHCP.mkLease (DHCPShow.cid_of_bytes c) DHCP.SAllocated m (Some a) None None (k =? 2) e)
      | _, _, _, _, _ => None
      end
  | _ => None
  end.

Definition show_creply (r : option DHCP.reply) : string :=
  match r with
  | None => "-"
  | Some r => match DHCP.r_type r with
              | DHCP.RNak => "N"
              | DHCP.ROffer => "O" ++ DHCPShow.hexw 4 (DHCP.r_yi r)
              | DHCP.RAck => "A" ++ DHCPShow.hexw 4 (DHCP.r_yi r)
              end
  end.
Definition show_clease (l : DHCP.lease) : string :=
  tok_of_bytes (DHCPShow.bytes_of_cid (DHCP.l_cid l)) ++ "/" ++ DHCPShow.show_state (DHCP.l_state l) ++ "/" ++
  DHCPShow.show_oip (DHCP.l_ip l) ++ "/" ++ (if DHCP.l_net2 l then "2" else "1").

Definition cont (args : list string) : string :=
  match DHCPShow.parse_cfg args with
  | Some (c, n :: rest) =>
      match nat_of_dec n with
      | Some n' =>
          match all_some (map rlease_of_tok (firstn n' rest)), DHCPShow.parse_ops (skipn n' rest) with
          | Some ls, Some ops =>
              let s0 := DHCP.mkSt ls (DHCP.n_first c false) (DHCP.n_first c true) (DHCP.sess_init c) in
              let '(s, rs) := DHCP.run c s0 (DHCPShow.with_ch0 ops) in
              out3 (join " " (map show_creply rs) ++ " | " ++
                    show_list (map show_clease (sort_by (fun l => DHCPShow.bytes_of_cid (DHCP.l_cid l)) (DHCP.tbl s))))
                   "-" "-"
          | _, _ => BADARGS
          end
      | None => BADARGS
      end
  | _ => BADARGS
  end.

(* ---------------- bytes ---------------- *)
Definition string_of_bytes (b : bytes) : string :=
  fold_right (fun x acc => String (ascii_of_N x) acc) EmptyString b.

Definition sumline (args : list string) : string :=
  match args with
  | [t; h; y] =>
      match bytes_of_tok t, bytes_of_tok h, bool_of_tok y with
      | Some text, Some hash, Some yaml_ok =>
          let v := sum_verdict (fun _ => hash) text in
          out3 (match v with SumBad => "reset" | _ => if yaml_ok then "loaded" else "reset" end) "-" "-"
      | _, _, _ => BADARGS
      end
  | _ => BADARGS
  end.

Definition consts_line : string :=
  string_of_bytes sum_key ++ "|" ++ string_of_bytes tmp_suffix ++ "|0,1,2|1,3|" ++ dec_of_Z four_hours ++ "|" ++
  show_addr cloudflare_family1 ++ "|trunc=" ++ show_bool (match f_tmp (fs_open_tmp true {| f_lease := None; f_tmp := Some [1] |}) with
                                                            | Some [] => true | _ => false end).

Definition file_of_tok (s : string) : option (option bytes) :=
  if String.eqb s "absent" then Some None else option_map Some (bytes_of_tok s).
Definition show_file (f : option bytes) : string :=
  match f with None => "absent" | Some b => tok_of_bytes b end.

Definition savedir (args : list string) : string :=
  match args with
  | [t; l; c] =>
      match file_of_tok t, file_of_tok l, bytes_of_tok c with
      | Some tmp, Some lease, Some content =>
          let fs := save_fs content {| f_lease := lease; f_tmp := tmp |} in
          out3 ("lease=" ++ show_file (f_lease fs) ++ " tmp=" ++ show_file (f_tmp fs)) "-" "-"
      | _, _, _ => BADARGS
      end
  | _ => BADARGS
  end.

(* ---------------- several handlers over one file ---------------- *)
Definition mop_of_tok (s : string) : option mop :=
  match s with
  | String k (String h r) =>
      let hn := N_of_ascii h in
      let lab := match r with String c _ => N_of_ascii c | EmptyString => 0 end in
      let mk kind eff := Some {| o_h := hn; o_kind := kind; o_eff := eff |} in
      if Ascii.eqb k "N" then mk KNew (fun t => t)
      else if Ascii.eqb k "A" then mk KAck (fun t => if existsb (N.eqb lab) t then t else (t ++ [lab])%list)
      else if Ascii.eqb k "D" then mk KDrop (fun t => filter (fun x => negb (x =? lab)) t)
      else if Ascii.eqb k "Q" then mk KQuiet (fun t => t)
      else if Ascii.eqb k "C" then mk KClose (fun t => t)
      else if Ascii.eqb k "O" then mk KOther (fun t => t)
      else None
  | _ => None
  end.

Fixpoint ins_N (x : N) (l : list N) : list N :=
  match l with [] => [x] | y :: r => if x <=? y then x :: l else y :: ins_N x r end.
Definition show_labels (t : mtable) : string :=
  match t with [] => "-" | _ => string_of_bytes (fold_right ins_N [] t) end.

Fixpoint multi_trace (s : mstate) (ops : list mop) : list string :=
  match ops with
  | [] => []
  | o :: r => let s1 := mstep s o in show_labels (m_file s1) :: multi_trace s1 r
  end.

Definition multi (args : list string) : string :=
  match all_some (map mop_of_tok args) with
  | Some ops => out3 (join " " (multi_trace {| m_file := []; m_tables := [] |} ops)) "-" "-"
  | None => BADARGS
  end.

(* Config.New / New, ProcessPacket, MinuteTicker: the exported functions below which writes_file operations happen *)
Definition writers_line : string := "MinuteTicker,New,ProcessPacket".

(* ---------------- dispatch ---------------- *)
Definition input_of_args (a : list string) : option input :=
  match a with
  | ["nofile"] => Some NoFile
  | ["err"] => Some ReadErr
  | k :: n1 :: n2 :: ls =>
      let st := if String.eqb k "doc" then Some SumAbsent
                else if String.eqb k "docok" then Some SumOk
                else if String.eqb k "docbad" then Some SumBad else None in
      match st, net_of_tok n1, net_of_tok n2, all_some (map rec_of_tok ls) with
      | Some st', Some a1, Some a2, Some rs => Some (Doc st' {| d_net1 := a1; d_net2 := a2; d_leases := rs |})
      | _, _, _, _ => None
      end
  | _ => None
  end.

Definition lease_of_rec (r : lease_rec) : lease := {| l_rec := r; l_sub := 0 |}.

Definition dispatch (kind : string) (args : list string) : string :=
  if String.eqb kind "new" then
    match args with
    | c :: cap :: rest =>
        match cfg_of_tok c, captured_of_tok cap, input_of_args rest with
        | Some c', Some cap', Some i =>
            let r := new c' cap' i in
            out3 (match i with NoFile => show_state_nofile r | _ => show_state r end) "-" (key_new c' cap' i r)
        | _, _, _ => BADARGS
        end
    | _ => BADARGS
    end
  else if String.eqb kind "newt" then
    (* same as new; the third argument is the damaged file text (hex), which only the implementation reads *)
    match args with
    | c :: cap :: _ :: rest =>
        match cfg_of_tok c, captured_of_tok cap, input_of_args rest with
        | Some c', Some cap', Some i =>
            let r := new c' cap' i in
            out3 (show_state r) "-" (key_new c' cap' i r)
        | _, _, _ => BADARGS
        end
    | _ => BADARGS
    end
  else if String.eqb kind "renew" || String.eqb kind "offer" then serve kind args
  else if String.eqb kind "cont" then cont args
  else if String.eqb kind "sumline" then sumline args
  else if String.eqb kind "savedir" then savedir args
  else if String.eqb kind "multi" then multi args
  else if String.eqb kind "writers" then out3 writers_line "-" "-"
  else if String.eqb kind "consts" then out3 consts_line "-" "-"
  else if String.eqb kind "save" then
    match all_some (map rec_of_tok (filter (fun a => negb (String.eqb a "-")) args)) with
    | Some rs => out3 (show_list (map show_rec (sort_by r_cid (save_leases (map lease_of_rec rs))))) "-" "-"
    | None => BADARGS
    end
  else BADARGS.

Definition dispatch_line (l : string) : string :=
  match words l with
  | k :: args => dispatch k args
  | [] => BADARGS
  end.
