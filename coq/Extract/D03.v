(* Extract/D03.v — text-line interpreter of the C03 model (encoders +
   library-view read-back) and of the reference decoders, used by the
   extracted driver and by kernel replay.

   Buffers are described by three numbers: capacity, length, poison seed
   (Model/EncodeBase.mkbuf).  Output columns: model observation, spec
   expectation ("-" when the case is outside the property's domain), key of
   the recorded defect class the case lies in ("-" if none). *)
From PV Require Import Base.Text Model.Encode Model.EncodeCompose Model.EncodeShow Spec.EncodeRef.
Open Scope string_scope.
Open Scope N_scope.

Definition TAB : string := String (ascii_of_N 9) EmptyString.
Definition out3 (m s k : string) : string := m ++ TAB ++ s ++ TAB ++ k.

(* ---- argument decoding: one letter per token: n decimal, b hex bytes, t T/F ---- *)
Inductive arg := AN (n : N) | AB (b : bytes) | AT (t : bool).
Fixpoint parse_args (sig : string) (args : list string) : option (list arg) :=
  match sig, args with
  | EmptyString, [] => Some []
  | String c sig', a :: args' =>
      let one := if Ascii.eqb c "n" then option_map AN (N_of_dec a)
                 else if Ascii.eqb c "b" then option_map AB (bytes_of_tok a)
                 else if Ascii.eqb c "t" then option_map AT (bool_of_tok a)
                 else None in
      match one, parse_args sig' args' with
      | Some x, Some r => Some (x :: r)
      | _, _ => None
      end
  | _, _ => None
  end.

Definition nn := N.to_nat.
Definition eqbytes (a b : bytes) : bool :=
  Nat.eqb (List.length a) (List.length b) && forallb (fun p => fst p =? snd p) (combine a b).
Definition is_mode (m : bytes) (c : N) : bool := match m with [x] => x =? c | _ => false end.
Definition MODE_S : N := 10.  (* token "0a": SetPayload, payload pre-written in place by the caller *)
Definition MODE_A : N := 11.  (* token "0b": AppendPayload *)

(* the caller writes the payload in place before SetPayload (only when it fits) *)
Definition prewrite (p : slice) (off : nat) (payload : bytes) : slice :=
  if Nat.leb (off + List.length payload) (cap p) then mkSlice (blit off payload (arr p)) (len p) else p.

(* [pre]: the buffer as it was just before the last (fallible) call: on an error return the
   observation shows that this state is what the buffer still holds, i.e. nothing was written *)
Definition with_rb_pre (old pre : bytes) (r : res slice) (rb : slice -> string) : string :=
  match r with
  | Ok s => sp (show_enc old r) (rb s)
  | Err e => sp ("err:" ++ show_err e) (show_hull old pre)
  | _ => show_enc old r
  end.
Definition with_rb (old : bytes) (r : res slice) (rb : slice -> string) : string := with_rb_pre old old r rb.

Definition REF : string := "REF-MISMATCH".

(* ---------------- ether ---------------- *)
Definition run_ether (c l : nat) (seed ht : N) (src dst : bytes) : string :=
  let b := mkbuf c l seed in
  let r := encode_ether b ht src dst in
  let m := with_rb (arr b) r rb_ether in
  let fits := Nat.leb 14 c && Nat.eqb (List.length src) 6 && Nat.eqb (List.length dst) 6 in
  let s := if fits then
             match r with
             | Ok e =>
                 match ref_ether (view e) with
                 | Some x => if eqbytes (re_dst x) dst && eqbytes (re_src x) src && (re_type x =? ht)
                             then sp (show_enc (arr b) r)
                                     (fmt_ether (tok_of_bytes dst) (tok_of_bytes src) (dec_of_N ht)
                                                (rNat (ether_hlen e)) (rW e (ether_payload e)))
                             else REF
                 | None => REF
                 end
             | _ => "no-result"
             end
           else "-" in
  out3 m s "-".

(* Ether.SetPayload / Ether.AppendPayload after EncodeEther *)
Definition known_ether_append_cap (c : nat) (ht : N) (plen pcap : nat) : bool :=
  Nat.leb (plen + 14) c && Nat.leb 60 c && Nat.ltb (c - hlen_of_type ht) pcap.

Definition run_ethpl (c l : nat) (seed ht : N) (src dst mode payload : bytes) (extra : nat) : string :=
  let b := mkbuf c l seed in
  let plen := List.length payload in
  match encode_ether b ht src dst with
  | Ok e =>
      let hl := hlen_of_type ht in
      let r := if is_mode mode MODE_S then ether_set_payload (prewrite e hl payload) plen
               else ether_append e payload (plen + extra) in
      let m := with_rb_pre (arr b) (arr e) r rb_ether in
      let want_len := if is_mode mode MODE_S then (14 + plen)%nat else Nat.max 60 (14 + plen) in
      let fits := Nat.eqb hl 14 && Nat.leb (14 + plen) c && Nat.leb 60 c
                  && Nat.eqb (List.length src) 6 && Nat.eqb (List.length dst) 6 in
      let known := negb (is_mode mode MODE_S) && known_ether_append_cap c ht plen (plen + extra) in
      let s := if fits && negb known then
                 match r with
                 | Ok e' =>
                     match ref_ether (view e') with
                     | Some x =>
                         if eqbytes (re_dst x) dst && eqbytes (re_src x) src && (re_type x =? ht)
                            && eqbytes (firstn plen (re_payload x)) payload
                            && Nat.eqb (List.length (re_payload x)) (want_len - 14)
                            && Nat.eqb (len e') want_len
                            && forallb (fun v => v =? 0) (skipn plen (re_payload x))
                         then sp (show_enc (arr b) r)
                                 (fmt_ether (tok_of_bytes dst) (tok_of_bytes src) (dec_of_N ht) "14"
                                            (* documented convention of Ether.Payload: with an empty payload it
                                               returns the spare capacity of the buffer *)
                                            (if Nat.eqb want_len 14
                                             then (if Nat.eqb c 14 then "empty" else "14+" ++ dn (c - 14))
                                             else "14+" ++ dn (want_len - 14)))
                         else REF
                     | None => REF
                     end
                 | _ => "no-result"
                 end
               else "-" in
      out3 m s (if known then "ether-append-payload-cap" else "-")
  | other => out3 (show_enc (arr b) other) "-" "-"
  end.

(* ---------------- ip4 ---------------- *)
Definition run_ip4 (c l : nat) (seed ttl : N) (src dst : bytes) : string :=
  let b := mkbuf c l seed in
  let r := encode_ip4 b ttl src dst in
  out3 (with_rb (arr b) r rb_ip4) "-" "-".

Definition ip4_expect (old : bytes) (r : res slice) (ttl proto : N) (src dst payload : bytes) : string :=
  match r with
  | Ok p =>
      let plen := List.length payload in
      match ref_ip4 (view p) with
      | Some x =>
          if (r4_tos x =? 192) && (r4_totlen x =? N.of_nat (20 + plen)) && (r4_id x =? 0) && (r4_flags x =? 0)
             && (r4_frag x =? 0) && (r4_ttl x =? ttl) && (r4_proto x =? proto)
             && eqbytes (r4_src x) (v4_or_zero src) && eqbytes (r4_dst x) (v4_or_zero dst)
             && eqbytes (r4_options x) [] && eqbytes (r4_payload x) payload
          then sp (show_enc old r)
                  (fmt_ip4 "4" "20" "192" (dn (20 + plen)) "0" "0" (dec_of_N ttl) (dec_of_N proto)
                           (tok_of_bytes (v4_or_zero src)) (tok_of_bytes (v4_or_zero dst)) "T" "T"
                           (if Nat.eqb (cap p) 20 then "empty" else "20+" ++ dn plen))
          else REF
      | None => REF
      end
  | _ => "no-result"
  end.

Definition run_ip4pl (c l : nat) (seed ttl : N) (src dst : bytes) (proto : N) (mode payload : bytes) : string :=
  let b := mkbuf c l seed in
  let plen := List.length payload in
  match encode_ip4 b ttl src dst with
  | Ok ip =>
      let r := if is_mode mode MODE_S then ip4_set_payload (prewrite ip 20 payload) plen proto
               else ip4_append ip payload proto in
      let m := with_rb_pre (arr b) (arr ip) r rb_ip4 in
      let fits := Nat.leb 10 l && Nat.leb (20 + plen) c && Nat.leb (20 + plen) 1508 in
      out3 m (if fits then ip4_expect (arr b) r ttl proto src dst payload else "-") "-"
  | other => out3 (show_enc (arr b) other) "-" "-"
  end.

(* ---------------- udp ---------------- *)
Definition run_udp (c l : nat) (seed sport dport : N) : string :=
  let b := mkbuf c l seed in
  let r := encode_udp b sport dport in
  out3 (with_rb (arr b) r rb_udp) "-" "-".

Definition udp_expect (old : bytes) (r : res slice) (sport dport : N) (payload : bytes) : string :=
  match r with
  | Ok p =>
      let plen := List.length payload in
      match ref_udp (view p) with
      | Some x =>
          if (ru_sport x =? sport) && (ru_dport x =? dport) && (ru_len x =? N.of_nat (8 + plen))
             && (ru_cksum x =? 0) && eqbytes (ru_payload x) payload
          then sp (show_enc old r)
                  (fmt_udp (dec_of_N sport) (dec_of_N dport) (dn (8 + plen)) "0" "T"
                           (if Nat.eqb (cap p) 8 then "empty" else "8+" ++ dn plen))
          else REF
      | None => REF
      end
  | _ => "no-result"
  end.

Definition run_udppl (c l : nat) (seed sport dport : N) (mode payload : bytes) : string :=
  let b := mkbuf c l seed in
  let plen := List.length payload in
  match encode_udp b sport dport with
  | Ok u =>
      let r := if is_mode mode MODE_S then udp_set_payload (prewrite u 8 payload) plen
               else udp_append u payload in
      let m := with_rb_pre (arr b) (arr u) r rb_udp in
      let fits := Nat.leb (8 + plen) c && Nat.leb (8 + plen) 1488 in
      out3 m (if fits then udp_expect (arr b) r sport dport payload else "-") "-"
  | other => out3 (show_enc (arr b) other) "-" "-"
  end.

(* ---------------- composed Ether/IPv4/UDP frame ---------------- *)
Definition BAR : string := " | ".
Definition rb_frame4 (e : slice) : string :=
  let ip := ether_payload e in
  let u := bind ip ip4_payload in
  rb_ether e ++ BAR ++ show_res rb_ip4 ip ++ BAR ++ show_res rb_udp u ++ BAR ++ show_class (parse_class e).

(* buffer contents after EncodeEther, EncodeIP4, EncodeUDP (before udp.AppendPayload) *)
Definition frame4_pre (b : slice) (smac dmac : bytes) (ttl : N) (sip dip : bytes) (sport dport : N) : bytes :=
  match (e <- encode_ether b ETH_P_IP smac dmac ;;
         pl <- ether_payload e ;;
         ip <- encode_ip4 pl ttl sip dip ;;
         ipl <- ip4_payload ip ;;
         u <- encode_udp ipl sport dport ;;
         Ok (arr (writeback e (arr (writeback ip (arr u))))))%res with
  | Ok a => a
  | _ => arr b
  end.

Definition run_frame4 (c l : nat) (seed : N) (smac dmac : bytes) (ttl : N) (sip dip : bytes)
           (sport dport : N) (data : bytes) : string :=
  let b := mkbuf c l seed in
  let r := compose_udp4 b smac dmac ttl sip dip sport dport data in
  let m := with_rb_pre (arr b) (frame4_pre b smac dmac ttl sip dip sport dport) r rb_frame4 in
  let dl := List.length data in
  let fits := Nat.leb (42 + dl) c && Nat.leb (42 + dl) 1522
              && Nat.eqb (List.length smac) 6 && Nat.eqb (List.length dmac) 6
              && is4 sip && is4 dip && (N.land (nth 0 smac 0) 1 =? 0) in
  let s :=
    if fits then
      match r with
      | Ok e =>
          match ref_ether (view e) with
          | Some x =>
              match ref_ip4 (re_payload x) with
              | Some y =>
                  match ref_udp (r4_payload y) with
                  | Some z =>
                      if eqbytes (re_dst x) dmac && eqbytes (re_src x) smac && (re_type x =? ETH_P_IP)
                         && (r4_ttl y =? ttl) && (r4_proto y =? 17) && eqbytes (r4_src y) sip
                         && eqbytes (r4_dst y) dip && (r4_totlen y =? N.of_nat (28 + dl))
                         && Nat.eqb (List.length (re_payload x)) (28 + dl)
                         && (ru_sport z =? sport) && (ru_dport z =? dport) && (ru_len z =? N.of_nat (8 + dl))
                         && eqbytes (ru_payload z) data
                      then
                        sp (show_enc (arr b) r)
                           (fmt_ether (tok_of_bytes dmac) (tok_of_bytes smac) "2048" "14" ("14+" ++ dn (28 + dl))
                            ++ BAR ++
                            fmt_ip4 "4" "20" "192" (dn (28 + dl)) "0" "0" (dec_of_N ttl) "17" (tok_of_bytes sip)
                                    (tok_of_bytes dip) "T" "T" ("20+" ++ dn (8 + dl))
                            ++ BAR ++
                            fmt_udp (dec_of_N sport) (dec_of_N dport) (dn (8 + dl)) "0" "T"
                                    (if Nat.eqb c (42 + dl) && Nat.eqb dl 0 then "empty" else "8+" ++ dn dl)
                            ++ BAR ++ dec_of_N (class_of_ports sport dport) ++ "/F")
                      else REF
                  | None => REF
                  end
              | None => REF
              end
          | None => REF
          end
      | _ => "no-result"
      end
    else "-" in
  out3 m s "-".

(* ---------------- dispatch ---------------- *)
Definition dispatch (kind : string) (args : list string) : string :=
  if String.eqb kind "ether" then
    match parse_args "nnnnbb" args with
    | Some [AN c; AN l; AN s; AN ht; AB src; AB dst] => run_ether (nn c) (nn l) s ht src dst
    | _ => BADARGS
    end
  else if String.eqb kind "ethpl" then
    match parse_args "nnnnbbbbn" args with
    | Some [AN c; AN l; AN s; AN ht; AB src; AB dst; AB mode; AB payload; AN extra] =>
        run_ethpl (nn c) (nn l) s ht src dst mode payload (nn extra)
    | _ => BADARGS
    end
  else if String.eqb kind "ip4" then
    match parse_args "nnnnbb" args with
    | Some [AN c; AN l; AN s; AN ttl; AB src; AB dst] => run_ip4 (nn c) (nn l) s ttl src dst
    | _ => BADARGS
    end
  else if String.eqb kind "ip4pl" then
    match parse_args "nnnnbbnbb" args with
    | Some [AN c; AN l; AN s; AN ttl; AB src; AB dst; AN proto; AB mode; AB payload] =>
        run_ip4pl (nn c) (nn l) s ttl src dst proto mode payload
    | _ => BADARGS
    end
  else if String.eqb kind "udp" then
    match parse_args "nnnnn" args with
    | Some [AN c; AN l; AN s; AN sport; AN dport] => run_udp (nn c) (nn l) s sport dport
    | _ => BADARGS
    end
  else if String.eqb kind "udppl" then
    match parse_args "nnnnnbb" args with
    | Some [AN c; AN l; AN s; AN sport; AN dport; AB mode; AB payload] =>
        run_udppl (nn c) (nn l) s sport dport mode payload
    | _ => BADARGS
    end
  else if String.eqb kind "frame4" then
    match parse_args "nnnbbnbbnnb" args with
    | Some [AN c; AN l; AN s; AB smac; AB dmac; AN ttl; AB sip; AB dip; AN sport; AN dport; AB data] =>
        run_frame4 (nn c) (nn l) s smac dmac ttl sip dip sport dport data
    | _ => BADARGS
    end
  else BADARGS.

Definition dispatch_line (l : string) : string :=
  match words l with
  | k :: args => dispatch k args
  | [] => BADARGS
  end.
