(* Extract/D03.v — text-line interpreter of the C03 model (encoders +
   library-view read-back) and of the reference decoders, used by the
   extracted driver and by kernel replay.

   Buffers are described by three numbers: capacity, length, poison seed
   (Model/EncodeBase.mkbuf).  Output columns: model observation, spec
   expectation ("-" when the case is outside the property's domain), key of
   the recorded defect class the case lies in ("-" if none). *)
From PV Require Import Base.Text Model.Encode Model.EncodeCompose Model.EncodeDHCP Model.EncodeShow Spec.EncodeRef Spec.EncodeRefDHCP.
Open Scope string_scope.
Open Scope N_scope.

Definition TAB : string := String (ascii_of_N 9) EmptyString.
Definition out3 (m s k : string) : string := m ++ TAB ++ s ++ TAB ++ k.

(* ---- argument decoding: one letter per token: n decimal, b hex bytes, t T/F ---- *)
(* byte-string token: hex, "-" (empty), or the compact form R<seed>x<len> = ramp seed len (payloads at the width
   of the 16-bit length fields, 64 KiB and more, without 128 KiB case lines) *)
Definition bytes_of_tok_r (a : string) : option bytes :=
  match a with
  | String c r =>
      if Ascii.eqb c "R" then
        match Text.split "x"%char r with
        | [sd; ln] => match N_of_dec sd, N_of_dec ln with
                      | Some sd, Some ln => Some (ramp sd (N.to_nat ln))
                      | _, _ => None
                      end
        | _ => None
        end
      else bytes_of_tok a
  | _ => bytes_of_tok a
  end.

Inductive arg := AN (n : N) | AB (b : bytes) | AT (t : bool).
Fixpoint parse_args (sig : string) (args : list string) : option (list arg) :=
  match sig, args with
  | EmptyString, [] => Some []
  | String c sig', a :: args' =>
      let one := if Ascii.eqb c "n" then option_map AN (N_of_dec a)
                 else if Ascii.eqb c "b" then option_map AB (bytes_of_tok_r a)
                 else if Ascii.eqb c "t" then option_map AT (bool_of_tok a)
                 else None in
      match one, parse_args sig' args' with
      | Some x, Some r => Some (x :: r)
      | _, _ => None
      end
  | _, _ => None
  end.

Definition nn := N.to_nat.
Definition eqbytes (a b : bytes) : bool :=
  Nat.eqb (List.length a) (List.length b) && forallb (fun p => fst p =? snd p) (combine a b).
Definition is_mode (m : bytes) (c : N) : bool := match m with [x] => x =? c | _ => false end.
Definition MODE_S : N := 10.  (* token "0a": SetPayload, payload pre-written in place by the caller *)
Definition MODE_A : N := 11.  (* token "0b": AppendPayload *)

(* the caller writes the payload in place before SetPayload (only when it fits) *)
Definition prewrite (p : slice) (off : nat) (payload : bytes) : slice :=
  if Nat.leb (off + List.length payload) (cap p) then mkSlice (blit off payload (arr p)) (len p) else p.

(* [pre]: the buffer as it was just before the last (fallible) call: on an error return the
   observation shows that this state is what the buffer still holds, i.e. nothing was written *)
Definition with_rb_pre (old pre : bytes) (r : res slice) (rb : slice -> string) : string :=
  match r with
  | Ok s => sp (show_enc old r) (rb s)
  | Err e => sp ("err:" ++ show_err e) (show_hull old pre)
  | _ => show_enc old r
  end.
Definition with_rb (old : bytes) (r : res slice) (rb : slice -> string) : string := with_rb_pre old old r rb.

Definition REF : string := "REF-MISMATCH".

(* ---------------- ether ---------------- *)
Definition run_ether (c l : nat) (seed ht : N) (src dst : bytes) : string :=
  let b := mkbuf c l seed in
  let r := encode_ether b ht src dst in
  let m := with_rb (arr b) r rb_ether in
  let fits := Nat.leb 14 c && Nat.eqb (List.length src) 6 && Nat.eqb (List.length dst) 6 in
  let s := if fits then
             match r with
             | Ok e =>
                 match ref_ether (view e) with
                 | Some x => if eqbytes (re_dst x) dst && eqbytes (re_src x) src && (re_type x =? ht)
                             then sp (show_enc (arr b) r)
                                     (fmt_ether (tok_of_bytes dst) (tok_of_bytes src) (dec_of_N ht)
                                                (rNat (ether_hlen e)) (rW e (ether_payload e)))
                             else REF
                 | None => REF
                 end
             | _ => "no-result"
             end
           else "-" in
  out3 m s "-".

(* EncodeEther with MAC arguments that are views into the destination buffer *)
Definition run_ethalias (c l : nat) (seed ht : N) (so sl_ do_ dl : nat) : string :=
  if Nat.ltb c (so + sl_) || Nat.ltb c (do_ + dl) then out3 "badargs" "-" "-" else
  let b := mkbuf c l seed in
  let r := encode_ether_aliased b ht so sl_ do_ dl in
  out3 (with_rb (arr b) r rb_ether) "-" "-".

(* Ether.SetPayload / Ether.AppendPayload after EncodeEther *)
Definition known_ether_append_cap (c : nat) (ht : N) (plen pcap : nat) : bool :=
  Nat.leb (plen + 14) c && Nat.leb 60 c && Nat.ltb (c - hlen_of_type ht) pcap.

Definition run_ethpl (c l : nat) (seed ht : N) (src dst mode payload : bytes) (extra : nat) : string :=
  let b := mkbuf c l seed in
  let plen := List.length payload in
  match encode_ether b ht src dst with
  | Ok e =>
      let hl := hlen_of_type ht in
      let st := if is_mode mode MODE_S then (let r0 := ether_set_payload (prewrite e hl payload) plen in (r0, buf_after e r0))
                else ether_append_st e payload (plen + extra) in
      let r := fst st in
      let m := with_rb_pre (arr b) (snd st) r rb_ether in
      let want_len := if is_mode mode MODE_S then (14 + plen)%nat else Nat.max 60 (14 + plen) in
      let fits := Nat.eqb hl 14 && Nat.leb (14 + plen) c && Nat.leb 60 c
                  && Nat.eqb (List.length src) 6 && Nat.eqb (List.length dst) 6 in
      let known := false in
      let s := if fits && negb known then
                 match r with
                 | Ok e' =>
                     match ref_ether (view e') with
                     | Some x =>
                         if eqbytes (re_dst x) dst && eqbytes (re_src x) src && (re_type x =? ht)
                            && eqbytes (firstn plen (re_payload x)) payload
                            && Nat.eqb (List.length (re_payload x)) (want_len - 14)
                            && Nat.eqb (len e') want_len
                            && forallb (fun v => v =? 0) (skipn plen (re_payload x))
                         then sp (show_enc (arr b) r)
                                 (fmt_ether (tok_of_bytes dst) (tok_of_bytes src) (dec_of_N ht) "14"
                                            (* documented convention of Ether.Payload: with an empty payload it
                                               returns the spare capacity of the buffer *)
                                            (if Nat.eqb want_len 14
                                             then (if Nat.eqb c 14 then "empty" else "14+" ++ dn (c - 14))
                                             else "14+" ++ dn (want_len - 14)))
                         else REF
                     | None => REF
                     end
                 | _ => "no-result"
                 end
               else "-" in
      out3 m s (if known then "ether-append-payload-cap" else "-")
  | other => out3 (show_enc (arr b) other) "-" "-"
  end.

(* ---------------- ip4 ---------------- *)
Definition run_ip4 (c l : nat) (seed ttl : N) (src dst : bytes) : string :=
  let b := mkbuf c l seed in
  let r := encode_ip4 b ttl src dst in
  out3 (with_rb (arr b) r rb_ip4) "-" "-".

Definition ip4_expect (old : bytes) (r : res slice) (ttl proto : N) (src dst payload : bytes) : string :=
  match r with
  | Ok p =>
      let plen := List.length payload in
      match ref_ip4 (view p) with
      | Some x =>
          if (r4_tos x =? 192) && (r4_totlen x =? N.of_nat (20 + plen)) && (r4_id x =? 0) && (r4_flags x =? 0)
             && (r4_frag x =? 0) && (r4_ttl x =? ttl) && (r4_proto x =? proto)
             && eqbytes (r4_src x) (v4_or_zero src) && eqbytes (r4_dst x) (v4_or_zero dst)
             && eqbytes (r4_options x) [] && eqbytes (r4_payload x) payload
          then sp (show_enc old r)
                  (fmt_ip4 "4" "20" "192" (dn (20 + plen)) "0" "0" (dec_of_N ttl) (dec_of_N proto)
                           (tok_of_bytes (v4_or_zero src)) (tok_of_bytes (v4_or_zero dst)) "T" "T"
                           (if Nat.eqb (cap p) 20 then "empty" else "20+" ++ dn plen))
          else REF
      | None => REF
      end
  | _ => "no-result"
  end.

Definition run_ip4pl (c l : nat) (seed ttl : N) (src dst : bytes) (proto : N) (mode payload : bytes) : string :=
  let b := mkbuf c l seed in
  let plen := List.length payload in
  match encode_ip4 b ttl src dst with
  | Ok ip =>
      let st := if is_mode mode MODE_S then (let r0 := ip4_set_payload (prewrite ip 20 payload) plen proto in (r0, buf_after ip r0))
                else ip4_append_st ip payload proto in
      let r := fst st in
      let m := with_rb_pre (arr b) (snd st) r rb_ip4 in
      let fits := Nat.leb 10 l && Nat.leb (20 + plen) c && Nat.leb (20 + plen) 1508 in
      out3 m (if fits then ip4_expect (arr b) r ttl proto src dst payload else "-") "-"
  | other => out3 (show_enc (arr b) other) "-" "-"
  end.

(* ---------------- udp ---------------- *)
Definition run_udp (c l : nat) (seed sport dport : N) : string :=
  let b := mkbuf c l seed in
  let r := encode_udp b sport dport in
  out3 (with_rb (arr b) r rb_udp) "-" "-".

Definition udp_expect (old : bytes) (r : res slice) (sport dport : N) (payload : bytes) : string :=
  match r with
  | Ok p =>
      let plen := List.length payload in
      match ref_udp (view p) with
      | Some x =>
          if (ru_sport x =? sport) && (ru_dport x =? dport) && (ru_len x =? N.of_nat (8 + plen))
             && (ru_cksum x =? 0) && eqbytes (ru_payload x) payload
          then sp (show_enc old r)
                  (fmt_udp (dec_of_N sport) (dec_of_N dport) (dn (8 + plen)) "0" "T"
                           (if Nat.eqb (cap p) 8 then "empty" else "8+" ++ dn plen))
          else REF
      | None => REF
      end
  | _ => "no-result"
  end.

Definition run_udppl (c l : nat) (seed sport dport : N) (mode payload : bytes) : string :=
  let b := mkbuf c l seed in
  let plen := List.length payload in
  match encode_udp b sport dport with
  | Ok u =>
      let st := if is_mode mode MODE_S then (let r0 := udp_set_payload (prewrite u 8 payload) plen in (r0, buf_after u r0))
                else udp_append_st u payload in
      let r := fst st in
      let m := with_rb_pre (arr b) (snd st) r rb_udp in
      let fits := Nat.leb (8 + plen) c && Nat.leb (8 + plen) 1488 in
      out3 m (if fits then udp_expect (arr b) r sport dport payload else "-") "-"
  | other => out3 (show_enc (arr b) other) "-" "-"
  end.

(* ---------------- composed Ether/IPv4/UDP frame ---------------- *)
Definition BAR : string := " | ".
Definition rb_frame4 (e : slice) : string :=
  let ip := ether_payload e in
  let u := bind ip ip4_payload in
  rb_ether e ++ BAR ++ show_res rb_ip4 ip ++ BAR ++ show_res rb_udp u ++ BAR ++ show_class (parse_class e).

(* buffer contents after EncodeEther, EncodeIP4, EncodeUDP (before udp.AppendPayload) *)
Definition frame4_pre (b : slice) (smac dmac : bytes) (ttl : N) (sip dip : bytes) (sport dport : N) : bytes :=
  match (e <- encode_ether b ETH_P_IP smac dmac ;;
         pl <- ether_payload e ;;
         ip <- encode_ip4 pl ttl sip dip ;;
         ipl <- ip4_payload ip ;;
         u <- encode_udp ipl sport dport ;;
         Ok (arr (writeback e (arr (writeback ip (arr u))))))%res with
  | Ok a => a
  | _ => arr b
  end.

Definition run_frame4 (c l : nat) (seed : N) (smac dmac : bytes) (ttl : N) (sip dip : bytes)
           (sport dport : N) (data : bytes) : string :=
  let b := mkbuf c l seed in
  let r := compose_udp4 b smac dmac ttl sip dip sport dport data in
  let m := with_rb_pre (arr b) (frame4_pre b smac dmac ttl sip dip sport dport) r rb_frame4 in
  let dl := List.length data in
  let fits := Nat.leb (42 + dl) c && Nat.leb (42 + dl) 1522
              && Nat.eqb (List.length smac) 6 && Nat.eqb (List.length dmac) 6
              && is4 sip && is4 dip && (N.land (nth 0 smac 0) 1 =? 0) in
  let s :=
    if fits then
      match r with
      | Ok e =>
          match ref_ether (view e) with
          | Some x =>
              match ref_ip4 (re_payload x) with
              | Some y =>
                  match ref_udp (r4_payload y) with
                  | Some z =>
                      if eqbytes (re_dst x) dmac && eqbytes (re_src x) smac && (re_type x =? ETH_P_IP)
                         && (r4_ttl y =? ttl) && (r4_proto y =? 17) && eqbytes (r4_src y) sip
                         && eqbytes (r4_dst y) dip && (r4_totlen y =? N.of_nat (28 + dl))
                         && Nat.eqb (List.length (re_payload x)) (28 + dl)
                         && (ru_sport z =? sport) && (ru_dport z =? dport) && (ru_len z =? N.of_nat (8 + dl))
                         && eqbytes (ru_payload z) data
                      then
                        sp (show_enc (arr b) r)
                           (fmt_ether (tok_of_bytes dmac) (tok_of_bytes smac) "2048" "14" ("14+" ++ dn (28 + dl))
                            ++ BAR ++
                            fmt_ip4 "4" "20" "192" (dn (28 + dl)) "0" "0" (dec_of_N ttl) "17" (tok_of_bytes sip)
                                    (tok_of_bytes dip) "T" "T" ("20+" ++ dn (8 + dl))
                            ++ BAR ++
                            fmt_udp (dec_of_N sport) (dec_of_N dport) (dn (8 + dl)) "0" "T"
                                    (if Nat.eqb c (42 + dl) && Nat.eqb dl 0 then "empty" else "8+" ++ dn dl)
                            ++ BAR ++ dec_of_N (class_of_ports sport dport) ++ "/F")
                      else REF
                  | None => REF
                  end
              | None => REF
              end
          | None => REF
          end
      | _ => "no-result"
      end
    else "-" in
  out3 m s "-".

(* ---------------- IPv6 ---------------- *)
(* EncodeIP6 allocates when the buffer is too small: the result then does not alias the buffer *)
Definition show_enc6 (old : bytes) (r : res (slice * bool)) (rb : slice -> string) : string :=
  match r with
  | Ok (s, true) => sp (sp (sp "fresh" (show_fresh (Ok s))) (show_hull old old)) (rb s)
  | Ok (s, false) => sp (show_enc old (Ok s)) (rb s)
  | Err e => "err:" ++ show_err e
  | Panic => "panic"
  | Fuel => "fuel"
  end.

Definition run_ip6 (c l : nat) (seed hop : N) (src dst : bytes) : string :=
  let b := mkbuf c l seed in
  out3 (show_enc6 (arr b) (encode_ip6 b hop src dst) rb_ip6) "-" "-".

Definition MODE_N : N := 12.  (* token "0c": AppendPayload(nil) *)

Definition ip6_expect (old : bytes) (r : res slice) (hop nh : N) (src dst payload : bytes) : string :=
  match r with
  | Ok p =>
      let plen := List.length payload in
      match ref_ip6 (view p) with
      | Some x =>
          if (r6_class x =? 0) && (r6_flow x =? 0) && (r6_plen x =? N.of_nat plen) && (r6_next x =? nh)
             && (r6_hop x =? hop) && eqbytes (r6_src x) (as16 src) && eqbytes (r6_dst x) (as16 dst)
             && eqbytes (r6_payload x) payload && Nat.eqb (len p) (40 + plen)
          then sp (show_enc old r)
                  (fmt_ip6 "6" (dn plen) (dec_of_N nh) (dec_of_N hop) (tok_of_bytes (as16 src))
                           (tok_of_bytes (as16 dst)) "T" (if Nat.eqb (cap p) 40 then "empty" else "40+" ++ dn plen))
          else REF
      | None => REF
      end
  | _ => "no-result"
  end.

Definition run_ip6pl (c l : nat) (seed hop : N) (src dst : bytes) (nh : N) (mode payload : bytes) : string :=
  let b := mkbuf c l seed in
  let plen := List.length payload in
  match encode_ip6 b hop src dst with
  | Ok (ip, fresh) =>
      let st := if is_mode mode MODE_S
                then (let r0 := ip6_set_payload (if fresh then ip else prewrite ip 40 payload) plen nh in (r0, buf_after ip r0))
                else ip6_append_st ip payload (is_mode mode MODE_N) nh in
      let r := fst st in
      if fresh then
        (* the frame lives in a private 40-byte buffer: the caller's buffer is untouched *)
        out3 (match r with
              | Ok s => sp (sp (sp "fresh" (show_fresh (Ok s))) "-") (rb_ip6 s)
              | Err e => "fresh err:" ++ show_err e
              | _ => "panic"
              end) "-" "-"
      else
        let m := with_rb_pre (arr b) (snd st) r rb_ip6 in
        let fits := Nat.leb (40 + plen) c && Nat.leb (40 + plen) 1508 && negb (is_mode mode MODE_N) in
        out3 m (if fits then ip6_expect (arr b) r hop nh src dst payload else "-") "-"
  | _ => out3 "panic" "-" "-"
  end.

Definition rb_frame6 (e : slice) : string :=
  let ip := ether_payload e in
  let u := bind ip ip6_payload in
  rb_ether e ++ BAR ++ show_res rb_ip6 ip ++ BAR ++ show_res rb_udp u ++ BAR ++ show_class (parse_class e).

Definition frame6_pre (b : slice) (smac dmac : bytes) (hop : N) (sip dip : bytes) (sport dport : N) : bytes :=
  match (e <- encode_ether b ETH_P_IPV6 smac dmac ;;
         pl <- ether_payload e ;;
         '(ip, fresh) <- encode_ip6 pl hop sip dip ;;
         ipl <- ip6_payload ip ;;
         u <- encode_udp ipl sport dport ;;
         Ok (if fresh then arr e else arr (writeback e (arr (writeback ip (arr u))))))%res with
  | Ok a => a
  | _ => arr b
  end.

Definition run_frame6 (c l : nat) (seed : N) (smac dmac : bytes) (hop : N) (sip dip : bytes)
           (sport dport : N) (data : bytes) : string :=
  let b := mkbuf c l seed in
  let r := compose_udp6 b smac dmac hop sip dip sport dport data in
  let m := with_rb_pre (arr b) (frame6_pre b smac dmac hop sip dip sport dport) r rb_frame6 in
  let dl := List.length data in
  let fits := Nat.leb (62 + dl) c && Nat.leb (62 + dl) 1522
              && Nat.eqb (List.length smac) 6 && Nat.eqb (List.length dmac) 6
              && (N.land (nth 0 smac 0) 1 =? 0) in
  let s :=
    if fits then
      match r with
      | Ok e =>
          match ref_ether (view e) with
          | Some x =>
              match ref_ip6 (re_payload x) with
              | Some y =>
                  match ref_udp (r6_payload y) with
                  | Some z =>
                      if eqbytes (re_dst x) dmac && eqbytes (re_src x) smac && (re_type x =? ETH_P_IPV6)
                         && (r6_hop y =? hop) && (r6_next y =? 17) && eqbytes (r6_src y) (as16 sip)
                         && eqbytes (r6_dst y) (as16 dip) && (r6_plen y =? N.of_nat (8 + dl))
                         && Nat.eqb (List.length (re_payload x)) (48 + dl)
                         && (ru_sport z =? sport) && (ru_dport z =? dport) && (ru_len z =? N.of_nat (8 + dl))
                         && eqbytes (ru_payload z) data
                      then
                        sp (show_enc (arr b) r)
                           (fmt_ether (tok_of_bytes dmac) (tok_of_bytes smac) "34525" "14" ("14+" ++ dn (48 + dl))
                            ++ BAR ++
                            fmt_ip6 "6" (dn (8 + dl)) "17" (dec_of_N hop) (tok_of_bytes (as16 sip))
                                    (tok_of_bytes (as16 dip)) "T" ("40+" ++ dn (8 + dl))
                            ++ BAR ++
                            fmt_udp (dec_of_N sport) (dec_of_N dport) (dn (8 + dl)) "0" "T"
                                    (if Nat.eqb c (62 + dl) && Nat.eqb dl 0 then "empty" else "8+" ++ dn dl)
                            ++ BAR ++ dec_of_N (class_of_ports sport dport) ++ "/F")
                      else REF
                  | None => REF
                  end
              | None => REF
              end
          | None => REF
          end
      | _ => "no-result"
      end
    else "-" in
  out3 m s "-".

(* ---------------- ARP ---------------- *)
Definition run_arp (c l : nat) (seed op : N) (smac sip dmac dip : bytes) : string :=
  let b := mkbuf c l seed in
  let r := encode_arp b op smac sip dmac dip in
  let m := with_rb (arr b) r rb_arp in
  let fits := Nat.leb 28 c && Nat.eqb (List.length smac) 6 && Nat.eqb (List.length dmac) 6 && is4 sip && is4 dip in
  let s := if fits then
             match r with
             | Ok p =>
                 match ref_arp (view p) with
                 | Some x => if (ra_op x =? op) && eqbytes (ra_sha x) smac && eqbytes (ra_spa x) sip
                                && eqbytes (ra_tha x) dmac && eqbytes (ra_tpa x) dip && Nat.eqb (len p) 28
                             then sp (show_enc (arr b) r)
                                     (fmt_arp "1" "2048" "6" "4" (dec_of_N op) (tok_of_bytes smac) (tok_of_bytes sip)
                                              (tok_of_bytes dmac) (tok_of_bytes dip) "T")
                             else REF
                 | None => REF
                 end
             | _ => "no-result"
             end
           else "-" in
  out3 m s "-".

(* ---------------- ICMP echo ---------------- *)
Definition run_echo (c l : nat) (seed t code id sq : N) (data : bytes) : string :=
  let b := mkbuf c l seed in
  let r := encode_icmp_echo b t code id sq data in
  let m := with_rb (arr b) r rb_echo in
  let dl := List.length data in
  let fits := Nat.leb (8 + dl) c in
  let s := if fits then
             match r with
             | Ok p =>
                 match ref_echo (view p) with
                 | Some x => if (rc_type x =? t) && (rc_code x =? code) && (rc_cksum x =? 0) && (rc_id x =? id)
                                && (rc_seq x =? sq) && eqbytes (rc_data x) data
                             then sp (show_enc (arr b) r)
                                     (fmt_echo (dec_of_N t) (dec_of_N code) "0" (dec_of_N id) (dec_of_N sq) "T"
                                               (* EchoData: nil for an empty payload *)
                                               (if Nat.eqb dl 0 then "empty" else "8+" ++ dn dl))
                             else REF
                 | None => REF
                 end
             | _ => "no-result"
             end
           else "-" in
  out3 m s "-".

(* ---------------- NDP NA / NS ---------------- *)
Definition run_na (ro so ov : bool) (tip tmac : bytes) : string :=
  let r := na_marshal ro so ov tip tmac in
  let m := match r with Ok s => sp (show_fresh r) (rb_na s) | _ => show_fresh r end in
  let fits := is16 tip && Nat.eqb (List.length tmac) 6 in
  let s := if fits then
             match r with
             | Ok p =>
                 match ref_nd (view p) with
                 | Some x =>
                     if (rn_type x =? 136) && (rn_code x =? 0)
                        && (rn_flags x =? bflag ro 128 + bflag so 64 + bflag ov 32)
                        && eqbytes (rn_target x) tip
                        && match ref_na_tlla x with Some mm => eqbytes mm tmac | None => false end
                     then sp (show_fresh r)
                             (fmt_na "136" "0" (show_bool ro) (show_bool so) (show_bool ov) (tok_of_bytes tip)
                                     (tok_of_bytes tmac) "T")
                     else REF
                 | None => REF
                 end
             | _ => "no-result"
             end
           else "-" in
  out3 m s "-".

Definition run_ns (tip slla : bytes) : string :=
  let r := ns_marshal tip slla in
  let m := match r with Ok s => sp (show_fresh r) (rb_ns s) | _ => show_fresh r end in
  let fits := is16 tip && Nat.eqb (List.length slla) 6 in
  let s := if fits then
             match r with
             | Ok p =>
                 match ref_nd (view p) with
                 | Some x =>
                     if (rn_type x =? 135) && (rn_code x =? 0) && eqbytes (rn_target x) tip
                        && match ref_ns_slla x with Some mm => eqbytes mm slla | None => false end
                     then sp (show_fresh r) (fmt_ns "135" "0" (tok_of_bytes tip) (tok_of_bytes slla) "T")
                     else REF
                 | None => REF
                 end
             | _ => "no-result"
             end
           else "-" in
  out3 m s "-".

(* ---------------- DNS query ---------------- *)
(* is the name a sequence of plain labels (1..63) closed by the root label, with nothing after it *)
Definition wire_name_okb (name : bytes) : bool :=
  match ref_labels (S (List.length name)) name with
  | Some (_, []) => true
  | _ => false
  end.

Definition run_dnsq (id fl : N) (name : bytes) (qt : N) : string :=
  let r := encode_dns_query id fl name qt in
  let m := match r with Ok s => sp (show_fresh r) (rb_dns s) | _ => show_fresh r end in
  let fits := wire_name_okb name && Nat.leb (List.length name) 255 in
  let s := if fits then
             match r with
             | Ok p =>
                 match ref_dns_query (view p) with
                 | Some x =>
                     if (rq_id x =? id) && (rq_flags x =? fl) && (rq_qd x =? 1) && (rq_an x =? 0) && (rq_ns x =? 0)
                        && (rq_ar x =? 0) && eqbytes (wire_of_labels (rq_labels x)) name && (rq_type x =? qt)
                        && (rq_class x =? 1) && eqbytes (rq_trailing x) []
                     then (* the read-back column is the library's DecodeQuestion, which since repo commit c8663df
                             rejects a label containing '.': such names are encoded (the reference decoder above
                             has read them back) but are outside the domain of the library-view read-back *)
                          if existsb (fun l => existsb (N.eqb 46) l) (rq_labels x) then "-" else
                          sp (show_fresh r)
                             (fmt_dns (dec_of_N id) (dec_of_N fl) "1" "0" "0" "0"
                                (sp (sp (sp (kv "name" (tok_of_bytes (join_labels (rq_labels x)))) (kv "qt" (dec_of_N qt)))
                                    (kv "qc" "1")) (kv "end" (dn (16 + List.length name)))))
                     else REF
                 | None => REF
                 end
             | _ => "no-result"
             end
           else "-" in
  out3 m s "-".

(* ---------------- DHCPv4 ---------------- *)
Definition COMMA : ascii := ","%char.
Definition EQUALS : ascii := "="%char.
Fixpoint parse_opts_toks (l : list string) : option opts :=
  match l with
  | [] => Some []
  | t :: r =>
      match Text.split EQUALS t with
      | [k; v] => match N_of_dec k, bytes_of_hex v, parse_opts_toks r with
                  | Some k', Some v', Some r' => Some ((k', v') :: r')
                  | _, _, _ => None
                  end
      | _ => None
      end
  end.
Definition opts_of_tok (s : string) : option opts :=
  if String.eqb s "-" then Some [] else parse_opts_toks (Text.split COMMA s).
Definition show_opts (o : opts) : string :=
  match o with
  | [] => "-"
  | _ => join "," (map (fun kv => dec_of_N (fst kv) ++ "=" ++ hex_of_bytes (snd kv)) (sort_opts o))
  end.

Definition fmt_dhcp (op ht hl hops xid secs fl ci yi si gi ch ck ok os : string) : string :=
  sp (sp (sp (sp (sp (sp (sp (sp (sp (sp (sp (sp (sp (sp (kv "op" op) (kv "ht" ht)) (kv "hl" hl)) (kv "hops" hops))
     (kv "xid" xid)) (kv "secs" secs)) (kv "fl" fl)) (kv "ci" ci)) (kv "yi" yi)) (kv "si" si)) (kv "gi" gi))
     (kv "ch" ch)) (kv "ck" ck)) (kv "ok" ok)) (kv "opts" os).
Definition rb_dhcp (p : slice) : string :=
  fmt_dhcp (rN (dhcp_opcode p)) (rN (dhcp_htype p)) (rN (dhcp_hlen p)) (rN (dhcp_hops p)) (rB (dhcp_xid p))
           (rN (dhcp_secs p)) (rN (dhcp_flags p)) (rB (dhcp_ciaddr p)) (rB (dhcp_yiaddr p)) (rB (dhcp_siaddr p))
           (rB (dhcp_giaddr p)) (rB (dhcp_chaddr p)) (rB (dhcp_cookie p)) (rT (dhcp_is_valid p))
           (show_opts (dhcp_parse_options p)).

Definition opts_size (o : opts) : nat := fold_right (fun kv n => (2 + List.length (snd kv) + n)%nat) 0%nat o.
Definition keys_ok (o : opts) : bool :=
  forallb (fun kv => negb (fst kv =? 0) && (fst kv <? 255) && Nat.leb (List.length (snd kv)) 255) o.
Fixpoint nodup_keys (o : opts) : bool :=
  match o with
  | [] => true
  | (k, _) :: r => match lookup_opt k r with None => nodup_keys r | Some _ => false end
  end.
Fixpoint index_of (k : N) (l : list N) (i : nat) : option nat :=
  match l with [] => None | x :: r => if x =? k then Some i else index_of k r (S i) end.
(* the caller's order names the router (3) before the mask (1), and both options are present *)
Definition known_router_before_mask (o : opts) (order : list N) : bool :=
  match lookup_opt 1 o, lookup_opt 3 o with
  | Some _, Some _ =>
      match index_of 3 (effective_order order) 0, index_of 1 (effective_order order) 0 with
      | Some i, Some j => Nat.ltb i j
      | _, _ => false
      end
  | _, _ => false
  end.

Definition run_dhcp4 (c l : nat) (seed opcode mt : N) (chflag : bool) (ch ci yi : bytes) (xflag : bool)
           (xid : bytes) (bc : bool) (o : opts) (order perm : list N) : string :=
  let b := mkbuf c l seed in
  let r := encode_dhcp4 b opcode mt (if chflag then Some ch else None) ci yi (if xflag then Some xid else None)
                        bc o order perm in
  let m := match r with
           | Ok s => if Nat.eqb (cap s) 0
                     then sp (sp "ok 0 0" (show_hull (arr b)
                               (dhcp4_nil_buffer b opcode mt (if chflag then Some ch else None) ci yi
                                                 (if xflag then Some xid else None) bc o order perm)))
                             (rb_dhcp s)
                     else with_rb (arr b) r rb_dhcp
           | _ => with_rb (arr b) r rb_dhcp
           end in
  let o' := set_opt 53 [mt] o in
  let fits := Nat.leb 300 c && nodup_keys o && keys_ok o'
              && Nat.leb (241 + opts_size o') c
              && (negb chflag || Nat.eqb (List.length ch) 6) && (negb xflag || Nat.eqb (List.length xid) 4)
              && (is4 ci || Nat.eqb (List.length ci) 0) && (is4 yi || Nat.eqb (List.length yi) 0) in
  let known := fits && known_router_before_mask o' order in
  let old := arr b in
  let s :=
    if fits then
      match r with
      | Ok p =>
          match ref_dhcp (view p) with
          | Some x =>
              if (rd_op x =? opcode) && (rd_htype x =? 1) && (rd_hlen x =? 6) && (rd_hops x =? 0)
                 && eqbytes (rd_xid x) (if xflag then xid else sub old 4 4) && (rd_secs x =? 0)
                 && (rd_flags x =? bflag bc 32768)
                 && eqbytes (rd_ciaddr x) (if is4 ci then ci else sub old 12 4)
                 && eqbytes (rd_yiaddr x) (if is4 yi then yi else sub old 16 4)
                 && eqbytes (rd_siaddr x) [0;0;0;0] && eqbytes (rd_giaddr x) [0;0;0;0]
                 && eqbytes (rd_chaddr x) ((if chflag then ch else sub old 28 6) ++ repeat 0 10)%list
                 && forallb (fun v => v =? 0) (rd_sname x) && forallb (fun v => v =? 0) (rd_file x)
                 && String.eqb (show_opts (rd_options x)) (show_opts o')
                 && Nat.eqb (List.length (rd_options x)) (List.length o')
                 && forallb (fun v => v =? 0) (rd_pad x)
                 && Nat.eqb (len p) (Nat.max 300 (241 + opts_size o'))
              then
                if mask_before_router (rd_options x) then
                  sp (show_enc old r)
                     (fmt_dhcp (dec_of_N opcode) "1" "6" "0" (tok_of_bytes (if xflag then xid else sub old 4 4)) "0"
                               (dec_of_N (bflag bc 32768))
                               (tok_of_bytes (if is4 ci then ci else sub old 12 4))
                               (tok_of_bytes (if is4 yi then yi else sub old 16 4)) "00000000" "00000000"
                               (tok_of_bytes (if chflag then ch else sub old 28 6)) "63825363"
                               (show_bool ((opcode =? 1) || (opcode =? 2))) (show_opts o'))
                else "ROUTER-BEFORE-MASK"
              else REF
          | None => REF
          end
      | _ => "no-result"
      end
    else "-" in
  out3 m s (if known then "dhcp-router-before-mask" else "-").

(* ---------------- small IPv4 packets padded by Ether.AppendPayload ---------------- *)
(* every inner view is obtained through the library's Payload() getters; [vl] is len(view) *)
Definition vl (r : res slice) : string := kv "vl" (show_res (fun s => dn (len s)) r).
Definition rb_pad4 (inner : slice -> string) (data : slice -> res slice) (e : slice) : string :=
  let ip := ether_payload e in
  let u := bind ip ip4_payload in
  rb_ether e ++ BAR ++ vl ip ++ " " ++ show_res rb_ip4 ip ++ BAR ++ vl u ++ " " ++ show_res inner u ++ BAR
  ++ kv "data" (show_res (fun d => tok_of_bytes (view d)) (bind u data)) ++ BAR ++ show_class (parse_class e).

Definition pad4_expect (old : bytes) (r : res slice) (c : nat) (smac dmac : bytes) (ttl proto : N) (sip dip : bytes)
           (inner_len : nat) (inner : string) (data : bytes) (cls : string) : string :=
  let tl := (20 + inner_len)%nat in
  let epl := Nat.max 46 tl in
  sp (show_enc old r)
     (fmt_ether (tok_of_bytes dmac) (tok_of_bytes smac) "2048" "14" ("14+" ++ dn epl)
      ++ BAR ++ kv "vl" (dn epl) ++ " " ++
      fmt_ip4 "4" "20" "192" (dn tl) "0" "0" (dec_of_N ttl) (dec_of_N proto) (tok_of_bytes sip) (tok_of_bytes dip)
              "T" "T" ("20+" ++ dn inner_len)
      ++ BAR ++ kv "vl" (dn inner_len) ++ " " ++ inner ++ BAR ++ kv "data" (tok_of_bytes data) ++ BAR ++ cls).

Definition pad4_fits (c : nat) (smac dmac sip dip : bytes) (inner_len : nat) : bool :=
  Nat.leb 60 c && Nat.leb (34 + inner_len) c && Nat.leb (34 + inner_len) 1522
  && Nat.eqb (List.length smac) 6 && Nat.eqb (List.length dmac) 6 && is4 sip && is4 dip
  && (N.land (nth 0 smac 0) 1 =? 0).

Definition run_pad4u (c l : nat) (seed : N) (smac dmac : bytes) (ttl : N) (sip dip : bytes)
           (sport dport : N) (data : bytes) : string :=
  let b := mkbuf c l seed in
  let e0 := match encode_ether b ETH_P_IP smac dmac with Ok e => arr e | _ => arr b end in
  let r := ether_wrap4 b smac dmac (packet_udp4 ttl sip dip sport dport data) in
  let m := with_rb_pre (arr b) e0 r (rb_pad4 rb_udp udp_payload) in
  let dl := List.length data in
  let s := if pad4_fits c smac dmac sip dip (8 + dl) then
             match r with
             | Ok e =>
                 match ref_ether (view e) with
                 | Some x =>
                     match ref_ip4 (re_payload x) with
                     | Some y =>
                         match ref_udp (r4_payload y) with
                         | Some z =>
                             if eqbytes (re_dst x) dmac && eqbytes (re_src x) smac && (r4_ttl y =? ttl) && (r4_proto y =? 17)
                                && eqbytes (r4_src y) sip && eqbytes (r4_dst y) dip && (r4_totlen y =? N.of_nat (28 + dl))
                                && Nat.eqb (List.length (r4_payload y)) (8 + dl)
                                && (ru_sport z =? sport) && (ru_dport z =? dport) && (ru_len z =? N.of_nat (8 + dl))
                                && eqbytes (ru_payload z) data
                                && Nat.eqb (List.length (re_payload x)) (Nat.max 46 (28 + dl))
                                && forallb (fun v => v =? 0) (skipn (28 + dl) (re_payload x))
                             then pad4_expect (arr b) r c smac dmac ttl 17 sip dip (8 + dl)
                                    (fmt_udp (dec_of_N sport) (dec_of_N dport) (dn (8 + dl)) "0" "T" ("8+" ++ dn dl))
                                    data (dec_of_N (class_of_ports sport dport) ++ "/F")
                             else REF
                         | None => REF
                         end
                     | None => REF
                     end
                 | None => REF
                 end
             | _ => "no-result"
             end
           else "-" in
  out3 m s "-".

Definition run_pad4e (c l : nat) (seed : N) (smac dmac : bytes) (ttl : N) (sip dip : bytes)
           (t code id sq : N) (data : bytes) : string :=
  let b := mkbuf c l seed in
  let e0 := match encode_ether b ETH_P_IP smac dmac with Ok e => arr e | _ => arr b end in
  let r := ether_wrap4 b smac dmac (packet_echo4 ttl sip dip t code id sq data) in
  let m := with_rb_pre (arr b) e0 r (rb_pad4 rb_echo echo_data) in
  let dl := List.length data in
  let s := if pad4_fits c smac dmac sip dip (8 + dl) then
             match r with
             | Ok e =>
                 match ref_ether (view e) with
                 | Some x =>
                     match ref_ip4 (re_payload x) with
                     | Some y =>
                         match ref_echo (r4_payload y) with
                         | Some z =>
                             if eqbytes (re_dst x) dmac && eqbytes (re_src x) smac && (r4_ttl y =? ttl) && (r4_proto y =? 1)
                                && eqbytes (r4_src y) sip && eqbytes (r4_dst y) dip && (r4_totlen y =? N.of_nat (28 + dl))
                                && (rc_type z =? t) && (rc_code z =? code) && (rc_id z =? id) && (rc_seq z =? sq)
                                && eqbytes (rc_data z) data
                                && Nat.eqb (List.length (re_payload x)) (Nat.max 46 (28 + dl))
                             then pad4_expect (arr b) r c smac dmac ttl 1 sip dip (8 + dl)
                                    (fmt_echo (dec_of_N t) (dec_of_N code) "0" (dec_of_N id) (dec_of_N sq) "T"
                                              (if Nat.eqb dl 0 then "empty" else "8+" ++ dn dl))
                                    data "6/F"
                             else REF
                         | None => REF
                         end
                     | None => REF
                     end
                 | None => REF
                 end
             | _ => "no-result"
             end
           else "-" in
  out3 m s "-".

(* ---------------- re-use of views ---------------- *)
(* A header is encoded once; then SetPayload / AppendPayload / re-slicing are applied one after
   another, each on the view the previous call returned (larger, smaller, empty payloads; views
   longer than the header; Set after Append and vice versa).  Transcript: per step the length of
   the returned view and the layer's length field; at the end the changed window and the getters. *)
Inductive sop := OpSet (pl : bytes) | OpApp (pl : bytes) | OpView (n : nat).

Definition SEMI : ascii := ";"%char.
Definition op_of_tok (t : string) : option sop :=
  match t with
  | String c (String e r) =>
      if negb (Ascii.eqb e EQUALS) then None else
      if Ascii.eqb c "s" then option_map OpSet (bytes_of_tok r)
      else if Ascii.eqb c "a" then option_map OpApp (bytes_of_tok r)
      else if Ascii.eqb c "v" then option_map (fun n => OpView (nn n)) (N_of_dec r)
      else None
  | _ => None
  end.
Fixpoint ops_of_toks (l : list string) : option (list sop) :=
  match l with
  | [] => Some []
  | t :: r => match op_of_tok t, ops_of_toks r with Some o, Some os => Some (o :: os) | _, _ => None end
  end.
Definition ops_of_tok (s : string) : option (list sop) := ops_of_toks (Text.split COMMA s).

Record layer := mkLayer {
  l_hdr : nat;                                  (* header length = offset of the payload *)
  l_set : slice -> nat -> res slice;            (* SetPayload (only the length is used) *)
  l_app : slice -> bytes -> res slice;          (* AppendPayload *)
  l_field : slice -> string;                    (* the layer's own length field *)
  l_rb : slice -> string;
  l_want_len : bool -> nat -> nat;              (* expected view length after Set(false)/Append(true) of n bytes *)
  l_want_field : nat -> string;
  l_errbig : bool }.                            (* a payload beyond the capacity is rejected with ErrPayloadTooBig *)

(* (transcript, spec transcript, still inside the domain, current view) *)
Fixpoint run_ops (ly : layer) (ops : list sop) (cur : slice) (buf : bytes) (m s : string) (fits : bool)
  : option (string * string * bool * slice * bytes) :=
  match ops with
  | [] => Some (m, s, fits, cur, buf)
  | o :: r =>
      let step (res : res slice) (isapp : bool) (n : nat) :=
        (* what the property expects of this step, independently of what the code did *)
        let inside := Nat.leb (l_hdr ly + n) (cap cur) in
        let want := if inside then dn (l_want_len ly isapp n) ++ "/" ++ l_want_field ly n
                    else "err:EPayloadTooBig" in
        let fit' := fits && (inside || (isapp && l_errbig ly)) in
        match res with
        | Ok c' => run_ops ly r c' (if Nat.eqb (cap c') 0 then buf else arr c')   (* a nil result: the storage is what it was *)
                           (sp m (dn (len c') ++ "/" ++ l_field ly c')) (sp s want) fit'
        | Err e => run_ops ly r cur buf (sp m ("err:" ++ show_err e)) (sp s want) fit'
        | _ => None
        end in
      match o with
      | OpSet pl => step (l_set ly (prewrite cur (l_hdr ly) pl) (List.length pl)) false (List.length pl)
      | OpApp pl => step (l_app ly cur pl) true (List.length pl)
      | OpView n =>
          match reslice cur n with
          | Ok c' => run_ops ly r c' buf (sp m ("v" ++ dn n)) (sp s ("v" ++ dn n)) (fits && Nat.leb (l_hdr ly) n)
          | _ => None
          end
      end
  end.

Definition run_reuse (ly : layer) (old : bytes) (start : res slice) (ops : list sop) (fits0 : bool) : string :=
  match start with
  | Ok c0 =>
      match run_ops ly ops c0 (arr c0) "ok" "ok" fits0 with
      | Some (m, s, fits, cur, buf) =>
          let tail := BAR ++ show_hull old buf ++ BAR ++ l_rb ly cur in
          out3 (m ++ tail) (if fits then s ++ tail else "-") "-"
      | None => out3 "panic" "-" "-"
      end
  | _ => out3 "panic" "-" "-"
  end.

Definition layer_ip4 (proto : N) : layer :=
  mkLayer 20 (fun p n => ip4_set_payload p n proto) (fun p b => ip4_append p b proto)
          (fun p => rNat (ip4_totlen p)) rb_ip4 (fun _ n => (20 + n)%nat) (fun n => dn (20 + n)) true.
Definition layer_ip6 (nh : N) : layer :=
  mkLayer 40 (fun p n => ip6_set_payload p n nh) (fun p b => ip6_append p b false nh)
          (fun p => rN (ip6_payloadlen p)) rb_ip6 (fun _ n => (40 + n)%nat) (fun n => dn n) true.
Definition layer_udp : layer :=
  mkLayer 8 udp_set_payload udp_append (fun p => rN (udp_len p)) rb_udp (fun _ n => (8 + n)%nat) (fun n => dn (8 + n)) true.
Definition layer_eth : layer :=
  mkLayer 14 ether_set_payload (fun p b => ether_append p b (List.length b)) (fun _ => "-") rb_ether
          (fun isapp n => if isapp then Nat.max 60 (14 + n) else (14 + n)%nat) (fun _ => "-") true.
Definition layer_echo (t code id sq : N) : layer :=
  mkLayer 8 (fun p _ => Panic) (fun p b => encode_icmp_echo p t code id sq b) (fun _ => "-") rb_echo
          (fun _ n => (8 + n)%nat) (fun _ => "-") false.

(* ---------------- constants the model hard-codes ---------------- *)
(* compared with the values extracted from the library's source (harness/cmd/c03/consts.go);
   named model constants are referenced, literals used inside the model functions are repeated here *)
Definition show_Nlist (l : list N) : string := join "," (map dec_of_N l).
Definition model_consts : list (string * string) :=
  [ ("EthMaxSize", "1522"); ("EthHeaderLen", dn 14); ("EthAddrLen", "6");
    ("EthType8021AD", dec_of_N ETH_P_8021AD); ("HeaderLen", "20"); ("UDPHeaderLen", "8"); ("IP6HeaderLen", "40");
    ("ARPLen", "28"); ("ARPOperationRequest", "1"); ("ARPOperationReply", "2");
    ("ICMP4TypeEchoReply", "0"); ("ICMP4TypeEchoRequest", "8"); ("ICMP6TypeEchoRequest", "128"); ("ICMP6TypeEchoReply", "129");
    ("DHCP4ServerPort", "67"); ("DHCP4ClientPort", "68"); ("DHCP4BootRequest", "1"); ("DHCP4BootReply", "2");
    ("DHCP4End", "255"); ("DHCP4Pad", "0");
    ("DHCP4OptionSubnetMask", dec_of_N (nth 0 reply_params 0)); ("DHCP4OptionRouter", dec_of_N (nth 2 reply_params 0));
    ("DHCP4OptionStaticRoute", dec_of_N (nth 1 reply_params 0)); ("DHCP4OptionDHCPMessageType", "53");
    ("questionClassInternet", "1");
    ("PayloadEther", dec_of_N PayloadEther); ("Payload8023", dec_of_N Payload8023); ("PayloadIP4", dec_of_N PayloadIP4);
    ("PayloadIP6", dec_of_N PayloadIP6); ("PayloadICMP4", dec_of_N PayloadICMP4); ("PayloadUDP", dec_of_N PayloadUDP);
    ("PayloadDHCP4", dec_of_N PayloadDHCP4); ("PayloadDHCP6", dec_of_N PayloadDHCP6); ("PayloadDNS", dec_of_N PayloadDNS);
    ("PayloadMDNS", dec_of_N PayloadMDNS); ("PayloadSSL", dec_of_N PayloadSSL); ("PayloadNTP", dec_of_N PayloadNTP);
    ("PayloadSSDP", dec_of_N PayloadSSDP); ("PayloadWSDP", dec_of_N PayloadWSDP); ("PayloadNBNS", dec_of_N PayloadNBNS);
    ("PayloadPlex", dec_of_N PayloadPlex); ("PayloadUbiquiti", dec_of_N PayloadUbiquiti); ("PayloadLLMNR", dec_of_N PayloadLLMNR);
    ("EncodeDHCP4.mincap", "300"); ("EncodeDHCP4.padto", "300"); ("EncodeDHCP4.cookie", "99,130,83,99");
    ("AppendOptions.reply", show_Nlist reply_params); ("AppendOptions.fixedlen", "240");
    ("Ether.AppendPayload.minframe", "60"); ("EncodeEther.mincap", "14");
    ("NS.option.type", dec_of_N NS_OPT_TYPE); ("NA.option.type", "2");
    ("EncodeIP4.tos", "192"); ("EncodeIP6.nonext", "59");
    ("Parse.udp.ports", "53,67,68,123,137,138,443,546,547,1900,3702,5353,5355,10001,32412,32414");
    ("syscall.ETH_P_IP", dec_of_N ETH_P_IP); ("syscall.ETH_P_IPV6", dec_of_N ETH_P_IPV6); ("syscall.ETH_P_ARP", dec_of_N ETH_P_ARP);
    ("syscall.ETH_P_8021Q", dec_of_N ETH_P_8021Q); ("syscall.IPPROTO_UDP", dec_of_N IPPROTO_UDP);
    ("syscall.IPPROTO_ICMP", dec_of_N IPPROTO_ICMP);
    ("ipv6.ICMPTypeNeighborSolicitation", "135"); ("ipv6.ICMPTypeNeighborAdvertisement", "136") ].
Fixpoint lookup_const (n : string) (t : list (string * string)) : string :=
  match t with
  | [] => "unknown-constant"
  | (k, v) :: r => if String.eqb k n then v else lookup_const n r
  end.

(* ---------------- census of the library's encoder functions ---------------- *)
(* Every function of package packet whose name says it encodes, sorted as the harness extracts them
   (go/ast).  [true] = modelled by C03 (Model/Encode*.v); [false] = outside C03: the NDP option and
   RA/RS marshal methods and marshalOptions are modelled by SEND (Model/SendNdp.v, C07), encodeName by
   SEND/DNS (Model/SendUdp.v).  A new, removed or renamed encoder changes the list. *)
Definition encoder_census : list (string * bool) :=
  [ ("DHCP4.AppendOptions", true); ("DNSSearchList.marshal", false); ("EncodeARP", true); ("EncodeDHCP4", true);
    ("EncodeDNSQuery", true); ("EncodeEther", true); ("EncodeICMPEcho", true); ("EncodeIP4", true); ("EncodeIP6", true);
    ("EncodeUDP", true); ("Ether.AppendPayload", true); ("Ether.SetPayload", true);
    ("ICMP6NeighborAdvertisementMarshal", true); ("ICMP6NeighborSolicitationMarshal", true);
    ("IP4.AppendPayload", true); ("IP4.SetPayload", true); ("IP6.AppendPayload", true); ("IP6.SetPayload", true);
    ("LinkLayerAddress.marshal", false); ("MTU.marshal", false); ("PrefixInformation.marshal", false);
    ("RawOption.marshal", false); ("RecursiveDNSServer.marshal", false); ("RouteInformation.marshal", false);
    ("RouterAdvertisement.marshal", false); ("RouterSolicitation.marshal", false);
    ("UDP.AppendPayload", true); ("UDP.SetPayload", true); ("encode", false) ].
(* unexported helpers called solely by the functions above (encodeName by EncodeDNSQuery / encode, marshalOptions
   by the RA / RS marshal methods, any helper a refactoring extracts from an encoder) inherit the classification
   of their callers: the harness counts them (stats named census.inherited.NAME) and does not list them. *)

(* package-level variables mentioned by the encoders and by the package functions they call: error values and
   the IPv4 zero address only, all read-only; no pool, no scratch buffer, no counter.  (Encoders are functions of
   their arguments and of the destination buffer: theorem C03_encode_deterministic.) *)
Definition encoder_globals : string :=
  "DNSSearchList.marshal:errDNSSLBadDomains+errDNSSLNoDomains;EncodeDHCP4:IPv4zero;EncodeIP4:IPv4zero;Ether.AppendPayload:ErrPayloadTooBig;IP4.AppendPayload:ErrPayloadTooBig;IP6.AppendPayload:ErrPayloadTooBig;RecursiveDNSServer.marshal:errRDNSSNoServers;UDP.AppendPayload:ErrPayloadTooBig".

(* non-constant 8- / 16-bit arithmetic inside the encoder functions, with the place it is used in (go/types).
   The model computes every length in unbounded integers and wraps (u16 / u8) exactly at these places: the
   stores into the UDP length field, the RA flag octets and the option Length octets of SEND's marshal
   functions.  A capacity check, a re-slice or an assignment computed in 16 bits is a new row (tie alarm). *)
Definition encoder_widths : string :=
  "RecursiveDNSServer.marshal:1+uint8((slen*2))@other;RouteInformation.marshal:prf<<3@assign;RouteInformation.marshal:uint8(iplen)+1@other;RouterAdvertisement.marshal:prf<<3@assign;UDP.AppendPayload:UDPHeaderLen+uint16(len(b))@arg;UDP.SetPayload:UDPHeaderLen+uint16(len(b))@arg".

(* ---------------- dispatch ---------------- *)
Definition dispatch (kind : string) (args : list string) : string :=
  if String.eqb kind "ether" then
    match parse_args "nnnnbb" args with
    | Some [AN c; AN l; AN s; AN ht; AB src; AB dst] => run_ether (nn c) (nn l) s ht src dst
    | _ => BADARGS
    end
  else if String.eqb kind "ethpl" then
    match parse_args "nnnnbbbbn" args with
    | Some [AN c; AN l; AN s; AN ht; AB src; AB dst; AB mode; AB payload; AN extra] =>
        run_ethpl (nn c) (nn l) s ht src dst mode payload (nn extra)
    | _ => BADARGS
    end
  else if String.eqb kind "ip4" then
    match parse_args "nnnnbb" args with
    | Some [AN c; AN l; AN s; AN ttl; AB src; AB dst] => run_ip4 (nn c) (nn l) s ttl src dst
    | _ => BADARGS
    end
  else if String.eqb kind "ip4pl" then
    match parse_args "nnnnbbnbb" args with
    | Some [AN c; AN l; AN s; AN ttl; AB src; AB dst; AN proto; AB mode; AB payload] =>
        run_ip4pl (nn c) (nn l) s ttl src dst proto mode payload
    | _ => BADARGS
    end
  else if String.eqb kind "udp" then
    match parse_args "nnnnn" args with
    | Some [AN c; AN l; AN s; AN sport; AN dport] => run_udp (nn c) (nn l) s sport dport
    | _ => BADARGS
    end
  else if String.eqb kind "udppl" then
    match parse_args "nnnnnbb" args with
    | Some [AN c; AN l; AN s; AN sport; AN dport; AB mode; AB payload] =>
        run_udppl (nn c) (nn l) s sport dport mode payload
    | _ => BADARGS
    end
  else if String.eqb kind "frame4" then
    match parse_args "nnnbbnbbnnb" args with
    | Some [AN c; AN l; AN s; AB smac; AB dmac; AN ttl; AB sip; AB dip; AN sport; AN dport; AB data] =>
        run_frame4 (nn c) (nn l) s smac dmac ttl sip dip sport dport data
    | _ => BADARGS
    end
  else if String.eqb kind "pad4u" then
    match parse_args "nnnbbnbbnnb" args with
    | Some [AN c; AN l; AN s; AB smac; AB dmac; AN ttl; AB sip; AB dip; AN sport; AN dport; AB data] =>
        run_pad4u (nn c) (nn l) s smac dmac ttl sip dip sport dport data
    | _ => BADARGS
    end
  else if String.eqb kind "pad4e" then
    match parse_args "nnnbbnbbnnnnb" args with
    | Some [AN c; AN l; AN s; AB smac; AB dmac; AN ttl; AB sip; AB dip; AN t; AN code; AN id; AN sq; AB data] =>
        run_pad4e (nn c) (nn l) s smac dmac ttl sip dip t code id sq data
    | _ => BADARGS
    end
  else if String.eqb kind "re4" then
    match args with
    | [c; l; s; ttl; src; dst; proto; ops] =>
        match parse_args "nnnnbbn" [c; l; s; ttl; src; dst; proto], ops_of_tok ops with
        | Some [AN c; AN l; AN s; AN ttl; AB src; AB dst; AN proto], Some os =>
            let b := mkbuf (nn c) (nn l) s in
            run_reuse (layer_ip4 proto) (arr b) (encode_ip4 b ttl src dst) os (Nat.leb 10 (nn l) && Nat.leb 20 (nn c))
        | _, _ => BADARGS
        end
    | _ => BADARGS
    end
  else if String.eqb kind "re6" then
    match args with
    | [c; l; s; hop; src; dst; nh; ops] =>
        match parse_args "nnnnbbn" [c; l; s; hop; src; dst; nh], ops_of_tok ops with
        | Some [AN c; AN l; AN s; AN hop; AB src; AB dst; AN nh], Some os =>
            let b := mkbuf (nn c) (nn l) s in
            if Nat.ltb (nn c) 40 then out3 "fresh" "-" "-" else
            run_reuse (layer_ip6 nh) (arr b) (bind (encode_ip6 b hop src dst) (fun x => Ok (fst x))) os true
        | _, _ => BADARGS
        end
    | _ => BADARGS
    end
  else if String.eqb kind "reu" then
    match args with
    | [c; l; s; sport; dport; ops] =>
        match parse_args "nnnnn" [c; l; s; sport; dport], ops_of_tok ops with
        | Some [AN c; AN l; AN s; AN sport; AN dport], Some os =>
            let b := mkbuf (nn c) (nn l) s in
            if Nat.ltb (nn c) 8 then out3 "nil" "-" "-" else
            run_reuse layer_udp (arr b) (encode_udp b sport dport) os true
        | _, _ => BADARGS
        end
    | _ => BADARGS
    end
  else if String.eqb kind "ree" then
    match args with
    | [c; l; s; ht; src; dst; ops] =>
        match parse_args "nnnnbb" [c; l; s; ht; src; dst], ops_of_tok ops with
        | Some [AN c; AN l; AN s; AN ht; AB src; AB dst], Some os =>
            let b := mkbuf (nn c) (nn l) s in
            run_reuse layer_eth (arr b) (encode_ether b ht src dst) os
                      (Nat.eqb (hlen_of_type ht) 14 && Nat.leb 60 (nn c))
        | _, _ => BADARGS
        end
    | _ => BADARGS
    end
  else if String.eqb kind "rec" then
    match args with
    | [c; l; s; t; code; id; sq; ops] =>
        match parse_args "nnnnnnn" [c; l; s; t; code; id; sq], ops_of_tok ops with
        | Some [AN c; AN l; AN s; AN t; AN code; AN id; AN sq], Some os =>
            let b := mkbuf (nn c) (nn l) s in
            run_reuse (layer_echo t code id sq) (arr b) (Ok b) os true
        | _, _ => BADARGS
        end
    | _ => BADARGS
    end
  else if String.eqb kind "ethalias" then
    match parse_args "nnnnnnnn" args with
    | Some [AN c; AN l; AN s; AN ht; AN so; AN sl_; AN do_; AN dl] =>
        run_ethalias (nn c) (nn l) s ht (nn so) (nn sl_) (nn do_) (nn dl)
    | _ => BADARGS
    end
  else if String.eqb kind "census" then
    out3 (join "," (map fst encoder_census)) "-" "-"
  else if String.eqb kind "widths" then
    out3 encoder_widths "-" "-"
  else if String.eqb kind "globals" then
    out3 encoder_globals "-" "-"
  else if String.eqb kind "consts" then
    match args with
    | [n] => out3 (lookup_const n model_consts) "-" "-"
    | _ => BADARGS
    end
  else if String.eqb kind "ip6" then
    match parse_args "nnnnbb" args with
    | Some [AN c; AN l; AN s; AN hop; AB src; AB dst] => run_ip6 (nn c) (nn l) s hop src dst
    | _ => BADARGS
    end
  else if String.eqb kind "ip6pl" then
    match parse_args "nnnnbbnbb" args with
    | Some [AN c; AN l; AN s; AN hop; AB src; AB dst; AN nh; AB mode; AB payload] =>
        run_ip6pl (nn c) (nn l) s hop src dst nh mode payload
    | _ => BADARGS
    end
  else if String.eqb kind "frame6" then
    match parse_args "nnnbbnbbnnb" args with
    | Some [AN c; AN l; AN s; AB smac; AB dmac; AN hop; AB sip; AB dip; AN sport; AN dport; AB data] =>
        run_frame6 (nn c) (nn l) s smac dmac hop sip dip sport dport data
    | _ => BADARGS
    end
  else if String.eqb kind "arp" then
    match parse_args "nnnnbbbb" args with
    | Some [AN c; AN l; AN s; AN op; AB smac; AB sip; AB dmac; AB dip] => run_arp (nn c) (nn l) s op smac sip dmac dip
    | _ => BADARGS
    end
  else if String.eqb kind "echo" then
    match parse_args "nnnnnnnb" args with
    | Some [AN c; AN l; AN s; AN t; AN code; AN id; AN sq; AB data] => run_echo (nn c) (nn l) s t code id sq data
    | _ => BADARGS
    end
  else if String.eqb kind "na" then
    match parse_args "tttbb" args with
    | Some [AT ro; AT so; AT ov; AB tip; AB tmac] => run_na ro so ov tip tmac
    | _ => BADARGS
    end
  else if String.eqb kind "ns" then
    match parse_args "bb" args with
    | Some [AB tip; AB slla] => run_ns tip slla
    | _ => BADARGS
    end
  else if String.eqb kind "dnsq" then
    match parse_args "nnbn" args with
    | Some [AN id; AN fl; AB name; AN qt] => run_dnsq id fl name qt
    | _ => BADARGS
    end
  else if String.eqb kind "dhcp4" then
    match args with
    | [c; l; s; op; mt; chf; ch; ci; yi; xf; xid; bc; os; order; perm] =>
        match parse_args "nnnnntbbbtbtbb" [c; l; s; op; mt; chf; ch; ci; yi; xf; xid; bc; order; perm], opts_of_tok os with
        | Some [AN c; AN l; AN s; AN op; AN mt; AT chf; AB ch; AB ci; AB yi; AT xf; AB xid; AT bc; AB order; AB perm], Some o =>
            run_dhcp4 (nn c) (nn l) s op mt chf ch ci yi xf xid bc o order perm
        | _, _ => BADARGS
        end
    | _ => BADARGS
    end
  else BADARGS.

(* kind conc: the case [k args] executed while other goroutines run encoders on buffers of their own.  The
   model of an encoder call has no input but its arguments and the destination buffer
   (C03_encode_deterministic), so the expected observation is that of the sequential case. *)
Definition dispatch_line (l : string) : string :=
  match words l with
  | k :: args =>
      if String.eqb k "conc" then
        match args with
        | k' :: args' => dispatch k' args'
        | [] => BADARGS
        end
      else if String.eqb k "ro" then
        (* kind ro: the case [k' args'] with every slice-typed argument handed over as a view with spare capacity
           into one sentinel-filled array, the other arguments directly behind it.  Arguments are values in the
           model (C03_encode_args_unchanged): the observation of the plain case, and the array is unchanged. *)
        match args with
        | k' :: args' =>
            match Text.split (ascii_of_N 9) (dispatch k' args') with
            | [m; s; key] => out3 (m ++ " args=clean") (if String.eqb s "-" then "-" else s ++ " args=clean") key
            | _ => BADARGS
            end
        | [] => BADARGS
        end
      else dispatch k args
  | [] => BADARGS
  end.
