(* Extract/D06.v — C06 dispatch.
   t6  <cfg> <t0> <op>...            : any ops (the harness issues N after every R); observation = the
        notifications drained after every op (full contents; sorted by address inside a purge);
        column 3 carries a key when a property oracle fails on the model's own emission:
          c06-duplicate-dhcp-path-offline-offer : one Notify emits two notifications for the same address,
                                      inside the recorded class [known_C06_dup] (Model/TablesKnown.v)
          c06-duplicate-other       : the same outside that class (not a recorded finding)
          c06-offline-never-online  : the first notification sent for a (MAC, address) binding that was
                                      created by a frame says offline (not a recorded finding)
   t6c <cfg> <t0> <ips> <op>...      : the discipline (R N / B N pairs, P, M, U, O, C, L); observation = (address/online)
        pairs per unit; column 2 = expectation derived from the changes of the C04 reference model.
   t6n <cfg> <t0> <op>...            : NO implicit drain (outside the discipline): the channel fills up to its 128 slots;
        observation = every op's output (the D ops carry the drained notifications) and the final channel length. *)
From PV Require Import Base.Text Model.Tables Model.TablesShow Model.TablesKnown Spec.HostTracking Spec.HostTrackingNotif.
Open Scope string_scope.
Open Scope N_scope.

Definition TAB : string := String (ascii_of_N 9) EmptyString.
Definition out3 (m s k : string) : string := m ++ TAB ++ s ++ TAB ++ k.

Definition is_purge (p : pop) : bool := match p with PPurge _ => true | _ => false end.

Definition sort_notifs (l : list notif) : list notif := sort_by (fun a b => ip_leb (nt_ip a) (nt_ip b)) l.

(* one op, then drain *)
Definition step6 (c : cfg) (s : state) (p : pop) : state * list notif :=
  let s1 := fst (step c s (resolve s p)) in
  (set_chan [] s1, if is_purge p then sort_notifs (chan s1) else chan s1).

(* ---- oracles on the emission ---- *)
Fixpoint has_dup (l : list ip) : bool :=
  match l with [] => false | x :: r => existsb (ip_eqb x) r || has_dup r end.

(* bindings (mac, ip) that have been announced online at least once *)
Definition ann := list (mac * ip).
Definition ann_mem (m : mac) (k : ip) (a : ann) : bool := existsb (fun e => (fst e =? m) && ip_eqb (snd e) k) a.

Fixpoint scan_first (l : list notif) (a : ann) : bool * ann :=   (* (some binding's first notification is offline, ann') *)
  match l with
  | [] => (false, a)
  | n :: r =>
      let bad := negb (nt_online n) && negb (ann_mem (nt_mac n) (nt_ip n) a) in
      let a1 := if ann_mem (nt_mac n) (nt_ip n) a then a else (nt_mac n, nt_ip n) :: a in
      let (b, a2) := scan_first r a1 in (bad || b, a2)
  end.

(* bindings registered without a frame (NewSession, DHCPv4Update) count as announced: the text only
   speaks of addresses that were SEEN *)
Definition register (p : pop) (a : ann) : ann :=
  match p with
  | POp (DHCPv4Update m k _ _) => if is_valid k && negb (is_unspecified k) then (m, k) :: a else a
  | _ => a
  end.

(* result flags: duplicate inside the recorded class, duplicate outside it, first-notification-offline *)
Fixpoint run6 (c : cfg) (s : state) (a : ann) (ops : list pop) : list string * (bool * bool * bool) :=
  match ops with
  | [] => ([], (false, false, false))
  | p :: r =>
      let (s1, em) := step6 c s p in
      let dup := negb (is_purge p) && has_dup (map nt_ip em) in
      let cls := match p with POp Notify => known_C06_dup s | _ => false end in
      let (bad, a1) := scan_first em (register p a) in
      let '(tr, (d1, d2, b)) := run6 c s1 a1 r in
      (join "," (map show_notif em) :: tr, ((dup && cls) || d1, (dup && negb cls) || d2, bad || b))
  end.

(* ---- pure discipline ---- *)
Definition show_pair (x : ip * bool) : string := show_ip (fst x) ++ "/" ++ b01 (snd x).
(* inside one unit the pairs are compared sorted by address (the order clause is a theorem and is compared on the
   full contents by kind t6) *)
Definition sort_pairs (l : list (ip * bool)) : list (ip * bool) := sort_by (fun a b => ip_leb (fst a) (fst b)) l.
Definition show_pairs (l : list (ip * bool)) : string := join "," (map show_pair (sort_pairs l)).
Definition pair_of (n : notif) : ip * bool := (nt_ip n, nt_online n).

Fixpoint run6c (c : cfg) (dom : list ip) (s : state) (r : rstate) (ops : list pop) : option (list string * list string) :=
  match ops with
  | [] => Some ([], [])
  | POp (Rx f now) :: POp Notify :: rest =>
      let (s1, _) := step6 c s (POp (Rx f now)) in
      let (s2, em) := step6 c s1 (POp Notify) in
      let (ex, r1) := expect c r (UFrame f now) in
      match run6c c dom s2 r1 rest with
      | Some (x, y) => Some (show_pairs (map pair_of em) :: x, show_pairs ex :: y)
      | None => None
      end
  | PPurge now :: rest =>
      let (s1, em) := step6 c s (PPurge now) in
      let (ex, r1) := expect c r (UPurge now) in
      match run6c c dom s1 r1 rest with
      | Some (x, y) => Some (show_pairs (map pair_of em) :: x, show_pairs ex :: y)
      | None => None
      end
  | POp (NameUpdate kd k nm) :: rest =>
      let (s1, em) := step6 c s (POp (NameUpdate kd k nm)) in
      let (ex, r1) := expect c r (UName kd k nm) in
      match run6c c dom s1 r1 rest with
      | Some (x, y) => Some (show_pairs (map pair_of em) :: x, show_pairs ex :: y)
      | None => None
      end
  | POp (DHCPv4Update m k nm now) :: rest =>
      let (s1, em) := step6 c s (POp (DHCPv4Update m k nm now)) in
      let (ex, r1) := expect c r (UUpdate m k nm now) in
      match run6c c dom s1 r1 rest with
      | Some (x, y) => Some (show_pairs (map pair_of em) :: x, show_pairs ex :: y)
      | None => None
      end
  | POp (SetOffer m k nm) :: rest =>
      let (s1, em) := step6 c s (POp (SetOffer m k nm)) in
      let (ex, r1) := expect c r (UOffer m k) in
      match run6c c dom s1 r1 rest with
      | Some (x, y) => Some (show_pairs (map pair_of em) :: x, show_pairs ex :: y)
      | None => None
      end
  | POp (Capture m) :: rest =>
      let (s1, em) := step6 c s (POp (Capture m)) in
      match run6c c dom s1 r rest with
      | Some (x, y) => Some (show_pairs (map pair_of em) :: x, "" :: y)
      | None => None
      end
  | POp (Release m) :: rest =>
      let (s1, em) := step6 c s (POp (Release m)) in
      match run6c c dom s1 r rest with
      | Some (x, y) => Some (show_pairs (map pair_of em) :: x, "" :: y)
      | None => None
      end
  | _ => None
  end.

Definition ips_of_tok (s : string) : option (list ip) :=
  (fix go (l : list string) : option (list ip) :=
     match l with
     | [] => Some []
     | t :: r => match ip_of_tok t, go r with Some i, Some is => Some (i :: is) | _, _ => None end
     end) (Text.split "+"%char s).

Fixpoint run6n (c : cfg) (s : state) (ops : list pop) : list string :=
  match ops with
  | [] => ["len=" ++ dec_of_N (N.of_nat (List.length (chan s)))]
  | p :: r => let (s1, o) := step c s (resolve s p) in show_out o :: run6n c s1 r
  end.

Definition dispatch (kind : string) (args : list string) : string :=
  if String.eqb kind "rt" then out3 (rt_model args) "-" "-"     (* real-time histories: Model/TablesShow.v *)
  else if String.eqb kind "t6n" then
    match args with
    | ctok :: t0 :: optoks =>
        match cfg_of_tok ctok, Z_of_dec t0, ops_of_toks optoks with
        | Some c, Some t0, Some ops0 =>
            match new_session c t0 with
            | Ok s0 => out3 (join ";" (run6n c s0 (map (debyte c) ops0))) "-" "-"
            | _ => out3 "panic" "-" "-"
            end
        | _, _, _ => BADARGS
        end
    | _ => BADARGS
    end
  else if String.eqb kind "t6" then
    match args with
    | ctok :: t0 :: optoks =>
        match cfg_of_tok ctok, Z_of_dec t0, ops_of_toks optoks with
        | Some c, Some t0, Some ops0 =>
            let ops := map (debyte c) ops0 in
            match new_session c t0 with
            | Ok s0 =>
                let '(tr, (dup, dup2, bad)) := run6 c s0 [(own_mac c, own_ip4 c); (rt_mac c, rt_ip4 c)] ops in
                out3 (join ";" tr) "-"
                     (if dup2 then "c06-duplicate-other"
                      else if bad then "c06-offline-never-online"
                      else if dup then "c06-duplicate-dhcp-path-offline-offer" else "-")
            | _ => out3 "panic" "-" "-"
            end
        | _, _, _ => BADARGS
        end
    | _ => BADARGS
    end
  else if String.eqb kind "t6c" then
    match args with
    | ctok :: t0 :: itok :: optoks =>
        match cfg_of_tok ctok, Z_of_dec t0, ips_of_tok itok, ops_of_toks optoks with
        | Some c, Some t0, Some ips, Some ops0 =>
            let ops := map (debyte c) ops0 in
            match new_session c t0 with
            | Ok s0 =>
                match run6c c (sort_by ip_leb ips) s0 (rinit c t0) ops with
                | Some (x, y) => out3 (join ";" x) (join ";" y) "-"
                | None => BADARGS
                end
            | _ => out3 "panic" "-" "-"
            end
        | _, _, _, _ => BADARGS
        end
    | _ => BADARGS
    end
  else BADARGS.

Definition dispatch_line (l : string) : string :=
  match words l with
  | k :: args => dispatch k args
  | [] => BADARGS
  end.
