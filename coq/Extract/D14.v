(* Extract/D14.v — text interpreter of the C14 model (icmp_spoofer event system,
   RA decoding) and of the independent RFC 4861 decoder.
   Kinds:
     ra <proj> <msg>      one RA (ICMPv6 message bytes) processed by a fresh handler
                          (counter at 3, host known); <proj> selects the compared
                          field group: ret hdr slla omtu rmtu pfx rdnss dnssl ri rip
     h <ev> <ev> ...      a history; events
                            S:<mac>:<ip>  StartHunt     P:<mac>:<ip>  StopHunt     C  Close
                            W:<mac>:<ip>  the first live loop with that destination passes its select
                            R:<counter-before>:<T|F host known>:<src ip>:<eth src>:<msg>
                            X:<msg>       any other ICMPv6 message (echo, NS, NA) through the same receive buffer
                            D:<ms>        real-time delay (ignored by the model)
                          after every R and X the WHOLE router table is observed                *)
From PV Require Import Base.Text Model.Icmp6SpoofRA Model.Icmp6Spoof Spec.RFC4861 Model.Icmp6SpoofKnown.
Open Scope string_scope.
Open Scope N_scope.

Definition TAB : string := String (ascii_of_N 9) EmptyString.
Definition out3 (m s k : string) : string := m ++ TAB ++ s ++ TAB ++ k.

Definition hx (b : bytes) : string := tok_of_bytes b.
Definition sb (b : bool) : string := if b then "1" else "0".
Definition joinc (l : list string) : string := match l with [] => "-" | _ => join "," l end.
Definition joins (l : list string) : string := match l with [] => "-" | _ => join ";" l end.

(* ---------------- model side rendering ---------------- *)
Definition show_pi (p : prefix_info) : string :=
  dec_of_N (pi_len p) ++ "/" ++ sb (pi_onlink p) ++ sb (pi_auto p) ++ "/" ++ dec_of_N (pi_valid p)
  ++ "/" ++ dec_of_N (pi_pref p) ++ "/" ++ hx (pi_prefix p).
Definition show_hdr (r : router) : string :=
  "M" ++ sb (r_managed r) ++ " O" ++ sb (r_other r) ++ " prf" ++ dec_of_N (r_prf r) ++ " hop" ++ dec_of_N (r_hop r)
  ++ " life" ++ dec_of_N (r_life r) ++ " reach" ++ dec_of_N (r_reach r) ++ " retr" ++ dec_of_N (r_retrans r)
  ++ " mac" ++ hx (r_mac r).
Definition show_servers (l : list bytes) : string := joinc (map hx l).
Definition show_rd_m (r : rdnss) : string :=
  if (rd_life r =? 0) && (List.length (rd_servers r) =? 0)%nat then "-"
  else dec_of_N (rd_life r) ++ ":" ++ show_servers (rd_servers r).
Definition show_ds_m (d : dnssl) : string :=
  if (ds_life d =? 0) && (List.length (ds_names d) =? 0)%nat then "-"
  else dec_of_N (ds_life d) ++ ":" ++ show_servers (ds_names d).
Definition show_ri_m (r : route_info) : string :=
  if negb (ri_set r) && (ri_len r =? 0) && (ri_prf r =? 0) && (ri_life r =? 0) then "-"
  else dec_of_N (ri_len r) ++ "/" ++ dec_of_N (ri_prf r) ++ "/" ++ dec_of_N (ri_life r)
       ++ (if ri_set r then "" else "/unset").
Definition show_rip_m (r : route_info) : string :=
  if ri_set r then hx (ri_prefix r) else "-".

Definition show_rd1 (r : rdnss) : string := dec_of_N (rd_life r) ++ ":" ++ show_servers (rd_servers r).
Definition show_ds1 (d : dnssl) : string := dec_of_N (ds_life d) ++ ":" ++ show_servers (ds_names d).
Definition show_ri1 (r : route_info) : string :=
  dec_of_N (ri_len r) ++ "/" ++ dec_of_N (ri_prf r) ++ "/" ++ dec_of_N (ri_life r) ++ "/" ++ hx (ri_prefix r).
Definition show_legacy (o : new_options) : string :=
  "rdnss=" ++ show_rd_m (o_rdnss o) ++ " dnssl=" ++ show_ds_m (o_dnssl o) ++ " ri=" ++ show_ri_m (o_ri o) ++ " rip=" ++ show_rip_m (o_ri o).

Definition proj_model (proj : string) (r : router) : string :=
  let o := r_opts r in
  if String.eqb proj "ret" then "ok"
  else if String.eqb proj "hdr" then show_hdr r
  else if String.eqb proj "slla" then hx (o_slla o)
  else if String.eqb proj "omtu" then dec_of_N (o_mtu o)
  else if String.eqb proj "rmtu" then dec_of_N (r_mtu r)
  else if String.eqb proj "pfx" then joinc (map show_pi (r_prefixes r))
  else if String.eqb proj "rdnss" then joins (map show_rd1 (o_rdnss_all o))
  else if String.eqb proj "dnssl" then joins (map show_ds1 (o_dnssl_all o))
  else if String.eqb proj "ri" then joins (map show_ri1 (o_routes o))
  else if String.eqb proj "rip" then show_rip_m (o_ri o)
  else if String.eqb proj "legacy" then show_legacy o
  else "badproj".

Definition show_router_all (r : router) : string :=
  hx (r_ip r) ++ " " ++ show_hdr r ++ " slla=" ++ hx (o_slla (r_opts r)) ++ " omtu=" ++ dec_of_N (o_mtu (r_opts r))
  ++ " rmtu=" ++ dec_of_N (r_mtu r) ++ " pfx=" ++ joinc (map show_pi (r_prefixes r))
  ++ " rdnss=" ++ joins (map show_rd1 (o_rdnss_all (r_opts r))) ++ " dnssl=" ++ joins (map show_ds1 (o_dnssl_all (r_opts r)))
  ++ " ri=" ++ joins (map show_ri1 (o_routes (r_opts r))) ++ " legacy:" ++ show_legacy (r_opts r).

(* ---------------- spec side rendering ---------------- *)
Definition lastd {A} (l : list A) (d : A) : A := last l d.

Definition show_opt_s (o : ndopt) : string :=
  match o with
  | OPrefix pl l a v p pfx => dec_of_N pl ++ "/" ++ sb l ++ sb a ++ "/" ++ dec_of_N v ++ "/" ++ dec_of_N p ++ "/" ++ hx pfx
  | ORoute pl prf life pfx => dec_of_N pl ++ "/" ++ dec_of_N prf ++ "/" ++ dec_of_N life ++ "/" ++ hx pfx
  | ORdnss life srv => dec_of_N life ++ ":" ++ show_servers srv
  | ODnssl life nm => dec_of_N life ++ ":" ++ show_servers nm
  | _ => "?"
  end.
Definition route_prefix (o : ndopt) : string :=
  match o with ORoute _ _ _ pfx => hx pfx | _ => "-" end.

Definition proj_spec (proj : string) (mac0 : bytes) (d : ra_info) : string :=
  let os := ra_opts d in
  if String.eqb proj "ret" then "ok"
  else if String.eqb proj "hdr" then
    "M" ++ sb (ra_managed d) ++ " O" ++ sb (ra_other d) ++ " prf" ++ dec_of_N (ra_prf d) ++ " hop" ++ dec_of_N (ra_hop d)
    ++ " life" ++ dec_of_N (ra_life d) ++ " reach" ++ dec_of_N (ra_reach d) ++ " retr" ++ dec_of_N (ra_retrans d)
    ++ " mac" ++ hx mac0        (* the MAC the entry was created with: computed by the caller *)
  else if String.eqb proj "slla" then hx (lastd (sllas os) [])
  else if String.eqb proj "omtu" then dec_of_N (lastd (mtus os) 0)
  else if String.eqb proj "rmtu" then dec_of_N (lastd (mtus os) 0)
  else if String.eqb proj "pfx" then joinc (map show_opt_s (prefixes os))
  else if String.eqb proj "rdnss" then joins (map show_opt_s (rdnsses os))
  else if String.eqb proj "dnssl" then joins (map show_opt_s (dnssls os))
  else if String.eqb proj "ri" then joins (map show_opt_s (routes os))
  else if String.eqb proj "rip" then route_prefix (lastd (routes os) (OOther 0))
  else "badproj".

(* ---------------- known defect classes: Model/Icmp6SpoofKnown.v ---------------- *)
(* ---------------- kind ra ---------------- *)
Definition std_src : bytes := [254;128;0;0;0;0;0;0;0;0;0;0;0;1;0;17].    (* fe80::1:11 *)
Definition std_eth : bytes := [0;102;102;102;102;102].                   (* 00:66:66:66:66:66 *)
Definition std_cfg : config := mkCfg [0;85;85;85;85;85] [254;128;0;0;0;0;0;0;0;0;0;0;0;1;1;41].

Definition show_ret (r : res unit) : string := show_res (fun _ => "ok") r.

Definition xn_area (p : bytes) : bool := has_xn (skipn 16 p).

Definition learned_mac_s (d : ra_info) (eth : bytes) : bytes :=
  let m := lastd (sllas (ra_opts d)) [] in if (List.length m =? 6)%nat then m else eth.

Definition do_ra (proj : string) (p : bytes) : string :=
  let '(st, o) := rx_ra (init 3) std_src std_eth p true in
  let m :=
    match o with
    | ORA (Ok _) =>
        match rt_find (routers st) std_src with
        | Some r => if String.eqb proj "dnssl" && xn_area p then "puny" else proj_model proj r
        | None => "none"
        end
    | ORA r => show_ret r
    | _ => "?"
    end in
  if xn_area p then out3 m "-" "-" else
  if blen p <? 16 then out3 m "-" "-" else
  match ra_decode_lenient p with
  | Some d => if String.eqb proj "legacy" then out3 m "-" "-" else
              out3 m (proj_spec proj (learned_mac_s d std_eth) d) "-"
  | None => out3 m "err:EOther" "-"
  end.

(* ---------------- kind ra2: a NEW entry by <msg1> from Ethernet source <eth1>, then an UPDATE by <msg2> from <eth2>,
   same IPv6 source; observed after the second advertisement ---------------- *)
Definition do_ra2 (proj : string) (e1 p1 e2 p2 : bytes) : string :=
  let '(st1, o1) := rx_ra (init 3) std_src e1 p1 true in
  let st1' := mkSt (hunt st1) (loops st1) (routers st1) (defrouter st1) 3%Z (closed st1) in
  let '(st, o) := rx_ra st1' std_src e2 p2 true in
  let m :=
    match o with
    | ORA (Ok _) =>
        match rt_find (routers st) std_src with
        | Some r => if String.eqb proj "dnssl" && xn_area p2 then "puny" else proj_model proj r
        | None => "none"
        end
    | ORA r => show_ret r
    | _ => "?"
    end in
  if xn_area p2 || xn_area p1 then out3 m "-" "-" else
  if (blen p2 <? 16) || (blen p1 <? 16) then out3 m "-" "-" else
  match ra_decode_lenient p2 with
  | Some d2 => if String.eqb proj "legacy" then out3 m "-" "-" else
               let mac := match ra_decode_lenient p1 with
                          | Some d1 => learned_mac_s d1 e1     (* the entry was created by the first advertisement *)
                          | None => learned_mac_s d2 e2
                          end in
               out3 m (proj_spec proj mac d2) "-"
  | None => out3 m "err:EOther" "-"
  end.

(* ---------------- kind h ---------------- *)
Fixpoint bytes_ltb (a b : bytes) : bool :=
  match a, b with
  | [], [] => false
  | [], _ => true
  | _, [] => false
  | x :: a', y :: b' => if x <? y then true else if y <? x then false else bytes_ltb a' b'
  end.
Fixpoint ins_na (x : na) (l : list na) : list na :=
  match l with
  | [] => [x]
  | y :: r => if bytes_ltb (na_target y) (na_target x) then y :: ins_na x r else x :: l
  end.
Definition sort_nas (l : list na) : list na := fold_right ins_na [] l.

Definition show_na (n : na) : string :=
  hx (na_target n) ++ "/" ++ hx (na_ip_src n) ++ "/" ++ dec_of_N (na_hop n) ++ "/"
  ++ sb (na_router n) ++ sb (na_solicited n) ++ sb (na_override n) ++ "/" ++ hx (na_tlla n) ++ "/" ++ hx (na_eth_src n).

Definition show_stage (s : stage) : string :=
  match s with NoChange => "nochange" | Normal => "normal" | Hunt => "hunt" end.

Definition show_out (o : out) : string :=
  match o with
  | OStage s None => show_stage s
  | OStage s (Some e) => show_stage s ++ "!" ++ show_err e
  | ONAs l => "na[" ++ join "," (map show_na (sort_nas l)) ++ "]"
  | ORA r => show_ret r
  | OLook _ _ => "look"
  | ONone => "na-none"
  end.

Definition addr_eqb (a b : addr) : bool := bytes_eqb (a_mac a) (a_mac b) && bytes_eqb (a_ip a) (a_ip b).
Fixpoint find_loop (l : list sloop) (dst : addr) (i : nat) : option nat :=
  match l with
  | [] => None
  | x :: r => if l_alive x && addr_eqb (l_dst x) dst then Some i else find_loop r dst (S i)
  end.

Fixpoint ins_rt (x : bytes * router) (l : list (bytes * router)) : list (bytes * router) :=
  match l with
  | [] => [x]
  | y :: r => if bytes_ltb (fst y) (fst x) then y :: ins_rt x r else x :: l
  end.
(* the whole router table, sorted by address: every learned router is observed after every packet *)
Definition show_table (st : state) : string :=
  "def=" ++ (match defrouter st with Some k => hx k | None => "-" end)
  ++ " n=" ++ dec_of_nat (List.length (routers st))
  ++ String.concat "" (map (fun kr => " [" ++ show_router_all (snd kr) ++ "]") (fold_right ins_rt [] (routers st))).

Definition set_repeat (st : state) (z : Z) : state :=
  mkSt (hunt st) (loops st) (routers st) (defrouter st) z (closed st).

(* one token: new state, rendered output (None for D tokens / bad tokens), saw the ra-after-close panic *)
Definition do_tok (st : state) (tok : string) : option (state * option string * bool) :=
  match PV.Base.Text.split ":"%char tok with
  | ["S"; m; i] =>
      match bytes_of_tok m, bytes_of_tok i with
      | Some mac, Some ip => let '(st', o) := step std_cfg st (StartHunt (mkAddr mac ip)) in Some (st', Some (show_out o), false)
      | _, _ => None
      end
  | ["P"; m; i] =>
      match bytes_of_tok m, bytes_of_tok i with
      | Some mac, Some ip => let '(st', o) := step std_cfg st (StopHunt (mkAddr mac ip)) in Some (st', Some (show_out o), false)
      | _, _ => None
      end
  | ["C"] => let '(st', o) := step std_cfg st Close in Some (st', Some "closed", false)
  | ["W"; m; i] =>
      match bytes_of_tok m, bytes_of_tok i with
      | Some mac, Some ip =>
          match find_loop (loops st) (mkAddr mac ip) 0 with
          | Some k => (* one whole pass: Lookup in table order, then every Send (the burst is compared as a set) *)
                      let '(st', o) := wake std_cfg st k (seq 0 (List.length (routers st))) in Some (st', Some (show_out o), false)
          | None => Some (st, Some "na-none", false)
          end
      | _, _ => None
      end
  | ["R"; c; hk; s; e; msg] =>
      match Z_of_dec c, bool_of_tok hk, bytes_of_tok s, bytes_of_tok e, bytes_of_tok msg with
      | Some z, Some k, Some src, Some eth, Some p =>
          let '(st', o) := step std_cfg (set_repeat st z) (RxRA src eth p k) in
          Some (st', Some (show_out o ++ " " ++ show_table st'), false)
      | _, _, _, _, _ => None
      end
  | ["X"; msg] =>
      match bytes_of_tok msg with
      | Some p => let '(st', o) := step std_cfg st (RxOther p) in Some (st', Some ("other " ++ show_table st'), false)
      | None => None
      end
  | ["D"; _] => Some (st, None, false)
  | _ => None
  end.

Fixpoint do_hist (st : state) (toks : list string) (acc : list string) (k : bool) : option (list string * bool) :=
  match toks with
  | [] => Some (rev acc, k)
  | t :: r =>
    match do_tok st t with
    | Some (st', Some o, k') => do_hist st' r (o :: acc) (k || k')
    | Some (st', None, k') => do_hist st' r acc (k || k')
    | None => None
    end
  end.

(* ---------------- kind gate: the interleaving Lookup ; StopHunt|Close ; Send... replayed on the real code ----------------
   k routers learned, StartHunt a, the pass of the new loop decides (Lookup) and is held inside its first
   send, StopHunt a / Close returns, the held pass continues.  Model column: the model's trace of exactly this
   interleaving.  Spec column: the property text ("after StopHunt or Close no further forged advertisement
   reaches that host"): no frame after the call returned.  Key: only when every frame after the call was
   decided before it, i.e. their number is within the bound of C14_stop / C14_close (what was on the loop's
   list when the call returned); anything beyond that has no key and is a violation. *)
Definition gate_srcs : list bytes :=
  [[254;128;0;0;0;0;0;0;0;0;0;0;0;1;0;17]; [254;128;0;0;0;0;0;0;0;0;0;0;0;1;0;18]; [254;128;0;0;0;0;0;0;0;0;0;0;0;1;0;19]].
Definition gate_ra : bytes := [134;0;0;0;64;0;7;8;0;0;0;0;0;0;0;0].
Definition gate_addr : addr := mkAddr [2;0;0;0;0;9] [].

Definition do_gate (what : string) (k : nat) : string :=
  let st0 := fold_left (fun st src => fst (step std_cfg (set_repeat st 3) (RxRA src std_eth gate_ra true)))
                       (firstn k gate_srcs) (init (-1)) in
  let '(st1, o1) := step std_cfg st0 (StartHunt gate_addr) in
  let '(st2, _) := step std_cfg st1 (Lookup 0 (seq 0 (List.length (routers st1)))) in
  let decided := match nth_error (loops st2) 0 with Some l => List.length (l_pending l) | None => 0%nat end in
  let '(st3, o3) := if String.eqb what "stop" then step std_cfg st2 (StopHunt gate_addr) else step std_cfg st2 Close in
  (* the held pass goes on: as many Send steps as it takes (one more than decided: the extra one must emit nothing),
     then its next Lookup, which must end the loop *)
  let '(st4, nas) := sends std_cfg st3 0 (S decided) [] in
  let '(st5, o5) := step std_cfg st4 (Lookup 0 (seq 0 (List.length (routers st4)))) in
  let '(_, late) := sends std_cfg st5 0 (S decided) [] in
  let all := (nas ++ late)%list in
  let pre := show_out o1 ++ " | blocked | " ++ (if String.eqb what "stop" then show_out o3 else "closed") ++ " | after:" in
  let key := if String.eqb what "stop" then "c14-na-in-flight-after-stophunt" else "c14-na-in-flight-after-close" in
  out3 (pre ++ show_out (ONAs all)) (pre ++ show_out (ONAs []))
       (if negb (List.length all =? 0)%nat && (List.length nas <=? decided)%nat && (List.length late =? 0)%nat then key else "-").

Definition lim_ra1 : bytes := [134;0;0;0;64;0;7;8;0;0;0;0;0;0;0;0].
Definition lim_ra2 : bytes := [134;0;0;0;64;0;2;88;0;0;0;0;0;0;0;0].

(* ---------------- kinds opts / tab ---------------- *)
Definition show_opts_all (o : new_options) : string :=
  "slla=" ++ hx (o_slla o) ++ " tlla=" ++ hx (o_tlla o) ++ " mtu=" ++ dec_of_N (o_mtu o)
  ++ " pfx=" ++ joinc (map show_pi (o_prefixes o))
  ++ " rdnss=" ++ joins (map show_rd1 (o_rdnss_all o)) ++ " dnssl=" ++ joins (map show_ds1 (o_dnssl_all o))
  ++ " ri=" ++ joins (map show_ri1 (o_routes o)) ++ " legacy:" ++ show_legacy o.

(* which NewOptions field an option of type t feeds: probes of length 1, 2, 3, 4 that are well formed for every kind *)
Definition probe1 : bytes := [0;0;0;0;5;220].
Definition probe2 : bytes := [0;0;0;0;0;9;1;97;0;0;0;0;0;0].
Definition probe3 : bytes := ([0;0;0;0;0;9] ++ repeat 32 16)%list.
Definition probe4 : bytes := ([64;192;0;0;0;9;0;0;0;8;0;0;0;0] ++ repeat 32 16)%list.
Definition classify (o : new_options) : string :=
  if negb (List.length (o_slla o) =? 0)%nat then "slla"
  else if negb (List.length (o_tlla o) =? 0)%nat then "tlla"
  else if negb (o_mtu o =? 0) then "mtu"
  else if negb (List.length (o_prefixes o) =? 0)%nat then "prefix"
  else if negb (List.length (o_routes o) =? 0)%nat then "route"
  else if negb (List.length (o_rdnss_all o) =? 0)%nat then "rdnss"
  else if negb (List.length (o_dnssl_all o) =? 0)%nat then "dnssl"
  else "-".
Definition kind_of_type (t : N) : string :=
  let try1 (l : N) (body : bytes) := match opt_step opts_zero t (t :: l :: body) with Ok o => classify o | _ => "-" end in
  let r1 := try1 1 probe1 in if negb (String.eqb r1 "-") then r1 else
  let r4 := try1 4 probe4 in if negb (String.eqb r4 "-") then r4 else
  let r3 := try1 3 probe3 in if negb (String.eqb r3 "-") then r3 else try1 2 probe2.
Fixpoint tab_types_from (t : N) (n : nat) : list string :=
  match n with
  | O => []
  | S n' => let k := kind_of_type t in
            let rest := tab_types_from (t + 1) n' in
            if String.eqb k "-" then rest else (dec_of_N t ++ ":" ++ k) :: rest
  end.
Definition tab_types (n : nat) : string := join " " (tab_types_from 0 n).

(* flag byte: one-hot sweep of p[5] through router_update *)
Definition hdr_with (i : nat) (v : N) : bytes := set_nth i v (134 :: repeat 0 15).
Definition tab_flags : string :=
  join " " (map (fun k => let r := router_update (router_new [] []) (hdr_with 5 (2 ^ N.of_nat k)) opts_zero in
                          dec_of_nat k ++ ":M" ++ sb (r_managed r) ++ "O" ++ sb (r_other r) ++ "P" ++ dec_of_N (r_prf r)) (seq 0 8)).
(* byte offsets of hop limit, lifetime, reachable and retransmit timers: one byte set to 1 at a time *)
Definition tab_offsets : string :=
  join " " (map (fun j => let r := router_update (router_new [] []) (hdr_with j 1) opts_zero in
                          dec_of_nat j ++ ":" ++ dec_of_N (r_hop r) ++ "/" ++ dec_of_N (r_life r) ++ "/" ++ dec_of_N (r_reach r) ++ "/" ++ dec_of_N (r_retrans r)) (seq 4 12)).
(* the fields of icmp_spoofer.Router and packet.NewOptions the model accounts for (sorted; name:type).
   Router.enableRADVS / Router.RDNSS belong to the RA server (StartRADVS), NewOptions.FirstPrefix = Prefixes[0].Prefix. *)
Definition tab_fields : string :=
  "Router{Addr:packet.Addr CurHopLimit:uint8 DefaultLifetime:time.Duration MTU:uint32 ManagedFlag:bool Options:packet.NewOptions OtherCondigFlag:bool Preference:uint8 Prefixes:[]packet.PrefixInformation RDNSS:*packet.RecursiveDNSServer ReacheableTime:int RetransTimer:int enableRADVS:bool} " ++
  "NewOptions{DNSSearchList:packet.DNSSearchList DNSSearchLists:[]packet.DNSSearchList FirstPrefix:net.IP MTU:packet.MTU Prefixes:[]packet.PrefixInformation RDNSS:packet.RecursiveDNSServer RDNSSList:[]packet.RecursiveDNSServer RouteInformation:packet.RouteInformation Routes:[]packet.RouteInformation SourceLLA:packet.LinkLayerAddress TargetLLA:packet.LinkLayerAddress}".

(* handlers/icmp_spoofer ProcessPacket checks pkt.IP6().IsValid() first (repaired) *)
Definition V4FIXED : bool := true.

Definition dispatch (kind : string) (args : list string) : string :=
  if String.eqb kind "ra" then
    match args with
    | [proj; h] => match bytes_of_tok h with Some p => do_ra proj p | None => BADARGS end
    | _ => BADARGS
    end
  else if String.eqb kind "ra2" then
    match args with
    | [proj; e1; h1; e2; h2] =>
        match bytes_of_tok e1, bytes_of_tok h1, bytes_of_tok e2, bytes_of_tok h2 with
        | Some a, Some b, Some c, Some d => do_ra2 proj a b c d
        | _, _, _, _ => BADARGS
        end
    | _ => BADARGS
    end
  else if String.eqb kind "h" then
    match do_hist (init (-1)) args [] false with
    | Some (outs, k) => out3 (join " | " outs) "-" "-"
    | None => BADARGS
    end
  else if String.eqb kind "v4" then
    (* an ICMPv6 message carried by an IPv4 packet (protocol 58): Parse classifies it as ICMPv6, pkt.IP6() is nil.
       As the code is: the branches that read the IPv6 header (NS, unknown types, a processed RA) panic. *)
    match args with
    | [h] => match bytes_of_tok h with
             | Some p => let t := nth 0 p 0 in
                         if V4FIXED then out3 "err:EFrameLen" "err:EFrameLen" "-"
                         else if (t =? 135) || negb (existsb (fun k => t =? k) [128;129;130;131;132;133;134;135;136;137;143;1])
                         then out3 "panic" "-" "icmp6-over-ip4-panic" else out3 "ok" "-" "-"
             | None => BADARGS
             end
    | _ => BADARGS
    end
  else if String.eqb kind "opts" then
    (* packet.ICMP6RouterAdvertisement(msg).Options() called directly (the decoder in isolation) *)
    match args with
    | [h] => match bytes_of_tok h with
             | Some p =>
                 let m := match ra_options p with Ok o => show_opts_all o | r => show_res (fun _ => "ok") r end in
                 if xn_area p then out3 "puny" "-" "-" else out3 m "-" "-"
             | None => BADARGS
             end
    | _ => BADARGS
    end
  else if String.eqb kind "lim" then
    (* the process-wide rate limiter: counter at -1, an RA (lifetime 1800) to handler 1, n RAs to ANOTHER handler
       of the process, an RA (lifetime 600) to handler 1; observed: the lifetime handler 1 has recorded *)
    match args with
    | [ns] => match nat_of_dec ns with
              | Some n =>
                  let evs := (RxRA std_src std_eth lim_ra1 true :: repeat Tick n ++ [RxRA std_src std_eth lim_ra2 true])%list in
                  let st := snd (run std_cfg (init (-1)) evs) in
                  out3 (match rt_find (routers st) std_src with Some r => "life" ++ dec_of_N (r_life r) | None => "none" end) "-" "-"
              | None => BADARGS
              end
    | _ => BADARGS
    end
  else if String.eqb kind "gate" then
    match args with
    | [w; ks] => match nat_of_dec ks with Some k => do_gate w k | None => BADARGS end
    | _ => BADARGS
    end
  else if String.eqb kind "tab" then
    (* tables the model hard-codes, recomputed from the model itself; the harness derives the same
       tables from the source's behaviour (sweeps over all option types / one-hot header bits) and by reflection *)
    match args with
    | [w] => if String.eqb w "types" then out3 (tab_types 256) "-" "-"
             else if String.eqb w "flags" then out3 tab_flags "-" "-"
             else if String.eqb w "offsets" then out3 tab_offsets "-" "-"
             else if String.eqb w "fields" then out3 tab_fields "-" "-"
             (* the model computes every length in unbounded integers: no 8-bit arithmetic may exist in the decoders *)
             else if String.eqb w "widths" then out3 "none" "-" "-"
             else BADARGS
    | _ => BADARGS
    end
  else BADARGS.

Definition dispatch_line (l : string) : string :=
  match words l with
  | k :: args => dispatch k args
  | [] => BADARGS
  end.
