(* Extract/D07.v — text interpreter of the C07 send-path models and the
   reference decoder.  One case line per emitted frame:
     KIND hostmac hostip4 hostlla routermac routerip4 mtu  args...  [seed]
   model column  = frame(s) the model emits (hex, "," separated; "none"; "panic")
   spec column   = the same text when the frame satisfies the well-formedness
                   predicate of the path, otherwise "ill-formed:<path>"
   key column    = recorded defect class when the frame is ill-formed in exactly
                   the recorded way, else "-" *)
From PV Require Import Base.Text Model.SendBase Model.Send Model.SendNdp Model.SendUdp
  Spec.SendRef Spec.SendRefUdp Spec.SendKnown Model.SendPool.
Open Scope string_scope.
Open Scope N_scope.

Definition TAB : string := String (ascii_of_N 9) EmptyString.
Definition out3 (m s k : string) : string := m ++ TAB ++ s ++ TAB ++ k.

Definition show_frames (l : list bytes) : string :=
  match l with [] => "none" | _ => join "," (map tok_of_bytes l) end.
Definition show_out (r : res (list bytes)) : string := show_res show_frames r.

Fixpoint first_key (l : list (string * (bytes -> bool))) (fr : bytes) : string :=
  match l with
  | [] => "-"
  | (k, p) :: r => if p fr then k else first_key r fr
  end.

(* verdict of a single-frame path: wf is the path's predicate, known the defect classifiers *)
Definition verdict (path : string) (r : res (list bytes)) (wf : bytes -> bool)
                   (known : list (string * (bytes -> bool))) : string :=
  match r with
  | Ok [fr] => if wf fr then out3 (show_out r) (show_out r) "-"
               else out3 (show_out r) ("ill-formed:" ++ path) (first_key known fr)
  | Ok [] => out3 "none" "-" "-"
  | _ => out3 (show_out r) ("ill-formed:" ++ path) "-"
  end.

Definition parse_cfg (a : list string) : option (cfg * list string) :=
  match a with
  | hm :: hip :: hlla :: rm :: rip :: m :: rest =>
      match bytes_of_tok hm, bytes_of_tok hip, bytes_of_tok hlla, bytes_of_tok rm, bytes_of_tok rip, N_of_dec m with
      | Some hm, Some hip, Some hlla, Some rm, Some rip, Some m => Some (mkCfg hm hip hlla rm rip m, rest)
      | _, _, _, _, _, _ => None
      end
  | _ => None
  end.

Fixpoint all_bytes (l : list string) : option (list bytes) :=
  match l with
  | [] => Some []
  | x :: r => match bytes_of_tok x, all_bytes r with Some b, Some bs => Some (b :: bs) | _, _ => None end
  end.
Fixpoint all_N (l : list string) : option (list N) :=
  match l with
  | [] => Some []
  | x :: r => match N_of_dec x, all_N r with Some b, Some bs => Some (b :: bs) | _, _ => None end
  end.

(* "-" = absent *)
Definition opt_bytes (s : string) : option (option bytes) :=
  if String.eqb s "-" then Some None else option_map Some (bytes_of_hex s).

(* prefixes: plen/hex;plen/hex  |  "-" *)
Fixpoint parse_prefixes (l : list string) : option (list (N * bytes)) :=
  match l with
  | [] => Some []
  | x :: r => match Text.split "/"%char x with
              | [pl; h] => match N_of_dec pl, bytes_of_tok h, parse_prefixes r with
                           | Some pl, Some h, Some t => Some ((pl, h) :: t)
                           | _, _, _ => None
                           end
              | _ => None
              end
  end.
Definition prefixes_of_tok (s : string) : option (list (N * bytes)) :=
  if String.eqb s "-" then Some [] else parse_prefixes (Text.split ";"%char s).
(* rdnss: lifetime/srv/srv | "-" ; lifetime/ alone = no server *)
Definition rdnss_of_tok (s : string) : option (option (N * list bytes)) :=
  if String.eqb s "-" then Some None else
  match Text.split "/"%char s with
  | lt :: srv => match N_of_dec lt, all_bytes (filter (fun x => negb (String.eqb x "")) srv) with
                 | Some lt, Some srv => Some (Some (lt, srv))
                 | _, _ => None
                 end
  | [] => None
  end.
Definition codes_of_tok (s : string) : option (list N) := all_N (Text.split "/"%char s).

Definition str_decline : bytes := [110;101;116;102;105;108;116;101;114;32;100;101;99;108;105;110;101].
Definition str_release : bytes := [110;101;116;102;105;108;116;101;114;32;114;101;108;101;97;115;101].

(* options in the given order; None when the order is not a permutation of the expected set *)
Definition opts_in_order (set : list (N * bytes)) (order : list N) : option (list (N * bytes)) :=
  if negb (Nat.eqb (List.length set) (List.length order)) then None else
  if negb (forallb (fun o => existsb (fun c => c =? fst o) order) set) then None else
  let l := map (fun c => match find_opt c set with Some v => Some (c, v) | None => None end) order in
  if forallb (fun x => match x with Some _ => true | None => false end) l
  then Some (concat (map (fun x => match x with Some o => [o] | None => [] end) l)) else None.

Definition orE (a : option bytes) : bytes := match a with Some x => x | None => [] end.

Definition dispatch (kind : string) (args : list string) : string :=
  match parse_cfg args with
  | None => BADARGS
  | Some (c, rest) =>
    (* a trailing scenario token (scn:...) only tells the harness how to reproduce the case *)
    let rest := filter (fun t => negb (String.prefix "scn:" t)) rest in
    let hm := host_mac c in
    if String.eqb kind "purgearp" then
      match rest with
      | [ip; seed] =>
        match bytes_of_tok ip, N_of_dec seed with
        | Some ip, Some seed =>
            verdict "arp-request" (send_purge_arp c ip (poison seed))
              (wf_arp hm eth_bcast 1 hm (host_ip4 c) eth_bcast ip) []
        | _, _ => BADARGS
        end
      | _ => BADARGS
      end
    else if String.eqb kind "echo4" || String.eqb kind "echo6" then
      match rest with
      | [sm; si; dm; di; id; sq; seed] =>
        match all_bytes [sm; si; dm; di], N_of_dec id, N_of_dec sq, N_of_dec seed with
        | Some [sm; si; dm; di], Some id, Some sq, Some seed =>
            if String.eqb kind "echo4" then
              verdict "echo4" (send_echo4 c (sm, si) (dm, di) id sq (poison seed))
                (wf_echo4 hm dm si di id sq) []
            else
              verdict "echo6" (send_echo6 c (sm, si) (dm, di) id sq (poison seed))
                (wf_echo6 hm dm si di id sq) []
        | _, _, _, _ => BADARGS
        end
      | _ => BADARGS
      end
    else if String.eqb kind "ns" then
      match rest with
      | [sm; si; dm; di; tg; seed] =>
        match all_bytes [sm; si; dm; di; tg], N_of_dec seed with
        | Some [sm; si; dm; di; tg], Some seed =>
            verdict "ns" (send_ns c (sm, si) (dm, di) tg (poison seed))
              (wf_ns hm dm si di tg) []
        | _, _ => BADARGS
        end
      | _ => BADARGS
      end
    else if String.eqb kind "na" then
      match rest with
      | [sm; si; dm; di; tm; ti; seed] =>
        match all_bytes [sm; si; dm; di; tm; ti], N_of_dec seed with
        | Some [sm; si; dm; di; tm; ti], Some seed =>
            verdict "na" (send_na c (sm, si) (dm, di) (tm, ti) (poison seed))
              (wf_na hm dm si di 32 ti tm) []
        | _, _ => BADARGS
        end
      | _ => BADARGS
      end
    else if String.eqb kind "rs" then
      match rest with
      | [seed] =>
        match N_of_dec seed with
        | Some seed =>
            verdict "rs" (send_rs c (poison seed)) (wf_rs hm (as16 (host_lla c))) []
        | None => BADARGS
        end
      | _ => BADARGS
      end
    else if String.eqb kind "ra" then
      match rest with
      | [dm; di; rd; pf; seed] =>
        match all_bytes [dm; di], rdnss_of_tok rd, prefixes_of_tok pf, N_of_dec seed with
        | Some [dm; di], Some rd, Some pf, Some seed =>
            verdict "ra" (send_ra c pf rd (dm, di) (poison seed))
              (wf_ra hm (as16 (host_lla c)) (mtu c) pf rd dm di) []
        | _, _, _, _ => BADARGS
        end
      | _ => BADARGS
      end
    else if String.eqb kind "purge6" then
      match rest with
      | [tm; ti; id; seed] =>
        match all_bytes [tm; ti], N_of_dec id, N_of_dec seed with
        | Some [tm; ti], Some id, Some seed =>
            let sn := solicited_node ti in
            if ll_unicast ti then
              verdict "purge-ns" (send_purge_ip6 c (tm, ti) id (poison seed))
                (fun fr => wf_ns hm (mac_of_mcast6 (a_ip sn)) (host_lla c) (a_ip sn) ti fr) []
            else
              verdict "purge-echo6" (send_purge_ip6 c (tm, ti) id (poison seed))
                (wf_echo6 hm tm (host_lla c) ti id 0) []
        | _, _, _ => BADARGS
        end
      | _ => BADARGS
      end
    else if String.eqb kind "arpraw" || String.eqb kind "arpreply" then
      match rest with
      | [dst; sm; si; tm; ti; seed] =>
        match all_bytes [dst; sm; si; tm; ti], N_of_dec seed with
        | Some [dst; sm; si; tm; ti], Some seed =>
            let op := if String.eqb kind "arpraw" then 1 else 2 in
            verdict kind (send_arp c op dst (sm, si) (tm, ti) (poison seed)) (wf_arp hm dst op sm si tm ti) []
        | _, _ => BADARGS
        end
      | _ => BADARGS
      end
    else if String.eqb kind "arpreq" || String.eqb kind "arpprobe" then
      match rest with
      | [ip; seed] =>
        match bytes_of_tok ip, N_of_dec seed with
        | Some ip, Some seed =>
            if String.eqb kind "arpreq" then
              verdict kind (arp_request c ip (poison seed)) (wf_arp hm eth_bcast 1 hm (host_ip4 c) eth_bcast ip) []
            else
              (* RFC 5227 probe: sender IP 0.0.0.0, target hardware address zero *)
              verdict kind (arp_probe c ip (poison seed)) (wf_arp hm eth_bcast 1 hm [0;0;0;0] eth_zero ip) []
        | _, _ => BADARGS
        end
      | _ => BADARGS
      end
    else if String.eqb kind "arpreqto" || String.eqb kind "arpannounce" || String.eqb kind "huntstart" || String.eqb kind "huntstop"
            || String.eqb kind "arpspoofreply" then
      match rest with
      | [m; ip; seed] =>
        match bytes_of_tok m, bytes_of_tok ip, N_of_dec seed with
        | Some m, Some ip, Some seed =>
            let rm := router_mac c in let rip := router_ip4 c in
            if String.eqb kind "arpreqto" then
              verdict kind (arp_request_to c m ip (poison seed)) (wf_arp hm m 1 hm (host_ip4 c) eth_bcast ip) []
            else if String.eqb kind "arpannounce" then
              verdict kind (arp_announce_to c m ip (poison seed)) (wf_arp hm m 1 hm ip eth_bcast ip) []
            else if String.eqb kind "huntstart" then
              (* spoofLoop: announce the router IP as ours to the hunted host (m, ip) *)
              verdict kind (arp_announce_to c m rip (poison seed)) (wf_arp hm m 1 hm rip eth_bcast rip) []
            else if String.eqb kind "huntstop" then
              (* end of hunt: request carrying the real router binding, unicast to the host *)
              verdict kind (arp_request_raw c m (rm, rip) (rm, rip) (poison seed)) (wf_arp hm m 1 rm rip rm rip) []
            else
              (* ProcessPacket: hunted client (m, ip) asks for the router: reply "router is at host MAC" *)
              verdict kind (arp_reply c m (hm, rip) (m, ip) (poison seed)) (wf_arp hm m 2 hm rip m ip) []
        | _, _, _ => BADARGS
        end
      | _ => BADARGS
      end
    else if String.eqb kind "dhcpreply" then
      match rest with
      | [dm; di; pl; seed] =>
        match all_bytes [dm; di; pl], N_of_dec seed with
        | Some [dm; di; pl], Some seed =>
            verdict kind (send_dhcp4_reply c (dm, di) pl (poison seed))
              (wf_udp4 hm dm (host_ip4 c) di 67 68 (fun p => beq p pl && wf_dhcp_reply p) true) []
        | _, _ => BADARGS
        end
      | _ => BADARGS
      end
    else if String.eqb kind "discover" then
      match rest with
      | [ch; ci; xid; name; order; seed] =>
        match opt_bytes ch, opt_bytes ci, bytes_of_tok xid, bytes_of_tok name, codes_of_tok order, N_of_dec seed with
        | Some ch, Some ci, Some xid, Some name, Some order, Some seed =>
            let set := ((match name with [] => [] | _ => [(12, name)] end) ++ [(55, str_discover_prl); (53, [1])])%list in
            match opts_in_order set order with
            | None => BADARGS
            | Some opts =>
                (* ciaddr: the requested IPv4 address, 0.0.0.0 when the caller gave none (or a non-IPv4 one);
                   xid: the effective transaction id (the caller's, or the random one read from the frame) *)
                let ciaddr := match ci with Some a => if is4 a then a else [0;0;0;0] | None => [0;0;0;0] end in
                verdict kind (send_discover c ch (orE ci) xid opts (poison seed))
                  (wf_udp4 hm (router_mac c) (host_ip4 c) (router_ip4 c) 68 67
                     (wf_dhcp_client (orE ch) ciaddr (Some xid) set) false) []
            end
        | _, _, _, _, _, _ => BADARGS
        end
      | _ => BADARGS
      end
    else if String.eqb kind "decline" || String.eqb kind "release" then
      match rest with
      | [ch; cid; sip; cip; xid; order; seed] =>
        match all_bytes [ch; cid; sip; cip; xid], codes_of_tok order, N_of_dec seed with
        | Some [ch; cid; sip; cip; xid], Some order, Some seed =>
            let decl := String.eqb kind "decline" in
            let set := if decl then [(61, cid); (54, sip); (56, str_decline); (50, cip); (53, [4])]
                       else [(61, cid); (54, sip); (56, str_release); (53, [7])] in
            let ciaddr := if decl then [0;0;0;0] else cip in
            match opts_in_order set order with
            | None => BADARGS
            | Some opts =>
                verdict kind (send_decline_release c (Some ch) ciaddr xid opts (poison seed) (poison seed))
                  (wf_udp4 hm (router_mac c) (host_ip4 c) (router_ip4 c) 68 67
                     (wf_dhcp_client ch ciaddr (Some xid) set) false) []
            end
        | _, _, _ => BADARGS
        end
      | _ => BADARGS
      end
    else if String.eqb kind "mdnsq" || String.eqb kind "llmnrq" then
      match rest with
      | [name] =>
        match bytes_of_tok name with
        | Some name =>
            let labels := query_labels name in
            if String.eqb kind "mdnsq" then
              let dip := [224;0;0;251] in
              verdict kind (send_mdns_query c name)
                (wf_udp4 hm (mac_of_mcast4 dip) (host_ip4 c) dip 5353 5353 (wf_dns_query None labels 255 255) true) []
            else
              (* RFC 4795: LLMNR group 224.0.0.252, port 5355 *)
              let dip := [224;0;0;252] in
              verdict kind (send_llmnr_query c name)
                (wf_udp4 hm (mac_of_mcast4 dip) (host_ip4 c) dip 5355 5355 (wf_dns_query None labels 12 255) true) []
        | None => BADARGS
        end
      | _ => BADARGS
      end
    else if String.eqb kind "sleepproxy" then
      match rest with
      | [sm; si; dm; di; port; pl] =>
        match all_bytes [sm; si; dm; di; pl], N_of_dec port with
        | Some [sm; si; dm; di; pl], Some port =>
            if is4 si then
              verdict kind (send_mdns c pl (sm, si) (dm, di) port)
                (wf_udp4 hm dm si di port port (beq pl) false) []
            else
              verdict kind (send_mdns c pl (sm, si) (dm, di) port)
                (wf_udp6 hm dm (as16 si) (as16 di) port port (beq pl)) []
        | _, _ => BADARGS
        end
      | _ => BADARGS
      end
    else if String.eqb kind "nbnsq" then
      match rest with
      | [sm; si; dm; di; sq; name; seed] =>
        match all_bytes [sm; si; dm; di; name], N_of_dec sq, N_of_dec seed with
        | Some [sm; si; dm; di; name], Some sq, Some seed =>
            verdict kind (send_nbns_query c (sm, si) (dm, di) sq name (poison seed))
              (wf_udp4 hm dm si di 137 137 (wf_dns_query (Some sq) [nb_label name] 32 1) false) []
        | _, _, _ => BADARGS
        end
      | _ => BADARGS
      end
    else if String.eqb kind "nbnsstat" then
      match rest with
      | [sq; seed] =>
        match N_of_dec sq, N_of_dec seed with
        | Some sq, Some seed =>
            verdict kind (send_nbns_node_status c sq (poison seed))
              (wf_udp4 hm eth_bcast (host_ip4 c) [255;255;255;255] 137 137 (wf_dns_query (Some sq) [nb_label [42]] 33 1) true) []
        | _, _ => BADARGS
        end
      | _ => BADARGS
      end
    else if String.eqb kind "ssdp" then
      match rest with
      | [seed] =>
        match N_of_dec seed with
        | Some seed =>
            let dip := [239;255;255;250] in
            verdict kind (send_ssdp_search c (poison seed))
              (wf_udp4 hm (mac_of_mcast4 dip) (host_ip4 c) dip 1900 1900 wf_msearch true) []
        | None => BADARGS
        end
      | _ => BADARGS
      end
    else BADARGS
  end.

(* ---------------------------------------------------------------- *)
(* Hypotheses of the theorems, decided per case.  Every theorem of Properties/C07.v has hypotheses of three
   kinds: (i) guaranteed by Go types (bytes < 256, uint16 ids and ports, a 1522-byte pool buffer);
   (ii) checked by the Go function itself: then the negation is a refusal theorem and the case must show "none";
   (iii) assumed of the caller / the configuration (6-byte NIC and destination MACs, 4- and 16-byte addresses,
   payloads that fit): these are decided here on every case, and a case outside them is reported as
   outside-theorem-domain, so the generators provably stay inside what the theorems cover.
   adm_of: 0 = the code must refuse (a refusal theorem applies), 1 = a frame must be sent and be well-formed,
   2 = if a frame is sent it must be well-formed (the marshalling may refuse), 3 = outside every theorem. *)
Definition okb (l : bytes) : bool := forallb (fun b => b <? 256) l.
Definition macb (m : bytes) : bool := lenb m 6 && okb m.
Definition ip4b (a : bytes) : bool := lenb a 4 && okb a.
Definition ip6b (a : bytes) : bool := lenb a 16 && okb a.
Definition cfgb (c : cfg) : bool :=
  macb (host_mac c) && ip4b (host_ip4 c) && (ip6b (host_lla c) || lenb (host_lla c) 0)
  && macb (router_mac c) && ip4b (router_ip4 c).
(* Router Advertisement: what must be sent, stated without the model's marshalling functions.  A request is
   honoured iff there is a prefix, every prefix has a length <= 128 and no bit set beyond it, an RDNSS option (if
   asked for) names a server, and the message (16 bytes of header, 32 per prefix, 8 + 16 per server, DNSSL 16,
   MTU 8, SLLA 8) fits the 1522-byte buffer after the Ethernet and IPv6 headers: <= 1468 bytes (RFC 8106 5.1
   puts no smaller bound on the number of servers than the option length octet: 127).  Else: refused. *)
Definition host_bits_zero (plen : N) (p : bytes) : bool :=
  forallb (fun i => let i := N.of_nat i in
             (i <? plen) || negb (N.testbit (nth (N.to_nat (i / 8)) p 0) (7 - i mod 8))) (seq 0 128).
Definition ra_must_send (pf : list (N * bytes)) (rd : option (N * list bytes)) : bool :=
  negb (match pf with [] => true | _ => false end)
  && forallb (fun p => (fst p <=? 128) && host_bits_zero (fst p) (snd p)) pf
  && match rd with Some (_, []) => false | _ => true end
  && (16 + 32 * N.of_nat (List.length pf)
      + match rd with Some (_, srv) => 8 + 16 * N.of_nat (List.length srv) | None => 0 end
      + 32 <=? 1468).
Definition code (refuse : bool) (hyps : bool) : N := if refuse then 0 else if hyps then 1 else 3.
Definition optokb (o : N * bytes) : bool :=
  (0 <? fst o) && (fst o <? 255) && Nat.leb (List.length (snd o)) 255 && okb (snd o)
  && negb (fst o =? 1) && negb (fst o =? 33) && negb (fst o =? 3).

Definition adm_of (kind : string) (c : cfg) (rest : list string) : N :=
  let b s := match bytes_of_tok s with Some x => x | None => [300] end in
  let n s := match N_of_dec s with Some x => x | None => 65536 end in
  let is k := String.eqb kind k in
  if negb (cfgb c) then 3 else
  match rest with
  | [ip; _] =>
      if is "purgearp" then code false (ip4b (b ip))
      else if is "arpreq" then code (negb (is4 (b ip))) (ip4b (b ip))
      else if is "arpprobe" then code (negb (is4 (b ip))) (ip4b (b ip))
      else if is "nbnsstat" then code false (n ip <? 65536)
      else 3
  | [_] => if is "rs" || is "ssdp" then 1
           else if is "mdnsq" || is "llmnrq" then match rest with [nm] => code (negb (dns_pack_ok (b nm))) (okb (b nm)) | _ => 3 end
           else 3
  | [m; ip; _] =>
      (* arpreqto / arpannounce / huntstart / huntstop / arpspoofreply: a MAC and an IPv4 address *)
      if is "arpreqto" || is "arpannounce" || is "huntstart" || is "huntstop" || is "arpspoofreply"
      then code (negb (is_mac (b m)) || negb (is4 (b ip))) (macb (b m) && ip4b (b ip))
      else 3
  | [tm; ti; id; _] =>
      if is "purge6" then code (negb (is6 (host_lla c))) (macb (b tm) && ip6b (b ti) && (n id <? 65536))
      else if is "dhcpreply" then
        let p := b id in
        code (Nat.ltb 1480 (List.length p))
             (macb (b tm) && ip4b (b ti) && dst4_mac_ok (b tm) (b ti) && okb p)
      else 3
  | [dm; di; rd; pf; _] =>
      if is "ra" then
        match rdnss_of_tok rd, prefixes_of_tok pf with
        | Some rd, Some pf =>
            if macb (b dm) && ip6b (b di)
               && forallb (fun p => (fst p <? 256) && ip6b (snd p)) pf
               && match rd with Some (_, srv) => forallb ip6b srv | None => true end
            then (if ra_must_send pf rd then 1 else 0) else 3
        | _, _ => 3
        end
      else 3
  | [sm; si; dm; di; tg; _] =>
      if is "ns" then code false (macb (b dm) && ip6b (b si) && ip6b (b di) && ip6b (b tg))
      else if is "arpraw" || is "arpreply" then
        (* dst sm si tm ti: here sm = dst, si = sender MAC, dm = sender IP, di = target MAC, tg = target IP *)
        code (negb (arp_args_ok (b sm) (b si, b dm) (b di, b tg)))
             (macb (b sm) && macb (b si) && ip4b (b dm) && macb (b di) && ip4b (b tg))
      else if is "discover" then
        (* ch ci xid name order *)
        code (negb (match opt_bytes sm with Some (Some a) => Nat.eqb (List.length a) 6 | _ => false end))
             (okb (b sm) && (is4 (b si) && okb (b si) || negb (is4 (b si))) && lenb (b dm) 4 && okb (b dm)
              && okb (b di) && Nat.leb (List.length (b di)) 255)
      else if is "sleepproxy" then
        (* sm si dm di port payload *)
        let p := b (match rest with [_;_;_;_;_;x] => x | _ => sm end) in
        if is4 (b si)
        then code (Nat.ltb 1480 (List.length p)) (ip4b (b si) && macb (b dm) && ip4b (b di) && (n tg <? 65536) && okb p)
        else code (Nat.ltb 1460 (List.length p)) (ip6b (b si) && macb (b dm) && ip6b (b di) && (n tg <? 65536) && okb p)
      else 3
  | [a1; a2; a3; a4; a5; a6; _] =>
      if is "echo4" then code (negb (is4 (b a2)) || negb (is4 (b a4)))
                              (macb (b a3) && ip4b (b a2) && ip4b (b a4) && (n a5 <? 65536) && (n a6 <? 65536))
      else if is "echo6" then code (negb (is6 (b a2)) || negb (is6 (b a4)))
                              (macb (b a3) && ip6b (b a2) && ip6b (b a4) && (n a5 <? 65536) && (n a6 <? 65536))
      else if is "na" then code (negb (Nat.eqb (List.length (b a5)) 6))
                              (macb (b a3) && ip6b (b a2) && ip6b (b a4) && macb (b a5) && ip6b (b a6))
      else if is "nbnsq" then code (Nat.ltb 16 (List.length (b a6)))
                              (ip4b (b a2) && macb (b a3) && ip4b (b a4) && (n a5 <? 65536) && okb (b a6))
      else if is "decline" || is "release" then
        (* ch cid sip cip xid order *)
        code false (macb (b a1) && okb (b a2) && Nat.leb (List.length (b a2)) 255 && ip4b (b a3) && ip4b (b a4)
                    && lenb (b a5) 4 && okb (b a5))
      else 3
  | _ => 3
  end.

(* apply the admissibility code to the three columns of a verdict *)
Definition with_adm (adm : N) (kind : string) (o : string) : string :=
  match Text.split (ascii_of_N 9) o with
  | [m; sp; k] =>
      if String.eqb m BADARGS then o
      else if adm =? 3 then out3 m ("outside-theorem-domain:" ++ kind) "-"
      else if (adm =? 0) && negb (String.eqb m "none") then out3 m ("ill-formed:" ++ kind ++ ":sent-what-must-be-refused") "-"
      else if (adm =? 1) && String.eqb m "none" then out3 m ("ill-formed:" ++ kind ++ ":refused-an-admissible-request") "-"
      else o
  | _ => o
  end.

(* ---------------------------------------------------------------- *)
(* census of send sites (harness/cmd/c07/census.go): every place of the library that hands bytes to a
   connection or socket, with the model function that covers it.  A site that is not listed here comes back
   as UNMODELLED:<site>, i.e. a correspondence violation. *)
Definition send_sites : list (string * string) :=
  [("session.go:arpRequest*1", "Model.Send.send_arp_request");
   ("layer_icmp.go:icmp4SendPacket*1", "Model.Send.icmp4_send_packet");
   ("layer_icmp.go:icmp6SendPacket*1", "Model.Send.icmp6_send_packet");
   ("handlers/arp_spoofer/arp.go:RequestRaw*1", "Model.SendNdp.send_arp (op 1)");
   ("handlers/arp_spoofer/arp.go:reply*1", "Model.SendNdp.send_arp (op 2)");
   ("handlers/dhcp4_spoofer/send.go:sendDHCP4Packet*1", "Model.SendUdp.send_dhcp4_packet");
   ("handlers/dhcp4_spoofer/client.go:SendDiscoverPacket*1", "Model.SendUdp.send_discover");
   ("handlers/dns_naming/mdns.go:sendMDNS*2", "Model.SendUdp.send_mdns");
   ("handlers/dns_naming/nbns.go:sendNBNS*1", "Model.SendUdp.send_nbns");
   ("handlers/dns_naming/ssdp.go:SendSSDPSearch*1", "Model.SendUdp.send_ssdp_search");
   ("nic.go:ExecPing*1", "exempt: OS datagram socket, the kernel builds the frame");
   ("socketconn.go:WriteTo*1", "exempt: implementation of the connection");
   ("socketconn.go:Sendto*1", "exempt: implementation of the connection")].

(* a token is file:function*count: the number of send calls inside the function is part of the key, so a
   second send added to a listed function is noticed as well *)
Definition show_site (tok : string) : string :=
  if existsb (fun s => String.eqb (fst s) tok) send_sites then tok else "UNMODELLED:" ++ tok.

(* ---------------------------------------------------------------- *)
(* call-graph census (harness/cmd/c07/census.go, `reach` case): every function declaration of the library from
   which a send site is reachable (go/ast call graph, every package), with what C07 says about it: the model
   function and its well-formedness / refusal theorems, "caller" (it sends only through modelled functions; its
   own control flow belongs to the named property), or "not modelled" with the reason.  A declaration that is
   not listed comes back as UNMODELLED:<key>. *)
Definition send_reach : list (string * string) :=
  [(".:Config.NewSession", "caller: sends only through the modelled functions above (events of C07_history); its control flow is C04");
   (".:ExecPing", "not modelled: reaches only ExecPing, an ICMP echo through an OS datagram socket at NIC discovery (the kernel builds the frame; not the session connection)");
   (".:GetIP4DefaultGatewayAddr", "not modelled: reaches only ExecPing, an ICMP echo through an OS datagram socket at NIC discovery (the kernel builds the frame; not the session connection)");
   (".:GetLinuxDefaultGateway", "not modelled: reaches only ExecPing, an ICMP echo through an OS datagram socket at NIC discovery (the kernel builds the frame; not the session connection)");
   (".:GetNICInfo", "not modelled: reaches only ExecPing, an ICMP echo through an OS datagram socket at NIC discovery (the kernel builds the frame; not the session connection)");
   (".:LoadLinuxARPTable", "not modelled: reaches only ExecPing, an ICMP echo through an OS datagram socket at NIC discovery (the kernel builds the frame; not the session connection)");
   (".:NewSession", "caller: sends only through the modelled functions above (events of C07_history); its control flow is C04");
   (".:Session.ICMP4SendEchoRequest", "model send_echo4; C07_echo4_wellformed, C07_echo4_refuses_wrong_family");
   (".:Session.ICMP6SendEchoRequest", "model send_echo6; C07_echo6_wellformed, C07_echo6_refuses_wrong_family");
   (".:Session.ICMP6SendNeighborAdvertisement", "model send_na; C07_na_wellformed, C07_na_refuses_bad_target_mac");
   (".:Session.ICMP6SendNeighbourSolicitation", "model send_ns; C07_ns_wellformed");
   (".:Session.ICMP6SendRouterAdvertisement", "model send_ra; C07_ra_wellformed");
   (".:Session.ICMP6SendRouterSolicitation", "model send_rs; C07_rs_wellformed, C07_rs_refuses_bad_mac");
   (".:Session.Ping", "caller: sends only through the modelled functions above (events of C07_history); its control flow is C19");
   (".:Session.Ping6", "caller: sends only through the modelled functions above (events of C07_history); its control flow is C19");
   (".:Session.ValidateDefaultRouter", "caller: sends only through the modelled functions above (events of C07_history); its control flow is C19");
   (".:Session.VerifPingFrom", "caller: sends only through the modelled functions above (events of C07_history); its control flow is C19");
   (".:Session.VerifPurge", "model send_purge_arp / send_purge_ip6 (one probe per stale host; which hosts: C04); C07_purge_arp_wellformed, C07_purge_ns_wellformed, C07_purge_echo6_wellformed");
   (".:Session.arpRequest", "model send_arp_request; C07_arp_request_wellformed");
   (".:Session.icmp4SendPacket", "model icmp4_send_packet; C07_echo4_wellformed");
   (".:Session.icmp6SendPacket", "model icmp6_send_packet; C07_icmp6_send_any_message, C07_icmp6_refuses_oversize");
   (".:Session.ping", "caller: sends only through the modelled functions above (events of C07_history); its control flow is C19");
   (".:Session.purge", "model send_purge_arp / send_purge_ip6 (one probe per stale host; which hosts: C04); C07_purge_arp_wellformed, C07_purge_ns_wellformed, C07_purge_echo6_wellformed");
   (".:init", "not modelled: reaches only ExecPing, an ICMP echo through an OS datagram socket at NIC discovery (the kernel builds the frame; not the session connection)");
   (".:packetConn.WriteTo", "not modelled: the raw-socket implementation of the connection itself");
   (".:sysSocket.Sendto", "not modelled: the raw-socket implementation of the connection itself");
   ("handlers/arp_spoofer:Handler.AnnounceTo", "model arp_announce_to; C07_arp_announce_wellformed");
   ("handlers/arp_spoofer:Handler.Probe", "model arp_probe; C07_arp_probe_wellformed");
   ("handlers/arp_spoofer:Handler.ProcessPacket", "caller: sends only through the modelled functions above (events of C07_history); its control flow is C13");
   ("handlers/arp_spoofer:Handler.Reply", "model send_arp; C07_arp_spoofer_wellformed, C07_arp_spoofer_refuses_bad_args");
   ("handlers/arp_spoofer:Handler.Request", "model arp_request / arp_request_to; C07_arp_request_to_wellformed, C07_arp_request_to_refuses_non_ip4");
   ("handlers/arp_spoofer:Handler.RequestRaw", "model send_arp; C07_arp_spoofer_wellformed, C07_arp_spoofer_refuses_bad_args");
   ("handlers/arp_spoofer:Handler.RequestTo", "model arp_request / arp_request_to; C07_arp_request_to_wellformed, C07_arp_request_to_refuses_non_ip4");
   ("handlers/arp_spoofer:Handler.Scan", "caller: sends only through the modelled functions above (events of C07_history); its control flow is C13");
   ("handlers/arp_spoofer:Handler.StartHunt", "caller: sends only through the modelled functions above (events of C07_history); its control flow is C13");
   ("handlers/arp_spoofer:Handler.WhoIs", "caller: sends only through the modelled functions above (events of C07_history); its control flow is C13");
   ("handlers/arp_spoofer:Handler.reply", "model send_arp; C07_arp_spoofer_wellformed, C07_arp_spoofer_refuses_bad_args");
   ("handlers/arp_spoofer:Handler.spoofLoop", "caller: sends only through the modelled functions above (events of C07_history); its control flow is C13");
   ("handlers/dhcp4_spoofer:Handler.ProcessPacket", "caller: sends only through the modelled functions above (events of C07_history); its control flow is C11/C12");
   ("handlers/dhcp4_spoofer:Handler.SendDiscoverPacket", "model send_discover; C07_discover_wellformed, C07_discover_refuses_bad_chaddr");
   ("handlers/dhcp4_spoofer:Handler.StartHunt", "caller: sends only through the modelled functions above (events of C07_history); its control flow is C11/C12");
   ("handlers/dhcp4_spoofer:Handler.attackDHCPServer", "caller: sends only through the modelled functions above (events of C07_history); its control flow is C11/C12");
   ("handlers/dhcp4_spoofer:Handler.forceDecline", "caller: sends only through the modelled functions above (events of C07_history); its control flow is C11/C12");
   ("handlers/dhcp4_spoofer:Handler.forceRelease", "caller: sends only through the modelled functions above (events of C07_history); its control flow is C11/C12");
   ("handlers/dhcp4_spoofer:Handler.handleDiscover", "caller: sends only through the modelled functions above (events of C07_history); its control flow is C11/C12");
   ("handlers/dhcp4_spoofer:Handler.handleRequest", "caller: sends only through the modelled functions above (events of C07_history); its control flow is C11/C12");
   ("handlers/dhcp4_spoofer:Handler.processClientPacket", "caller: sends only through the modelled functions above (events of C07_history); its control flow is C11/C12");
   ("handlers/dhcp4_spoofer:Handler.sendDeclineReleasePacket", "model send_decline_release; C07_decline_release_wellformed");
   ("handlers/dhcp4_spoofer:sendDHCP4Packet", "model send_dhcp4_packet; C07_udp4_encapsulation, C07_dhcp_reply_wellformed, C07_udp4_refuses_oversize");
   ("handlers/dns_naming:DNSHandler.SendLLMNRQuery", "model send_llmnr_query; C07_llmnr_query_wellformed, C07_llmnr_query_refuses_unencodable");
   ("handlers/dns_naming:DNSHandler.SendMDNSQuery", "model send_mdns_query; C07_mdns_query_wellformed, C07_mdns_query_refuses_unencodable");
   ("handlers/dns_naming:DNSHandler.SendNBNSNodeStatus", "model send_nbns_node_status; C07_nbns_node_status_wellformed");
   ("handlers/dns_naming:DNSHandler.SendNBNSQuery", "model send_nbns_query; C07_nbns_query_wellformed, C07_nbns_query_refuses_long_name");
   ("handlers/dns_naming:DNSHandler.SendSSDPSearch", "model send_ssdp_search; C07_ssdp_wellformed");
   ("handlers/dns_naming:DNSHandler.SendSleepProxyResponse", "event EvMdns (DNS message packed by third-party dnsmessage, carried by send_mdns); C07_mdns_ip4_branch, C07_mdns_ip6_branch");
   ("handlers/dns_naming:DNSHandler.Start", "caller: sends only through the modelled functions above (events of C07_history); its control flow is C08/C17");
   ("handlers/dns_naming:DNSHandler.sendMDNS", "model send_mdns; C07_mdns_ip4_branch, C07_mdns_ip6_branch");
   ("handlers/dns_naming:DNSHandler.sendMDNSQuery", "model send_mdns_query; C07_mdns_query_wellformed, C07_mdns_query_refuses_unencodable");
   ("handlers/dns_naming:DNSHandler.sendNBNS", "model send_nbns; C07_nbns_wellformed");
   ("handlers/icmp_spoofer:Handler6.PingAll", "caller: sends only through the modelled functions above (events of C07_history); its control flow is C14");
   ("handlers/icmp_spoofer:Handler6.ProcessPacket", "caller: sends only through the modelled functions above (events of C07_history); its control flow is C14");
   ("handlers/icmp_spoofer:Handler6.StartHunt", "caller: sends only through the modelled functions above (events of C07_history); its control flow is C14");
   ("handlers/icmp_spoofer:Handler6.StartRADVS", "caller: sends only through the modelled functions above (events of C07_history); its control flow is C14");
   ("handlers/icmp_spoofer:Handler6.spoofLoop", "caller: sends only through the modelled functions above (events of C07_history); its control flow is C14");
   ("handlers/icmp_spoofer:Handler6.startRADVS", "caller: sends only through the modelled functions above (events of C07_history); its control flow is C14");
   ("handlers/icmp_spoofer:RADVS.SendRA", "caller: sends only through the modelled functions above (events of C07_history); its control flow is C14");
   ("handlers/icmp_spoofer:RADVS.sendAdvertistementLoop", "caller: sends only through the modelled functions above (events of C07_history); its control flow is C14")].

Definition show_reach (tok : string) : string :=
  if existsb (fun s => String.eqb (fst s) tok) send_reach then tok else "UNMODELLED:" ++ tok.

(* What the `reach` case compares: the ANCHORS of the call graph, i.e. the exported functions / methods that reach
   a send site and the functions that contain one.  An unexported function without a send site of its own can
   reach one only through anchors or other such helpers, so it inherits their classification (the harness counts
   it: stat reach.inherited); extracting or inlining such helpers is silent.  A listed exported function that no
   longer reaches a send site comes back as MISSING: (the listed functions containing a site are watched by the
   `sites` case). *)
Definition upper_first (s : string) : bool :=
  match s with
  | String a _ => let n := N_of_ascii a in (65 <=? n) && (n <=? 90)
  | EmptyString => false
  end.
Definition exported_key (k : string) : bool :=
  match rev (Text.split ":"%char k) with
  | nm :: _ => forallb upper_first (Text.split "."%char nm)
  | [] => false
  end.
Definition reach_line (args : list string) : string :=
  let missing := filter (fun s => exported_key (fst s) && negb (existsb (String.eqb (fst s)) args)) send_reach in
  join "," (map show_reach args ++ map (fun s => ("MISSING:" ++ fst s)%string) missing)%list.

(* pool discipline census (harness/cmd/c07/census.go, `pool` case): every function of the library that touches
   packet.EtherBufferPool, as dir:Receiver.Name:Gets/deferred Puts of a buffer it got/other Puts.  Model/SendPool.v
   assumes what this table says: each of them takes one buffer and returns it exactly once, by a deferred Put, on
   every path (sendDeclineReleasePacket holds its own while sendDHCP4Packet takes the second one). *)
Definition send_pool : list string :=
  [".:Session.arpRequest"; ".:Session.icmp4SendPacket"; ".:Session.icmp6SendPacket";
   "handlers/arp_spoofer:Handler.RequestRaw"; "handlers/arp_spoofer:Handler.reply";
   "handlers/dhcp4_spoofer:Handler.SendDiscoverPacket"; "handlers/dhcp4_spoofer:Handler.sendDeclineReleasePacket";
   "handlers/dhcp4_spoofer:sendDHCP4Packet"; "handlers/dns_naming:DNSHandler.SendSSDPSearch";
   "handlers/dns_naming:DNSHandler.sendNBNS"].
Definition pool_line (args : list string) : string :=
  let want := map (fun k => (k ++ ":1/1/0")%string) send_pool in
  join "," (map (fun t => if existsb (String.eqb t) want then t else ("UNMODELLED:" ++ t)%string) args
            ++ map (fun t => ("MISSING:" ++ t)%string) (filter (fun t => negb (existsb (String.eqb t) args)) want))%list.

(* logger census (`logs` case): every package-level fastlog logger of the library.  The log level is a mode, not an
   input of the model (C07_wire_independent_of_log_level): the harness runs every case at the level error / info /
   debug derived from its case line, setting all of these together. *)
Definition send_logs : list (string * string) :=
  [(".:Logger", "rotated");
   ("handlers/arp_spoofer:Logger", "rotated");
   ("handlers/dhcp4_spoofer:Logger", "rotated");
   ("handlers/dns_naming:Logger", "rotated");
   ("handlers/dns_naming:LoggerMDNS", "rotated");
   ("handlers/icmp_spoofer:Logger4", "rotated (its package sends only through the session functions)");
   ("handlers/icmp_spoofer:Logger6", "rotated (its package sends only through the session functions)");
   ("handlers/dns_naming:ssdpLogger", "unexported, stays at info: used on the receive side only (ssdp:alive / byebye)")].
Definition logs_line (args : list string) : string :=
  let want := map fst send_logs in
  join "," (map (fun t => if existsb (String.eqb t) want then t else ("UNMODELLED:" ++ t)%string) args
            ++ map (fun t => ("MISSING:" ++ t)%string) (filter (fun t => negb (existsb (String.eqb t) args)) want))%list.

Fixpoint split_steps (toks cur : list string) : list (list string) :=
  match toks with
  | [] => [rev cur]
  | t :: r => if String.eqb t "|" then rev cur :: split_steps r [] else split_steps r (t :: cur)
  end.

Definition dispatch_one (k : string) (args : list string) : string :=
  match parse_cfg args with
  | Some (c, rest) =>
      with_adm (adm_of k c (filter (fun t => negb (String.prefix "scn:" t)) rest)) k (dispatch k args)
  | None => dispatch k args
  end.

(* seq: cases run one after the other on the same buffer pool; the model is stateless across sends
   (C07_send_independent_of_history), so the expected observation is that of each step on its own *)
Definition seq_line (args : list string) : string :=
  let outs := map (fun st => match st with
                             | k :: a => match Text.split (ascii_of_N 9) (dispatch_one k a) with
                                         | [m; sp; key] => (m, sp, key)
                                         | _ => (BADARGS, "-", "-")
                                         end
                             | [] => (BADARGS, "-", "-")
                             end) (split_steps args []) in
  let ms := map (fun o => fst (fst o)) outs in
  let sps := map (fun o => if String.eqb (snd (fst o)) "-" then fst (fst o) else snd (fst o)) outs in
  let keys := filter (fun k => negb (String.eqb k "-")) (map snd outs) in
  out3 (join ";" ms)
       (if forallb (fun o => String.eqb (snd (fst o)) "-") outs then "-" else join ";" sps)
       (match keys with k :: _ => k | [] => "-" end).

Definition show_write (w : list string * bool) : string :=
  ((match fst w with [] => "none" | f :: _ => f end) ++ (if snd w then "/err=injected" else "/err=nil") ++ ";")%string.
(* [conn_write] of Model/SendPool.v on the shown frame: first call with a failing write, then the same call again *)
Definition conn_write_shown (fails : bool) (fr : string) : string :=
  (show_write (conn_write fails [fr]) ++ fr)%string.

(* wfail <error> <case line>: the first write of the call fails.  Model (Model/SendPool.v, conn_write): the error is
   returned and nothing reaches the wire; the same call afterwards sends its frame as if nothing had happened. *)
Definition wfail_line (args : list string) : string :=
  match args with
  | _ :: k :: a =>
      match Text.split (ascii_of_N 9) (dispatch_one k a) with
      | [m; sp; key] =>
          if String.eqb m "none" || String.eqb m BADARGS || existsb (fun c => Ascii.eqb c ","%char) (list_ascii_of_string m)
          then BADARGS
          else out3 (conn_write_shown true m) (if String.eqb sp "-" then "-" else conn_write_shown true sp) key
      | _ => BADARGS
      end
  | _ => BADARGS
  end.

Definition dispatch_line (l : string) : string :=
  match words l with
  | k :: args => if String.eqb k "sites" then out3 (join "," (map show_site args)) "-" "-"
                 else if String.eqb k "pool" then out3 (pool_line args) "-" "-"
                 else if String.eqb k "seq" then seq_line args
                 else if String.eqb k "wfail" then wfail_line args
                 else if String.eqb k "logs" then out3 (logs_line args) "-" "-"
                 else if String.eqb k "reach" then out3 (reach_line args) "-" "-"
                 else dispatch_one k args
  | [] => BADARGS
  end.
