(* Extract/D07.v — text interpreter of the C07 send-path models and the
   reference decoder.  One case line per emitted frame:
     KIND hostmac hostip4 hostlla routermac routerip4 mtu  args...  seed
   model column  = frame(s) the model emits (hex, "," separated; "none"; "panic")
   spec column   = the same text when the frame satisfies the well-formedness
                   predicate of the path, otherwise "ill-formed:<path>"
   key column    = recorded defect class when the frame is ill-formed in exactly
                   the recorded way, else "-" *)
From PV Require Import Base.Text Model.SendBase Model.Send Spec.SendRef Spec.SendKnown.
Open Scope string_scope.
Open Scope N_scope.

Definition TAB : string := String (ascii_of_N 9) EmptyString.
Definition out3 (m s k : string) : string := m ++ TAB ++ s ++ TAB ++ k.

Definition show_frames (l : list bytes) : string :=
  match l with [] => "none" | _ => join "," (map tok_of_bytes l) end.
Definition show_out (r : res (list bytes)) : string := show_res show_frames r.

(* verdict of a single-frame path: wf is the path's predicate, known the defect classifier *)
Definition verdict (path : string) (r : res (list bytes)) (wf : bytes -> bool) (known : bytes -> string) : string :=
  match r with
  | Ok [fr] => if wf fr then out3 (show_out r) (show_out r) "-"
               else out3 (show_out r) ("ill-formed:" ++ path) (known fr)
  | Ok [] => out3 "none" "-" "-"
  | _ => out3 (show_out r) ("ill-formed:" ++ path) "-"
  end.

Definition parse_cfg (a : list string) : option (cfg * list string) :=
  match a with
  | hm :: hip :: hlla :: rm :: rip :: m :: rest =>
      match bytes_of_tok hm, bytes_of_tok hip, bytes_of_tok hlla, bytes_of_tok rm, bytes_of_tok rip, N_of_dec m with
      | Some hm, Some hip, Some hlla, Some rm, Some rip, Some m => Some (mkCfg hm hip hlla rm rip m, rest)
      | _, _, _, _, _, _ => None
      end
  | _ => None
  end.

Fixpoint all_bytes (l : list string) : option (list bytes) :=
  match l with
  | [] => Some []
  | x :: r => match bytes_of_tok x, all_bytes r with Some b, Some bs => Some (b :: bs) | _, _ => None end
  end.

Definition dispatch (kind : string) (args : list string) : string :=
  match parse_cfg args with
  | None => BADARGS
  | Some (c, rest) =>
    if String.eqb kind "purgearp" then
      match rest with
      | [ip; seed] =>
        match bytes_of_tok ip, N_of_dec seed with
        | Some ip, Some seed =>
            verdict "arp-request" (send_purge_arp c ip (poison seed))
              (wf_arp (host_mac c) eth_bcast 1 (host_mac c) (host_ip4 c) eth_bcast ip)
              (fun fr => if known_arpreq_hdr (host_mac c) eth_bcast 1 (host_mac c) (host_ip4 c) eth_bcast ip fr
                         then "arpreq-hlen-plen-in-ether-header" else "-")
        | _, _ => BADARGS
        end
      | _ => BADARGS
      end
    else if String.eqb kind "echo4" || String.eqb kind "echo6" then
      match rest with
      | [sm; si; dm; di; id; sq; seed] =>
        match all_bytes [sm; si; dm; di], N_of_dec id, N_of_dec sq, N_of_dec seed with
        | Some [sm; si; dm; di], Some id, Some sq, Some seed =>
            if String.eqb kind "echo4" then
              verdict "echo4" (send_echo4 c (sm, si) (dm, di) id sq (poison seed))
                (wf_echo4 (host_mac c) dm si di id sq) (fun _ => "-")
            else
              verdict "echo6" (send_echo6 c (sm, si) (dm, di) id sq (poison seed))
                (wf_echo6 (host_mac c) dm si di id sq) (fun _ => "-")
        | _, _, _, _ => BADARGS
        end
      | _ => BADARGS
      end
    else if String.eqb kind "ns" then
      match rest with
      | [sm; si; dm; di; tg; seed] =>
        match all_bytes [sm; si; dm; di; tg], N_of_dec seed with
        | Some [sm; si; dm; di; tg], Some seed =>
            verdict "ns" (send_ns c (sm, si) (dm, di) tg (poison seed))
              (wf_ns (host_mac c) dm si di tg)
              (fun fr => if known_ns_opt_type (host_mac c) dm si di tg fr then "ns-option-type-2" else "-")
        | _, _ => BADARGS
        end
      | _ => BADARGS
      end
    else if String.eqb kind "na" then
      match rest with
      | [sm; si; dm; di; tm; ti; seed] =>
        match all_bytes [sm; si; dm; di; tm; ti], N_of_dec seed with
        | Some [sm; si; dm; di; tm; ti], Some seed =>
            verdict "na" (send_na c (sm, si) (dm, di) (tm, ti) (poison seed))
              (wf_na (host_mac c) dm si di 32 ti tm) (fun _ => "-")
        | _, _ => BADARGS
        end
      | _ => BADARGS
      end
    else BADARGS
  end.

Definition dispatch_line (l : string) : string :=
  match words l with
  | k :: args => dispatch k args
  | [] => BADARGS
  end.
