(* Extract/D13.v — text interpreter of the C13 model (Model/ArpSpoof.v) and monitor (Spec/ArpSpoof.v).

   One case line is one whole event sequence:

     seq <cfg> <ev> <ev> ...          (tokens "@<ms>" are the harness's schedule and are skipped)

     cfg  c,<host mac>,<router mac>,<router ip>,<lan ip>,<lan bits>     (hex12, hex12, hex8, hex8, decimal)
     ev   S,<mac>,<ip>                StartHunt
          SI                          StartHunt with nil MAC / non-IPv4 address
          T,<mac>                     StopHunt
          C                           Close
          W,<i>,<mac>                 loop i runs one iteration (the MAC is the Ethernet destination the harness
                                      saw, kept for the reader; the model ignores it)
          R,<op>,<ethsrc>,<smac>,<sip>,<tmac>,<tip>    ProcessPacket on a valid ARP frame (op decimal)
          O,<mac>,<ip|->              the session's DHCP offer for mac is set / cleared

   Observation: for every event the frames it emitted, events separated by "/", frames by "+",
   a frame as op.ethdst.smac.sip.tmac.tip ; "-" when nothing was emitted.
   Column 2: the same string when the monitor accepts the run, else "spec:" and the violated clauses
   with their positions.  Column 3: the recorded defect class when EVERY violated clause of the run lies
   in a recorded class (the first one), else "-". *)
From PV Require Import Base.Text Model.ArpSpoof Spec.ArpSpoof.
Open Scope string_scope.
Open Scope N_scope.

Definition TAB : string := String (ascii_of_N 9) EmptyString.
Definition out3 (m s k : string) : string := m ++ TAB ++ s ++ TAB ++ k.

(* ---- tokens ---- *)

Definition N_of_bytes (l : bytes) : N := fold_left (fun acc b => acc * 256 + b) l 0.

Definition hexN (width : nat) (s : string) : option N :=
  match bytes_of_hex s with
  | Some l => if Nat.eqb (List.length l) width then Some (N_of_bytes l) else None
  | None => None
  end.

Fixpoint bytes_of_N (width : nat) (n : N) : bytes :=
  match width with
  | O => []
  | S w => (bytes_of_N w (n / 256) ++ [n mod 256])%list
  end.

Definition show_mac (m : N) : string := hex_of_bytes (bytes_of_N 6 m).
Definition show_ip (m : N) : string := hex_of_bytes (bytes_of_N 4 m).

Definition commas (s : string) : list string := split ","%char s.

Definition parse_cfg (t : string) : option cfg :=
  match commas t with
  | [c; hm; rm; ri; la; lb] =>
      if String.eqb c "c" then
        match hexN 6 hm, hexN 6 rm, hexN 4 ri, hexN 4 la, N_of_dec lb with
        | Some a, Some b, Some d, Some e, Some f => if f <=? 32 then Some (mkCfg a b d e f) else None
        | _, _, _, _, _ => None
        end
      else None
  | _ => None
  end.

Definition parse_event (t : string) : option event :=
  match commas t with
  | [k] => if String.eqb k "SI" then Some StartHuntInvalid
           else if String.eqb k "C" then Some Close else None
  | [k; a] => if String.eqb k "T" then option_map StopHunt (hexN 6 a) else None
  | [k; a; b] =>
      if String.eqb k "S" then
        match hexN 6 a, hexN 4 b with Some m, Some i => Some (StartHunt (mkAddr m i)) | _, _ => None end
      else if String.eqb k "W" then
        match nat_of_dec a, hexN 6 b with Some i, Some _ => Some (Wake i) | _, _ => None end
      else if String.eqb k "O" then
        match hexN 6 a with
        | Some m => if String.eqb b "-" then Some (SetOffer m None)
                    else match hexN 4 b with Some i => Some (SetOffer m (Some i)) | None => None end
        | None => None
        end
      else None
  | [k; op; es; sm; si; tm; ti] =>
      if String.eqb k "R" then
        match N_of_dec op, hexN 6 es, hexN 6 sm, hexN 4 si, hexN 6 tm, hexN 4 ti with
        | Some o, Some a, Some b, Some d, Some e, Some f => Some (RxArp (mkPkt o a b d e f))
        | _, _, _, _, _, _ => None
        end
      else None
  | _ => None
  end.

Fixpoint parse_events (l : list string) : option (list event) :=
  match l with
  | [] => Some []
  | t :: r =>
      match t with
      | String "@"%char _ => parse_events r     (* schedule token of the harness: not an event *)
      | _ => match parse_event t, parse_events r with
             | Some e, Some es => Some (e :: es)
             | _, _ => None
             end
      end
  end.

(* ---- printing ---- *)

Definition show_frame (f : frame) : string :=
  dec_of_N (fop f) ++ "." ++ show_mac (fedst f) ++ "." ++ show_mac (fsmac f) ++ "." ++ show_ip (fsip f)
  ++ "." ++ show_mac (ftmac f) ++ "." ++ show_ip (ftip f).

Definition show_out (o : list frame) : string :=
  match o with [] => "-" | _ => join "+" (map show_frame o) end.

Definition show_outputs (os : list (list frame)) : string :=
  match os with [] => "-" | _ => join "/" (map show_out os) end.

Definition show_viol (v : viol) : string :=
  match v with
  | VConfined => "confined" | VProbeReject => "probe_reject" | VSpoofReply => "spoof_reply"
  | VStopUndone => "stop_undone" | VCloseStops => "close_stops" | VIdempotent => "start_idempotent"
  | VOther => "other"
  end.

(* ---- known classes ---- *)

(* no recorded defect class is left (K1-K3 were repaired in /repo): every violated clause is reported *)
Definition explain (c : cfg) (s : state) (e : event) (v : viol) : option string := None.

(* per position: (position, violation, explanation) *)
Fixpoint explain_all (c : cfg) (pos : nat) (tr : list (state * event * list frame)) (vs : list (list viol))
  : list (nat * viol * option string) :=
  match tr, vs with
  | (s, e, _) :: tr', v :: vs' =>
      (map (fun x => (pos, x, explain c s e x)) v ++ explain_all c (S pos) tr' vs')%list
  | _, _ => []
  end.

Definition run_seq (c : cfg) (evs : list event) : string :=
  let tr := trace c init_state evs in
  let obs := show_outputs (map snd tr) in
  let vs := sp_run c sp_init (map (fun x => (snd (fst x), snd x)) tr) in
  let ex := explain_all c 0 tr vs in
  match ex with
  | [] => out3 obs obs "-"
  | (_, _, first) :: _ =>
      let spec := "spec:" ++ join ";" (map (fun x => show_viol (snd (fst x)) ++ "@" ++ dec_of_nat (fst (fst x))) ex) in
      let key := if forallb (fun x => match snd x with Some _ => true | None => false end) ex
                 then match first with Some k => k | None => "-" end else "-" in
      out3 obs spec key
  end.

Definition dispatch (kind : string) (args : list string) : string :=
  if String.eqb kind "seq" then
    match args with
    | ct :: evt =>
        match parse_cfg ct, parse_events evt with
        | Some c, Some evs => run_seq c evs
        | _, _ => BADARGS
        end
    | [] => BADARGS
    end
  else BADARGS.

Definition dispatch_line (l : string) : string :=
  match words l with
  | k :: args => dispatch k args
  | [] => BADARGS
  end.
