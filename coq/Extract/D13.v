(* Extract/D13.v — text interpreter of the C13 model (Model/ArpSpoof.v) and monitor (Spec/ArpSpoof.v).

   One case line is one whole event sequence:

     seq <cfg> <ev> <ev> ...          (tokens "@<ms>" are the harness's schedule and are skipped)

     cfg  c,<host mac>,<host ip>,<router mac>,<router ip>,<lan ip>,<lan bits>   (hex12 hex8 hex12 hex8 hex8 decimal)
     ev   S,<mac>,<ip>                StartHunt
          SI                          StartHunt with nil MAC / non-IPv4 address
          T,<mac>                     StopHunt
          C                           Close
          L,<i>  K,<i>  D,<i>,<mac>   loop i: lookup / check / write (the MAC is the Ethernet destination the
                                      harness saw, kept for the reader; the model ignores it)
          R,<op>,<ethsrc>,<smac>,<sip>,<tmac>,<tip>    ProcessPacket on a valid ARP frame (op decimal), up to the write of a spoof reply
          RR,<k>                      the write of the k-th spoof reply in flight
          X,<ethertype hex4>,<payload hex|->           ProcessPacket on any frame Parse hands over
          O,<mac>,<ip|->              the session's DHCP offer for mac is set / cleared (SetDHCPv4IPOffer, or the entry vanished)
          U,<mac>,<ip>                session.DHCPv4Update(mac, ip): the offer of mac becomes ip
          OV,<mac>,<ip|->             observed IP4Offer field without a DHCP event (model follows, monitor does not see it)
          F,<k>                       the connection fails its next k writes
          AR,<ip>  AT,<dst>,<ip>  AP,<ip>  AA,<dst>,<ip>       Request / RequestTo / Probe / AnnounceTo
          AW,<dst>,<smac>,<sip>,<tmac>,<tip>   AY,<dst>,...     RequestRaw / Reply
          AS  SC,<j>  SS,<j>          Scan() is called / scan j takes its next address / scan j writes
          AH,<ip>,<tries>  AX         WhoIs / any public send call with an unusable address or MAC

   Observation: for every event the frames it emitted, events separated by "/", frames by "+",
   a frame as op.ethdst.smac.sip.tmac.tip ; "-" when nothing was emitted; "panic" if ProcessPacket panics.
   Column 2: the same string when the monitor accepts the run, else "spec:" and the violated clauses
   with their positions.  Column 3: the recorded defect class when EVERY violated clause of the run lies
   in a recorded class (the first one), else "-". *)
From PV Require Import Base.Text Model.ArpSpoof Spec.ArpSpoof.
Open Scope string_scope.
Open Scope N_scope.

Definition TAB : string := String (ascii_of_N 9) EmptyString.
Definition out3 (m s k : string) : string := m ++ TAB ++ s ++ TAB ++ k.

(* ---- tokens ---- *)

Definition hexN (width : nat) (s : string) : option N :=
  match bytes_of_hex s with
  | Some l => if Nat.eqb (List.length l) width then Some (N_of_bytes l) else None
  | None => None
  end.

Fixpoint bytes_of_N (width : nat) (n : N) : bytes :=
  match width with
  | O => []
  | S w => (bytes_of_N w (n / 256) ++ [n mod 256])%list
  end.

Definition show_mac (m : N) : string := hex_of_bytes (bytes_of_N 6 m).
Definition show_ip (m : N) : string := hex_of_bytes (bytes_of_N 4 m).

Definition commas (s : string) : list string := split ","%char s.

Definition parse_cfg (t : string) : option cfg :=
  match commas t with
  | [c; hm; hi; rm; ri; la; lb] =>
      if String.eqb c "c" then
        match hexN 6 hm, hexN 4 hi, hexN 6 rm, hexN 4 ri, hexN 4 la, N_of_dec lb with
        | Some a, Some a', Some b, Some d, Some e, Some f => if f <=? 32 then Some (mkCfg a a' b d e f) else None
        | _, _, _, _, _, _ => None
        end
      else None
  | _ => None
  end.

Definition parse6 (k a b cc d e : string) : option (mac * addr * addr) :=
  match hexN 6 a, hexN 6 b, hexN 4 cc, hexN 6 d, hexN 4 e with
  | Some dst, Some sm, Some si, Some tm, Some ti => Some (dst, mkAddr sm si, mkAddr tm ti)
  | _, _, _, _, _ => None
  end.

Definition parse_event (t : string) : option event :=
  match commas t with
  | [k] => if String.eqb k "SI" then Some StartHuntInvalid
           else if String.eqb k "C" then Some Close
           else if String.eqb k "AS" then Some ApiScan
           else if String.eqb k "AX" then Some ApiInvalid else None
  | [k; a] =>
      if String.eqb k "T" then option_map StopHunt (hexN 6 a)
      else if String.eqb k "L" then option_map Lookup (nat_of_dec a)
      else if String.eqb k "K" then option_map Check (nat_of_dec a)
      else if String.eqb k "F" then option_map FailWrites (nat_of_dec a)
      else if String.eqb k "RR" then option_map RxReply (nat_of_dec a)
      else if String.eqb k "SC" then option_map ScanCheck (nat_of_dec a)
      else if String.eqb k "SS" then option_map ScanSend (nat_of_dec a)
      else if String.eqb k "AR" then option_map ApiRequest (hexN 4 a)
      else if String.eqb k "AP" then option_map ApiProbe (hexN 4 a)
      else None
  | [k; a; b] =>
      if String.eqb k "S" then
        match hexN 6 a, hexN 4 b with Some m, Some i => Some (StartHunt (mkAddr m i)) | _, _ => None end
      else if String.eqb k "D" then
        match nat_of_dec a, hexN 6 b with Some i, Some _ => Some (Send i) | _, _ => None end
      else if String.eqb k "O" then
        match hexN 6 a with
        | Some m => if String.eqb b "-" then Some (SetOffer m None)
                    else match hexN 4 b with Some i => Some (SetOffer m (Some i)) | None => None end
        | None => None
        end
      else if String.eqb k "X" then
        match hexN 2 a, bytes_of_tok b with Some et, Some pl => Some (RxRaw et pl) | _, _ => None end
      else if String.eqb k "AT" then
        match hexN 6 a, hexN 4 b with Some m, Some i => Some (ApiRequestTo m i) | _, _ => None end
      else if String.eqb k "AA" then
        match hexN 6 a, hexN 4 b with Some m, Some i => Some (ApiAnnounceTo m i) | _, _ => None end
      else if String.eqb k "AH" then
        match hexN 4 a, nat_of_dec b with Some i, Some n => Some (ApiWhoIs i n) | _, _ => None end
      else None
  | [k; a; b; cc; d; e] =>
      if String.eqb k "AW" then
        match parse6 k a b cc d e with Some (dst, sn, tg) => Some (ApiRequestRaw dst sn tg) | None => None end
      else if String.eqb k "AY" then
        match parse6 k a b cc d e with Some (dst, sn, tg) => Some (ApiReply dst sn tg) | None => None end
      else None
  | [k; op; es; sm; si; tm; ti] =>
      if String.eqb k "R" then
        match N_of_dec op, hexN 6 es, hexN 6 sm, hexN 4 si, hexN 6 tm, hexN 4 ti with
        | Some o, Some a, Some b, Some d, Some e, Some f => Some (RxArp (mkPkt o a b d e f))
        | _, _, _, _, _, _ => None
        end
      else None
  | _ => None
  end.

(* "U,<mac>,<ip>": session.DHCPv4Update(mac, ip) — for the handler it is the offer of mac becoming ip (session.go:
   "host.MACEntry.IP4Offer = host.Addr.IP"), i.e. SetOffer mac (Some ip), and a DHCP event of the history.
   "OV,<mac>,<ip|->": the harness OBSERVED the session's IP4Offer field reading this value although no DHCP event
   put it there: the model follows the field (SetOffer), the monitor does NOT see it (flag false): the property's
   "outstanding offer" is a matter of the history of DHCP events, not of a stale field. *)
Definition parse_event_flag (t : string) : option (event * bool) :=
  match commas t with
  | [k; a; b] =>
      if String.eqb k "U" then
        match hexN 6 a, hexN 4 b with Some m, Some i => Some (SetOffer m (Some i), true) | _, _ => None end
      else if String.eqb k "OV" then
        match hexN 6 a with
        | Some m => if String.eqb b "-" then Some (SetOffer m None, false)
                    else match hexN 4 b with Some i => Some (SetOffer m (Some i), false) | None => None end
        | None => None
        end
      else option_map (fun e => (e, true)) (parse_event t)
  | _ => option_map (fun e => (e, true)) (parse_event t)
  end.

Fixpoint parse_events (l : list string) : option (list (event * bool)) :=
  match l with
  | [] => Some []
  | t :: r =>
      match t with
      | String "@"%char _ => parse_events r     (* schedule token of the harness: not an event *)
      | _ => match parse_event_flag t, parse_events r with
             | Some e, Some es => Some (e :: es)
             | _, _ => None
             end
      end
  end.

(* ---- printing ---- *)

Definition show_frame (f : frame) : string :=
  dec_of_N (fop f) ++ "." ++ show_mac (fedst f) ++ "." ++ show_mac (fsmac f) ++ "." ++ show_ip (fsip f)
  ++ "." ++ show_mac (ftmac f) ++ "." ++ show_ip (ftip f).

Definition show_out (o : list frame) : string :=
  match o with [] => "-" | _ => join "+" (map show_frame o) end.

(* per position: the frames, or "panic" when ProcessPacket panics on the raw frame *)
Definition show_pos (c : cfg) (x : state * event * list frame) : string :=
  match x with
  | (s, RxRaw et b, out) => match process_raw c s et b with
                            | Panic => "panic" | Fuel => "fuel" | _ => show_out out
                            end
  | (_, _, out) => show_out out
  end.

Definition show_outputs (c : cfg) (tr : list (state * event * list frame)) : string :=
  match tr with [] => "-" | _ => join "/" (map (show_pos c) tr) end.

Definition show_viol (v : viol) : string :=
  match v with
  | VConfined => "confined" | VProbeReject => "probe_reject" | VSpoofReply => "spoof_reply"
  | VStopUndone => "stop_undone" | VCloseStops => "close_stops" | VIdempotent => "start_idempotent"
  | VPeriodic => "periodic" | VOther => "other" | VRestoreLast => "restore_last"
  end.

(* ---- known classes ---- *)

(* no recorded defect class is left (K1-K4 were repaired in /repo): every violated clause is reported *)
Definition explain (c : cfg) (s : state) (e : event) (v : viol) : option string := None.

(* per position: (position, violation, explanation) *)
Fixpoint explain_all (c : cfg) (pos : nat) (tr : list (state * event * list frame)) (vs : list (list viol))
  : list (nat * viol * option string) :=
  match tr, vs with
  | (s, e, _) :: tr', v :: vs' =>
      (map (fun x => (pos, x, explain c s e x)) v ++ explain_all c (S pos) tr' vs')%list
  | _, _ => []
  end.

(* "... restoring the router's real MAC, after which no further forged packet is sent to it unless it is hunted
   again": the positions at which the handler itself writes a forged frame to a MAC that has received its loop's
   restoring packet and has not been StartHunt'ed since.  By C13_stale_bound every such frame was decided under
   the lock before StopHunt returned (a spoof reply in flight, a second loop's armed announcement): the recorded
   class KEY_AFTER_RESTORE is exactly this check. *)
Definition KEY_AFTER_RESTORE : string := "forged-frame-decided-before-stophunt-written-after-restore".

Definition restore_dst (c : cfg) (f : frame) : list mac :=
  if (fop f =? 1) && (fsmac f =? router_mac c) && (fsip f =? router_ip c) && negb (forged c f) then [fedst f] else [].

Fixpoint after_restore (c : cfg) (restored : list mac) (pos : nat) (tr : list (state * event * list frame)) : list nat :=
  match tr with
  | [] => []
  | (_, e, out) :: r =>
      let bad := negb (caller_forged c e) && existsb (fun f => forged c f && mem (fedst f) restored) out in
      let restored' :=
        match e with
        | StartHunt a => filter (fun x => negb (x =? amac a)) restored
        | Send _ => (restored ++ flat_map (restore_dst c) out)%list
        | _ => restored
        end in
      ((if bad then [pos] else []) ++ after_restore c restored' (S pos) r)%list
  end.

Fixpoint visible {A} (flags : list bool) (l : list A) : list A :=
  match flags, l with
  | true :: fr, x :: r => x :: visible fr r
  | false :: fr, _ :: r => visible fr r
  | _, _ => []
  end.

Definition run_seq (c : cfg) (fevs : list (event * bool)) : string :=
  let evs := map fst fevs in
  let tr0 := trace c init_state evs in
  let obs := show_outputs c tr0 in
  let tr := visible (map snd fevs) tr0 in       (* what the monitor is shown: everything but OV observations *)
  let vs := sp_run c sp_init (map (fun x => (snd (fst x), snd x)) tr) in
  let ex := (explain_all c 0 tr vs
             ++ map (fun pos => (pos, VRestoreLast, Some KEY_AFTER_RESTORE)) (after_restore c [] 0 tr))%list in
  match ex with
  | [] => out3 obs obs "-"
  | (_, _, first) :: _ =>
      let spec := "spec:" ++ join ";" (map (fun x => show_viol (snd (fst x)) ++ "@" ++ dec_of_nat (fst (fst x))) ex) in
      let key := if forallb (fun x => match snd x with Some _ => true | None => false end) ex
                 then match first with Some k => k | None => "-" end else "-" in
      out3 obs spec key
  end.

(* source-derived constants (harness: go/ast over layer_arp.go and arp.go).  "srcarp <payload>": the model's
   validity test and field decoding on a probe payload the harness built from the SOURCE's lengths, header
   constants and getter offsets; "srcops": the ARP operation the model puts into the frames of the request paths
   (announcement, restore, plain request) and of the reply paths (spoof reply, probe reject). *)
Definition show_srcarp (b : bytes) : string :=
  match arp_is_valid (Base.Slice.of_bytes b) with
  | Ok _ => match arp_decode 0 (Base.Slice.of_bytes b) with
            | Ok p => "valid " ++ dec_of_N (pop p) ++ "." ++ show_mac (psmac p) ++ "." ++ show_ip (psip p)
                      ++ "." ++ show_mac (ptmac p) ++ "." ++ show_ip (ptip p)
            | Panic => "panic" | _ => "invalid"
            end
  | Panic => "panic"
  | _ => "invalid"
  end.

Definition show_srcops : string :=
  let c := mkCfg 1 2 3 4 5 24 in
  let p := mkPkt 1 0 9 8 7 6 in
  join " " (map (fun f => dec_of_N (fop f))
    [announce c 9; restore c 9; request_to c 9 8; probe_frame c 8; request_raw 9 (mkAddr 1 2) (mkAddr 3 4);
     spoof_reply c p; probe_reject c p; reply_raw 9 (mkAddr 1 2) (mkAddr 3 4)]).

Definition dispatch (kind : string) (args : list string) : string :=
  if String.eqb kind "srcarp" then
    match args with
    | [h] => match bytes_of_tok h with Some b => out3 (show_srcarp b) "-" "-" | None => BADARGS end
    | _ => BADARGS
    end
  else if String.eqb kind "srcops" then out3 show_srcops "-" "-"
  else
  if String.eqb kind "seq" then
    match args with
    | ct :: evt =>
        match parse_cfg ct, parse_events evt with
        | Some c, Some evs => run_seq c evs
        | _, _ => BADARGS
        end
    | [] => BADARGS
    end
  else BADARGS.

Definition dispatch_line (l : string) : string :=
  match words l with
  | k :: args => dispatch k args
  | [] => BADARGS
  end.
