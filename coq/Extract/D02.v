(* Extract/D02.v — C02, Parse unit: model of Session.Parse against the reference decoder.

   d hostMAC routerMAC lanAddr lanBits frameHex spareHex
     model column: the projection C02 constrains, as Session.Parse + accessors produce it:
                   "err:EFrameLen" | "err:EParseFrame" | "panic" | "ok id smac sip sport dmac dip dport E:off,len 4:.. 6:.. U:.. T:.. P:.. H:b"
     spec column:  the same line as the reference decoder (Spec/RFC.v) expects it for the bytes within the length
   table KIND (payloadid | ethertype | ipproto | udpports)
     model column: the model's classification table (the lists the model is defined from) in canonical text
     key column:   key of the recorded defect class the frame lies in (Model/ParseKnown.v, known_C02) or "-" *)
From PV Require Import Base.Text Base.Slice Model.Parse Model.ParseFixes Model.ParseShow Model.ParseKnown.
Open Scope string_scope.
Open Scope N_scope.

Definition TAB : string := String (ascii_of_N 9) EmptyString.
Definition out3 (m s k : string) : string := m ++ TAB ++ s ++ TAB ++ k.

Definition pp2_cfg : cfg := mkCfg [0;85;85;85;85;85] [0;102;102;102;102;102] [192;168;0;0] 24 current_fixes.
Definition pp2_tok (t : string) : option (bool * bytes) :=
  match t with
  | String k (String ":"%char h) =>
      match bytes_of_tok h with Some b => Some (Ascii.eqb k "m"%char, b) | None => None end
  | _ => None
  end.
Fixpoint pp2_run (toks : list string) (accm accs : list string) (woken : bool) : option (string * string) :=
  match toks with
  | [] => let p := if woken then "ping:ok" else "ping:timeout" in
          Some (join " | " (rev (p :: accm)), join " | " (rev (p :: accs)))
  | t :: r =>
      match pp2_tok t with
      | None => None
      | Some (m, b) =>
          let w := match parse pp2_cfg (of_bytes b) with
                   | Ok f => m && match f_echo f with Some _ => true | None => false end
                   | _ => false end in
          pp2_run r (show_parse pp2_cfg (of_bytes b) :: accm) (show_spec b :: accs) (woken || w)
      end
  end.

Definition dispatch (kind : string) (args : list string) : string :=
  if String.eqb kind "d" then
    match args with
    | [hm; rm; lan; bits; fr; sp] =>
        match cfg_of_toks hm rm lan bits, bytes_of_tok fr, bytes_of_tok sp with
        | Some c, Some b, Some spare =>
            out3 (show_parse c (of_bytes_cap b spare)) (show_spec b)
                 (match known_C02 (c_fx c) b with Some k => k | None => "-" end)
        | _, _, _ => BADARGS
        end
    | _ => BADARGS
    end
  else if String.eqb kind "pp" then
    (* pp FAM MS tok...: frames parsed while a ping is pending.  Parse is a function of (configuration, bytes) only:
       the model has no waiter table to look at, so its answer is the C02 projection of every frame as in kind d (the
       reference decoder's line is the spec column) and ping:ok iff some frame carrying the pending id has f_echo. *)
    match args with
    | _fam :: _ms :: toks =>
        match pp2_run toks [] [] false with
        | Some (m, s) => out3 m s "-"
        | None => BADARGS
        end
    | _ => BADARGS
    end
  else if String.eqb kind "table" then
    (* table KIND: the classification table of the model in canonical text; the implementation side is the same
       text extracted from layer_frame.go by go/ast (harness/cmd/c02/tables.go) *)
    match args with
    | [k] => match show_table k with Some txt => out3 txt "-" "-" | None => BADARGS end
    | _ => BADARGS
    end
  else BADARGS.

Definition dispatch_line (l : string) : string :=
  match words l with
  | k :: args => dispatch k args
  | [] => BADARGS
  end.
