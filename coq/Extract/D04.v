(* Extract/D04.v — C04 dispatch: a whole history is one line
     t4 <cfg> <t0> <ip+ip+...> <mac+mac+...> <op> <op> ...
   (candidate addresses and MACs the views are queried for), the observation is the
   transcript of the read-only API after every step:
     G:<GetHosts triples sorted>|F:<FindIP per candidate>|A:<IPAddrs per MAC, sorted>|B:<FindByMAC per MAC, sorted>|E:<MAC has a listed host>|X:<IPAddrs nil/non-nil per MAC, model only>
   column 1 from the model state, column 2 from the reference model (Spec/HostTracking.v). *)
From PV Require Import Base.Text Model.Tables Model.TablesShow Spec.HostTracking.
Open Scope string_scope.
Open Scope N_scope.

Definition TAB : string := String (ascii_of_N 9) EmptyString.
Definition out3 (m s k : string) : string := m ++ TAB ++ s ++ TAB ++ k.

Definition show_tr (m : mac) (k : ip) (o : bool) : string := show_mac m ++ "/" ++ show_ip k ++ "/" ++ b01 o.

Fixpoint opt_list {A} (l : list (option A)) : option (list A) :=
  match l with
  | [] => Some []
  | Some x :: r => option_map (cons x) (opt_list r)
  | None :: _ => None
  end.
Definition ips_of_tok (s : string) : option (list ip) := opt_list (map ip_of_tok (Text.split "+"%char s)).
Definition macs_of_tok (s : string) : option (list mac) := opt_list (map mac_of_tok (Text.split "+"%char s)).

(* IPAddrs distinguishes "no MAC entry" (nil) from "entry without hosts" (empty): the property text does not
   constrain MAC-only entries (Capture / SetDHCPv4IPOffer), so this field is compared with the model only and
   echoed into the reference column *)
Definition m_entries (ms : list mac) (s : state) : string :=
  join "" (map (fun m => match ip_addrs m s with Some _ => "e" | None => "n" end) ms).

(* every other field the model has, compared with the model only (echoed into the reference column like X): per MAC the
   entry's offer / IP4 / GUA / LLA / flags / names, per host dirty and names, the order of the hosts by LastSeen *)
Definition m_rest (ms : list mac) (s : state) : string :=
  "|O:" ++ join "," (map (fun m => match find_mac m (macs s) with
                                   | Some e => show_ip (m_offer e) ++ "/" ++ show_ip (m_ip4 e) ++ "/" ++ show_ip (m_gua e) ++ "/" ++
                                               show_ip (m_lla e) ++ "/" ++ b01 (m_online e) ++ b01 (m_captured e) ++ b01 (m_router e) ++
                                               "/" ++ show_names (m_names e)
                                   | None => "-" end) ms) ++
  "|D:" ++ join "," (map (fun e => show_ip (fst e) ++ "/" ++ b01 (h_dirty (snd e)) ++ "/" ++ show_names (h_names (snd e))) (sorted_hosts s)) ++
  "|L:" ++ join "<" (map (fun e => show_ip (fst e)) (sort_by last_leb (sorted_hosts s))).

(* ---- model side ---- *)
Definition m_views (ips : list ip) (ms : list mac) (s : state) : string :=
  "G:" ++ join "," (map (fun e => show_tr (h_mac (snd e)) (h_ip (snd e)) (h_online (snd e))) (sorted_hosts s)) ++
  "|F:" ++ join "," (map (fun k => match find_ip k s with
                                   | Some h => show_tr (h_mac h) (h_ip h) (h_online h) | None => "-" end) ips) ++
  "|A:" ++ join "," (map (fun m => match ip_addrs m s with
                                   | Some l => join "+" (map show_ip (sort_by ip_leb (map snd l))) | None => "" end) ms) ++
  "|B:" ++ join "," (map (fun m => join "+" (map show_ip (sort_by ip_leb (map snd (find_by_mac m s))))) ms) ++
  "|E:" ++ join "" (map (fun m => match find_mac_entry m s with
                                  | Some e => b01 (negb (Nat.eqb (List.length (m_hosts e)) 0)) | None => "0" end) ms) ++
  "|X:" ++ m_entries ms s ++ m_rest ms s.

(* ---- reference side ---- *)
Definition r_views (ips : list ip) (ms : list mac) (s : state) (a : amap) : string :=
  let of_mac m := filter (fun k => match a k with Some e => a_mac e =? m | None => false end) ips in
  "G:" ++ join "," (flat_map (fun k => match a k with Some e => [show_tr (a_mac e) k (a_online e)] | None => [] end) ips) ++
  "|F:" ++ join "," (map (fun k => match a k with Some e => show_tr (a_mac e) k (a_online e) | None => "-" end) ips) ++
  "|A:" ++ join "," (map (fun m => join "+" (map show_ip (of_mac m))) ms) ++
  "|B:" ++ join "," (map (fun m => join "+" (map show_ip (of_mac m))) ms) ++
  "|E:" ++ join "" (map (fun m => b01 (negb (Nat.eqb (List.length (of_mac m)) 0))) ms) ++
  "|X:" ++ m_entries ms s ++ m_rest ms s.

Fixpoint run4 (c : cfg) (ips : list ip) (ms : list mac) (s : state) (a : amap) (ops : list pop)
  : list string * list string :=
  match ops with
  | [] => ([m_views ips ms s], [r_views ips ms s a])     (* final views after the receive buffer was overwritten *)
  | p :: r =>
      let o := resolve s p in
      let s1 := set_chan [] (fst (pstep c s p)) in
      let a1 := ref_step c a o in
      let (x, y) := run4 c ips ms s1 a1 r in
      (m_views ips ms s1 :: x, r_views ips ms s1 a1 :: y)
  end.

Definition dispatch (kind : string) (args : list string) : string :=
  if String.eqb kind "rt" then out3 (rt_model args) "-" "-"     (* real-time histories: Model/TablesShow.v *)
  else if String.eqb kind "t4" then
    match args with
    | ctok :: t0 :: itok :: mtok :: optoks =>
        match cfg_of_tok ctok, Z_of_dec t0, ips_of_tok itok, macs_of_tok mtok, ops_of_toks optoks with
        | Some c, Some t0, Some ips, Some ms, Some ops0 =>
            let ops := map (debyte c) ops0 in
            let ips := sort_by ip_leb ips in
            match new_session c t0 with
            | Ok s0 =>
                let a0 := ref_init c t0 in
                let (x, y) := run4 c ips ms s0 a0 ops in
                out3 (join ";" (m_views ips ms s0 :: x)) (join ";" (r_views ips ms s0 a0 :: y)) "-"
            | _ => out3 "panic" "-" "-"
            end
        | _, _, _, _, _ => BADARGS
        end
    | _ => BADARGS
    end
  else BADARGS.

Definition dispatch_line (l : string) : string :=
  match words l with
  | k :: args => dispatch k args
  | [] => BADARGS
  end.
