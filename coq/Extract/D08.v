(* Extract/D08.v — text-line interpreter of the C08 models.
   Observation: ok | err | panic | fuel.  Column 2 is the property's expectation
   ("safe") whenever the model panics or runs out of fuel, "-" otherwise; column 3 the
   known-defect key of the input class. *)
From PV Require Import Base.Text Base.Slice Model.NDPOptions Model.MiscHopByHop.
From PV Require Import Model.HandlersLoop Model.HandlersDnsMsg Model.MiscDecoders Model.HandlersProc.
Open Scope string_scope.
Open Scope N_scope.

Definition TAB : string := String (ascii_of_N 9) EmptyString.
Definition out3 (m s k : string) : string := m ++ TAB ++ s ++ TAB ++ k.

Definition obs (r : res unit) : string :=
  match r with Ok _ => "ok" | Err _ => "err" | Panic => "panic" | Fuel => "fuel" end.
Definition bad (r : res unit) : bool :=
  match r with Panic | Fuel => true | _ => false end.

(* a model outcome that violates the property carries the expectation and the key *)
Definition verdict (r : res unit) (key : string) : string :=
  if bad r then out3 (obs r) "safe" key else out3 (obs r) "-" "-".

(* NDP options: no defect class left after the #12 repair *)
Definition ndp_key (b : slice) : string := "-".

(* fuel given to the models: comfortably above the proved bounds *)
Definition fuel_of (b : slice) : nat := (cap b + 8)%nat.

Definition lbl_any : bytes -> bool := fun _ => true.

(* structured DNS message: start resp skipq an ns ar recs; recs = "-" or
   ';'-separated "hdr,type,body,fits,rawskip,datahex" *)
Definition rec_of_tok (s : string) : option rrec :=
  match Text.split ","%char s with
  | [h; t; b; f; r; d] =>
      match bool_of_tok h, N_of_dec t, bool_of_tok b, bool_of_tok f, bool_of_tok r, bytes_of_tok d with
      | Some h', Some t', Some b', Some f', Some r', Some d' => Some (mkRec h' t' b' f' r' d')
      | _, _, _, _, _, _ => None
      end
  | _ => None
  end.

Fixpoint recs_of_toks (l : list string) : option (list rrec) :=
  match l with
  | [] => Some []
  | x :: r => match rec_of_tok x, recs_of_toks r with
              | Some a, Some b => Some (a :: b)
              | _, _ => None
              end
  end.

Definition recs_of_tok (s : string) : option (list rrec) :=
  if String.eqb s "-" then Some [] else recs_of_toks (Text.split ";"%char s).

Definition msg_of_toks (st rs sq an ns ar recs : string) : option dmsg :=
  match bool_of_tok st, bool_of_tok rs, bool_of_tok sq, nat_of_dec an, nat_of_dec ns, nat_of_dec ar, recs_of_tok recs with
  | Some a, Some b, Some c, Some d, Some e, Some f, Some g => Some (mkMsg a b c d e f g)
  | _, _, _, _, _, _, _ => None
  end.

Definition dns_fuel (m : dmsg) : nat := (2 * List.length (m_recs m) + 16)%nat.

(* mDNS / NBNS loops: no defect class left after the #19 / #20 repairs *)
Definition mdns_key (m : dmsg) : string := "-".
Definition nbns_key (r : res unit) (valid : bool) (m : dmsg) : string := "-".

Definition dispatch_dns (kind : string) (args : list string) : string :=
  if String.eqb kind "mdns" || String.eqb kind "llmnr" then
    match args with
    | [_; st; rs; sq; an; ns; ar; recs] =>
        match msg_of_toks st rs sq an ns ar recs with
        | Some m => verdict (process_mdns (dns_fuel m) m) (mdns_key m)
        | None => BADARGS
        end
    | _ => BADARGS
    end
  else if String.eqb kind "nbns" then
    match args with
    | [_; v; st; rs; sq; an; ns; ar; recs] =>
        match bool_of_tok v, msg_of_toks st rs sq an ns ar recs with
        | Some valid, Some m =>
            let r := process_nbns (dns_fuel m) valid m in
            verdict r (nbns_key r valid m)
        | _, _ => BADARGS
        end
    | _ => BADARGS
    end
  else BADARGS.

(* census of package packet: function -> (number of DATA-DEPENDENT loops, what covers it).  `for range`
   and counted loops (index stepped once per iteration against a bound that the body does not assign)
   terminate by construction and are not listed; what is listed needs a totality / progress theorem.
   Loops of the handler packages are reported in the evidence only (they walk tables, not input). *)
Definition census_table : list (string * (nat * string)) :=
  [("newParseOptions", (1%nat, "parse_opts: C08_ndp_options_total, C08_progress_ndp_options"));
   ("DNSSearchList.unmarshal", (1%nat, "dnssl_loop: C08_progress_dnssl (cursor uses the wire length; label validation is parameter lbl_ok)"));
   ("HopByHopExtensionHeader.ParseHopByHopExtensions", (1%nat, "hbh_loop: C08_hopbyhop_total, C08_progress_hopbyhop"));
   ("DHCP4.ParseOptions", (1%nat, "dhcp_walk false: C08_dhcp_parse_options_total, C08_progress_dhcp_options"));
   ("DHCP4.validateOptions", (1%nat, "dhcp_walk true: C08_dhcp_is_valid_total, C08_progress_dhcp_options"));
   ("LLDP.GetPDU", (1%nat, "lldp_get_pdu: C08_lldp_total, C08_progress_lldp"));
   ("LLDP.FastLog", (1%nat, "not modelled here: VIEWS lldp_walk (C01)"));
   ("decodeName", (1%nat, "not modelled here: DNS decodeName (C08_decodeName_total)"));
   ("Checksum", (1%nat, "not modelled here: carry fold of Model/Checksum.v (C15)"))].
Fixpoint census_lookup (k : string) (t : list (string * (nat * string))) : option (nat * string) :=
  match t with [] => None | (n, v) :: r => if String.eqb n k then Some v else census_lookup k r end.

(* size limits of the handler packages as found in the source ("-": none) *)
Definition limits_of (pkg : string) : string := "-".

(* processors: nil / error are not distinguished *)
Definition obs_ret (r : res unit) : string :=
  match r with Ok _ | Err _ => "ret" | Panic => "panic" | Fuel => "fuel" end.
Definition verdict_ret (r : res unit) (key : string) : string :=
  if bad r then out3 (obs_ret r) "safe" key else out3 (obs_ret r) "-" "-".

Definition slice_fuel (s : slice) : nat := (cap s + 8)%nat.

Definition dispatch_misc (kind : string) (args : list string) : option string :=
  if String.eqb kind "dhcpopt" then
    match args with
    | [h; sp] => match bytes_of_tok h, bytes_of_tok sp with
                 | Some b, Some spare => let s := of_bytes_cap b spare in
                                         Some (verdict (dhcp_parse_options (slice_fuel s) s) "-")
                 | _, _ => Some BADARGS end
    | _ => Some BADARGS end
  else if String.eqb kind "dhcpvalid" then
    match args with
    | [h; sp] => match bytes_of_tok h, bytes_of_tok sp with
                 | Some b, Some spare => let s := of_bytes_cap b spare in
                                         Some (verdict (dhcp_is_valid (slice_fuel s) s) "-")
                 | _, _ => Some BADARGS end
    | _ => Some BADARGS end
  else if String.eqb kind "lldp" then
    match args with
    | [h; sp; t] => match bytes_of_tok h, bytes_of_tok sp, nat_of_dec t with
                    | Some b, Some spare, Some pdu =>
                        let s := of_bytes_cap b spare in
                        Some (verdict (lldp_get_pdu (slice_fuel s) s pdu 0) "-")
                    | _, _, _ => Some BADARGS end
    | _ => Some BADARGS end
  else if String.eqb kind "p8023" then
    match args with
    | [_; h] => match bytes_of_tok h with
                | Some b => Some (verdict (process_8023 (of_bytes b)) "-")
                | None => Some BADARGS end
    | _ => Some BADARGS end
  else if String.eqb kind "ssdpcc" then
    match args with
    | [h] => match bytes_of_tok h with
             | Some v => Some (verdict (cache_control v) "-")
             | None => Some BADARGS end
    | _ => Some BADARGS end
  else if String.eqb kind "ssdp" then
    match args with
    | [_; k; ho; nts; mn; cc; man; st] =>
        match N_of_dec k, bool_of_tok ho, N_of_dec nts, bool_of_tok mn, bytes_of_tok cc, bool_of_tok man, bool_of_tok st with
        | Some k', Some ho', Some nts', Some mn', Some cc', Some man', Some st' =>
            let v := mkSsdp k' ho' nts' mn' cc' man' st' in
            Some (verdict (process_ssdp v) "-")
        | _, _, _, _, _, _, _ => Some BADARGS end
    | _ => Some BADARGS end
  else if String.eqb kind "arp" then
    match args with
    | [_; h; c; hu; o; d] =>
        match bytes_of_tok h, bool_of_tok c, bool_of_tok hu, bool_of_tok o, bool_of_tok d with
        | Some b, Some c', Some hu', Some o', Some d' =>
            Some (verdict_ret (arp_process (mkArpEnv c' hu' o' d') [192; 168; 0; 11]
                                 (fun ip => (nth 0 ip 0 =? 192) && (nth 1 ip 0 =? 168) && (nth 2 ip 0 =? 0))
                                 (of_bytes b)) "-")
        | _, _, _, _, _ => Some BADARGS end
    | _ => Some BADARGS end
  else if String.eqb kind "icmp4" then
    match args with
    | [_; h; i] => match bytes_of_tok h, bool_of_tok i with
                | Some b, Some info => let s := of_bytes b in
                            Some (verdict_ret (icmp4_process info s) "-")
                | _, _ => Some BADARGS end
    | _ => Some BADARGS end
  else if String.eqb kind "icmp6" then
    match args with
    | [_; h; d; v6; hf; hu] =>
        match bytes_of_tok h, bool_of_tok d, bool_of_tok hf, bool_of_tok hu,
              (if String.eqb v6 "nil" then Some None else option_map (fun b => Some (of_bytes b)) (bytes_of_tok v6)) with
        | Some b, Some d', Some host, Some hu', Some ip6 =>
            let s := of_bytes b in
            Some (verdict_ret (icmp6_process lbl_any (slice_fuel s) (mkIcmp6Env d' host hu') ip6 s) "-")
        | _, _, _, _, _ => Some BADARGS end
    | _ => Some BADARGS end
  else if String.eqb kind "dhcp4" then
    match args with
    | [_; h; cp; rp; i; _] =>
        match bytes_of_tok h, bool_of_tok cp, bool_of_tok i,
              (if String.eqb rp "none" then Some RNone else if String.eqb rp "nak" then Some RNak
               else option_map ROther (nat_of_dec rp)) with
        | Some b, Some cp', Some i', Some rp' =>
            let s := of_bytes b in
            let e := mkDhcpEnv cp' rp' i' in
            Some (verdict_ret (dhcp4_process (slice_fuel s) e s) "-")
        | _, _, _, _ => Some BADARGS end
    | _ => Some BADARGS end
  else if String.eqb kind "upnp" then
    match args with
    | [_; x] => match bool_of_tok x with
                | Some xml_ok => Some (verdict (upnp_discovery true xml_ok) "-")
                | None => Some BADARGS end
    | _ => Some BADARGS end
  else if String.eqb kind "upnploc" then Some (out3 "ret" "-" "-")
  else if String.eqb kind "ptxt" then
    (* TXT strings (',' separated hex tokens) handed to parseTXT through ProcessMDNS *)
    match args with
    | [_; ts] =>
        match (fix go (l : list string) : option (list bytes) :=
                 match l with [] => Some [] | x :: r =>
                   match bytes_of_tok x, go r with Some a, Some b => Some (a :: b) | _, _ => None end end)
              (Text.split ","%char ts) with
        | Some txt => Some (verdict (bind (parse_txt txt) (fun _ => Ok tt)) "-")
        | None => Some BADARGS end
    | _ => Some BADARGS end
  else if String.eqb kind "census" then
    (* source census (go/ast): a function of package packet that contains loops and is reachable
       from the processors / decoders; the model knows its loop count and what covers it *)
    match args with
    | [fname; loops] =>
        match census_lookup fname census_table, nat_of_dec loops with
        | Some (n, _), Some k => Some (out3 (if Nat.eqb n k then "ok" else "loops-differ") "-" "-")
        | None, _ => Some (out3 "unlisted-loop" "-" "-")
        | _, None => Some BADARGS end
    | _ => Some BADARGS end
  else if String.eqb kind "censusall" then
    (* every listed function must still be found in the source *)
    match args with
    | [names] =>
        let present := Text.split ","%char names in
        let missing := filter (fun e => negb (existsb (String.eqb (fst e)) present)) census_table in
        Some (out3 (match missing with [] => "ok" | e :: _ => "missing:" ++ fst e end) "-" "-")
    | _ => Some BADARGS end
  else if String.eqb kind "scale" then
    (* one handler, n distinct entry-creating frames, then the queries and Close, every call under a
       watchdog: the processors are total and the tables are unbounded maps: every call returns *)
    match args with
    | _ :: n :: _ => Some (out3 ("ret:" ++ n) "-" "-")   (* distinct keys, or the same key n times: steps are idempotent *)
    | _ => Some BADARGS end
  else if String.eqb kind "counters" then
    (* struct fields incremented anywhere in a handler package (per-entry counters); the model has
       none: the processors' steps on one key are idempotent.  A new counter must be added here and
       to the model of the entry it belongs to *)
    match args with
    | [pkg; fields] => Some (out3 (if String.eqb fields "-" then "ok" else "new-counter:" ++ fields) "-" "-")
    | _ => Some BADARGS end
  else if String.eqb kind "limits" then
    (* size limits (>= 64) found in the source of a handler package; the model knows none: the
       tables are maps without a bound.  A limit added to the code must be added here AND to the
       model of the table it bounds *)
    match args with
    | [pkg; vals] => Some (out3 (if String.eqb vals (limits_of pkg) then "ok" else "new-limit:" ++ vals) "-" "-")
    | _ => Some BADARGS end
  else if String.eqb kind "seq" then
    (* a history of frames to one handler: every step returns, whatever state the earlier steps
       left (the state parameters of the processor theorems are universally quantified) *)
    match args with
    | [_; _; fs] => Some (out3 (join "," (map (fun _ => "ret") (Text.split ","%char fs))) "-" "-")
    | _ => Some BADARGS end
  else if String.eqb kind "other" then
    match args with
    | [_; pid; h] =>
        match N_of_dec pid, bytes_of_tok h with
        | Some 25, Some b =>
            let s := of_bytes b in
            Some (verdict_ret (lldp_process (slice_fuel s) s 3) "-")
        | Some _, Some _ => Some (out3 "ret" "-" "-")
        | _, _ => Some BADARGS end
    | _ => Some BADARGS end
  else None.

Definition dispatch (kind : string) (args : list string) : string :=
  if String.eqb kind "mdns" || String.eqb kind "nbns" || String.eqb kind "llmnr" then dispatch_dns kind args else
  match dispatch_misc kind args with Some r => r | None =>
  match args with
  | [h; sp] =>
      match bytes_of_tok h, bytes_of_tok sp with
      | Some b, Some spare =>
          let s := of_bytes_cap b spare in
          if String.eqb kind "ndp" then
            verdict (new_parse_options lbl_any (fuel_of s) s) (ndp_key s)
          else if String.eqb kind "ra" then
            verdict (ra_options lbl_any (fuel_of s) s)
                    (ndp_key (mkSlice (skipn 16 (arr s)) (len s - 16)))
          else if String.eqb kind "rs" then
            verdict (rs_options lbl_any (fuel_of s) s) "-"
          else if String.eqb kind "hbh" then
            verdict (hbh_parse (fuel_of s) s)
                    "-"
          else BADARGS
      | _, _ => BADARGS
      end
  | _ => BADARGS
  end end.

Definition dispatch_line (l : string) : string :=
  match words l with
  | k :: args => dispatch k args
  | [] => BADARGS
  end.
