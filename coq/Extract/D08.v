(* Extract/D08.v — text-line interpreter of the C08 models.
   Observation: ok | err | panic | fuel.  Column 2 is the property's expectation
   ("safe") whenever the model panics or runs out of fuel, "-" otherwise; column 3 the
   known-defect key of the input class. *)
From PV Require Import Base.Text Base.Slice Model.NDPOptions Model.MiscHopByHop.
Open Scope string_scope.
Open Scope N_scope.

Definition TAB : string := String (ascii_of_N 9) EmptyString.
Definition out3 (m s k : string) : string := m ++ TAB ++ s ++ TAB ++ k.

Definition obs (r : res unit) : string :=
  match r with Ok _ => "ok" | Err _ => "err" | Panic => "panic" | Fuel => "fuel" end.
Definition bad (r : res unit) : bool :=
  match r with Panic | Fuel => true | _ => false end.

(* a model outcome that violates the property carries the expectation and the key *)
Definition verdict (r : res unit) (key : string) : string :=
  if bad r then out3 (obs r) "safe" key else out3 (obs r) "-" "-".

Definition ndp_key (b : slice) : string :=
  match known_C08_ndp_zero b with
  | ZPanic => "ndp-zero-length-option-panic"
  | ZLoop => "ndp-zero-length-option-loop"
  | ZNone => "-"
  end.

(* fuel given to the models: comfortably above the proved bounds *)
Definition fuel_of (b : slice) : nat := (cap b + 8)%nat.

Definition lbl_any : bytes -> bool := fun _ => true.

Definition dispatch (kind : string) (args : list string) : string :=
  match args with
  | [h; sp] =>
      match bytes_of_tok h, bytes_of_tok sp with
      | Some b, Some spare =>
          let s := of_bytes_cap b spare in
          if String.eqb kind "ndp" then
            verdict (new_parse_options lbl_any (fuel_of s) s) (ndp_key s)
          else if String.eqb kind "ra" then
            verdict (ra_options lbl_any (fuel_of s) s)
                    (ndp_key (mkSlice (skipn 16 (arr s)) (len s - 16)))
          else if String.eqb kind "rs" then
            verdict (rs_options lbl_any (fuel_of s) s)
                    (ndp_key (mkSlice (skipn 24 (arr s)) (len s - 24)))
          else if String.eqb kind "hbh" then
            verdict (hbh_parse (fuel_of s) s)
                    (if known_C08_hbh_short s then "hopbyhop-no-length-guard" else "-")
          else BADARGS
      | _, _ => BADARGS
      end
  | _ => BADARGS
  end.

Definition dispatch_line (l : string) : string :=
  match words l with
  | k :: args => dispatch k args
  | [] => BADARGS
  end.
