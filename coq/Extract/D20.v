(* Extract/D20.v — text interpreter of the C20 model and spec.
   Case lines:
     line  FILL IDX op op ...      a Line whose buffer is 2048 x FILL and whose index is IDX;
                                   the ops are applied in order; observation of ToString()
     write FILL IDX op op ...      same, observation of Write() (bytes given to DefaultIOWriter)
     msg   FILL MODULE MSG op ...  Logger(MODULE).Msg(MSG) on a pooled buffer of FILL bytes, then ops, ToString()
   observation: "t:" ++ hex of the text, or "panic".
   op tokens (fields separated by ':'; NAME/values are hex byte strings, "-" = empty):
     u8|u16|u32:NAME:dec  x8:NAME:dec  x16:NAME:dec  int:NAME:decZ:TEXT  b:NAME:T|F  mac:NAME:HEX
     ips:NAME:HEX|n   ip:NAME:HEX|n:TEXT   s:NAME:HEX  by:NAME:HEX  lab:NAME  err:TEXT
     sgr:TEXT|n  dur|time|spfi|spff:NAME:dec:TEXT  tz|tzm:NAME:msec:offset:TEXT  spf:NAME:TEXT  lf  mod:MODULE:MSG
     sa:NAME:E,E,..|_   ia:NAME:E,E,..|_ (E = HEX or n)   ba:NAME:HEX
   Spec validation against the Go standard library (observation = plain ASCII):
     sp_dec A N | sp_hex2 A N | sp_hex4 A N | sp_hexnl A N   renderings of A..A+N-1 joined by ','
     vw KIND HEX | vs KIND HEX | ve KIND fields   FastLog / String of views and table entries (see dispatch)
     a token "st=op+op" is Struct(value) performing these calls, "st=n" is Struct(nil)
     sp_decz Z | sp_mac HEX | sp_ip HEX (netip.Addr.String) | sp_netip HEX (net.IP.String) | sp_bool T|F
   Columns: model observation, reference text of the line while every op fits ("-" otherwise),
   key of the recorded defect class of the first call that deviates from the property ("-" if none). *)
From PV Require Import Base.Text Model.Fastlog Model.FastlogOps Model.FastlogViews Model.FastlogPool Spec.TextSpec.
Open Scope string_scope.
Open Scope N_scope.

Definition TAB : string := String (ascii_of_N 9) EmptyString.
Definition out3 (m s k : string) : string := m ++ TAB ++ s ++ TAB ++ k.

Fixpoint string_of_bytes (l : bytes) : string :=
  match l with
  | [] => EmptyString
  | b :: r => String (ascii_of_N b) (string_of_bytes r)
  end.

Definition opt_map2 {A B C} (f : A -> B -> C) (a : option A) (b : option B) : option C :=
  match a, b with Some x, Some y => Some (f x y) | _, _ => None end.

Fixpoint all_some {A} (l : list (option A)) : option (list A) :=
  match l with
  | [] => Some []
  | Some x :: r => option_map (cons x) (all_some r)
  | None :: _ => None
  end.

(* "n" = nil, otherwise a hex byte string *)
Definition optbytes_of_tok (s : string) : option (option bytes) :=
  if String.eqb s "n" then Some None else option_map Some (bytes_of_tok s).

Definition list_of_tok {A} (f : string -> option A) (s : string) : option (list A) :=
  if String.eqb s "_" then Some [] else all_some (map f (Text.split ","%char s)).

Definition parse_op (tok : string) : option op :=
  match Text.split ":"%char tok with
  | [k; n; v] =>
      if String.eqb k "u8" || String.eqb k "u16" || String.eqb k "u32"
      then opt_map2 OUint (bytes_of_tok n) (N_of_dec v)
      else if String.eqb k "x8" then opt_map2 OHex8 (bytes_of_tok n) (N_of_dec v)
      else if String.eqb k "x16" then opt_map2 OHex16 (bytes_of_tok n) (N_of_dec v)
      else if String.eqb k "b" then opt_map2 OBool (bytes_of_tok n) (bool_of_tok v)
      else if String.eqb k "mac" then opt_map2 OMac (bytes_of_tok n) (bytes_of_tok v)
      else if String.eqb k "ips" then opt_map2 OIPSlice (bytes_of_tok n) (optbytes_of_tok v)
      else if String.eqb k "s" then opt_map2 OString (bytes_of_tok n) (bytes_of_tok v)
      else if String.eqb k "by" then opt_map2 OBytes (bytes_of_tok n) (bytes_of_tok v)
      else if String.eqb k "spf" then opt_map2 OText (bytes_of_tok n) (bytes_of_tok v)
      else if String.eqb k "mod" then opt_map2 OModule (bytes_of_tok n) (bytes_of_tok v)
      else if String.eqb k "sa" then opt_map2 OStrArr (bytes_of_tok n) (list_of_tok bytes_of_tok v)
      else if String.eqb k "ia" then opt_map2 OIPArr (bytes_of_tok n) (list_of_tok optbytes_of_tok v)
      else if String.eqb k "ba" then opt_map2 OByteArr (bytes_of_tok n) (bytes_of_tok v)
      else None
  | [k; n; a; t] =>
      if String.eqb k "int" then
        match bytes_of_tok n, Z_of_dec a, bytes_of_tok t with
        | Some n', Some z, Some t' => Some (OInt n' z t') | _, _, _ => None end
      else if String.eqb k "ip" then
        match bytes_of_tok n, optbytes_of_tok a, bytes_of_tok t with
        | Some n', Some a', Some t' => Some (OIP n' a' t') | _, _, _ => None end
      else if String.eqb k "dur" || String.eqb k "time" || String.eqb k "spfi" || String.eqb k "spff" then
        match bytes_of_tok n, Z_of_dec a, bytes_of_tok t with
        | Some n', Some _, Some t' => Some (OText n' t') | _, _, _ => None end
      else None
  | [k; n; a; b; t] =>
      (* tz / tzm : NAME : unix milliseconds : zone offset seconds : StampMilli text (tzm: the value carries a monotonic reading) *)
      if String.eqb k "tz" || String.eqb k "tzm" then
        match bytes_of_tok n, Z_of_dec a, Z_of_dec b, bytes_of_tok t with
        | Some n', Some _, Some _, Some t' => Some (OText n' t') | _, _, _, _ => None end
      else None
  | [k; n] =>
      if String.eqb k "lab" then option_map OLabel (bytes_of_tok n)
      else if String.eqb k "err" then option_map OError (bytes_of_tok n)
      else if String.eqb k "sgr" then option_map OStringer (optbytes_of_tok n)
      else None
  | [k] => if String.eqb k "lf" then Some OLF else None
  | _ => None
  end.

(* "st=n": Struct(nil); "st=op+op+..": Struct(value) whose FastLog performs these calls *)
Definition parse_tok (tok : string) : option (list op) :=
  match tok with
  | String "s" (String "t" (String "=" rest)) =>
      if String.eqb rest "n" || String.eqb rest "n2" then Some (flatten [VStruct None])
      else option_map (fun os => flatten [VStruct (Some (map VOp os))])
                      (all_some (map parse_op (Text.split "+"%char rest)))
  | _ => option_map (fun o => [o]) (parse_op tok)
  end.

Fixpoint bytes_eqb (a b : bytes) : bool :=
  match a, b with
  | [], [] => true
  | x :: r, y :: s => (x =? y) && bytes_eqb r s
  | _, _ => false
  end.

(* state of a run: model outcome, reference text while constrained, first deviation's class *)
Inductive dkey : Set := DNone | DKnown (k : kkey) | DUnclassified.
Record acc := mkAcc { a_st : res line; a_sp : option text; a_key : dkey }.

Definition step (a : acc) (o : op) : acc :=
  match a_st a with
  | Ok l =>
      let r := run_op l o in
      let sp' := match a_sp a with
                 | Some t => if op_fits (List.length t) o then Some (t ++ spec_text o)%list else None
                 | None => None
                 end in
      let dev :=
        match r, sp' with
        | Ok l', Some t' => negb (Nat.leb (index l') BUFSZ && bytes_eqb (text_of l') t')
        | Ok l', None => is_array o && Nat.leb (index l) BUFSZ && Nat.ltb BUFSZ (index l')   (* arrays stay inside *)
        | _, Some _ => true                                         (* it fits: no panic allowed *)
        | _, None => is_array o && Nat.leb (index l) BUFSZ          (* arrays never panic *)
        end in
      let key' := match a_key a with
                  | DNone => if dev then match known_key (index l) o (is_panic r) with
                                         | KNone => DUnclassified | k => DKnown k end
                             else DNone
                  | k => k
                  end in
      mkAcc r sp' key'
  | _ => a
  end.

Definition show_key (k : dkey) : string :=
  match k with
  | DNone => "-"
  | DUnclassified => "c20-unclassified"
  | DKnown KNone => "-"
  | DKnown KReserved => "c20-unclassified"
  end.

Definition show_text (t : bytes) : string := "t:" ++ hex_of_bytes t.

Definition finish (towrite : bool) (a : acc) : string :=
  let m := match a_st a with
           | Ok l => show_res show_text (if towrite then write_out l else to_string l)
           | _ => "panic"
           end in
  let s := match a_sp a with
           | Some t => if towrite && Nat.leb BUFSZ (List.length t) then "-"   (* Write needs room for '\n' *)
                       else show_text (if towrite then t ++ [10] else t)%list
           | None => "-"
           end in
  out3 m s (show_key (a_key a)).

Definition run_from (towrite : bool) (a0 : acc) (toks : list string) : string :=
  match all_some (map parse_tok toks) with
  | Some oss => finish towrite (fold_left step (concat oss) a0)
  | None => BADARGS
  end.

Fixpoint range_texts (f : N -> text) (a : N) (n : nat) : list string :=
  match n with
  | O => []
  | S k => string_of_bytes (f a) :: range_texts f (a + 1) k
  end.
Definition sp_range (f : N -> text) (args : list string) : string :=
  match args with
  | [a; n] => match N_of_dec a, nat_of_dec n with
              | Some a', Some n' => out3 (Text.join "," (range_texts f a' n')) "-" "-"
              | _, _ => BADARGS
              end
  | _ => BADARGS
  end.

Definition kind_of_tok (s : string) : option vkind :=
  if String.eqb s "ether" then Some KEther else if String.eqb s "ip4" then Some KIP4
  else if String.eqb s "ip6" then Some KIP6 else if String.eqb s "udp" then Some KUDP
  else if String.eqb s "arp" then Some KARP else if String.eqb s "icmp" then Some KICMP
  else if String.eqb s "echo" then Some KICMPEcho else if String.eqb s "rs" then Some KRS
  else if String.eqb s "ra" then Some KRA else if String.eqb s "na" then Some KNA
  else if String.eqb s "ns" then Some KNS else if String.eqb s "dhcp4" then Some KDHCP4
  else if String.eqb s "dns" then Some KDNS else if String.eqb s "pause" then Some KPause
  else if String.eqb s "ieee1905" then Some KIEEE1905
  else if String.eqb s "llc" then Some KLLC else if String.eqb s "snap" then Some KSNAP
  else if String.eqb s "rrcp" then Some KRRCP else if String.eqb s "redirect" then Some KRedirect
  else if String.eqb s "lldp" then Some KLLDP else None.

(* MAC:IP:PORT *)
Definition addr_of_tok (s : string) : option addr_t :=
  match Text.split ":"%char s with
  | [m; i; p] => match bytes_of_tok m, optbytes_of_tok i, N_of_dec p with
                 | Some m', Some i', Some p' => Some (mkAddr m' i' p') | _, _, _ => None end
  | _ => None
  end.
(* type:name:model:os:manufacturer:expire  (expire "z" = zero time) *)
Definition name_of_tok (s : string) : option name_t :=
  match Text.split ":"%char s with
  | [t; n; m; o; f; e] =>
      match bytes_of_tok t, bytes_of_tok n, bytes_of_tok m, bytes_of_tok o, bytes_of_tok f with
      | Some t', Some n', Some m', Some o', Some f' =>
          if String.eqb e "z" then Some (mkName t' n' m' o' f' None)
          else option_map (fun e' => mkName t' n' m' o' f' (Some e')) (bytes_of_tok e)
      | _, _, _, _, _ => None
      end
  | _ => None
  end.
Definition names_of_toks (l : list string) : option names_t :=
  match map name_of_tok l with
  | [Some a; Some b; Some c; Some d; Some e] => Some (mkNames a b c d e)
  | _ => None
  end.

Definition entry_of (args : list string) : option view :=
  match args with
  | [k; a] =>
      if String.eqb k "addr" then option_map VAddr (addr_of_tok a)
      else if String.eqb k "name" then option_map VName (name_of_tok a)
      else None
  | [k; a; b] =>
      if String.eqb k "ipname" then opt_map2 (fun x y => VIpName (mkIpName x y)) (addr_of_tok a) (name_of_tok b)
      else None
  | [k; a; n; m] =>
      if String.eqb k "dnsname" then
        match addr_of_tok a, bytes_of_tok n, bytes_of_tok m with
        | Some a', Some n', Some m' => Some (VDnsName (mkDnsName a' n' m')) | _, _, _ => None end
      else None
  | [k; n; i4; i6; cn] =>
      if String.eqb k "dnsentry" then
        match bytes_of_tok n, list_of_tok bytes_of_tok i4, list_of_tok bytes_of_tok i6, list_of_tok bytes_of_tok cn with
        | Some n', Some a, Some b, Some c => Some (VDnsEntry (mkDnsEntry n' a b c)) | _, _, _, _ => None end
      else None
  | [k; a; on; cap; st; mf; n1; n2; n3; n4; n5; ls] =>
      if String.eqb k "host" then
        match addr_of_tok a, bool_of_tok on, bool_of_tok cap, N_of_dec st, bytes_of_tok mf,
              names_of_toks [n1; n2; n3; n4; n5], bytes_of_tok ls with
        | Some a', Some on', Some cap', Some st', Some mf', Some ns, Some ls' =>
            Some (VHost (mkHost a' on' cap' st' mf' ns ls'))
        | _, _, _, _, _, _, _ => None
        end
      else None
  | [k; m; cap; on; i4; gua; lla; off; hosts; ls; mf; n1; n2; n3; n4; n5] =>
      if String.eqb k "mac" then
        match bytes_of_tok m, bool_of_tok cap, bool_of_tok on, optbytes_of_tok i4, optbytes_of_tok gua with
        | Some m', Some cap', Some on', Some i4', Some gua' =>
            match optbytes_of_tok lla, optbytes_of_tok off, Z_of_dec hosts, bytes_of_tok ls, bytes_of_tok mf,
                  names_of_toks [n1; n2; n3; n4; n5] with
            | Some lla', Some off', Some h', Some ls', Some mf', Some ns =>
                Some (VMac (mkMac m' cap' on' i4' gua' lla' off' h' ls' mf' ns))
            | _, _, _, _, _, _ => None
            end
        | _, _, _, _, _ => None
        end
      else None
  | [k; a; on; mf; n1; n2; n3; n4; n5; rt] =>
      if String.eqb k "notif" then
        match addr_of_tok a, bool_of_tok on, bytes_of_tok mf, names_of_toks [n1; n2; n3; n4; n5], bool_of_tok rt with
        | Some a', Some on', Some mf', Some ns, Some rt' => Some (VNotif (mkNotif a' on' mf' ns rt'))
        | _, _, _, _, _ => None
        end
      else if String.eqb k "lease" then
        (* lease ID STATE ADDR NAME OFFER STAGE GW LAN SUBID *)
        match bytes_of_tok a, N_of_dec on, addr_of_tok mf, bytes_of_tok n1, optbytes_of_tok n2 with
        | Some id, Some st, Some ad, Some nm, Some off =>
            match N_of_dec n3, optbytes_of_tok n4, bytes_of_tok n5, bytes_of_tok rt with
            | Some sg, Some gw, Some lan, Some sid => Some (VLease (mkLease id st ad nm off sg gw lan sid))
            | _, _, _, _ => None
            end
        | _, _, _, _, _ => None
        end
      else None
  | _ => None
  end.

Definition fill_line (idx : nat) : acc := mkAcc (Ok (mkLine (repeat 46 BUFSZ) idx)) (Some (repeat 46 idx)) DNone.
Definition run_view (v : view) : string := finish false (fold_left step (flatten (ops_of v)) (fill_line 7)).

(* pool histories: tokens  mK:MODULE:MSG   aK=optoken   sK=viewkind:HEX (line K .Stringer(view): view.String() builds
   its own line while K is open)   wK:ok|fail   tK       K = one digit *)
Definition digit_of (c : ascii) : option nat :=
  let n := N_of_ascii c in if (48 <=? n) && (n <=? 57) then Some (N.to_nat (n - 48)) else None.

Definition view_string_text (k : vkind) (p : bytes) : option bytes :=
  if negb (view_valid k p) then None else
  match (l0 <- msg_line (repeat 0 BUFSZ) (s2b "packet") [] ;; l1 <- run_ops l0 (flatten (view_ops k p)) ;; to_string l1)%res with
  | Ok t => Some t
  | _ => None
  end.

Definition parse_hops (tok : string) : option (list hop) :=
  match tok with
  | String c (String d rest) =>
      match digit_of d with
      | Some k =>
          if Ascii.eqb c "m" then
            match Text.split ":"%char rest with
            | [_; m; sg] => opt_map2 (fun a b => [HMsg k a b]) (bytes_of_tok m) (bytes_of_tok sg)
            | _ => None
            end
          else if Ascii.eqb c "a" then
            match rest with
            | String "=" o => option_map (map (HApp k)) (parse_tok o)
            | _ => None
            end
          else if Ascii.eqb c "s" then
            match rest with
            | String "=" o =>
                match Text.split ":"%char o with
                | [vk; h] => match kind_of_tok vk, bytes_of_tok h with
                             | Some vk', Some p => option_map (fun t => [HApp k (OStringer (Some t))]) (view_string_text vk' p)
                             | _, _ => None
                             end
                | _ => None
                end
            | _ => None
            end
          else if Ascii.eqb c "w" then
            if String.eqb rest ":ok" then Some [HWrite k false] else if String.eqb rest ":fail" then Some [HWrite k true] else None
          else if Ascii.eqb c "t" then (if String.eqb rest "" then Some [HToString k] else None)
          else None
      | None => None
      end
  | _ => None
  end.

Definition run_pool (toks : list string) : string :=
  match all_some (map parse_hops toks) with
  | Some hss =>
      let hs := concat hss in
      if negb (hist_ok pinit hs) then BADARGS
      else let s := prun hs in
           if existsb (fun r => is_panic r) (outs s) then out3 "panic" "-" "-"
           else out3 (Text.join "|" (map (show_res show_text) (outs s))) "-" "-"
  | None => BADARGS
  end.

Definition dispatch (kind : string) (args : list string) : string :=
  (* vw KIND HEX: FastLog of a byte view on a line with index 7; "invalid" when IsValid reports an error
     vs KIND HEX: String() = Logger.Msg("").Struct(p).ToString() with the package logger "packet"
     ve KIND fields: FastLog of a table entry *)
  if String.eqb kind "vw" || String.eqb kind "vs" then
    match args with
    | [k; h] =>
        match kind_of_tok k, bytes_of_tok h with
        | Some k', Some p =>
            if negb (view_valid k' p) then out3 "invalid" "-" "-"
            else if String.eqb kind "vw" then run_view (VBytes k' p)
            else let m := s2b "packet" in
                 finish false (fold_left step (flatten (ops_of (VBytes k' p)))
                                 (mkAcc (msg_line (repeat 46 BUFSZ) m []) (Some (module7 m)) DNone))
        | _, _ => BADARGS
        end
    | _ => BADARGS
    end
  else if String.eqb kind "pool" then run_pool args
  else if String.eqb kind "census" then
    (* the model's lists of what it mirrors, compared with reflection / go/ast of the source *)
    match args with
    | [k] =>
        let names (l : list (string * string)) := out3 (Text.join "," (map fst l)) "-" "-" in
        if String.eqb k "line" then names line_methods
        else if String.eqb k "logger" then names logger_methods
        else if String.eqb k "fastlog" then names fastlog_impls
        else if String.eqb k "stdlib" then out3 stdlib_calls "-" "-"
        else if String.eqb k "pool" then
          (* Get/Put sites of the lines pool per function, nested finishing calls included *)
          out3 ("Msg:get=" ++ dec_of_nat MSG_GETS ++ ",put=0;ToString:get=0,put=" ++ dec_of_nat TOSTRING_PUTS
                ++ ";Write:get=0,put=" ++ dec_of_nat WRITE_PUTS) "-" "-"
        else if String.eqb k "consts" then
          out3 ("bufSize=" ++ dec_of_nat BUFSZ ++ ";hexAscii=" ++ string_of_bytes hex_ascii_tbl
                ++ ";byteAscii=" ++ Text.join "." (map string_of_bytes byte_ascii_tbl)) "-" "-"
        else BADARGS
    | _ => BADARGS
    end
  else if String.eqb kind "ve" then
    match entry_of args with
    | Some v => run_view v
    | None => BADARGS
    end
  else
  if String.eqb kind "line" || String.eqb kind "write" then
    match args with
    | f :: i :: toks =>
        match N_of_dec f, nat_of_dec i with
        | Some fill, Some idx =>
            if Nat.leb idx BUFSZ then
              let b := repeat fill BUFSZ in
              run_from (String.eqb kind "write") (mkAcc (Ok (mkLine b idx)) (Some (repeat fill idx)) DNone) toks
            else BADARGS
        | _, _ => BADARGS
        end
    | _ => BADARGS
    end
  else if String.eqb kind "msg" then
    match args with
    | f :: m :: s :: toks =>
        match N_of_dec f, bytes_of_tok m, bytes_of_tok s with
        | Some fill, Some m', Some s' =>
            let t0 := (module7 m' ++ match s' with [] => [] | _ => 32 :: 34 :: s' ++ [34] end)%list in
            run_from false (mkAcc (msg_line (repeat fill BUFSZ) m' s')
                                  (if Nat.leb (List.length t0) BUFSZ then Some t0 else None) DNone) toks
        | _, _, _ => BADARGS
        end
    | _ => BADARGS
    end
  else if String.eqb kind "sp_dec" then sp_range dec args
  else if String.eqb kind "sp_hex2" then sp_range hex2 args
  else if String.eqb kind "sp_hex4" then sp_range hex4 args
  else if String.eqb kind "sp_hexnl" then sp_range hexnl args
  else
    match args with
    | [a] =>
        if String.eqb kind "sp_decz" then
          match Z_of_dec a with Some z => out3 (string_of_bytes (dec_Z z)) "-" "-" | None => BADARGS end
        else if String.eqb kind "sp_bool" then
          match bool_of_tok a with Some b => out3 (string_of_bytes (bool_text b)) "-" "-" | None => BADARGS end
        else
          match bytes_of_tok a with
          | Some b =>
              if String.eqb kind "sp_mac" then out3 (string_of_bytes (mac_text b)) "-" "-"
              else if String.eqb kind "sp_ip" then out3 (string_of_bytes (addr_text (Some b))) "-" "-"
              else if String.eqb kind "sp_netip" then out3 (string_of_bytes (netip_text b)) "-" "-"
              else BADARGS
          | None => BADARGS
          end
    | _ => BADARGS
    end.

Definition dispatch_line (l : string) : string :=
  match words l with
  | k :: args => dispatch k args
  | [] => BADARGS
  end.
