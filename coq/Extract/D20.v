(* Extract/D20.v — text interpreter of the C20 model and spec.
   Case lines:
     line  FILL IDX op op ...      a Line whose buffer is 2048 x FILL and whose index is IDX;
                                   the ops are applied in order; observation of ToString()
     write FILL IDX op op ...      same, observation of Write() (bytes given to DefaultIOWriter)
     msg   FILL MODULE MSG op ...  Logger(MODULE).Msg(MSG) on a pooled buffer of FILL bytes, then ops, ToString()
   observation: "t:" ++ hex of the text, or "panic".
   op tokens (fields separated by ':'; NAME/values are hex byte strings, "-" = empty):
     u8|u16|u32:NAME:dec  x8:NAME:dec  x16:NAME:dec  int:NAME:decZ:TEXT  b:NAME:T|F  mac:NAME:HEX
     ips:NAME:HEX|n   ip:NAME:HEX|n:TEXT   s:NAME:HEX  by:NAME:HEX  lab:NAME  err:TEXT
     sgr:TEXT|n  dur|time:NAME:dec:TEXT  spf:NAME:TEXT  lf  mod:MODULE:MSG
     sa:NAME:E,E,..|_   ia:NAME:E,E,..|_ (E = HEX or n)   ba:NAME:HEX
   Spec validation against the Go standard library (observation = plain ASCII):
     sp_dec A N | sp_hex2 A N | sp_hex4 A N | sp_hexnl A N   renderings of A..A+N-1 joined by ','
     sp_decz Z | sp_mac HEX | sp_ip HEX (netip.Addr.String) | sp_netip HEX (net.IP.String) | sp_bool T|F
   Columns: model observation, reference text of the line while every op fits ("-" otherwise),
   key of the recorded defect class of the first call that deviates from the property ("-" if none). *)
From PV Require Import Base.Text Model.Fastlog Model.FastlogOps Spec.TextSpec.
Open Scope string_scope.
Open Scope N_scope.

Definition TAB : string := String (ascii_of_N 9) EmptyString.
Definition out3 (m s k : string) : string := m ++ TAB ++ s ++ TAB ++ k.

Fixpoint string_of_bytes (l : bytes) : string :=
  match l with
  | [] => EmptyString
  | b :: r => String (ascii_of_N b) (string_of_bytes r)
  end.

Definition opt_map2 {A B C} (f : A -> B -> C) (a : option A) (b : option B) : option C :=
  match a, b with Some x, Some y => Some (f x y) | _, _ => None end.

Fixpoint all_some {A} (l : list (option A)) : option (list A) :=
  match l with
  | [] => Some []
  | Some x :: r => option_map (cons x) (all_some r)
  | None :: _ => None
  end.

(* "n" = nil, otherwise a hex byte string *)
Definition optbytes_of_tok (s : string) : option (option bytes) :=
  if String.eqb s "n" then Some None else option_map Some (bytes_of_tok s).

Definition list_of_tok {A} (f : string -> option A) (s : string) : option (list A) :=
  if String.eqb s "_" then Some [] else all_some (map f (Text.split ","%char s)).

Definition parse_op (tok : string) : option op :=
  match Text.split ":"%char tok with
  | [k; n; v] =>
      if String.eqb k "u8" || String.eqb k "u16" || String.eqb k "u32"
      then opt_map2 OUint (bytes_of_tok n) (N_of_dec v)
      else if String.eqb k "x8" then opt_map2 OHex8 (bytes_of_tok n) (N_of_dec v)
      else if String.eqb k "x16" then opt_map2 OHex16 (bytes_of_tok n) (N_of_dec v)
      else if String.eqb k "b" then opt_map2 OBool (bytes_of_tok n) (bool_of_tok v)
      else if String.eqb k "mac" then opt_map2 OMac (bytes_of_tok n) (bytes_of_tok v)
      else if String.eqb k "ips" then opt_map2 OIPSlice (bytes_of_tok n) (optbytes_of_tok v)
      else if String.eqb k "s" then opt_map2 OString (bytes_of_tok n) (bytes_of_tok v)
      else if String.eqb k "by" then opt_map2 OBytes (bytes_of_tok n) (bytes_of_tok v)
      else if String.eqb k "spf" then opt_map2 OText (bytes_of_tok n) (bytes_of_tok v)
      else if String.eqb k "mod" then opt_map2 OModule (bytes_of_tok n) (bytes_of_tok v)
      else if String.eqb k "sa" then opt_map2 OStrArr (bytes_of_tok n) (list_of_tok bytes_of_tok v)
      else if String.eqb k "ia" then opt_map2 OIPArr (bytes_of_tok n) (list_of_tok optbytes_of_tok v)
      else if String.eqb k "ba" then opt_map2 OByteArr (bytes_of_tok n) (bytes_of_tok v)
      else None
  | [k; n; a; t] =>
      if String.eqb k "int" then
        match bytes_of_tok n, Z_of_dec a, bytes_of_tok t with
        | Some n', Some z, Some t' => Some (OInt n' z t') | _, _, _ => None end
      else if String.eqb k "ip" then
        match bytes_of_tok n, optbytes_of_tok a, bytes_of_tok t with
        | Some n', Some a', Some t' => Some (OIP n' a' t') | _, _, _ => None end
      else if String.eqb k "dur" || String.eqb k "time" then
        match bytes_of_tok n, Z_of_dec a, bytes_of_tok t with
        | Some n', Some _, Some t' => Some (OText n' t') | _, _, _ => None end
      else None
  | [k; n] =>
      if String.eqb k "lab" then option_map OLabel (bytes_of_tok n)
      else if String.eqb k "err" then option_map OError (bytes_of_tok n)
      else if String.eqb k "sgr" then option_map OStringer (optbytes_of_tok n)
      else None
  | [k] => if String.eqb k "lf" then Some OLF else None
  | _ => None
  end.

Fixpoint bytes_eqb (a b : bytes) : bool :=
  match a, b with
  | [], [] => true
  | x :: r, y :: s => (x =? y) && bytes_eqb r s
  | _, _ => false
  end.

(* state of a run: model outcome, reference text while constrained, first deviation's class *)
Inductive dkey : Set := DNone | DKnown (k : kkey) | DUnclassified.
Record acc := mkAcc { a_st : res line; a_sp : option text; a_key : dkey }.

Definition step (a : acc) (o : op) : acc :=
  match a_st a with
  | Ok l =>
      let r := run_op l o in
      let sp' := match a_sp a with
                 | Some t => if op_fits (List.length t) o then Some (t ++ spec_text o)%list else None
                 | None => None
                 end in
      let dev :=
        match r, sp' with
        | Ok l', Some t' => negb (Nat.leb (index l') BUFSZ && bytes_eqb (text_of l') t')
        | Ok l', None => is_array o && Nat.leb (index l) BUFSZ && Nat.ltb BUFSZ (index l')   (* arrays stay inside *)
        | _, Some _ => true                                         (* it fits: no panic allowed *)
        | _, None => is_array o && Nat.leb (index l) BUFSZ          (* arrays never panic *)
        end in
      let key' := match a_key a with
                  | DNone => if dev then match known_key (index l) o (is_panic r) with
                                         | KNone => DUnclassified | k => DKnown k end
                             else DNone
                  | k => k
                  end in
      mkAcc r sp' key'
  | _ => a
  end.

Definition show_key (k : dkey) : string :=
  match k with
  | DNone => "-"
  | DUnclassified => "c20-unclassified"
  | DKnown KNone => "-"
  | DKnown KReserved => "c20-unclassified"
  end.

Definition show_text (t : bytes) : string := "t:" ++ hex_of_bytes t.

Definition finish (towrite : bool) (a : acc) : string :=
  let m := match a_st a with
           | Ok l => show_res show_text (if towrite then write_out l else to_string l)
           | _ => "panic"
           end in
  let s := match a_sp a with
           | Some t => if towrite && Nat.leb BUFSZ (List.length t) then "-"   (* Write needs room for '\n' *)
                       else show_text (if towrite then t ++ [10] else t)%list
           | None => "-"
           end in
  out3 m s (show_key (a_key a)).

Definition run_from (towrite : bool) (a0 : acc) (toks : list string) : string :=
  match all_some (map parse_op toks) with
  | Some os => finish towrite (fold_left step os a0)
  | None => BADARGS
  end.

Fixpoint range_texts (f : N -> text) (a : N) (n : nat) : list string :=
  match n with
  | O => []
  | S k => string_of_bytes (f a) :: range_texts f (a + 1) k
  end.
Definition sp_range (f : N -> text) (args : list string) : string :=
  match args with
  | [a; n] => match N_of_dec a, nat_of_dec n with
              | Some a', Some n' => out3 (Text.join "," (range_texts f a' n')) "-" "-"
              | _, _ => BADARGS
              end
  | _ => BADARGS
  end.

Definition dispatch (kind : string) (args : list string) : string :=
  if String.eqb kind "line" || String.eqb kind "write" then
    match args with
    | f :: i :: toks =>
        match N_of_dec f, nat_of_dec i with
        | Some fill, Some idx =>
            if Nat.leb idx BUFSZ then
              let b := repeat fill BUFSZ in
              run_from (String.eqb kind "write") (mkAcc (Ok (mkLine b idx)) (Some (repeat fill idx)) DNone) toks
            else BADARGS
        | _, _ => BADARGS
        end
    | _ => BADARGS
    end
  else if String.eqb kind "msg" then
    match args with
    | f :: m :: s :: toks =>
        match N_of_dec f, bytes_of_tok m, bytes_of_tok s with
        | Some fill, Some m', Some s' =>
            let t0 := (module7 m' ++ match s' with [] => [] | _ => 32 :: 34 :: s' ++ [34] end)%list in
            run_from false (mkAcc (msg_line (repeat fill BUFSZ) m' s')
                                  (if Nat.leb (List.length t0) BUFSZ then Some t0 else None) DNone) toks
        | _, _, _ => BADARGS
        end
    | _ => BADARGS
    end
  else if String.eqb kind "sp_dec" then sp_range dec args
  else if String.eqb kind "sp_hex2" then sp_range hex2 args
  else if String.eqb kind "sp_hex4" then sp_range hex4 args
  else if String.eqb kind "sp_hexnl" then sp_range hexnl args
  else
    match args with
    | [a] =>
        if String.eqb kind "sp_decz" then
          match Z_of_dec a with Some z => out3 (string_of_bytes (dec_Z z)) "-" "-" | None => BADARGS end
        else if String.eqb kind "sp_bool" then
          match bool_of_tok a with Some b => out3 (string_of_bytes (bool_text b)) "-" "-" | None => BADARGS end
        else
          match bytes_of_tok a with
          | Some b =>
              if String.eqb kind "sp_mac" then out3 (string_of_bytes (mac_text b)) "-" "-"
              else if String.eqb kind "sp_ip" then out3 (string_of_bytes (addr_text (Some b))) "-" "-"
              else if String.eqb kind "sp_netip" then out3 (string_of_bytes (netip_text b)) "-" "-"
              else BADARGS
          | None => BADARGS
          end
    | _ => BADARGS
    end.

Definition dispatch_line (l : string) : string :=
  match words l with
  | k :: args => dispatch k args
  | [] => BADARGS
  end.
