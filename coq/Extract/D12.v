(* Extract/D12.v — C12: a whole DHCP history is one case line; the answer is the
   model's transcript, the spec verdict on that transcript and the class key of
   a recorded finding. *)
From PV Require Import Base.Text Model.DHCP Model.DHCPShow Spec.DHCP Spec.DHCPCheck.
Open Scope string_scope.
Open Scope N_scope.

Definition TAB : string := String (ascii_of_N 9) EmptyString.
Definition out3 (m s k : string) : string := m ++ TAB ++ s ++ TAB ++ k.

Fixpoint before_bar (l : list string) : list string :=
  match l with [] => [] | x :: r => if String.eqb x "|" then [] else x :: before_bar r end.
Fixpoint after_bar (l : list string) : list string :=
  match l with [] => [] | x :: r => if String.eqb x "|" then r else after_bar r end.

(* leading "P,mac" tokens of run 2: MACs captured in the session before the handler is constructed *)
Definition pre_mac (x : string) : option mac :=
  match split ","%char x with
  | [k; m] => if String.eqb k "P" then N_of_hex m else None
  | _ => None
  end.
Fixpoint take_pre (l : list string) : list mac :=
  match l with x :: r => match pre_mac x with Some m => m :: take_pre r | None => [] end | [] => [] end.
Fixpoint drop_pre (l : list string) : list string :=
  match l with x :: r => match pre_mac x with Some _ => drop_pre r | None => l end | [] => [] end.

Definition parse_opt1 (x : string) : option (N * bytes) :=
  match split "="%char x with
  | [k; v] => match N_of_dec k, bytes_of_tok v with Some k, Some v => Some (k, v) | _, _ => None end
  | _ => None
  end.
Fixpoint parse_optlist (l : list string) : option (list (N * bytes)) :=
  match l with
  | [] => Some []
  | x :: r => match parse_opt1 x, parse_optlist r with Some o, Some os => Some (o :: os) | _, _ => None end
  end.
Definition parse_optmap (s : string) : option (list (N * bytes)) :=
  if String.eqb s "-" then Some [] else parse_optlist (split "."%char s).
Definition show_optlist (l : list (N * bytes)) : string :=
  join "." (map (fun p => dec_of_N (fst p) ++ "=" ++ tok_of_bytes (snd p)) l).

Definition dispatch (kind : string) (args : list string) : string :=
  (* hist: all frames through one receive buffer; histf: a fresh buffer per frame.  The model does not
     distinguish them (retained fields are values): any difference is a correspondence failure. *)
  if (String.eqb kind "hist" || String.eqb kind "histf") && cfg_rejected args then
    out3 "rejected" "-" "-"      (* (Config).New returns an error for this configuration *)
  else if String.eqb kind "restart" && (cfg_rejected args || cfg_rejected (skip_cfg args)) then
    out3 "rejected" "-" "-"
  else if String.eqb kind "hist" || String.eqb kind "histf" then
    match parse_cfg args with
    | Some (c, rest) =>
        match parse_ops rest with
        | Some ops =>
            let h := with_ch0 ops in
            let '(s, rs) := run c (init c) h in
            let tr := trace c (init c) h in
            let obs := show_trace c tr s in
            let fs := match parse_raw args with
                      | Some (raw, _) => zip_fails (map (c12_fails c) tr) (map (c12_dns_fails raw c) tr)
                      | None => map (c12_fails c) tr
                      end in
            if all_nil fs then out3 obs obs "-"
            else out3 obs ("viol " ++ show_fails fs) (hist_key (c12_class c) (combine tr fs) None)
        | None => BADARGS
        end
    | None => BADARGS
    end
  else if String.eqb kind "restart" then
    (* restart CFG_A CFG_B opsA | opsB : a handler of configuration A runs opsA and leaves its lease file;
       a handler of configuration B starts on that file and runs opsB.  Observation: run 2.  The spec
       column judges run 2 against configuration B. *)
    match parse_cfg args with
    | Some (cA, rest) =>
        match parse_cfg rest with
        | Some (cB, rest2) =>
            match parse_ops (before_bar rest2), parse_ops (drop_pre (after_bar rest2)) with
            | Some opsA, Some opsB =>
                let pre := take_pre (after_bar rest2) in
                let '(sA, saved) := run_saving cA (init cA) [] (with_ch0 opsA) in
                let cL := loaded_cfg (c_sub cA) cB in
                let s0 := restart_state (c_sub cA) cB pre saved in
                let h := with_ch0 opsB in
                let '(s, rs) := run cL s0 h in
                let tr := trace cL s0 h in
                let obs := show_trace cL tr s in
                let fs := map (c12_fails cL) tr in
                if all_nil fs then out3 obs obs "-"
                else out3 obs ("viol " ++ show_fails fs) (hist_key (c12_class cL) (combine tr fs) None)
            | _, _ => BADARGS
            end
        | None => BADARGS
        end
    | None => BADARGS
    end
  else if String.eqb kind "ao" then
    (* DHCP4.AppendOptions on its own: requested order (hex) and an option map code=hex.code=hex...;
       answer: number of bytes written and the emitted list (requested part in wire order, remainder ascending) *)
    match args with
    | [ord; opts] =>
        match bytes_of_tok ord, parse_optmap opts with
        | Some order, Some m =>
            let l := append_options m order in
            let n := fold_left (fun a p => a + 2 + N.of_nat (List.length (snd p))) l 0 in
            out3 (dec_of_N n ++ " " ++ (match l with [] => "-" | _ => show_optlist l end)) "-" "-"
        | _, _ => BADARGS
        end
    | _ => BADARGS
    end
  else if String.eqb kind "src" then
    (* a constant of the Go source by identifier: the value the model hard-codes *)
    match args with
    | [name] => match src_const name with
                | Some v => out3 (dec_of_N v) "-" "-"
                | None => out3 "unknown-to-the-model" "-" "-"
                end
    | _ => BADARGS
    end
  else BADARGS.

Definition dispatch_line (l : string) : string :=
  match words l with
  | k :: args => dispatch k args
  | [] => BADARGS
  end.
