(* Extract/D12.v — C12: a whole DHCP history is one case line; the answer is the
   model's transcript, the spec verdict on that transcript and the class key of
   a recorded finding. *)
From PV Require Import Base.Text Model.DHCP Model.DHCPShow Spec.DHCP Spec.DHCPCheck.
Open Scope string_scope.
Open Scope N_scope.

Definition TAB : string := String (ascii_of_N 9) EmptyString.
Definition out3 (m s k : string) : string := m ++ TAB ++ s ++ TAB ++ k.

Definition dispatch (kind : string) (args : list string) : string :=
  if String.eqb kind "hist" then
    match parse_cfg args with
    | Some (c, rest) =>
        match parse_ops rest with
        | Some ops =>
            let h := with_ch0 ops in
            let '(s, rs) := run c (init c) h in
            let obs := show_run s rs in
            let tr := trace c (init c) h in
            let fs := map (c12_fails c) tr in
            if all_nil fs then out3 obs obs "-"
            else out3 obs ("viol " ++ show_fails fs) (hist_key (c12_class c) (combine tr fs) None)
        | None => BADARGS
        end
    | None => BADARGS
    end
  else BADARGS.

Definition dispatch_line (l : string) : string :=
  match words l with
  | k :: args => dispatch k args
  | [] => BADARGS
  end.
