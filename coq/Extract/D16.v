(* Extract/D16.v — C16: zero-copy views and the allocation counter.

   alias cfg.. frame spare
       model: position of every view inside the buffer as Parse + accessors give it; spec: the same from the
       offsets of the reference decoder when both accept the frame
   wt cfg.. frame spare which i v
       model: "j=<index of the only buffer byte changed by view[i] := x> back=true same=true"
              (computed on the list model: the view is skipn off of the buffer), "na" when the view is nil or shorter
   alloc cfg.. state frame
       model: "0" | "+" (allocation counter of Model/ParseAlloc.v zero / non-zero), spec "-" *)
From PV Require Import Base.Text Base.Slice Model.Parse Model.ParseFixes Model.ParseShow Model.ParseKnown Model.ParseAlloc Model.ParseAlias Model.ParseCalls.
Open Scope string_scope.
Open Scope N_scope.

Definition TAB : string := String (ascii_of_N 9) EmptyString.
Definition out3 (m s k : string) : string := m ++ TAB ++ s ++ TAB ++ k.

Definition vname_of_tok (w : string) : option vname :=
  if String.eqb w "E" then Some VE else if String.eqb w "4" then Some V4 else if String.eqb w "6" then Some V6
  else if String.eqb w "U" then Some VU else if String.eqb w "T" then Some VT else if String.eqb w "P" then Some VP
  else if String.eqb w "S" then Some VS else if String.eqb w "D" then Some VD else None.

Definition show_wt (c : cfg) (s : slice) (w : vname) (i : nat) (v : N) : string :=
  match parse c s with
  | Ok f =>
      match view_get s f w with
      | Ok (Some x) =>
          if Nat.ltb i (len x) then
            let off := view_off f w in
            let mem := arr s in
            let nv := N.lxor (nth i (arr x) 0) (N.lor v 1) in
            let mem1 := write_view mem off i nv in
            match diff_at 0 mem mem1 with
            | [j] =>
                let mem2 := write_buf mem1 j (N.lxor nv 90) in
                let back := nth i (arr (view_at mem2 off (len x))) 0 =? N.lxor nv 90 in
                "j=" ++ dec_of_nat j ++ " back=" ++ (if back then "true" else "false") ++ " same=true"
            | l => "changed=" ++ join "," (map dec_of_nat l)
            end
          else "na"
      | Ok None => "na"
      | Err _ => "err:view"
      | Panic => "panic"
      | Fuel => "fuel"
      end
  | Err e => show_errclass e
  | Panic => "panic"
  | Fuel => "fuel"
  end.

Definition hstate_of_tok (t : string) : option hstate :=
  if String.eqb t "new" then Some Untracked else if String.eqb t "offline" then Some TrackedOffline
  else if String.eqb t "online" then Some TrackedOnline else None.

Definition level_of_tok (t : string) : option loglevel :=
  if String.eqb t "error" then Some LError else if String.eqb t "info" then Some LInfo
  else if String.eqb t "debug" then Some LDebug else None.

Definition show_allocs (r : res nat) : string :=
  match r with
  | Ok O => "0"
  | Ok _ => "+"
  | Err _ => "err:any"
  | Panic => "panic"
  | Fuel => "fuel"
  end.

Definition ppa_cfg : cfg := mkCfg [0;85;85;85;85;85] [0;102;102;102;102;102] [192;168;0;0] 24 current_fixes.
Fixpoint ppa_run (toks : list string) (acc : list string) (woken : bool) : option string :=
  match toks with
  | [] => Some (join " | " (rev ((if woken then "ping:ok" else "ping:timeout") :: acc)))
  | t :: r =>
      match t with
      | String k (String ":"%char h) =>
          match bytes_of_tok h with
          | Some b =>
              let s := of_bytes b in
              let w := match parse ppa_cfg s with
                       | Ok f => Ascii.eqb k "m"%char && match f_echo f with Some _ => true | None => false end
                       | _ => false end in
              let o := match parse ppa_cfg s with
                       | Err e => show_errclass e
                       | _ => show_allocs (parse_allocs ppa_cfg (fun _ => TrackedOnline) s)
                       end in
              ppa_run r (o :: acc) (woken || w)
          | None => None
          end
      | _ => None
      end
  end.

Definition dispatch (kind : string) (args : list string) : string :=
  if String.eqb kind "alias" then
    match args with
    | [hm; rm; lan; bits; fr; sp] =>
        match cfg_of_toks hm rm lan bits, bytes_of_tok fr, bytes_of_tok sp with
        | Some c, Some b, Some spare =>
            (* the reference offsets are the expectation whenever both decoders accept the frame
               (whether they accept the same frames is C02's matter, not C16's) *)
            let m := show_alias c (of_bytes_cap b spare) in
            let r := show_alias_ref b in
            out3 m (if String.prefix "err:" m || String.eqb m "panic" || String.prefix "err:" r then "-" else r) "-"
        | _, _, _ => BADARGS
        end
    | _ => BADARGS
    end
  else if String.eqb kind "wt" then
    match args with
    | [hm; rm; lan; bits; fr; sp; w; i; v] =>
        match cfg_of_toks hm rm lan bits, bytes_of_tok fr, bytes_of_tok sp, vname_of_tok w, nat_of_dec i, N_of_dec v with
        | Some c, Some b, Some spare, Some w, Some i, Some v =>
            out3 (show_wt c (of_bytes_cap b spare) w i v) "-" "-"
        | _, _, _, _, _, _ => BADARGS
        end
    | _ => BADARGS
    end
  else if String.eqb kind "alloc" then
    match args with
    | [hm; rm; lan; bits; st; fr] =>
        match cfg_of_toks hm rm lan bits, hstate_of_tok st, bytes_of_tok fr with
        | Some c, Some st, Some b => out3 (show_allocs (parse_allocs c (fun _ => st) (of_bytes b))) "-" "-"
        | _, _, _ => BADARGS
        end
    | [hm; rm; lan; bits; st; fr; lv] =>
        (* with the log level as a seventh token: error | info | debug *)
        match cfg_of_toks hm rm lan bits, hstate_of_tok st, bytes_of_tok fr, level_of_tok lv with
        | Some c, Some st, Some b, Some l => out3 (show_allocs (parse_allocs_lvl l c (fun _ => st) (of_bytes b))) "-" "-"
        | _, _, _, _ => BADARGS
        end
    | _ => BADARGS
    end
  else if String.eqb kind "logs" then
    match args with
    | [_] => out3 show_logs "-" "-"
    | _ => BADARGS
    end
  else if String.eqb kind "ppa" then
    (* ppa FAM MS tok...: heap allocations of every single Parse call while a ping is pending, every source tracked and
       online: the counter of Model/ParseAlloc.v says 0 for every accepted frame, whatever the waiter table holds
       (echoNotify: mutex, map lookup, close, delete - nothing that allocates); ping:ok iff a frame with the pending
       identifier has f_echo *)
    match args with
    | _fam :: _ms :: toks =>
        match ppa_run toks [] false with
        | Some l => out3 l l "-"
        | None => BADARGS
        end
    | _ => BADARGS
    end
  else if String.eqb kind "calls" then
    (* calls BRANCH | calls branches: the set of functions a branch of Parse calls (Model/ParseCalls.v), the same text
       the harness extracts from layer_frame.go with go/ast *)
    match args with
    | [b] => match show_calls b with Some txt => out3 txt "-" "-" | None => out3 "no-such-branch" "-" "-" end
    | _ => BADARGS
    end
  else BADARGS.

Definition dispatch_line (l : string) : string :=
  match words l with
  | k :: args => dispatch k args
  | [] => BADARGS
  end.
