(* Spec/HostTrackingInv.v — C05: the consistency invariant of the host and MAC
   tables, written clause by clause from the property text, and its decision
   procedure (used as an oracle by the dispatch). *)
From PV Require Import Base.Prelude Model.Tables.
Open Scope N_scope.

Record Inv (s : state) : Prop := {
  (* the host index is a map *)
  inv_keys : NoDup (map fst (hosts s));
  (* "every tracked host is indexed under its own IP" *)
  inv_own_ip : forall k h, In (k, h) (hosts s) -> h_ip h = k;
  (* "belongs to exactly one MAC entry whose address equals the host's MAC" *)
  inv_host_mac : forall k h, In (k, h) (hosts s) ->
      exists e, In e (macs s) /\ m_mac e = h_mac h /\ In k (m_hosts e) /\
                forall e', In e' (macs s) -> In k (m_hosts e') -> e' = e;
  (* "every host listed under a MAC entry is present in the host index under the same identity" *)
  inv_listed : forall e k, In e (macs s) -> In k (m_hosts e) ->
      exists h, In (k, h) (hosts s) /\ h_mac h = m_mac e;
  inv_listed_once : forall e, In e (macs s) -> NoDup (m_hosts e);
  (* "MAC entries are unique per address" *)
  inv_macs : NoDup (map m_mac (macs s));
  (* "an online host implies its MAC entry is marked online" *)
  inv_online : forall k h e, In (k, h) (hosts s) -> h_online h = true ->
      In e (macs s) -> m_mac e = h_mac h -> m_online e = true;
  (* what printHostTable asserts *)
  inv_count : count_hosts (macs s) = List.length (hosts s) }.

(* ---- decision procedure ---- *)
Fixpoint nodupb {A} (eqb : A -> A -> bool) (l : list A) : bool :=
  match l with
  | [] => true
  | x :: r => negb (existsb (eqb x) r) && nodupb eqb r
  end.

Definition count_listing (k : ip) (l : list macent) : nat :=
  List.length (filter (fun e => existsb (ip_eqb k) (m_hosts e)) l).

Definition invb (s : state) : bool :=
  nodupb ip_eqb (map fst (hosts s)) &&
  forallb (fun e => ip_eqb (h_ip (snd e)) (fst e)) (hosts s) &&
  forallb (fun e =>
     match find_mac (h_mac (snd e)) (macs s) with
     | Some m => existsb (ip_eqb (fst e)) (m_hosts m) && Nat.eqb (count_listing (fst e) (macs s)) 1
     | None => false
     end) (hosts s) &&
  forallb (fun m => forallb (fun k => match hlookup k (hosts s) with
                                      | Some h => h_mac h =? m_mac m
                                      | None => false end) (m_hosts m)) (macs s) &&
  forallb (fun m => nodupb ip_eqb (m_hosts m)) (macs s) &&
  nodupb N.eqb (map m_mac (macs s)) &&
  forallb (fun e => implb (h_online (snd e))
                          (match find_mac (h_mac (snd e)) (macs s) with Some m => m_online m | None => false end))
          (hosts s) &&
  Nat.eqb (count_hosts (macs s)) (List.length (hosts s)).
