(* Spec/ViewsNDP.v -- the options of ICMPv6 router solicitations / advertisements (RFC 4861 4.6, RFC 4191 2.3,
   RFC 8106 5.1-5.2) as POSITION formulas inside each option.  An option block is a sequence of options
   type(8) length(8, in units of 8 octets, never 0) body; every field below is "the width bits at bit offset
   ... of the option" ([bits], Spec/Views.v).  Options are processed in order: a later source/target address, MTU,
   route or search list replaces an earlier one, prefix information options accumulate, RDNSS servers accumulate.
   A malformed block (truncated option, length 0, link-layer option not of length 1, prefix option not of length
   4 or with prefix length above 128) is an error as a whole; other malformed options are ignored.
   The DNS search list names are RFC 1035 label sequences; their walk ([dnssl_walk], Model/ViewsVar.v) is shared
   with the model: only its start (option offset 8) and the lifetime position are specified here. *)
From PV Require Export Spec.Views2 Model.ViewsVar.
Open Scope string_scope.
Open Scope list_scope.
Open Scope N_scope.

(* the leading [pl] bits of a 16-octet prefix: octet i keeps its k = min 8 (pl - 8i) most significant bits *)
Definition keep_bits (pl i : nat) (b : N) : N :=
  let k := Nat.min 8 (pl - 8 * i) in (b / 2 ^ N.of_nat (8 - k)) * 2 ^ N.of_nat (8 - k).
Fixpoint prefix_from (pl i : nat) (l : bytes) : bytes :=
  match l with [] => [] | b :: r => keep_bits pl i b :: prefix_from pl (S i) r end.
Definition prefix_of (pl : nat) (l : bytes) : bytes := prefix_from pl 0 l.
Definition zero_pad16 (l : bytes) : bytes := firstn 16 (l ++ repeat 0 16).

Definition set_slla st m := mkSt (st_mtu st) (st_prefixes st) (st_rdnss_lt st) (st_servers st) m (st_tlla st) (st_dnssl_lt st) (st_domains st) (st_route st).
Definition set_tlla st m := mkSt (st_mtu st) (st_prefixes st) (st_rdnss_lt st) (st_servers st) (st_slla st) m (st_dnssl_lt st) (st_domains st) (st_route st).
Definition set_mtu st m := mkSt m (st_prefixes st) (st_rdnss_lt st) (st_servers st) (st_slla st) (st_tlla st) (st_dnssl_lt st) (st_domains st) (st_route st).
Definition add_prefix st p := mkSt (st_mtu st) (st_prefixes st ++ [p]) (st_rdnss_lt st) (st_servers st) (st_slla st) (st_tlla st) (st_dnssl_lt st) (st_domains st) (st_route st).
Definition add_rdnss st lt sv := mkSt (st_mtu st) (st_prefixes st) lt (st_servers st ++ sv) (st_slla st) (st_tlla st) (st_dnssl_lt st) (st_domains st) (st_route st).
Definition set_dnssl st lt ds := mkSt (st_mtu st) (st_prefixes st) (st_rdnss_lt st) (st_servers st) (st_slla st) (st_tlla st) lt ds (st_route st).
Definition set_route st r := mkSt (st_mtu st) (st_prefixes st) (st_rdnss_lt st) (st_servers st) (st_slla st) (st_tlla st) (st_dnssl_lt st) (st_domains st) r.

(* one option x (its 8*length octets); None = the whole block is an error *)
Definition ndp_opt_spec (x : bytes) (st : ndp_st) : option ndp_st :=
  let ty := bits x 0 8 in
  let len8 := bits x 8 8 in
  if (ty =? 1) || (ty =? 2) then
    (* 4.6.1 source / target link-layer address: length 1, the address is octets 2..8 *)
    if len8 =? 1 then Some (if ty =? 1 then set_slla st (sub x 2 6) else set_tlla st (sub x 2 6)) else None
  else if ty =? 5 then
    (* 4.6.4 MTU: length 1, reserved(16), MTU(32) at bit 32 *)
    if len8 =? 1 then Some (set_mtu st (bits x 32 32)) else Some st
  else if ty =? 3 then
    (* 4.6.2 prefix information: length 4; prefix length(8) at 16, L at 24, A at 25, valid lifetime(32) at 32,
       preferred lifetime(32) at 64, reserved(32), prefix(128) at octet 16 *)
    if negb (len8 =? 4) then None else
    if 128 <? bits x 16 8 then None else
    Some (add_prefix st (VL [VN (bits x 16 8); VB (bits x 24 1 =? 1); VB (bits x 25 1 =? 1);
                             VN (bits x 32 32); VN (bits x 64 32);
                             VX (prefix_of (N.to_nat (bits x 16 8)) (sub x 16 16))]))
  else if ty =? 24 then
    (* RFC 4191 2.3 route information: prefix length(8) at 16, resvd(3) Prf(2) at 27, lifetime(32) at 32,
       prefix (0, 8 or 16 octets) at octet 8.  Length 1..3 as the prefix length allows; Prf = 10 is reserved:
       the option is ignored *)
    let pl := bits x 16 8 in
    let len_ok := if pl =? 0 then (1 <=? len8) && (len8 <=? 3)
                  else if pl <=? 64 then (len8 =? 2) || (len8 =? 3)
                  else if pl <=? 128 then len8 =? 3 else false in
    if negb len_ok then Some st else
    if bits x 27 2 =? 2 then Some st else
    Some (set_route st (pl, bits x 27 2, bits x 32 32,
                        prefix_of (N.to_nat pl) (zero_pad16 (sub x 8 ((N.to_nat pl + 7) / 8)))))
  else if ty =? 25 then
    (* RFC 8106 5.1 RDNSS: reserved(16), lifetime(32) at 32, (length-1)/2 addresses of 16 octets from octet 8;
       length must be odd and at least 3 *)
    if (len8 mod 2 =? 1) && (3 <=? len8) then
      Some (add_rdnss st (bits x 32 32)
              (map (fun i => sub x (8 + 16 * i) 16) (seq 0 (N.to_nat ((len8 - 1) / 2)))))
    else Some st
  else if ty =? 31 then
    (* RFC 8106 5.2 DNSSL: reserved(16), lifetime(32) at 32, domain names from octet 8 *)
    match dnssl_walk (S (blen x - 2)) (skipn 2 x) 6 [] [] with
    | Some (d :: ds) => Some (set_dnssl st (bits x 32 32) (d :: ds))
    | _ => Some st
    end
  else Some st.

(* the block as a list of options *)
Fixpoint ndp_split (fuel : nat) (b : bytes) : option (list bytes) :=
  match fuel with
  | O => None
  | S f =>
      match b with
      | [] => Some []
      | _ =>
          let n := (8 * N.to_nat (bits b 8 8))%nat in
          if Nat.ltb (blen b) 2 || Nat.eqb n 0 || Nat.ltb (blen b) n then None
          else match ndp_split f (skipn n b) with Some xs => Some (firstn n b :: xs) | None => None end
      end
  end.
Fixpoint ndp_fold (xs : list bytes) (st : ndp_st) : option ndp_st :=
  match xs with
  | [] => Some st
  | x :: r => match ndp_opt_spec x st with Some st' => ndp_fold r st' | None => None end
  end.
Definition ndp_spec (b : bytes) : value :=
  match ndp_split (S (blen b)) b with
  | None => VE
  | Some xs => match ndp_fold xs st0 with Some st => ndp_show st | None => VE end
  end.
(* options of a message whose fixed part is k octets *)
Definition ndp_options_spec (k : nat) : spec := fun l =>
  if Nat.leb (blen l) k then ndp_show st0 else ndp_spec (skipn k l).

(* RS (4.1): type code checksum reserved(4) options *)
Definition RS_specs : stable :=
  [sp "Checksum" (sfield 16 16); sp "Code" (sfield 8 8); sp "Options" (ndp_options_spec 8);
   sp "SourceLLA" (first_lla_option 8 1); sp "String" sreturns; sp "Type" (sfield 0 8)].
(* RA (4.2, flags per RFC 4191 / RFC 4389): hop limit, M O H Prf(2) P, lifetime, reachable, retrans *)
Definition RA_specs : stable :=
  [sp "Checksum" (sfield 16 16); sp "Code" (sfield 8 8); sp "CurrentHopLimit" (sfield 32 8);
   sp "Flags" (sfield 40 8); sp "HomeAgent" (sflag 42); sp "Lifetime" (sfield 48 16);
   sp "ManagedConfiguration" (sflag 40); sp "Options" (ndp_options_spec 16); sp "OtherConfiguration" (sflag 41);
   sp "Preference" (sfield 43 2); sp "ProxyFlag" (sflag 45); sp "ReachableTime" (sfield 64 32);
   sp "RetransmitTimer" (sfield 96 32); sp "String" sreturns; sp "Type" (sfield 0 8)].
