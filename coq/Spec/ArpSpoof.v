(* Spec/ArpSpoof.v — what property C13 demands of an observed run, written from the
   property text (not from the code): a monitor over (event, emitted frames) pairs.

   It shares only the vocabulary types (cfg, frame, arp_pkt, event) and the two address
   predicates (in_lan, link_local: re-statements of net/netip) with the model; it keeps its
   OWN bookkeeping: the set of hunted MACs (started and not stopped), the history of offers,
   whether Close happened, and for every spoof loop ever started its target MAC and whether
   it has terminated. *)
From PV Require Import Base.Prelude Model.ArpSpoof.
Open Scope N_scope.

(* ---- packet vocabulary (RFC 826 / RFC 5227) ---- *)

(* ARP probe: a request with an all-zero sender IP; the target IP is the address being probed
   (an all-zero target probes nothing and is not a probe) *)
Definition sp_is_probe (p : arp_pkt) : bool :=
  (pop p =? 1) && (psip p =? 0) && negb (ptip p =? 0).

(* a host asks who has the router's address: an ordinary request (sender IP set, not an
   announcement) for the router IP.  Reading fixed here: packets with a link-local sender or
   target are ignored by the handler by its documented convention ("skip link local packets"). *)
Definition sp_asks_router (c : cfg) (p : arp_pkt) : bool :=
  (pop p =? 1) && (ptip p =? router_ip c) && negb (psip p =? 0) && negb (psip p =? ptip p)
  && negb (link_local (psip p)) && negb (link_local (ptip p)).

(* latest offer recorded for m in the history (newest first) *)
Fixpoint sp_offer (m : mac) (hist : list (mac * option ip4)) : option ip4 :=
  match hist with
  | [] => None
  | (m', o) :: r => if m' =? m then o else sp_offer m r
  end.

(* "the probing MAC holds a different outstanding DHCP offer and the probed address lies in the home LAN"
   (offer: the outstanding IPv4 offer of the probing MAC, if any).  The property gives these as NECESSARY
   conditions; the reject is due under them except for the router's own address, where the reply would be
   a forged router binding and is governed by the confinement clause instead. *)
Definition sp_reject_cond (c : cfg) (offer : option ip4) (p : arp_pkt) : bool :=
  sp_is_probe p && negb (link_local (ptip p)) &&
  match offer with
  | Some o => negb (o =? ptip p) && in_lan c (ptip p) && negb (ptip p =? router_ip c)
  | None => false
  end.

Definition sp_probe_reject_due (c : cfg) (hist : list (mac * option ip4)) (p : arp_pkt) : bool :=
  sp_reject_cond c (sp_offer (psmac p) hist) p.

Definition sp_forged (c : cfg) (f : frame) : bool :=
  (fsip f =? router_ip c) && (fsmac f =? host_mac c).

Definition frame_eqb (a b : frame) : bool :=
  (fop a =? fop b) && (fedst a =? fedst b) && (fsmac a =? fsmac b) && (fsip a =? fsip b)
  && (ftmac a =? ftmac b) && (ftip a =? ftip b).

(* the packet that restores the router's real MAC at target m: sender = (router MAC, router IP), unicast to m *)
Definition sp_is_restore (c : cfg) (m : mac) (f : frame) : bool :=
  (fedst f =? m) && (fsmac f =? router_mac c) && (fsip f =? router_ip c).

(* the reply a probing / asking host p gets: unicast ARP reply to p's MAC claiming p's target address for our MAC *)
Definition sp_is_reply_to (c : cfg) (p : arp_pkt) (f : frame) : bool :=
  (fop f =? 2) && (fedst f =? psmac p) && (fsmac f =? host_mac c) && (fsip f =? ptip p) && (ftmac f =? psmac p).

(* ---- monitor ---- *)

Record sp_state := mkSp {
  sp_hunted : list mac;
  sp_hist : list (mac * option ip4);
  sp_closed : bool;
  sp_loops : list (mac * bool)      (* target MAC, terminated *)
}.
Definition sp_init : sp_state := mkSp [] [] false [].

Inductive viol := VConfined | VProbeReject | VSpoofReply | VStopUndone | VCloseStops | VIdempotent | VOther.

Definition mem (m : mac) (l : list mac) : bool := existsb (N.eqb m) l.

(* clauses that hold for every event: confinement, silence after Close *)
Definition sp_check_all (c : cfg) (s : sp_state) (out : list frame) : list viol :=
  (if forallb (fun f => negb (sp_forged c f) || mem (fedst f) (sp_hunted s)) out then [] else [VConfined])
  ++ (if sp_closed s && existsb (sp_forged c) out then [VCloseStops] else []).

Definition sp_set_loop (i : nat) (m : mac) (s : sp_state) : sp_state :=
  mkSp (sp_hunted s) (sp_hist s) (sp_closed s) (set_nth i (m, true) (sp_loops s)).

Definition sp_step (c : cfg) (s : sp_state) (e : event) (out : list frame) : sp_state * list viol :=
  let common := sp_check_all c s out in
  match e with
  | StartHunt a =>
      (* idempotent per MAC: a hunted MAC gets no second loop; the call itself sends nothing *)
      let v := match out with [] => [] | _ => [VIdempotent] end in
      if mem (amac a) (sp_hunted s) then (s, common ++ v)
      else (mkSp (amac a :: sp_hunted s) (sp_hist s) (sp_closed s) (sp_loops s ++ [(amac a, false)]), common ++ v)
  | StartHuntInvalid => (s, common ++ match out with [] => [] | _ => [VOther] end)
  | StopHunt m =>
      (mkSp (filter (fun x => negb (x =? m)) (sp_hunted s)) (sp_hist s) (sp_closed s) (sp_loops s), common)
  | Close => (mkSp (sp_hunted s) (sp_hist s) true (sp_loops s), common)
  | SetOffer m o => (mkSp (sp_hunted s) ((m, o) :: sp_hist s) (sp_closed s) (sp_loops s), common)
  | Wake i =>
      match nth_error (sp_loops s) i with
      | None => (s, common ++ match out with [] => [] | _ => [VOther] end)
      | Some (m, true) =>
          (* a terminated loop sends nothing any more *)
          (s, common ++ match out with [] => [] | _ => [VStopUndone] end)
      | Some (m, false) =>
          if sp_closed s then
            (* Close stops all loops: the loop ends at this wake-up and is silent *)
            (sp_set_loop i m s, common ++ match out with [] => [] | _ => [VCloseStops] end)
          else if mem m (sp_hunted s) then
            (* still hunted: one forged announcement (confinement is checked above), or the loop gives up
               with the restoring packet (the property does not forbid restoring a hunted host) *)
            match out with
            | [f] => if sp_forged c f then (s, common)
                     else if sp_is_restore c m f then (sp_set_loop i m s, common)
                     else (s, common ++ [VOther])
            | _ => (s, common ++ [VOther])
            end
          else
            (* no longer hunted: this wake-up must restore the router's MAC at m and end the loop *)
            match out with
            | [f] => if sp_is_restore c m f && negb (sp_forged c f) then (sp_set_loop i m s, common)
                     else (s, common ++ [VStopUndone])
            | _ => (s, common ++ [VStopUndone])
            end
      end
  | RxArp p =>
      let v :=
        if sp_closed s then
          (* Close stops all spoofing: a closed handler answers nothing *)
          match out with [] => [] | _ => [VCloseStops] end
        else if sp_is_probe p then
          if sp_probe_reject_due c (sp_hist s) p then
            match out with
            | [f] => if sp_is_reply_to c p f && (ftip f =? IP4_BCAST) then [] else [VProbeReject]
            | _ => [VProbeReject]
            end
          else match out with [] => [] | _ => [VProbeReject] end
        else if sp_asks_router c p && mem (psmac p) (sp_hunted s) then
          match out with
          | [f] => if sp_is_reply_to c p f && (ftip f =? psip p) then [] else [VSpoofReply]
          | _ => [VSpoofReply]
          end
        else match out with [] => [] | _ => [VSpoofReply] end
      in (s, common ++ v)
  end.

(* violations per position *)
Fixpoint sp_run (c : cfg) (s : sp_state) (tr : list (event * list frame)) : list (list viol) :=
  match tr with
  | [] => []
  | (e, out) :: r => let '(s', v) := sp_step c s e out in v :: sp_run c s' r
  end.
