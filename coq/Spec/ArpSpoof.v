(* Spec/ArpSpoof.v — what property C13 demands of an observed run, written from the
   property text (not from the code): a monitor over (event, emitted frames) pairs.

   It shares only the vocabulary types (cfg, frame, arp_pkt, event) and the two address
   predicates (in_lan, link_local: re-statements of net/netip) with the model; it keeps its
   OWN bookkeeping: the set of hunted MACs (started and not stopped), the history of offers,
   whether Close happened, whether the connection may currently fail writes, and for every
   spoof loop ever started its target MAC and how far its current iteration got.

   Readings fixed here (see docs/C13.md):
   * Confinement is judged where the handler DECIDES: a loop's forged frame is justified by the
     hunt list at that iteration's lookup (under the lock).  A StopHunt or Close that returns
     between the decision and the write does not make the (one) frame already decided a violation:
     the text forbids forged frames "after" the restoring packet, which still follows.
   * A frame is "sent" when it is handed to the connection; when the connection refuses the write
     (FailWrites) silence is accepted where a frame is due.
   * Frames the CALLER asks for through the public send API (AnnounceTo / RequestRaw / Reply with
     sender = our MAC + router IP) are the caller's doing. *)
From PV Require Import Base.Prelude Model.ArpSpoof.
Open Scope N_scope.

(* ---- packet vocabulary (RFC 826 / RFC 5227) ---- *)

(* ARP probe: a request with an all-zero sender IP; the target IP is the address being probed
   (an all-zero target probes nothing and is not a probe) *)
Definition sp_is_probe (p : arp_pkt) : bool :=
  (pop p =? 1) && (psip p =? 0) && negb (ptip p =? 0).

(* a host asks who has the router's address: an ordinary request (sender IP set, not an
   announcement) for the router IP.  Packets with a link-local sender or target are ignored by
   the handler by its documented convention ("skip link local packets"). *)
Definition sp_asks_router (c : cfg) (p : arp_pkt) : bool :=
  (pop p =? 1) && (ptip p =? router_ip c) && negb (psip p =? 0) && negb (psip p =? ptip p)
  && negb (link_local (psip p)) && negb (link_local (ptip p)).

(* latest offer recorded for m in the history (newest first) *)
Fixpoint sp_offer (m : mac) (hist : list (mac * option ip4)) : option ip4 :=
  match hist with
  | [] => None
  | (m', o) :: r => if m' =? m then o else sp_offer m r
  end.

(* "the probing MAC holds a different outstanding DHCP offer and the probed address lies in the home LAN"
   (offer: the outstanding IPv4 offer of the probing MAC, if any).  The property gives these as NECESSARY
   conditions; the reject is due under them except for the router's own address, where the reply would be
   a forged router binding and is governed by the confinement clause instead. *)
Definition sp_reject_cond (c : cfg) (offer : option ip4) (p : arp_pkt) : bool :=
  sp_is_probe p && negb (link_local (ptip p)) &&
  match offer with
  | Some o => negb (o =? ptip p) && in_lan c (ptip p) && negb (ptip p =? router_ip c)
  | None => false
  end.

Definition sp_probe_reject_due (c : cfg) (hist : list (mac * option ip4)) (p : arp_pkt) : bool :=
  sp_reject_cond c (sp_offer (psmac p) hist) p.

Definition sp_forged (c : cfg) (f : frame) : bool :=
  (fsip f =? router_ip c) && (fsmac f =? host_mac c).

(* the packet that restores the router's real MAC at target m: sender = (router MAC, router IP), unicast to m *)
Definition sp_is_restore (c : cfg) (m : mac) (f : frame) : bool :=
  (fedst f =? m) && (fsmac f =? router_mac c) && (fsip f =? router_ip c).

(* the reply a probing / asking host p gets: unicast ARP reply to p's MAC claiming p's target address for our MAC *)
Definition sp_is_reply_to (c : cfg) (p : arp_pkt) (f : frame) : bool :=
  (fop f =? 2) && (fedst f =? psmac p) && (fsmac f =? host_mac c) && (fsip f =? ptip p) && (ftmac f =? psmac p).

(* the caller's own forgery through the public send API *)
Definition sp_caller_forged (c : cfg) (e : event) : bool :=
  match e with
  | ApiAnnounceTo _ ip => ip =? router_ip c
  | ApiRequestRaw _ sender _ | ApiReply _ sender _ => (aip sender =? router_ip c) && (amac sender =? host_mac c)
  | _ => false
  end.

(* a received frame is an ARP packet the handler must look at: EtherType 0x0806, at least 28 bytes,
   Ethernet/IPv4 header 00 01 08 00 06 04 (RFC 826); decoded independently of the model's slice code *)
Definition sp_num (l : bytes) : N := fold_right (fun b acc => b + 256 * acc) 0 (rev l).
Definition sp_field (b : bytes) (off n : nat) : N := sp_num (firstn n (skipn off b)).
Definition sp_decode (ethertype : N) (b : bytes) : option arp_pkt :=
  if (ethertype =? 2054) && Nat.leb 28 (List.length b)
     && (sp_field b 0 2 =? 1) && (sp_field b 2 2 =? 2048) && (sp_field b 4 1 =? 6) && (sp_field b 5 1 =? 4)
  then Some (mkPkt (sp_field b 6 2) 0 (sp_field b 8 6) (sp_field b 14 4) (sp_field b 18 6) (sp_field b 24 4))
  else None.

(* ---- monitor ---- *)

Inductive sphase :=
| SIdle                 (* between iterations *)
| SLooked (h : bool)    (* this iteration's lookup happened on an open handler; h: the MAC was hunted then *)
| SChecked (h : bool)   (* ... and the loop goes on to send *)
| SDone.                (* the loop has terminated *)

Record sp_state := mkSp {
  sp_hunted : list mac;
  sp_hist : list (mac * option ip4);
  sp_closed : bool;
  sp_failing : bool;                  (* the connection may refuse writes *)
  sp_loops : list (mac * sphase);
  sp_rxq : list arp_pkt               (* requests / probes whose reply is decided, not yet written *)
}.
Definition sp_init : sp_state := mkSp [] [] false false [] [].

Inductive viol := VConfined | VProbeReject | VSpoofReply | VStopUndone | VCloseStops | VIdempotent
                | VPeriodic | VOther
                | VRestoreLast.   (* a forged frame written to a MAC after its restoring packet (checked on the trace by the dispatch) *)

Definition mem (m : mac) (l : list mac) : bool := existsb (N.eqb m) l.

Definition silent (out : list frame) (v : viol) : list viol := match out with [] => [] | _ => [v] end.

(* events of the handler's own making other than a loop's write: forged frames only to hunted MACs,
   nothing at all once closed *)
Definition sp_check_own (c : cfg) (s : sp_state) (out : list frame) : list viol :=
  (if forallb (fun f => negb (sp_forged c f) || mem (fedst f) (sp_hunted s)) out then [] else [VConfined])
  ++ (if sp_closed s then silent out VCloseStops else []).

Definition sp_set_phase (i : nat) (m : mac) (p : sphase) (s : sp_state) : sp_state :=
  mkSp (sp_hunted s) (sp_hist s) (sp_closed s) (sp_failing s) (set_nth i (m, p) (sp_loops s)) (sp_rxq s).
Definition sp_set_rxq (q : list arp_pkt) (s : sp_state) : sp_state :=
  mkSp (sp_hunted s) (sp_hist s) (sp_closed s) (sp_failing s) (sp_loops s) q.

(* whether a received, valid ARP packet gets a reply (decided now, written by RxReply): the probe-reject, or the
   spoof reply to a who-has-router request from a hunted MAC; ProcessPacket itself writes nothing *)
Definition sp_rx (c : cfg) (s : sp_state) (p : arp_pkt) (out : list frame) : sp_state * list viol :=
  if sp_closed s then (s, silent out VCloseStops)
  else if sp_is_probe p then
    if sp_probe_reject_due c (sp_hist s) p
    then (sp_set_rxq (sp_rxq s ++ [p]) s, silent out VProbeReject)
    else (s, silent out VProbeReject)
  else if sp_asks_router c p && mem (psmac p) (sp_hunted s) then
    (sp_set_rxq (sp_rxq s ++ [p]) s, silent out VSpoofReply)
  else (s, silent out VSpoofReply).

(* the reply a request in flight gets: to the asking MAC, claiming its target address for our MAC; ARP target IP =
   the asker's IP for the spoof reply, 255.255.255.255 for the probe-reject *)
Definition sp_reply_ok (c : cfg) (p : arp_pkt) (f : frame) : bool :=
  sp_is_reply_to c p f && (ftip f =? (if sp_is_probe p then IP4_BCAST else psip p)).

Definition sp_step (c : cfg) (s : sp_state) (e : event) (out : list frame) : sp_state * list viol :=
  match e with
  | StartHunt a =>
      (* idempotent per MAC: a hunted MAC gets no second loop; the call itself sends nothing *)
      let v := sp_check_own c s out ++ silent out VIdempotent in
      if mem (amac a) (sp_hunted s) then (s, v)
      else (mkSp (amac a :: sp_hunted s) (sp_hist s) (sp_closed s) (sp_failing s) (sp_loops s ++ [(amac a, SIdle)]) (sp_rxq s), v)
  | StartHuntInvalid => (s, sp_check_own c s out ++ silent out VOther)
  | StopHunt m =>
      (mkSp (filter (fun x => negb (x =? m)) (sp_hunted s)) (sp_hist s) (sp_closed s) (sp_failing s) (sp_loops s) (sp_rxq s),
       sp_check_own c s out)
  | Close => (mkSp (sp_hunted s) (sp_hist s) true (sp_failing s) (sp_loops s) (sp_rxq s), sp_check_own c s out)
  | SetOffer m o => (mkSp (sp_hunted s) ((m, o) :: sp_hist s) (sp_closed s) (sp_failing s) (sp_loops s) (sp_rxq s), sp_check_own c s out)
  | FailWrites k =>
      (mkSp (sp_hunted s) (sp_hist s) (sp_closed s) (match k with O => false | _ => true end) (sp_loops s) (sp_rxq s),
       sp_check_own c s out)
  | Lookup i =>
      (* the loop looks its MAC up (under the lock): this is where the iteration's frame is decided *)
      let v := silent out VOther in
      match nth_error (sp_loops s) i with
      | Some (m, SIdle) =>
          (* Close stops all loops: a loop that passes its lock section on a closed handler ends there *)
          (sp_set_phase i m (if sp_closed s then SDone else SLooked (mem m (sp_hunted s))) s, v)
      | _ => (s, v)
      end
  | Check i =>
      let v := silent out VOther in
      match nth_error (sp_loops s) i with
      | Some (m, SLooked h) => (sp_set_phase i m (SChecked h) s, v)
      | _ => (s, v)
      end
  | Send i =>
      match nth_error (sp_loops s) i with
      | Some (m, SChecked true) =>
          (* decided while hunted: one forged announcement to that MAC ("periodically while hunted") *)
          match out with
          | [f] => (sp_set_phase i m SIdle s, if sp_forged c f && (fedst f =? m) then [] else [VConfined])
          | [] => (sp_set_phase i m SIdle s, if sp_failing s then [] else [VPeriodic])
          | _ => (sp_set_phase i m SIdle s, [VOther])
          end
      | Some (m, SChecked false) =>
          (* decided while NOT hunted: the packet restoring the router's MAC, and the loop ends *)
          match out with
          | [f] => (sp_set_phase i m SDone s,
                    if sp_is_restore c m f && negb (sp_forged c f) then [] else [VStopUndone])
          | [] => (sp_set_phase i m SDone s, if sp_failing s then [] else [VStopUndone])
          | _ => (sp_set_phase i m SDone s, [VStopUndone])
          end
      | Some (m, SDone) => (s, silent out VStopUndone)     (* a terminated loop sends nothing any more *)
      | _ => (s, silent out VOther)
      end
  | RxArp p => sp_rx c s p out
  | RxRaw et b =>
      match sp_decode et b with
      | Some p => sp_rx c s p out
      | None => (s, silent out VOther)                     (* not a valid ARP packet: ignored *)
      end
  | RxReply k =>
      (* the reply decided for the k-th request in flight: to that MAC, claiming the router address *)
      match nth_error (sp_rxq s) k with
      | Some p =>
          (sp_set_rxq (remove_nth k (sp_rxq s)) s,
           match out with
           | [f] => if sp_reply_ok c p f then [] else [if sp_is_probe p then VProbeReject else VSpoofReply]
           | [] => if sp_failing s then [] else [if sp_is_probe p then VProbeReject else VSpoofReply]
           | _ => [VSpoofReply]
           end)
      | None => (s, silent out VSpoofReply)
      end
  | ApiInvalid => (s, silent out VOther)                   (* unusable arguments: error, nothing written *)
  | _ =>
      (* public send API: whatever it sends is the caller's call, but it must not forge on its own *)
      (s, if sp_caller_forged c e || forallb (fun f => negb (sp_forged c f)) out then [] else [VConfined])
  end.

(* violations per position *)
Fixpoint sp_run (c : cfg) (s : sp_state) (tr : list (event * list frame)) : list (list viol) :=
  match tr with
  | [] => []
  | (e, out) :: r => let '(s', v) := sp_step c s e out in v :: sp_run c s' r
  end.
