(* Spec/DHCP.v — what properties C11 and C12 demand of one step of the DHCP
   server, written from the property text (not from the code's structure):
   predicates over (state before the message, message, reply, state after).

   "At that moment" is the instant the server answers: the session has parsed
   the client's frame (Session.Parse precedes the handler), so capture state
   and tracked hosts are read from [sess_at]. *)
From PV Require Import Base.Prelude Model.DHCP.
Open Scope N_scope.

(* ---------------------------------------------------------------- *)
(* vocabulary *)

(* x is acknowledged (state Allocated) to a client identifier other than k *)
Definition acked_to_other (t : list lease) (k : cid) (x : ip) : bool :=
  existsb (fun l => lstate_eqb (l_state l) SAllocated && oeqb (l_ip l) (Some x) && negb (l_cid l =? k)) t.

(* C11, first sentence as a state invariant: no address acknowledged to two client identifiers *)
Definition Uniq (t : list lease) : Prop :=
  forall l1 l2 x, In l1 t -> In l2 t ->
    l_state l1 = SAllocated -> l_state l2 = SAllocated ->
    l_ip l1 = Some x -> l_ip l2 = Some x -> l_cid l1 = l_cid l2.
Definition uniqb (t : list lease) : bool :=
  forallb (fun l => match l_state l, l_ip l with
                    | SAllocated, Some x => negb (acked_to_other t (l_cid l) x)
                    | _, _ => true
                    end) t.

Definition sess_at (c : cfg) (s : dstate) (m : dmsg) : sess := ss (parse_effect c s m).
(* the subnet the client belongs to at that moment: netfilter when captured, home otherwise *)
Definition client_net (c : cfg) (s : dstate) (m : dmsg) : bool := sess_captured (sess_at c s m) (m_chaddr m).

(* the two subnets as the CONFIGURATION defines them (NIC home LAN; Config.NetfilterIP), whatever the
   handler holds internally: b = false home, b = true netfilter *)
Definition want_bits (c : cfg) (b : bool) : N := if b then c_nfbits c else c_homebits c.
Definition want_lan (c : cfg) (b : bool) : ip :=
  if b then pnet (c_nfip c) (c_nfbits c) else pnet (c_homeip c) (c_homebits c).
Definition want_bcast (c : cfg) (b : bool) : ip := want_lan c b + psize (want_bits c b) - 1.
Definition want_contains (c : cfg) (b : bool) (x : ip) : bool := pcontains (want_lan c b) (want_bits c b) x.

(* the handler's subnets are those of its configuration (true for a handler built without a lease
   file; for one built on a lease file it is theorem C12_stale_file_config) *)
Definition sub_ok (c : cfg) : Prop :=
  let f := c_sub c in
  pnet (f_addr1 f) (f_bits1 f) = pnet (c_homeip c) (c_homebits c) /\ f_bits1 f = c_homebits c /\
  f_gw1 f = c_routerip c /\ f_dns1 f = c_dns c /\ f_srv1 f = c_hostip c /\
  pnet (f_addr2 f) (f_bits2 f) = pnet (c_nfip c) (c_nfbits c) /\ f_bits2 f = c_nfbits c /\
  f_gw2 f = c_nfip c /\ f_dns2 f = cloudflare_family1 /\ f_srv2 f = c_hostip c.
(* ... and the netfilter gateway handed to Config.NetfilterIP is the host's own address *)
Definition cfg_ok (c : cfg) : Prop := sub_ok c /\ c_nfip c = c_hostip c.

(* C11, second sentence: addresses that must never be offered or acknowledged to this client *)
Definition res_own (c : cfg) (x : ip) : bool := x =? c_hostip c.
Definition res_router (c : cfg) (x : ip) : bool := x =? c_routerip c.
Definition res_network (c : cfg) (b : bool) (x : ip) : bool := x =? want_lan c b.
Definition res_broadcast (c : cfg) (b : bool) (x : ip) : bool := x =? want_bcast c b.
Definition res_outside (c : cfg) (b : bool) (x : ip) : bool := negb (want_contains c b x).
Definition res_tracked_other (se : sess) (mc : mac) (x : ip) : bool :=
  match sess_find se x with Some m' => negb (m' =? mc) | None => false end.
Definition reserved (c : cfg) (se : sess) (b : bool) (mc : mac) (x : ip) : bool :=
  res_own c x || res_router c x || res_network c b x || res_broadcast c b x || res_outside c b x
  || res_tracked_other se mc x.

Definition is_offer (r : reply) : bool := match r_type r with ROffer => true | _ => false end.
Definition is_ack (r : reply) : bool := match r_type r with RAck => true | _ => false end.
Definition is_lease_reply (r : reply) : bool := is_offer r || is_ack r.

(* ---------------------------------------------------------------- *)
(* C11 per reply *)

(* an ACK (resp. OFFER) never names an address acknowledged to a different client id *)
Definition c11_not_acked_elsewhere (s' : dstate) (m : dmsg) (r : reply) : bool :=
  negb (is_lease_reply r) || negb (acked_to_other (tbl s') (getcid m) (r_yi r)).
Definition c11_not_reserved (c : cfg) (s : dstate) (m : dmsg) (r : reply) : bool :=
  negb (is_lease_reply r) || negb (reserved c (sess_at c s m) (client_net c s m) (m_chaddr m) (r_yi r)).

(* ---------------------------------------------------------------- *)
(* C12 per reply *)

Definition opt (k : N) (r : reply) : option bytes := alookup k (r_opts r).
Fixpoint pos_of (k : N) (l : list (N * bytes)) : option nat :=
  match l with
  | [] => None
  | (k', _) :: r => if k' =? k then Some O else option_map S (pos_of k r)
  end.
Definition beqb (a b : bytes) : bool :=
  (List.length a =? List.length b)%nat && forallb (fun p => fst p =? snd p) (combine a b).
Definition obeqb (a : option bytes) (b : bytes) : bool :=
  match a with Some x => beqb x b | None => false end.

(* the configuration the client must receive: router, DNS, mask, server id, lease time *)
Definition want_router (c : cfg) (b : bool) : ip := if b then c_hostip c else c_routerip c.
Definition want_dns (c : cfg) (b : bool) : ip := if b then cloudflare_family1 else c_dns c.

Definition c12_subnet (c : cfg) (s : dstate) (m : dmsg) (r : reply) : bool :=
  negb (is_lease_reply r) ||
  (let b := client_net c s m in
   want_contains c b (r_yi r)
   && obeqb (opt 3 r) (ipb (want_router c b))
   && obeqb (opt 6 r) (ipb (want_dns c b))
   && obeqb (opt 1 r) (ipb (pmask (want_bits c b)))
   && obeqb (opt 54 r) (ipb (c_hostip c))
   && obeqb (opt 51 r) (ipb 14400)
   && (r_xid r =? m_xid m) && (r_chaddr r =? m_chaddr m)).
(* the configuration part of c12_subnet alone (everything but the address) *)
Definition c12_config (c : cfg) (s : dstate) (m : dmsg) (r : reply) : bool :=
  negb (is_lease_reply r) ||
  (let b := client_net c s m in
   obeqb (opt 3 r) (ipb (want_router c b))
   && obeqb (opt 6 r) (ipb (want_dns c b))
   && obeqb (opt 1 r) (ipb (pmask (want_bits c b)))
   && obeqb (opt 54 r) (ipb (c_hostip c))
   && obeqb (opt 51 r) (ipb 14400)
   && (r_xid r =? m_xid m) && (r_chaddr r =? m_chaddr m)).
Definition c12_mask_first (r : reply) : bool :=
  negb (is_lease_reply r) ||
  match pos_of 1 (r_opts r), pos_of 3 (r_opts r) with
  | Some i, Some j => (i <? j)%nat
  | _, _ => false
  end.

(* an ACK confirms the address offered in this transaction (same client id, same xid)
   or the client's current lease *)
Definition c12_ack_matches (s : dstate) (m : dmsg) (r : reply) : bool :=
  negb (is_ack r) ||
  match tget (getcid m) (tbl s) with
  | Some l =>
      (lstate_eqb (l_state l) SDiscover && oeqb (l_xid l) (Some (m_xid m)) && oeqb (l_offer l) (Some (r_yi r)))
      || (lstate_eqb (l_state l) SAllocated && oeqb (l_ip l) (Some (r_yi r)))
  | None => false
  end.

(* the address the REQUEST asks for: requested-ip option, else ciaddr *)
Definition asked (m : dmsg) : ip :=
  match m_req m with Some x => if x =? 0 then m_ciaddr m else x | None => m_ciaddr m end.

(* requests that cannot be honoured *)
Definition other_server (c : cfg) (m : dmsg) : bool :=
  match m_sid m with Some x => negb (x =? 0) && negb (x =? c_hostip c) | None => false end.
Definition lease_unknown (s : dstate) (m : dmsg) : bool :=
  match tget (getcid m) (tbl s) with
  | Some l => lstate_eqb (l_state l) SFree
  | None => true
  end.
Definition lease_mismatch (s : dstate) (m : dmsg) : bool :=
  match tget (getcid m) (tbl s) with
  | Some l => negb (l_mac l =? m_chaddr m)
              || (lstate_eqb (l_state l) SDiscover && negb (oeqb (l_offer l) (Some (asked m))))
              || (lstate_eqb (l_state l) SAllocated && negb (oeqb (l_ip l) (Some (asked m))))
  | None => false
  end.
Definition outside_subnet (c : cfg) (s : dstate) (m : dmsg) : bool :=
  negb (want_contains c (client_net c s m) (asked m)).
(* the client's lease is expired: its expiry lies before the instant the request is handled,
   whether or not MinuteTicker has freed it yet *)
Definition lease_expired (s : dstate) (m : dmsg) (now : Z) : bool :=
  match tget (getcid m) (tbl s) with
  | Some l => lstate_eqb (l_state l) SAllocated && (l_exp l <? now)%Z
  | None => false
  end.
Definition cannot_honour (c : cfg) (s : dstate) (m : dmsg) (now : Z) : bool :=
  other_server c m || lease_unknown s m || lease_expired s m now || lease_mismatch s m || outside_subnet c s m.
Definition c12_no_ack_when (c : cfg) (s : dstate) (m : dmsg) (now : Z) (r : option reply) : bool :=
  negb (cannot_honour c s m now) || match r with Some r => negb (is_ack r) | None => true end.

(* the DNS server of non-captured clients from the RAW configuration, as the property words it: the configured
   (IPv4) server; the real router when none is configured *)
Definition spec_dns (r : rawcfg) : ip :=
  match r_dns r with DnsV4 x => x | DnsMapped x => x | _ => r_routerip r end.
