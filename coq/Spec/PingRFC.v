(* Spec/PingRFC.v — which frames ARE echo replies, and for which identifier, written from the
   RFCs (894 Ethernet II, 791 IPv4, 792 ICMP, 8200 IPv6, 4443 ICMPv6) on plain byte lists,
   independently of the structure of Session.Parse.

   An echo reply for identifier i is
   * an Ethernet II frame (at least 14 bytes, individual source address, type 0x0800) carrying an
     IPv4 datagram: version 4, IHL >= 5, IHL*4 <= TotalLength <= bytes present (link padding may
     follow), protocol 1, whose payload (bytes IHL*4 .. TotalLength) is an ICMP message of at
     least 8 bytes with type 0 and identifier i; or
   * the same with type 0x86dd carrying an IPv6 packet: version 6, 40 + PayloadLength <= bytes
     present (link padding may follow), next header 58, whose payload (PayloadLength bytes) is an
     ICMPv6 message of at least 8 bytes with type 129 and identifier i.
   Readings where the property text is silent (DESIGN 4.3 ambiguity rule, library convention):
   the ICMP checksum and code are not part of well-formedness (the library documents "TODO: verify
   checksum?"); IPv6 extension headers are not walked; fragmentation is ignored. *)
From PV Require Import Base.Prelude.
Open Scope N_scope.

Definition at_ (l : bytes) (i : nat) : N := nth i l 0.
Definition word_at (l : bytes) (i : nat) : N := be16 (at_ l i) (at_ l (i + 1)).

Inductive icmp_family : Set := V4 | V6.

(* the ICMP/ICMPv6 message carried by the frame, with its family *)
Definition icmp_message (f : bytes) : option (icmp_family * bytes) :=
  if Nat.ltb (List.length f) 14 then None
  else if negb (at_ f 6 mod 2 =? 0) then None           (* group bit in the source address *)
  else
    let d := skipn 14 f in
    let n := List.length d in
    let et := word_at f 12 in
    if et =? 2048 then
      if Nat.ltb n 20 then None
      else
        let ver := at_ d 0 / 16 in
        let hl := N.to_nat (4 * (at_ d 0 mod 16)) in
        let tl := N.to_nat (word_at d 2) in
        if (ver =? 4) && Nat.leb 20 hl && Nat.leb hl tl && Nat.leb tl n && (at_ d 9 =? 1)
        then Some (V4, firstn (tl - hl) (skipn hl d))
        else None
    else if et =? 34525 then
      if Nat.ltb n 40 then None
      else
        let ver := at_ d 0 / 16 in
        let pl := N.to_nat (word_at d 4) in
        if (ver =? 6) && Nat.leb (40 + pl) n && (at_ d 6 =? 58)
        then Some (V6, firstn pl (skipn 40 d))
        else None
    else None.

Definition rfc_reply_id (f : bytes) : option N :=
  match icmp_message f with
  | Some (fam, m) =>
      if Nat.ltb (List.length m) 8 then None
      else if at_ m 0 =? (match fam with V4 => 0 | V6 => 129 end) then Some (word_at m 4)
      else None
  | None => None
  end.

(* echo requests, for the statement that they never complete a ping *)
Definition rfc_request_id (f : bytes) : option N :=
  match icmp_message f with
  | Some (fam, m) =>
      if Nat.ltb (List.length m) 8 then None
      else if at_ m 0 =? (match fam with V4 => 8 | V6 => 128 end) then Some (word_at m 4)
      else None
  | None => None
  end.
