(* Spec/TextSpec.v — reference renderings of the value types the fastlog
   appenders print (property C20).  Written from the documented behaviour of
   the Go standard library (strconv.AppendUint/AppendInt, fmt %02x/%04x,
   net.HardwareAddr.String, netip.Addr.String = RFC 5952, net.IP.String),
   independently of fastlog's code.  Texts are byte lists (ASCII codes).
   Every function here is executable; the harness validates each against
   the real standard library (kinds "sp_*" of Extract/D20.v). *)
From PV Require Export Base.Prelude.
Open Scope N_scope.

Definition text := list byte.

Definition digit (d : N) : byte := 48 + d.                      (* '0'+d *)
Definition hexd (d : N) : byte := if d <? 10 then 48 + d else 87 + d.  (* 0-9a-f *)

(* ---- decimal (strconv): most significant digit first, no leading zeros, "0" for 0 *)
Fixpoint dec_fuel (fuel : nat) (n : N) (acc : text) : text :=
  match fuel with
  | O => acc
  | S f => let acc' := digit (n mod 10) :: acc in
           if n <? 10 then acc' else dec_fuel f (n / 10) acc'
  end.
(* a number has at most as many decimal digits as binary digits *)
Definition dec (n : N) : text := dec_fuel (S (N.to_nat (N.size n))) n [].

(* positional value of a digit string: the inverse the spec is judged by *)
Definition dec_value (t : text) : N := fold_left (fun a c => a * 10 + (c - 48)) t 0.

Definition dec_Z (z : Z) : text :=
  match z with
  | Z0 => dec 0
  | Zpos p => dec (Npos p)
  | Zneg p => 45 :: dec (Npos p)                                 (* '-' *)
  end.

(* ---- fixed-width lower-case hex *)
Definition hex2 (b : N) : text := [hexd (b / 16); hexd (b mod 16)].
Definition hex4 (w : N) : text :=
  [hexd (w / 4096); hexd ((w / 256) mod 16); hexd ((w / 16) mod 16); hexd (w mod 16)].
Definition hex2_0x (b : N) : text := [48; 120] ++ hex2 b.       (* "0x%02x" *)
Definition hex4_0x (w : N) : text := [48; 120] ++ hex4 w.       (* "0x%04x" *)

(* hex of a 16-bit group without leading zeros ("0" for 0): RFC 5952 4.1 *)
Definition hexnl (w : N) : text :=
  if w <? 16 then [hexd w]
  else if w <? 256 then [hexd (w / 16); hexd (w mod 16)]
  else if w <? 4096 then [hexd (w / 256); hexd ((w / 16) mod 16); hexd (w mod 16)]
  else hex4 w.

(* ---- separators *)
Fixpoint join {A} (sep : list A) (l : list (list A)) : list A :=
  match l with
  | [] => []
  | [x] => x
  | x :: r => x ++ sep ++ join sep r
  end.

Definition COLON : byte := 58.
Definition DOT : byte := 46.

(* ---- MAC: six bytes, two hex digits each, ':' between (net.HardwareAddr.String) *)
Definition mac_text (m : bytes) : text := join [COLON] (map hex2 m).

(* ---- IPv4 dotted quad (netip.Addr.String for an IPv4 address) *)
Definition ip4_text (a : bytes) : text := join [DOT] (map dec a).

(* ---- IPv6, RFC 5952 as netip implements it.
   groups: the eight 16-bit groups, big endian. *)
Fixpoint groups (b : bytes) : list N :=
  match b with
  | hi :: lo :: r => (hi * 256 + lo) :: groups r
  | _ => []
  end.

(* length of the run of zero groups at the head (m: which groups are zero) *)
Fixpoint zrun (m : list bool) : nat :=
  match m with
  | true :: r => S (zrun r)
  | _ => O
  end.

(* (start, length) of the leftmost among the longest zero runs; length 0 if none *)
Fixpoint best_run (m : list bool) (pos : nat) (best : nat * nat) : nat * nat :=
  match m with
  | [] => best
  | _ :: r => let n := zrun m in
              best_run r (S pos) (if Nat.ltb (snd best) n then (pos, n) else best)
  end.

(* RFC 5952: 4.2.1 shorten as much as possible, 4.2.2 never shorten a single zero group,
   4.2.3 leftmost of equal runs.  m: which groups are zero, ts: the groups' texts, colon: ':' *)
Definition render {A} (colon : A) (m : list bool) (ts : list (list A)) : list A :=
  let '(s, n) := best_run m O (O, O) in
  if Nat.ltb n 2 then join [colon] ts
  else join [colon] (firstn s ts) ++ [colon; colon] ++ join [colon] (skipn (s + n) ts).

(* 4.1 no leading zeros, 4.3 lower case: hexnl *)
Definition ip6_plain (g : list N) : text := render COLON (map (N.eqb 0) g) (map hexnl g).

(* IPv4-mapped IPv6: ::ffff:a.b.c.d *)
Definition is4in6 (b : bytes) : bool :=
  Nat.eqb (List.length b) 16 && forallb (N.eqb 0) (firstn 10 b)
  && (nth 10 b 0 =? 255) && (nth 11 b 0 =? 255).

(* netip.Addr.String of a 16-byte address without zone *)
Definition ip6_text (b : bytes) : text :=
  if is4in6 b then [COLON; COLON; 102; 102; 102; 102; COLON] ++ ip4_text (skipn 12 b)
  else ip6_plain (groups b).

(* net.IP.String of a 4- or 16-byte net.IP: IPv4 and IPv4-mapped addresses in
   dotted form, every other 16-byte address as RFC 5952 text *)
Definition netip_text (b : bytes) : text :=
  if Nat.eqb (List.length b) 4 then ip4_text b
  else if is4in6 b then ip4_text (skipn 12 b)
  else ip6_plain (groups b).

(* ---- booleans (strconv.FormatBool) *)
Definition bool_text (b : bool) : text :=
  if b then [116; 114; 117; 101] else [102; 97; 108; 115; 101].
