(* Spec/Views2.v -- position specs of the remaining view types (see Spec/Views.v for the conventions):
   IPv6 (RFC 8200), hop-by-hop header (RFC 8200 4.3), ICMP (RFC 792 / 4443), echo, router
   advertisement list (the layout drawn in layer_icmp.go: RFC 1256), NDP messages (RFC 4861, RFC 4191),
   DNS header (RFC 1035 4.1.1), 802.2 LLC / SNAP (RFC 1042), RRCP (layout documented in layer_rrcp.go),
   IEEE 1905.1 CMDU header, 802.3x pause, LLDP (802.1AB TLV header: 7-bit type, 9-bit length),
   BOOTP/DHCP (RFC 2131 section 2, options RFC 2132). *)
From PV Require Export Spec.Views.
Open Scope string_scope.
Open Scope list_scope.
Open Scope N_scope.

(* from off to the end; nothing (nil) when the view ends at or before off+? -- used where the library
   documents "nil when there is nothing after the header" *)
Definition srest_or_nil (off : nat) : spec := fun l =>
  if Nat.leb (blen l) off then VNil else VR off (blen l - off).

(* ================================================================= *)
(* IPv6, RFC 8200 section 3 *)
Definition IP6_specs : stable :=
  [sp "Dst" (scopy 24 16); sp "FlowLabel" (sfield 12 20); sp "HeaderLen" (sconst (VN 40));
   sp "HopLimit" (sfield 56 8); sp "NextHeader" (sfield 48 8);
   (* the payload is the Payload Length octets after the 40-byte header (trailing bytes are not part of it) *)
   sp "Payload" (fun l => VR 40 (N.to_nat (bits l 32 16)));
   sp "PayloadLen" (sfield 32 16); sp "Src" (scopy 8 16); sp "String" sreturns;
   sp "TrafficClass" (sfield 4 8); sp "Version" (sfield 0 4)].

(* hop-by-hop options header: Next Header, Hdr Ext Len (8-octet units beyond the first 8), options *)
Definition hbh_len (l : bytes) : N := 8 * bits l 8 8 + 8.
(* the options area (RFC 8200 4.2) is a sequence of TLVs: Pad1 is the single octet 0; every other option is
   type(8) length(8) data(length octets).  Router alert (type 5, RFC 2711) has length 2, jumbo payload (type 0xC2,
   RFC 2675) length 4; an option that is not recognised (PadN = 1 is) and whose two highest type bits are not 00
   means "discard the packet" (RFC 8200 4.2).  The parse succeeds iff every option is acceptable and the options
   tile the area exactly. *)
Definition hbh_option_ok (t n : N) : bool :=
  if t =? 1 then true else if t =? 5 then n =? 2 else if t =? 194 then n =? 4 else t / 64 =? 0.
Fixpoint hbh_tlvs_ok (fuel : nat) (d : bytes) : bool :=
  match fuel with
  | O => false
  | S f =>
      match d with
      | [] => true
      | t :: r =>
          if t =? 0 then hbh_tlvs_ok f r else
          match r with
          | [] => false
          | n :: r' => if negb (hbh_option_ok t n) then false
                       else if Nat.ltb (List.length r') (N.to_nat n) then false else hbh_tlvs_ok f (skipn (N.to_nat n) r')
          end
      end
  end.
Definition hbh_options (l : bytes) : bytes := sub l 2 (N.to_nat (hbh_len l) - 2).
Definition HBH_specs : stable :=
  [sp "Data" (fun l => VR 2 (N.to_nat (hbh_len l) - 2)); sp "Len" (fun l => VN (hbh_len l));
   sp "NextHeader" (sfield 0 8);
   sp "ParseHopByHopExtensions" (fun l => if hbh_tlvs_ok (S (List.length (hbh_options l))) (hbh_options l) then VU else VE)].

(* ================================================================= *)
(* ICMP, RFC 792 / RFC 4443 *)
Definition ICMP_specs : stable :=
  [sp "Checksum" (sfield 16 16); sp "Code" (sfield 8 8); sp "Payload" (srest_or_nil 8);
   sp "RestOfHeader" (srange 4 4); sp "String" sreturns; sp "Type" (sfield 0 8)].
Definition ICMPEcho_specs : stable :=
  [sp "Checksum" (sfield 16 16); sp "Code" (sfield 8 8); sp "EchoData" (srest_or_nil 8);
   sp "EchoID" (sfield 32 16); sp "EchoSeq" (sfield 48 16); sp "String" sreturns; sp "Type" (sfield 0 8)].

(* router address list (layout drawn in layer_icmp.go, RFC 1256): 8-byte header, then NumAddrs entries of
   AddrSize 32-bit words; the address is the first 4 bytes of an entry (16 bytes for the 10-word entries the
   library also accepts) *)
Definition r4_entry (l : bytes) (i : nat) : value :=
  let size := bits l 40 8 in
  VR (8 + i * N.to_nat size * 4) (if size =? 4 then 4 else 16).
Definition R4_specs : stable :=
  [sp "AddrSize" (sfield 40 8);
   sp "Addrs" (fun l => VL (map (r4_entry l) (seq 0 (N.to_nat (bits l 32 8)))));
   sp "Checksum" (sfield 16 16); sp "Code" (sfield 8 8); sp "Lifetime" (sfield 48 16);
   sp "NumAddrs" (sfield 32 8); sp "String" sreturns; sp "Type" (sfield 0 8)].

(* ================================================================= *)
(* NDP, RFC 4861.  An option is type(1) length(1, units of 8 octets) value; a link-layer address
   option has length 1 and carries the 6-byte MAC at option offset 2.  The getters that return one
   address look only at the first option (the library's documented convention). *)
Definition first_lla_option (off : nat) (ty : N) : spec := fun l =>
  if Nat.leb (off + 8) (blen l) && (bits l (8 * off) 8 =? ty) && (bits l (8 * off + 8) 8 =? 1)
  then VR (off + 2) 6 else VNil.
(* RS_specs and RA_specs are in Spec/ViewsNDP.v (their Options() need the option specs) *)
(* NA (4.4): R S O, target, options *)
Definition NA_specs : stable :=
  [sp "Checksum" (sfield 16 16); sp "Code" (sfield 8 8); sp "Override" (sflag 34); sp "Router" (sflag 32);
   sp "Solicited" (sflag 33); sp "String" sreturns; sp "TargetAddress" (scopy 8 16);
   sp "TargetLLA" (first_lla_option 24 2); sp "Type" (sfield 0 8)].
(* NS (4.3) *)
Definition NS_specs : stable :=
  [sp "Checksum" (sfield 16 16); sp "Code" (sfield 8 8); sp "SourceLLA" (first_lla_option 24 1);
   sp "String" sreturns; sp "TargetAddress" (scopy 8 16); sp "Type" (sfield 0 8)].
(* Redirect (4.5): target, destination, options *)
Definition Redirect6_specs : stable :=
  [sp "Checksum" (sfield 16 16); sp "Code" (sfield 8 8); sp "DstAddress" (srange 24 16); sp "String" sreturns;
   sp "TargetAddress" (srange 8 16); sp "TargetLinkLayerAddr" (first_lla_option 40 2); sp "Type" (sfield 0 8)].

(* ================================================================= *)
(* DNS header, RFC 1035 4.1.1: ID | QR Opcode(4) AA TC RD | RA Z(3) RCODE(4) | counts *)
Definition DNS_specs : stable :=
  [sp "AA" (sflag 21); sp "ANCount" (sfield 48 16); sp "ARCount" (sfield 80 16); sp "NSCount" (sfield 64 16);
   sp "OpCode" (sfield 17 4); sp "QDCount" (sfield 32 16); sp "QR" (sflag 16); sp "RA" (sflag 24); sp "RD" (sflag 23);
   sp "ResponseCode" (sfield 28 4); sp "String" sreturns; sp "TC" (sflag 22); sp "TransactionID" (sfield 0 16);
   sp "Z" (sfield 25 3)].

(* ================================================================= *)
(* 802.2 LLC: DSAP SSAP control.  The control field is one octet in the U format (low two bits 11) and two
   octets in the I (bit 0 = 0) and S (low bits 01) formats; SNAP is the U frame AA AA 03. *)
Definition llc_control (l : bytes) : N := bits l 16 8.
Definition llc_is_snap (l : bytes) : bool := (llc_control l =? 3) && (bits l 0 8 =? 170) && (bits l 8 8 =? 170).
Definition llc_is_u (l : bytes) : bool := bits l 22 2 =? 3.
Definition llc_type (l : bytes) : string :=
  if llc_is_snap l then "snap" else if llc_is_u l then "u" else if bits l 23 1 =? 1 then "s" else "i".
Definition LLC_specs : stable :=
  [sp "Control" (fun l => VN (llc_control l)); sp "DSAP" (sfield 0 8);
   (* the information field starts after the control field: offset 3 for U frames, 4 otherwise; nothing when
      the frame ends inside the control field *)
   sp "Payload" (fun l => if llc_is_u l then VR 3 (blen l - 3)
                          else if Nat.ltb (blen l) 4 then VNil else VR 4 (blen l - 4));
   sp "SSAP" (sfield 8 8); sp "String" sreturns; sp "Type" (fun l => VS (llc_type l))].
(* SNAP, RFC 1042: AA AA 03 OUI(3) EtherType(2) data *)
Definition SNAP_specs : stable :=
  [sp "Control" (sfield 16 8); sp "DSAP" (sfield 0 8); sp "EtherType" (sfield 48 16);
   sp "OrganisationID" (srange 3 3); sp "Payload" (srest 8); sp "SSAP" (sfield 8 8); sp "String" sreturns].

(* RRCP (layer_rrcp.go): protocol(8) reply(1) opcode(7) authkey(16) register address(16) register data(16) *)
Definition RRCP_specs : stable :=
  [sp "AuthKey" (sfield 16 16); sp "OpCode" (sfield 9 7); sp "Protocol" (sfield 0 8);
   sp "RegisterAddr" (sfield 32 16); sp "RegisterData" (sfield 48 16); sp "Reply" (sflag 8);
   sp "SixBytes" (srange 1 6); sp "String" sreturns; sp "Zeros" (srest 7)].

(* IEEE 1905.1 CMDU header: version reserved type(16) id(16) fragment flags, then TLVs *)
Definition IEEE1905_specs : stable :=
  [sp "Flags" (sfield 56 8); sp "FragmentID" (sfield 48 8); sp "ID" (sfield 32 16); sp "Reserved" (sfield 8 8);
   sp "String" sreturns; sp "TLV" (srest 8); sp "Type" (sfield 16 16); sp "Version" (sfield 0 8)].

(* 802.3x pause: opcode(16) quanta(16) reserved *)
Definition Pause_specs : stable :=
  [sp "Duration" (sfield 16 16); sp "Opcode" (sfield 0 16); sp "Reserved" (srest 4); sp "String" sreturns].

Definition U880a_specs : stable := [].

(* ================================================================= *)
(* LLDP, IEEE 802.1AB 8.4: TLV = type(7 bits) length(9 bits) value(length octets).
   ChassisID = value of the first TLV, PortID = value of the TLV that follows it. A value that does not
   fit in the frame, or the End TLV (type 0 length 0), gives nil. *)
Definition lldp_tlv_len (l : bytes) (off : nat) : nat := N.to_nat (bits l (8 * off + 7) 9).
Definition lldp_tlv_type (l : bytes) (off : nat) : N := bits l (8 * off) 7.
Definition lldp_value (l : bytes) (off : nat) : value :=
  if Nat.ltb (blen l) (off + 2) then VNil
  else if (lldp_tlv_type l off =? 0) && Nat.eqb (lldp_tlv_len l off) 0 then VNil
  else if Nat.leb (off + 2 + lldp_tlv_len l off) (blen l) then vr (off + 2) (lldp_tlv_len l off) else VNil.
Definition lldp_next (l : bytes) (off : nat) : nat :=
  match lldp_value l off with VR _ n => (off + 2 + n)%nat | _ => (off + 2)%nat end.
Definition LLDP_specs : stable :=
  [sp "ChassisID" (fun l => lldp_value l 0); sp "PortID" (fun l => lldp_value l (lldp_next l 0)); sp "String" sreturns].

(* ================================================================= *)
(* BOOTP / DHCP, RFC 2131 section 2 (field offsets), RFC 2132 (options after the 4-byte cookie at 236) *)
(* sname / file are NUL-terminated strings inside fixed fields *)
Fixpoint strnlen (l : bytes) : nat :=
  match l with [] => 0%nat | b :: r => if b =? 0 then 0%nat else S (strnlen r) end.
Definition scstring (off n : nat) : spec := fun l => VR off (strnlen (sub l off n)).
(* options: Pad (0) one octet; End (255) stops; otherwise code, length, value. A later instance of a code
   replaces an earlier one (the library returns a map). The result lists (code, value range) by code. *)
Fixpoint dhcp_opts (fuel : nat) (l : bytes) (off : nat) : list (N * (nat * nat)) :=
  match fuel with
  | O => []
  | S f =>
      match skipn off l with
      | c :: n :: _ =>
          if c =? 255 then [] else
          if c =? 0 then dhcp_opts f l (S off) else
          if Nat.leb (off + 2 + N.to_nat n) (List.length l)
          then (c, ((off + 2)%nat, N.to_nat n)) :: dhcp_opts f l (off + 2 + N.to_nat n) else []
      | _ => []
      end
  end.
Fixpoint put_opt (c : N) (r : nat * nat) (m : list (N * (nat * nat))) : list (N * (nat * nat)) :=
  match m with
  | [] => [(c, r)]
  | (c', r') :: t => if c =? c' then (c, r) :: t else if c <? c' then (c, r) :: (c', r') :: t
                     else (c', r') :: put_opt c r t
  end.
Definition dhcp_opt_map (l : bytes) : list (N * (nat * nat)) :=
  fold_left (fun m cr => put_opt (fst cr) (snd cr) m) (dhcp_opts (S (List.length l)) l 240) [].
Definition DHCP4_specs : stable :=
  [sp "Broadcast" (sflag 80); sp "CHAddr" (srange 28 6); sp "CIAddr" (scopy 12 4); sp "Cookie" (srange 236 4);
   sp "File" (scstring 108 128); sp "Flags" (sfield 80 16); sp "GIAddr" (scopy 24 4); sp "HLen" (sfield 16 8);
   sp "HType" (sfield 8 8); sp "Hops" (sfield 24 8); sp "OpCode" (sfield 0 8); sp "Options" (srest_or_nil 240);
   sp "ParseOptions" (fun l => VL (map (fun cr => VL [VN (fst cr); VR (fst (snd cr)) (snd (snd cr))]) (dhcp_opt_map l)));
   sp "SIAddr" (scopy 20 4); sp "SName" (scstring 44 64); sp "Secs" (sfield 64 16); sp "String" sreturns;
   sp "XId" (srange 4 4); sp "YIAddr" (scopy 16 4)].

(* ---- LLDP.Type / LLDP.Capability: IEEE 802.1AB.  TLV type values (table 8-1): 0 End Of LLDPDU, 1 Chassis ID,
   2 Port ID, 3 Time To Live, 4 Port Description, 5 System Name, 6 System Description, 7 System Capabilities,
   8 Management Address (the library's own labels for them); any other type prints as its number.
   System capabilities (8.5.8, table 8-4): a 16-bit map, bit 0 (least significant) Other, 1 Repeater, 2 Bridge,
   3 WLAN access point, 4 Router, 5 Telephone, 6 DOCSIS cable device, 7 Station only -- i.e. of the two octets the
   LAST bit of the second octet is Other (bit offset 15 in the numbering of [bits]), listed Other first. ---- *)
Definition lldp_type_table : list (N * string) :=
  [(0, "endpdu"); (1, "chassisID"); (2, "port"); (3, "ttl"); (4, "portdesc"); (5, "name"); (6, "description");
   (7, "capabilities"); (8, "mngntaddr")].
Definition lldp_cap_table : list (nat * string) :=
  [(15%nat, "other"); (14%nat, "repeater"); (13%nat, "bridge"); (12%nat, "AP"); (11%nat, "router"); (10%nat, "phone");
   (9%nat, "docsis"); (8%nat, "station")].
Fixpoint join_comma (l : list string) : string :=
  match l with [] => "" | [a] => a | a :: r => a ++ "," ++ join_comma r end.
Definition lldp_capability_spec (v : bytes) : string :=
  if Nat.ltb (blen v) 2 then "" else
  join_comma (map snd (filter (fun bn => bits v (fst bn) 1 =? 1) lldp_cap_table)).
