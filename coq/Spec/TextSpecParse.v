(* Spec/TextSpecParse.v — readers of the reference renderings: what a text denotes.
   Each reference rendering of Spec/TextSpec.v is pinned to meaning by a theorem
   parse (render x) = x (Proofs/FastlogDenote.v); dec_value is in TextSpec.v. *)
From PV Require Export Base.Prelude Spec.TextSpec.
Open Scope N_scope.

(* value of a hex digit 0-9a-f *)
Definition hexval (c : byte) : N := if (48 <=? c) && (c <=? 57) then c - 48 else c - 87.
Definition hex_value (t : text) : N := fold_left (fun a c => a * 16 + hexval c) t 0.

(* fields of a text separated by sep (an empty text has one empty field) *)
Fixpoint split_on (sep : byte) (t : text) : list text :=
  match t with
  | [] => [[]]
  | c :: r =>
      if c =? sep then [] :: split_on sep r
      else match split_on sep r with
           | x :: xs => (c :: x) :: xs
           | [] => [[c]]
           end
  end.

(* aa:bb:cc:dd:ee:ff *)
Definition parse_mac (t : text) : bytes := map hex_value (split_on COLON t).
(* a.b.c.d *)
Definition parse_ip4 (t : text) : bytes := map dec_value (split_on DOT t).

Definition is_empty (t : text) : bool := match t with [] => true | _ => false end.
Fixpoint take_nonempty (l : list text) : list text :=
  match l with
  | x :: r => if is_empty x then [] else x :: take_nonempty r
  | [] => []
  end.
Fixpoint drop_nonempty (l : list text) : list text :=
  match l with
  | x :: r => if is_empty x then l else drop_nonempty r
  | [] => []
  end.
Fixpoint drop_empty (l : list text) : list text :=
  match l with
  | x :: r => if is_empty x then drop_empty r else l
  | [] => []
  end.

(* RFC 4291 2.2: x:x:x:x:x:x:x:x, where one "::" stands for the groups of zeros that make eight *)
Definition parse_ip6 (t : text) : list N :=
  let fs := split_on COLON t in
  let a := take_nonempty fs in
  match drop_nonempty fs with
  | [] => map hex_value fs
  | rest => let b := drop_empty rest in
            map hex_value a ++ repeat 0 (8 - List.length a - List.length b) ++ map hex_value b
  end.

(* netip's text of a 16-byte address: "::ffff:a.b.c.d" for the IPv4-mapped ones (the only texts with a
   dot), RFC 5952 text otherwise *)
Definition parse_ip6_text (t : text) : list N :=
  if existsb (N.eqb DOT) t then
    match t with
    | 58 :: 58 :: 102 :: 102 :: 102 :: 102 :: 58 :: rest =>
        match parse_ip4 rest with
        | [a; b; c; d] => [0; 0; 0; 0; 0; 65535; a * 256 + b; c * 256 + d]
        | _ => []
        end
    | _ => []
    end
  else parse_ip6 t.
