(* Spec/PingSpec.v — the property as a table-free reference machine.

   A call is (identifier, replied?, outcome).  It exists from the moment it has been given its
   identifier (its request may still be on its way out).  An echo reply carrying identifier i
   marks every call that has not returned and carries that identifier; a call that is refused
   (every identifier is waited for) or whose send fails returns that error; a call that ends returns nil iff it is marked, ErrTimeout otherwise.
   "No waiter entry is left behind": the entries needed are exactly the calls that have not
   returned and are not yet marked.
   Nothing here knows about a table, a next-id counter, channels or timers. *)
From PV Require Import Base.Prelude.
Open Scope N_scope.

Inductive outcome : Set := ONil | OTimeout | OErr.

Record call := mkCall { c_id : N; c_replied : bool; c_out : option outcome }.
Definition sstate := list (nat * call).

Inductive sevent : Set :=
| SBegin (p : nat) (i : N)
| SRefuse (p : nat) (i : N)
| SFail (p : nat)
| SReply (i : N)
| SOther
| SEnd (p : nat).

Fixpoint sget (st : sstate) (p : nat) : option call :=
  match st with
  | [] => None
  | (p', c) :: r => if Nat.eqb p' p then Some c else sget r p
  end.
Fixpoint sset (st : sstate) (p : nat) (c : call) : sstate :=
  match st with
  | [] => [(p, c)]
  | (p', c') :: r => if Nat.eqb p' p then (p, c) :: r else (p', c') :: sset r p c
  end.

Definition c_waiting (c : call) : bool := match c_out c with None => true | Some _ => false end.

Definition mark (i : N) (pc : nat * call) : nat * call :=
  if c_waiting (snd pc) && (c_id (snd pc) =? i)
  then (fst pc, mkCall (c_id (snd pc)) true (c_out (snd pc))) else pc.

(* the call p returns with the outcome f tells *)
Definition settle (st : sstate) (p : nat) (f : call -> outcome) : option sstate :=
  match sget st p with
  | Some c => if c_waiting c then Some (sset st p (mkCall (c_id c) (c_replied c) (Some (f c)))) else None
  | None => None
  end.

Definition sstep (st : sstate) (e : sevent) : option sstate :=
  match e with
  | SBegin p i =>
      match sget st p with
      | Some _ => None
      | None => Some (st ++ [(p, mkCall i false None)])
      end
  | SRefuse p i =>
      match sget st p with
      | Some _ => None
      | None => Some (st ++ [(p, mkCall i false (Some OErr))])
      end
  | SFail p => settle st p (fun _ => OErr)
  | SReply i => Some (map (mark i) st)
  | SOther => Some st
  | SEnd p => settle st p (fun c => if c_replied c then ONil else OTimeout)
  end.

Fixpoint srun (st : sstate) (es : list sevent) : option sstate :=
  match es with
  | [] => Some st
  | e :: r => match sstep st e with Some st' => srun st' r | None => None end
  end.

(* the waiter entries the calls need *)
Definition needs_entry (c : call) : bool := c_waiting c && negb (c_replied c).
Definition entries (st : sstate) : nat :=
  List.length (filter (fun pc : nat * call => needs_entry (snd pc)) st).
