(* Spec/PingSpec.v — the property as a table-free reference machine.

   A call is (identifier, replied?, outcome).  An echo reply carrying identifier i marks every call
   that is waiting with that identifier; a call that ends returns nil iff it is marked, ErrTimeout
   otherwise; a call whose send failed returned the error at once.  "No waiter entry is left
   behind": the entries needed are exactly the calls that are waiting and not yet marked.
   Nothing here knows about a table, a next-id counter, channels or timers. *)
From PV Require Import Base.Prelude.
Open Scope N_scope.

Inductive outcome : Set := ONil | OTimeout | OErr.

Record call := mkCall { c_id : N; c_replied : bool; c_out : option outcome }.
Definition sstate := list (nat * call).

Inductive sevent : Set :=
| SBegin (p : nat) (i : N) (ok : bool)
| SReply (i : N)
| SOther
| SEnd (p : nat).

Fixpoint sget (st : sstate) (p : nat) : option call :=
  match st with
  | [] => None
  | (p', c) :: r => if Nat.eqb p' p then Some c else sget r p
  end.

Definition c_waiting (c : call) : bool := match c_out c with None => true | Some _ => false end.

Definition mark (i : N) (pc : nat * call) : nat * call :=
  let '(p, c) := pc in
  if c_waiting c && (c_id c =? i) then (p, mkCall (c_id c) true (c_out c)) else (p, c).

Fixpoint finish (st : sstate) (p : nat) : option sstate :=
  match st with
  | [] => None
  | (p', c) :: r =>
      if Nat.eqb p' p then
        if c_waiting c
        then Some ((p', mkCall (c_id c) (c_replied c) (Some (if c_replied c then ONil else OTimeout))) :: r)
        else None
      else option_map (cons (p', c)) (finish r p)
  end.

Definition sstep (st : sstate) (e : sevent) : option sstate :=
  match e with
  | SBegin p i ok =>
      match sget st p with
      | Some _ => None
      | None => Some ((p, mkCall i false (if ok then None else Some OErr)) :: st)
      end
  | SReply i => Some (map (mark i) st)
  | SOther => Some st
  | SEnd p => finish st p
  end.

(* the waiter entries the calls need *)
Definition entries (st : sstate) : nat :=
  List.length (filter (fun pc : nat * call => c_waiting (snd pc) && negb (c_replied (snd pc))) st).
