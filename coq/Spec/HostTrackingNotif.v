(* Spec/HostTrackingNotif.v — C06: which notifications the property text expects, derived from the
   CHANGES of the reference model of C04 (Spec/HostTracking.v), not from the code's dirty flags.

   Discipline of the property: Notify directly after each Parse, channel drained after every step.
   A disciplined history is a list of units: a frame (Parse;Notify), a purge, or an API call that
   the text does not connect with notifications (Capture, Release). DHCP offers (SetDHCPv4IPOffer,
   DHCPv4Update) are outside this fragment: without them the DHCP path of Notify is silent.
   * frame from (m,k), creation rule fires:
       - every IPv4 address of m that this sighting turns offline: one offline notification, first;
       - k itself: one online notification if k is first seen, re-bound or returns from offline
         ("not current"), or if its registration by NewSession was never announced ([owed]);
       - repeat traffic: nothing.
   * purge: one offline notification per address that ages out (any order; compared sorted).
   Readings: re-binding announces the address online under the new MAC and says nothing about the
   old binding (the text is silent; library convention); the two addresses NewSession registers
   are announced with their first frame. *)
From PV Require Import Base.Prelude Model.Tables Spec.HostTracking.
Open Scope N_scope.

Inductive unit6 : Set :=
| UFrame (f : fsum) (now : Z)
| UPurge (now : Z)
| UOther.

Record rstate : Type := { r_map : amap; r_owed : list ip }.

Definition remove_ip (k : ip) (l : list ip) : list ip := filter (fun x => negb (ip_eqb x k)) l.

(* (address, online flag) pairs expected in this unit; [dom] enumerates candidate addresses in key order *)
Definition expect (c : cfg) (dom : list ip) (r : rstate) (u : unit6) : list (ip * bool) * rstate :=
  match u with
  | UFrame f now =>
      match ref_event c f with
      | None => ([], r)
      | Some (m, k) =>
          let a := r_map r in
          let a' := sight m k now a in
          let current := match a k with Some e => (a_mac e =? m) && a_online e | None => false end in
          let flipped := filter (fun k' => negb (ip_eqb k' k) &&
                                  match a k', a' k' with
                                  | Some e, Some e' => a_online e && negb (a_online e')
                                  | _, _ => false end) dom in
          let owed := existsb (ip_eqb k) (r_owed r) in
          (map (fun k' => (k', false)) flipped ++ (if negb current || owed then [(k, true)] else []),
           {| r_map := a'; r_owed := remove_ip k (r_owed r) |})
      end
  | UPurge now =>
      let a := r_map r in
      let a' := age c now a in
      let aged := filter (fun k => match a k, a' k with
                                   | Some e, Some e' => a_online e && negb (a_online e')
                                   | _, _ => false end) dom in
      (map (fun k => (k, false)) aged,
       {| r_map := a'; r_owed := filter (fun x => negb (existsb (ip_eqb x) aged)) (r_owed r) |})
  | UOther => ([], r)
  end.

Definition rinit (c : cfg) (now : Z) : rstate :=
  {| r_map := ref_init c now; r_owed := [own_ip4 c; rt_ip4 c] |}.
