(* Spec/HostTrackingNotif.v — C06: which notifications the property text expects, derived from the
   CHANGES of the reference model of C04 (Spec/HostTracking.v), not from the code's dirty flags.

   Discipline of the property: Notify directly after each Parse, channel drained after every step.
   A disciplined history is a list of units: a frame (Parse;Notify), a purge, a name update through one of
   the five Update*Name methods, or an API call that the text does not connect with notifications
   (Capture, Release). DHCP offers (SetDHCPv4IPOffer,
   DHCPv4Update) are outside this fragment: without them the DHCP path of Notify is silent.
   * frame from (m,k), creation rule fires:
       - every IPv4 address of m that this sighting turns offline: one offline notification, first;
       - k itself: one online notification if k is first seen, re-bound or returns from offline
         ("not current"), or if its registration by NewSession was never announced ([owed]);
       - repeat traffic: nothing.
   * purge: one offline notification per address that ages out (any order; compared sorted).
   * name update of a tracked address that changes the learned name: one further notification is OWED to
     that address.  It is delivered with the next notification about the address: its next frame (repeat
     traffic then is not quiet), its return from offline, its ageing, or -- when the address is offline --
     together with the offline notifications that precede the online notification of a new IPv4 address of
     the same MAC (library convention: "notify previous IP4 is offline").
   Readings: re-binding announces the address online under the new MAC and says nothing about the
   old binding (the text is silent; library convention); the two addresses NewSession registers
   are announced with their first frame. *)
From PV Require Import Base.Prelude Model.Tables Spec.HostTracking.
Open Scope N_scope.

Inductive unit6 : Set :=
| UFrame (f : fsum) (now : Z)
| UPurge (now : Z)
| UName (kd : nkind) (k : ip) (name : N)
| UOther.

Record rstate : Type := { r_map : amap; r_owed : list ip; r_names : ip -> names }.

Definition remove_ip (k : ip) (l : list ip) : list ip := filter (fun x => negb (ip_eqb x k)) l.

(* address x was online before and is (still tracked and) offline after *)
Definition flipb (a a' : amap) (x : ip) : bool :=
  match a x, a' x with
  | Some e, Some e' => a_online e && negb (a_online e')
  | _, _ => false
  end.

Definition currentb (a : amap) (m : mac) (k : ip) : bool :=
  match a k with Some e => (a_mac e =? m) && a_online e | None => false end.

(* x is (after the sighting) an offline address of MAC m *)
Definition sib_off (m : mac) (a' : amap) (x : ip) : bool :=
  match a' x with Some e' => (a_mac e' =? m) && negb (a_online e') | None => false end.

(* the offline notification about another address x that a frame from (m,k) carries along: x was turned offline
   by this sighting, or x is an offline address of m to which a notification is still owed and k is a new IPv4
   address of m *)
Definition sibling_due (a a' : amap) (owed : list ip) (m : mac) (k x : ip) : bool :=
  negb (currentb a m k) && is4 k && sib_off m a' x && (flipb a a' x || existsb (ip_eqb x) owed).

Definition created (a : amap) (m : mac) (k : ip) : bool :=
  match a k with Some e => negb (a_mac e =? m) | None => true end.

Definition name_changes (r : rstate) (kd : nkind) (k : ip) (name : N) : bool :=
  match r_map r k with
  | Some _ => snd (merge (nget kd (r_names r k)) name)
  | None => false
  end.

(* ---- per address: the notifications about address x that unit u owes (the "due changes") ---- *)
Definition due (c : cfg) (r : rstate) (u : unit6) (x : ip) : list (ip * bool) :=
  match u with
  | UFrame f now =>
      match ref_event c f with
      | None => []
      | Some (m, k) =>
          if ip_eqb x k
          then (if negb (currentb (r_map r) m k) || existsb (ip_eqb k) (r_owed r) then [(k, true)] else [])
          else (if sibling_due (r_map r) (sight m k now (r_map r)) (r_owed r) m k x then [(x, false)] else [])
      end
  | UPurge now => if flipb (r_map r) (age c now (r_map r)) x then [(x, false)] else []
  | UName _ _ _ => []
  | UOther => []
  end.

Definition rnext (c : cfg) (r : rstate) (u : unit6) : rstate :=
  match u with
  | UFrame f now =>
      match ref_event c f with
      | None => r
      | Some (m, k) =>
          let a' := sight m k now (r_map r) in
          {| r_map := a';
             r_owed := filter (fun x => negb (ip_eqb x k) && negb (sibling_due (r_map r) a' (r_owed r) m k x)) (r_owed r);
             r_names := fun x => if ip_eqb x k && created (r_map r) m k then names0 else r_names r x |}
      end
  | UPurge now =>
      {| r_map := age c now (r_map r);
         r_owed := filter (fun x => negb (flipb (r_map r) (age c now (r_map r)) x)) (r_owed r);
         r_names := r_names r |}
  | UName kd k name =>
      if name_changes r kd k name
      then {| r_map := r_map r; r_owed := k :: r_owed r;
              r_names := fun x => if ip_eqb x k then nset kd name (r_names r k) else r_names r x |}
      else r
  | UOther => r
  end.

(* ---- the same as one list per unit, over an enumeration [dom] of candidate addresses (executable) ---- *)
Definition expect (c : cfg) (dom : list ip) (r : rstate) (u : unit6) : list (ip * bool) * rstate :=
  (match u with
   | UFrame f now =>
       match ref_event c f with
       | None => []
       | Some (m, k) =>
           map (fun k' => (k', false))
               (filter (fun k' => negb (ip_eqb k' k) &&
                                  sibling_due (r_map r) (sight m k now (r_map r)) (r_owed r) m k k') dom) ++
           (if negb (currentb (r_map r) m k) || existsb (ip_eqb k) (r_owed r) then [(k, true)] else [])
       end
   | UPurge now => map (fun k => (k, false)) (filter (flipb (r_map r) (age c now (r_map r))) dom)
   | UName _ _ _ => []
   | UOther => []
   end, rnext c r u).

Definition rinit (c : cfg) (now : Z) : rstate :=
  {| r_map := ref_init c now; r_owed := [own_ip4 c; rt_ip4 c]; r_names := fun _ => names0 |}.

(* the notifications about one address, in emission order *)
Definition about (x : ip) (l : list (ip * bool)) : list (ip * bool) := filter (fun p => ip_eqb (fst p) x) l.
