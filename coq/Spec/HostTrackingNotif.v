(* Spec/HostTrackingNotif.v — C06: which notifications the property text expects, derived from the
   CHANGES of the reference model of C04 (Spec/HostTracking.v), not from the code's dirty flags.

   Discipline of the property: Notify directly after each Parse, channel drained after every step.
   A disciplined history is a list of units: a frame (Parse;Notify), a purge, a name update through one of
   the five Update*Name methods, or an API call that the text does not connect with notifications
   (Capture, Release). DHCP offers (SetDHCPv4IPOffer,
   DHCPv4Update) are outside this fragment: without them the DHCP path of Notify is silent.
   * frame from (m,k), creation rule fires:
       - every IPv4 address of m that this sighting turns offline: one offline notification, first;
       - k itself: one online notification if k is first seen, re-bound or returns from offline
         ("not current"), or if its registration by NewSession was never announced ([owed]);
       - repeat traffic: nothing.
   * purge: one offline notification per address that ages out (any order; compared sorted).
   * DHCP (library mechanism, "a DHCP-announced address"): SetDHCPv4IPOffer(mac, y) and DHCPv4Update(mac, y)
     record y as the address offered to mac.  DHCPv4Update is a sighting of (mac, y) without a frame: what it
     changes (y created / re-bound / back online, y's learned DHCP name changed, other IPv4 addresses of mac
     turned offline) is OWED and delivered later.  A frame that creates no host event and is classified DHCPv4
     delivers, through its source MAC's recorded offer y, what is owed to y (with the owed offline siblings of
     y first when y is IPv4), carrying y's tracked online flag.  The record of the offer lives exactly as
     long as the MAC is tracked: a MAC that loses its last address (purge, re-binding) loses the offer.
   * learned names: an announcement (Update*Name, DHCPv4Update) carries the four attributes Name, Model, OS,
     Manufacturer, each possibly empty.  What is learned about the address is, attribute by attribute, the
     announced value where it is not empty and the previous value otherwise ([learn]); the announcement CHANGES
     the learned names iff the result differs from what was known ([learns]); an identical repeat changes nothing.
   * name update of a tracked address that changes the learned name: one further notification is OWED to
     that address.  It is delivered with the next notification about the address: its next frame (repeat
     traffic then is not quiet), its return from offline, its ageing, or -- when the address is offline --
     together with the offline notifications that precede the online notification of a new IPv4 address of
     the same MAC (library convention: "notify previous IP4 is offline").
   Readings: re-binding announces the address online under the new MAC and says nothing about the
   old binding (the text is silent; library convention); the two addresses NewSession registers
   are announced with their first frame. *)
From PV Require Import Base.Prelude Model.Tables Spec.HostTracking.
Open Scope N_scope.

Inductive unit6 : Set :=
| UFrame (f : fsum) (now : Z)
| UPurge (now : Z)
| UName (kd : nkind) (k : ip) (name : nent)
| UUpdate (m : mac) (k : ip) (name : nent) (now : Z)     (* DHCPv4Update *)
| UOffer (m : mac) (k : ip)                           (* SetDHCPv4IPOffer *)
| UOther.

Record rstate : Type := {
  r_map : amap;
  r_owed : list ip;            (* addresses to which a notification is owed *)
  r_names : ip -> names;       (* learned names per address *)
  r_offer : mac -> ip;         (* the address offered to a MAC (IPnone: none recorded) *)
  r_dom : list ip }.           (* every address ever tracked (finite support of r_map) *)

Definition remove_ip (k : ip) (l : list ip) : list ip := filter (fun x => negb (ip_eqb x k)) l.
Definition add_ip (k : ip) (l : list ip) : list ip := if existsb (ip_eqb k) l then l else k :: l.

(* address x was online before and is (still tracked and) offline after *)
Definition flipb (a a' : amap) (x : ip) : bool :=
  match a x, a' x with
  | Some e, Some e' => a_online e && negb (a_online e')
  | _, _ => false
  end.

Definition currentb (a : amap) (m : mac) (k : ip) : bool :=
  match a k with Some e => (a_mac e =? m) && a_online e | None => false end.

(* x is (after the sighting) an offline address of MAC m *)
Definition sib_off (m : mac) (a' : amap) (x : ip) : bool :=
  match a' x with Some e' => (a_mac e' =? m) && negb (a_online e') | None => false end.

(* the offline notification about another address x that a frame from (m,k) carries along: x was turned offline
   by this sighting, or x is an offline address of m to which a notification is still owed and k is a new IPv4
   address of m *)
Definition sibling_due (a a' : amap) (owed : list ip) (m : mac) (k x : ip) : bool :=
  negb (currentb a m k) && is4 k && sib_off m a' x && (flipb a a' x || existsb (ip_eqb x) owed).

Definition created (a : amap) (m : mac) (k : ip) : bool :=
  match a k with Some e => negb (a_mac e =? m) | None => true end.

(* ---- what an announcement teaches: written independently of the model's [merge] (linked by [merge_learn]) ---- *)
Definition pick (old new : N) : N := if new =? 0 then old else new.
Definition learn (old new : nent) : nent :=
  {| ne_name := pick (ne_name old) (ne_name new); ne_model := pick (ne_model old) (ne_model new);
     ne_os := pick (ne_os old) (ne_os new); ne_manuf := pick (ne_manuf old) (ne_manuf new) |}.
Definition nent_eqb (a b : nent) : bool :=
  (ne_name a =? ne_name b) && (ne_model a =? ne_model b) && (ne_os a =? ne_os b) && (ne_manuf a =? ne_manuf b).
Definition learns (old new : nent) : bool := negb (nent_eqb (learn old new) old).

Definition name_changes (r : rstate) (kd : nkind) (k : ip) (name : nent) : bool :=
  match r_map r k with
  | Some _ => learns (nget kd (r_names r k)) name
  | None => false
  end.

(* ---- the recorded DHCP offers live as long as their MAC is tracked ---- *)
Definition owns (a : amap) (m : mac) (x : ip) : bool :=
  match a x with Some e => a_mac e =? m | None => false end.
Definition has_addr (a : amap) (dom : list ip) (m : mac) : bool := existsb (owns a m) dom.
(* after the map changed from a to a': a MAC that owned an address and owns none any more is forgotten, with its offer *)
Definition offers_after (a a' : amap) (dom : list ip) (off : mac -> ip) : mac -> ip :=
  fun m => if has_addr a dom m && negb (has_addr a' dom m) then IPnone else off m.
Definition set_offer_of (off : mac -> ip) (m : mac) (k : ip) : mac -> ip := fun m' => if m' =? m then k else off m'.

(* the DHCP path of Notify: a frame without host event, classified DHCPv4, whose source MAC has a recorded offer y
   that is tracked and owed a notification *)
Definition dhcp_target (r : rstate) (f : fsum) : option ip :=
  if f_dhcp4 f then
    let y := r_offer r (f_src f) in
    if is_valid y && match r_map r y with Some _ => true | None => false end && existsb (ip_eqb y) (r_owed r)
    then Some y else None
  else None.
Definition dhcp_sib (a : amap) (owed : list ip) (y x : ip) : bool :=
  is4 y && match a y, a x with
           | Some ey, Some ex => (a_mac ex =? a_mac ey) && negb (a_online ex)
           | _, _ => false end && existsb (ip_eqb x) owed.

(* DHCPv4Update(m, k, name): what the sighting without frame makes owed *)
Definition upd_base (r : rstate) (m : mac) (k : ip) : names := if created (r_map r) m k then names0 else r_names r k.
Definition upd_changed (r : rstate) (m : mac) (k : ip) (name : nent) : bool := learns (n_dhcp (upd_base r m k)) name.

(* ---- per address: the notifications about address x that unit u owes (the "due changes") ---- *)
Definition due (c : cfg) (r : rstate) (u : unit6) (x : ip) : list (ip * bool) :=
  match u with
  | UFrame f now =>
      match ref_event c f with
      | Some (m, k) =>
          if ip_eqb x k
          then (if negb (currentb (r_map r) m k) || existsb (ip_eqb k) (r_owed r) then [(k, true)] else [])
          else (if sibling_due (r_map r) (sight m k now (r_map r)) (r_owed r) m k x then [(x, false)] else [])
      | None =>
          match dhcp_target r f with
          | Some y =>
              if ip_eqb x y
              then [(y, match r_map r y with Some e => a_online e | None => false end)]
              else (if dhcp_sib (r_map r) (r_owed r) y x then [(x, false)] else [])
          | None => []
          end
      end
  | UPurge now => if flipb (r_map r) (age c now (r_map r)) x then [(x, false)] else []
  | _ => []
  end.

Definition rnext (c : cfg) (r : rstate) (u : unit6) : rstate :=
  match u with
  | UFrame f now =>
      match ref_event c f with
      | Some (m, k) =>
          let a' := sight m k now (r_map r) in
          let dom' := add_ip k (r_dom r) in
          {| r_map := a';
             r_owed := filter (fun x => negb (ip_eqb x k) && negb (sibling_due (r_map r) a' (r_owed r) m k x)) (r_owed r);
             r_names := fun x => if ip_eqb x k && created (r_map r) m k then names0 else r_names r x;
             r_offer := offers_after (r_map r) a' dom' (r_offer r);
             r_dom := dom' |}
      | None =>
          match dhcp_target r f with
          | Some y =>
              {| r_map := r_map r;
                 r_owed := filter (fun x => negb (ip_eqb x y) && negb (dhcp_sib (r_map r) (r_owed r) y x)) (r_owed r);
                 r_names := r_names r; r_offer := r_offer r; r_dom := r_dom r |}
          | None => r
          end
      end
  | UPurge now =>
      let a' := age c now (r_map r) in
      {| r_map := a';
         r_owed := filter (fun x => negb (flipb (r_map r) a' x)) (r_owed r);
         r_names := r_names r;
         r_offer := offers_after (r_map r) a' (r_dom r) (r_offer r);
         r_dom := r_dom r |}
  | UName kd k name =>
      if name_changes r kd k name
      then {| r_map := r_map r; r_owed := k :: r_owed r;
              r_names := fun x => if ip_eqb x k then nset kd (learn (nget kd (r_names r k)) name) (r_names r k) else r_names r x;
              r_offer := r_offer r; r_dom := r_dom r |}
      else r
  | UUpdate m k name now =>
      if is_valid k && negb (is_unspecified k) then
        let a := r_map r in
        let a' := sight m k now a in
        let dom' := add_ip k (r_dom r) in
        let base := upd_base r m k in
        {| r_map := a';
           r_owed := (if negb (currentb a m k) || upd_changed r m k name then [k] else []) ++
                     filter (fun x => negb (ip_eqb x k) && flipb a a' x) dom' ++ r_owed r;
           r_names := fun x => if ip_eqb x k then (if upd_changed r m k name then nset KDhcp (learn (n_dhcp base) name) base else base)
                               else r_names r x;
           r_offer := set_offer_of (offers_after a a' dom' (r_offer r)) m k;
           r_dom := dom' |}
      else r
  | UOffer m k =>
      {| r_map := r_map r; r_owed := r_owed r; r_names := r_names r;
         r_offer := set_offer_of (r_offer r) m k; r_dom := r_dom r |}
  | UOther => r
  end.

(* ---- the same as one list per unit, enumerated over the tracked addresses (executable) ---- *)
Definition expect (c : cfg) (r : rstate) (u : unit6) : list (ip * bool) * rstate :=
  (match u with
   | UFrame f now =>
       match ref_event c f with
       | Some (m, k) =>
           map (fun k' => (k', false))
               (filter (fun k' => negb (ip_eqb k' k) &&
                                  sibling_due (r_map r) (sight m k now (r_map r)) (r_owed r) m k k') (r_dom r)) ++
           (if negb (currentb (r_map r) m k) || existsb (ip_eqb k) (r_owed r) then [(k, true)] else [])
       | None =>
           match dhcp_target r f with
           | Some y =>
               map (fun k' => (k', false))
                   (filter (fun k' => negb (ip_eqb k' y) && dhcp_sib (r_map r) (r_owed r) y k') (r_dom r)) ++
               [(y, match r_map r y with Some e => a_online e | None => false end)]
           | None => []
           end
       end
   | UPurge now => map (fun k => (k, false)) (filter (flipb (r_map r) (age c now (r_map r))) (r_dom r))
   | _ => []
   end, rnext c r u).

Definition rinit (c : cfg) (now : Z) : rstate :=
  {| r_map := ref_init c now; r_owed := [own_ip4 c; rt_ip4 c]; r_names := fun _ => names0;
     r_offer := fun _ => IPnone; r_dom := add_ip (rt_ip4 c) [own_ip4 c] |}.

(* the notifications about one address, in emission order *)
Definition about (x : ip) (l : list (ip * bool)) : list (ip * bool) := filter (fun p => ip_eqb (fst p) x) l.
