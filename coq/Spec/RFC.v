(* Spec/RFC.v — reference decoder for C02, written from the RFC header layouts and the
   library's documented classification tables, independently of the control flow of
   Session.Parse: the frame is cut into headers with firstn/skipn, fields are position
   formulas, classification is by three association tables.

   Readings (DESIGN.md C02):
   (i)   frame-level views run from their start offset to the end of the captured frame;
         whether a header is "truncated" is judged against the captured bytes;
   (ii)  802.1Q / 802.1ad tags are not unwrapped: such frames are PayloadEther with the
         payload after the tag(s); a frame shorter than its tagged header is truncated;
   (iii) the IPv4 version nibble is not a length field: version <> 4 is not an error;
   (iv)  only frames with a unicast source MAC are decoded beyond the Ethernet header
         ("Only interested in unicast ethernet", layer_frame.go:163);
   (v)   the IP protocol table is indexed by the protocol / next-header number alone
         (no IPv6 extension-header walk). *)
From PV Require Export Base.Prelude.
Open Scope N_scope.

(* ---------------------------------------------------------------- *)
(* Result of the reference decoder: the projection C02 constrains. *)

Record ref_frame := mkRef {
  r_id : N;                       (* PayloadID *)
  r_smac : bytes; r_dmac : bytes; (* Ethernet source / destination *)
  r_sip : bytes; r_dip : bytes;   (* [] when no IP layer *)
  r_sport : N; r_dport : N;       (* 0 when no UDP/TCP layer *)
  r_ip4 : option nat;             (* start offset of the IPv4 header, if present *)
  r_ip6 : option nat;
  r_udp : option nat;
  r_tcp : option nat;
  r_pay : nat                     (* start of the payload; every view runs to the end of the frame *)
}.

(* Error classes of the library's sentinels: RLen = ErrFrameLen ("invalid frame length": a header of the selected
   path is truncated or its own length fields are inconsistent with the bytes present), RParse = ErrParseFrame
   ("failed to parse frame": the hard-coded ARP validation - fewer than 28 bytes or hardware length <> 6 - which
   the library reports under this sentinel).  The property text does not name classes; the reference follows the
   library's documented sentinels, one class per check, so that a change of class is a visible difference. *)
Inductive rerr := RLen | RParse.
Inductive ref_result := RErr (e : rerr) | ROk (r : ref_frame).

(* ---------------------------------------------------------------- *)
(* Field positions *)

Definition byte_at (b : bytes) (i : nat) : N := nth i b 0.
Definition word_at (b : bytes) (i : nat) : N := be16 (nth i b 0) (nth (i + 1) b 0).

(* ---------------------------------------------------------------- *)
(* Tables *)

Fixpoint lookup {A} (k : N) (t : list (N * A)) : option A :=
  match t with
  | [] => None
  | (k', v) :: r => if k =? k' then Some v else lookup k r
  end.

(* length of the 802.1Q / 802.1ad tag block that follows the 14-byte header *)
Definition tag_table : list (N * nat) := [ (33024, 4%nat) (* 0x8100 *) ; (34984, 8%nat) (* 0x88a8 *) ].

Inductive l3 := L3IP4 | L3IP6 | L3ARP | L3Leaf (id : N).

Definition ethertype_table : list (N * l3) :=
  [ (2048, L3IP4)        (* 0x0800 *)
  ; (34525, L3IP6)       (* 0x86dd *)
  ; (2054, L3ARP)        (* 0x0806 *)
  ; (34824, L3Leaf 23)   (* 0x8808 Ethernet pause *)
  ; (34969, L3Leaf 24)   (* 0x8899 RRCP *)
  ; (35020, L3Leaf 25)   (* 0x88cc LLDP *)
  ; (35085, L3Leaf 26)   (* 0x890d 802.11r *)
  ; (35130, L3Leaf 27)   (* 0x893a IEEE 1905 *)
  ; (26992, L3Leaf 28)   (* 0x6970 Sonos *)
  ; (34826, L3Leaf 29)   (* 0x880a *)
  ].

Inductive l4 := L4UDP | L4TCP | L4ICMP (id : N) | L4Leaf (id : N).

Definition ipproto_table : list (N * l4) :=
  [ (17, L4UDP) ; (6, L4TCP) ; (1, L4ICMP 6) ; (58, L4ICMP 7) ; (2, L4Leaf 22) ].

(* UDP port rules in documented precedence order *)
Inductive port_rule := Either (p : N) | DstIs (p : N).
Definition rule_matches (r : port_rule) (sp dp : N) : bool :=
  match r with
  | Either p => (sp =? p) || (dp =? p)
  | DstIs p => dp =? p
  end.

Definition udp_rules : list (port_rule * N) :=
  [ (Either 443, 14)                       (* SSL / QUIC *)
  ; (DstIs 67, 10) ; (DstIs 68, 10)        (* DHCPv4 *)
  ; (DstIs 546, 11) ; (DstIs 547, 11)      (* DHCPv6 *)
  ; (Either 53, 12)                        (* DNS *)
  ; (Either 5353, 13)                      (* mDNS *)
  ; (Either 5355, 21)                      (* LLMNR *)
  ; (Either 123, 15)                       (* NTP *)
  ; (Either 1900, 16)                      (* SSDP *)
  ; (Either 3702, 17)                      (* WSD *)
  ; (DstIs 137, 18) ; (DstIs 138, 18)      (* NBNS *)
  ; (DstIs 32412, 19) ; (DstIs 32414, 19)  (* Plex *)
  ; (Either 10001, 20)                     (* Ubiquiti *)
  ].

Fixpoint first_rule (sp dp : N) (t : list (port_rule * N)) : option N :=
  match t with
  | [] => None
  | (r, id) :: rest => if rule_matches r sp dp then Some id else first_rule sp dp rest
  end.

(* ---------------------------------------------------------------- *)
(* Layer 4.  [seg] = the bytes from the start of the transport header to the end of the
   captured frame, [off] = its offset in the frame; [base] already carries MACs and IPs. *)

Definition with_l4 (base : ref_frame) (id : N) (sp dp : N) (udp tcp : option nat) (pay : nat) : ref_frame :=
  mkRef id (r_smac base) (r_dmac base) (r_sip base) (r_dip base) sp dp (r_ip4 base) (r_ip6 base) udp tcp pay.

Definition ref_l4 (base : ref_frame) (proto : N) (seg : bytes) (off : nat) : ref_result :=
  match lookup proto ipproto_table with
  | Some L4UDP =>
      if Nat.ltb (length seg) 8 then RErr RLen else
      let sp := word_at seg 0 in
      let dp := word_at seg 2 in
      match first_rule sp dp udp_rules with
      | Some id => ROk (with_l4 base id sp dp (Some off) None (off + 8))
      | None => ROk (with_l4 base 8 sp dp (Some off) None off)
      end
  | Some L4TCP =>
      (* RFC 793: fixed header of 20 bytes; the data offset (high nibble of byte 12, in 32-bit words) is the
         header's own length field: at least 5 words and not beyond the bytes present *)
      if Nat.ltb (length seg) 20 then RErr RLen else
      let doff := N.to_nat (4 * (byte_at seg 12 / 16)) in
      if Nat.ltb doff 20 || Nat.ltb (length seg) doff then RErr RLen else
      ROk (with_l4 base 9 (word_at seg 0) (word_at seg 2) None (Some off) off)
  | Some (L4ICMP id) =>
      if Nat.ltb (length seg) 8 then RErr RLen else ROk (with_l4 base id 0 0 None None off)
  | Some (L4Leaf id) => ROk (with_l4 base id 0 0 None None off)
  | None => ROk (with_l4 base (r_id base) 0 0 None None off)
  end.

(* ---------------------------------------------------------------- *)
(* Layer 3.  [pkt] = bytes after the Ethernet header, [off] = its offset (14). *)

(* IPv4 (RFC 791): header length 4*IHL >= 20, IHL*4 <= TotalLen <= bytes present *)
Definition ref_ip4 (smac dmac pkt : bytes) (off : nat) : ref_result :=
  if Nat.ltb (length pkt) 20 then RErr RLen else
  let ihl := N.to_nat (4 * (byte_at pkt 0 mod 16)) in
  let tl := N.to_nat (word_at pkt 2) in
  if Nat.ltb ihl 20 || Nat.ltb tl ihl || Nat.ltb (length pkt) tl then RErr RLen else
  let base := mkRef 4 smac dmac (sub pkt 12 4) (sub pkt 16 4) 0 0 (Some off) None None None (off + ihl) in
  ref_l4 base (byte_at pkt 9) (skipn ihl pkt) (off + ihl).

(* IPv6 (RFC 8200): fixed 40-byte header, 40 + PayloadLen <= bytes present *)
Definition ref_ip6 (smac dmac pkt : bytes) (off : nat) : ref_result :=
  if Nat.ltb (length pkt) 40 then RErr RLen else
  if Nat.ltb (length pkt) (40 + N.to_nat (word_at pkt 4)) then RErr RLen else
  let base := mkRef 5 smac dmac (sub pkt 8 16) (sub pkt 24 16) 0 0 None (Some off) None None (off + 40) in
  ref_l4 base (byte_at pkt 6) (skipn 40 pkt) (off + 40).

(* ARP over Ethernet/IPv4 (RFC 826): 28 bytes, hardware address length 6 *)
Definition ref_arp (smac dmac pkt : bytes) (off : nat) : ref_result :=
  if Nat.ltb (length pkt) 28 then RErr RParse else
  if negb (byte_at pkt 4 =? 6) then RErr RParse else
  ROk (mkRef 3 smac dmac [] [] 0 0 None None None None off).

(* ---------------------------------------------------------------- *)
(* Ethernet *)

Definition is_group_mac (mac : bytes) : bool := N.odd (byte_at mac 0).

Definition ref_decode (b : bytes) : ref_result :=
  if Nat.ltb (length b) 14 then RErr RLen else
  let dmac := sub b 0 6 in
  let smac := sub b 6 6 in
  let et := word_at b 12 in
  let hdr := (14 + match lookup et tag_table with Some n => n | None => 0 end)%nat in
  if Nat.ltb (length b) hdr then RErr RLen else
  let ether id pay := ROk (mkRef id smac dmac [] [] 0 0 None None None None pay) in
  if is_group_mac smac then ether 1 hdr else
  if et <? 1536 then ether 2 14%nat else
  match lookup et ethertype_table with
  | Some L3IP4 => ref_ip4 smac dmac (skipn 14 b) 14
  | Some L3IP6 => ref_ip6 smac dmac (skipn 14 b) 14
  | Some L3ARP => ref_arp smac dmac (skipn 14 b) 14
  | Some (L3Leaf id) => ether id 14%nat
  | None => ether 1 hdr
  end.
