(* Spec/RFC1035.v — domain names, compression and resource records as RFC 1035
   sections 3.1, 4.1.3, 4.1.4 define them; written from the RFC, independent
   of the structure of the library's decoder.

   A message is a list of octets.  A name at an offset is a sequence of labels:
     - a zero octet ends the name (the root label);
     - an octet 1..63 (top bits 00) is the length of a label that follows;
     - an octet with top bits 11 starts a two-octet pointer: the remaining 14
       bits are an offset from the start of the message where the name continues;
     - top bits 01 and 10 are reserved.
   [name_at msg off labels next]: a name starts at [off], decompresses to
   [labels], and the field that contains it ends at [next] (a pointer ends the
   field: next = position after the first pointer, or after the root octet). *)
From PV Require Export Base.Prelude.
Open Scope N_scope.

Inductive name_at (msg : bytes) : nat -> list bytes -> nat -> Prop :=
| NA_root : forall off,
    nth_error msg off = Some 0 ->
    name_at msg off [] (S off)
| NA_label : forall off c labels next,
    nth_error msg off = Some c -> 1 <= c -> c <= 63 ->
    (off + 1 + N.to_nat c <= length msg)%nat ->
    name_at msg (off + 1 + N.to_nat c) labels next ->
    name_at msg off (sub msg (S off) (N.to_nat c) :: labels) next
| NA_ptr : forall off c1 c2 labels next',
    nth_error msg off = Some c1 -> 192 <= c1 ->
    nth_error msg (S off) = Some c2 ->
    name_at msg (N.to_nat ((c1 - 192) * 256 + c2)) labels next' ->
    name_at msg off labels (off + 2).

(* the same relation counting the pointers followed (compression depth) *)
Inductive name_at_d (msg : bytes) : nat -> nat -> list bytes -> nat -> Prop :=
| NAd_root : forall off,
    nth_error msg off = Some 0 ->
    name_at_d msg 0 off [] (S off)
| NAd_label : forall d off c labels next,
    nth_error msg off = Some c -> 1 <= c -> c <= 63 ->
    (off + 1 + N.to_nat c <= length msg)%nat ->
    name_at_d msg d (off + 1 + N.to_nat c) labels next ->
    name_at_d msg d off (sub msg (S off) (N.to_nat c) :: labels) next
| NAd_ptr : forall d off c1 c2 labels next',
    nth_error msg off = Some c1 -> 192 <= c1 ->
    nth_error msg (S off) = Some c2 ->
    name_at_d msg d (N.to_nat ((c1 - 192) * 256 + c2)) labels next' ->
    name_at_d msg (S d) off labels (off + 2).

(* length of the uncompressed wire form: one length octet per label, plus the root octet *)
Fixpoint wire_len (labels : list bytes) : nat :=
  match labels with
  | [] => 1
  | l :: r => S (length l) + wire_len r
  end.

(* RFC 1035 2.3.4: names are limited to 255 octets *)
Definition valid_name (msg : bytes) (off : nat) (labels : list bytes) (next : nat) : Prop :=
  name_at msg off labels next /\ (wire_len labels <= 255)%nat.

(* presentation form without trailing dot: labels joined by '.' *)
Fixpoint dotted (labels : list bytes) : bytes :=
  match labels with
  | [] => []
  | [l] => l
  | l :: r => l ++ 46 :: dotted r
  end.

(* ------------------------------------------------------------------ *)
(* Reference decoder: follows the definition; [fuel] bounds the number of
   labels and pointers visited. A name that exists visits every offset at most
   once, so [S (length msg)] steps always suffice (proved in Proofs/RFC1035.v). *)
Fixpoint ref_name (fuel : nat) (msg : bytes) (off : nat) : option (list bytes * nat) :=
  match fuel with
  | O => None
  | S f =>
      match nth_error msg off with
      | None => None
      | Some c =>
          if c =? 0 then Some ([], S off)
          else if c <=? 63 then
            if Nat.leb (off + 1 + N.to_nat c) (length msg) then
              match ref_name f msg (off + 1 + N.to_nat c) with
              | Some (ls, next) => Some (sub msg (S off) (N.to_nat c) :: ls, next)
              | None => None
              end
            else None
          else if 192 <=? c then
            match nth_error msg (S off) with
            | Some c2 =>
                match ref_name f msg (N.to_nat ((c - 192) * 256 + c2)) with
                | Some (ls, _) => Some (ls, (off + 2)%nat)
                | None => None
                end
            | None => None
            end
          else None
      end
  end.

Definition ref_decode (msg : bytes) (off : nat) : option (list bytes * nat) :=
  ref_name (S (length msg)) msg off.

(* number of pointers on the way (compression depth) of a name the decoder accepts *)
Fixpoint ref_depth (fuel : nat) (msg : bytes) (off : nat) : nat :=
  match fuel with
  | O => 0
  | S f =>
      match nth_error msg off with
      | None => 0
      | Some c =>
          if c =? 0 then 0
          else if c <=? 63 then ref_depth f msg (off + 1 + N.to_nat c)
          else if 192 <=? c then
            match nth_error msg (S off) with
            | Some c2 => S (ref_depth f msg (N.to_nat ((c - 192) * 256 + c2)))
            | None => 0
            end
          else 0
      end
  end.

(* ------------------------------------------------------------------ *)
(* 4.1.2 question, 4.1.3 resource record *)
Definition u16_at (msg : bytes) (off : nat) : option N :=
  match nth_error msg off, nth_error msg (S off) with
  | Some a, Some b => Some (a * 256 + b)
  | _, _ => None
  end.
Definition u32_at (msg : bytes) (off : nat) : option N :=
  match u16_at msg off, u16_at msg (off + 2) with
  | Some a, Some b => Some (a * 65536 + b)
  | _, _ => None
  end.

Record ref_question := mkRQ { rq_name : list bytes; rq_type : N; rq_class : N }.

(* [lim]: the limit on the uncompressed length of a name; RFC 1035 says 255 (NAME_LIMIT) *)
Definition NAME_LIMIT : nat := 255.

(* Rendering rule: names are handed on in presentation form, labels joined by '.', without escapes
   (RFC 1035 5.1 would write "\." for a dot inside a label).  A name is presentable in that form only
   if no label contains a '.' octet; a reader that renders names this way must refuse the others
   (as golang.org/x/net/dns/dnsmessage does since golang/go#56246). *)
Definition presentable (ls : list bytes) : bool :=
  forallb (fun l => negb (existsb (fun c => c =? 46) l)) ls.
Definition name_ok (lim : nat) (ls : list bytes) : bool := Nat.leb (wire_len ls) lim && presentable ls.

Definition ref_question_at (lim : nat) (msg : bytes) (off : nat) : option (ref_question * nat) :=
  match ref_decode msg off with
  | Some (ls, n) =>
      if name_ok lim ls then
        match u16_at msg n, u16_at msg (n + 2) with
        | Some t, Some c => Some (mkRQ ls t c, (n + 4)%nat)
        | _, _ => None
        end
      else None
  | None => None
  end.

Record ref_rr := mkRR { rr_owner : list bytes; rr_type : N; rr_class : N; rr_ttl : N;
                        rr_rdoff : nat; rr_rdlen : nat }.

Definition ref_rr_at (lim : nat) (msg : bytes) (off : nat) : option (ref_rr * nat) :=
  match ref_decode msg off with
  | Some (ls, n) =>
      if name_ok lim ls then
        match u16_at msg n, u16_at msg (n + 2), u32_at msg (n + 4), u16_at msg (n + 8) with
        | Some t, Some c, Some ttl, Some rdl =>
            let nx := (n + 10 + N.to_nat rdl)%nat in
            if Nat.leb nx (length msg) then Some (mkRR ls t c ttl (n + 10) (N.to_nat rdl), nx) else None
        | _, _, _, _ => None
        end
      else None
  | None => None
  end.

Fixpoint ref_rrs (lim : nat) (count : nat) (msg : bytes) (off : nat) : option (list ref_rr * nat) :=
  match count with
  | O => Some ([], off)
  | S c =>
      match ref_rr_at lim msg off with
      | Some (r, nx) =>
          match ref_rrs lim c msg nx with
          | Some (l, e) => Some (r :: l, e)
          | None => None
          end
      | None => None
      end
  end.

(* ------------------------------------------------------------------ *)
(* What a naming cache learns from the answer section (RFC 1035 3.4.1 A, 3.3.1 CNAME,
   3.3.12 PTR, RFC 3596 AAAA, 3.5 IN-ADDR.ARPA). *)
Inductive learned :=
| LA (owner : bytes) (ip : bytes) (ttl : N)
| LAAAA (owner : bytes) (ip : bytes) (ttl : N)
| LCNAME (owner : bytes) (cname : bytes) (ttl : N)
| LPTR (target : bytes) (ip : bytes) (ttl : N)   (* ip: the IPv4 address the owner d.c.b.a.in-addr.arpa names *)
| LSkip                                           (* a record the cache has no use for *)
| LBad.                                           (* malformed RDATA: the message is rejected *)

(* decimal octet without leading zeros, 0..255 *)
Fixpoint dec_octet_aux (s : bytes) (acc : N) : option N :=
  match s with
  | [] => Some acc
  | c :: r => if (48 <=? c) && (c <=? 57) then dec_octet_aux r (acc * 10 + (c - 48)) else None
  end.
Definition dec_octet (s : bytes) : option N :=
  match s with
  | [] => None
  | [c] => dec_octet_aux s 0
  | c :: _ => if c =? 48 then None
              else if Nat.ltb 3 (length s) then None
              else match dec_octet_aux s 0 with
                   | Some v => if v <=? 255 then Some v else None
                   | None => None
                   end
  end.

(* owner labels [d; c; b; a; "in-addr"; "arpa"] name the address a.b.c.d *)
Definition IN_ADDR : bytes := [105; 110; 45; 97; 100; 100; 114].
Definition ARPA : bytes := [97; 114; 112; 97].
Fixpoint lab_eqb (a b : bytes) : bool :=
  match a, b with
  | [], [] => true
  | x :: a', y :: b' => (x =? y) && lab_eqb a' b'
  | _, _ => false
  end.

Definition reverse_v4 (owner : list bytes) : option bytes :=
  match owner with
  | [d; c; b; a; l1; l2] =>
      if lab_eqb l1 IN_ADDR && lab_eqb l2 ARPA then
        match dec_octet a, dec_octet b, dec_octet c, dec_octet d with
        | Some a', Some b', Some c', Some d' => Some [a'; b'; c'; d']
        | _, _, _, _ => None
        end
      else None
  | _ => None
  end.

Definition learn (lim : nat) (msg : bytes) (r : ref_rr) : learned :=
  let owner := dotted (rr_owner r) in
  if rr_type r =? 1 then
    if Nat.eqb (rr_rdlen r) 4 then LA owner (sub msg (rr_rdoff r) 4) (rr_ttl r) else LBad
  else if rr_type r =? 28 then
    if Nat.eqb (rr_rdlen r) 16 then LAAAA owner (sub msg (rr_rdoff r) 16) (rr_ttl r) else LBad
  else if rr_type r =? 5 then
    match ref_decode msg (rr_rdoff r) with
    | Some (ls, _) => if name_ok lim ls then LCNAME owner (dotted ls) (rr_ttl r) else LBad
    | None => LBad
    end
  else if rr_type r =? 12 then
    match reverse_v4 (rr_owner r) with
    | None => LSkip             (* not an IPv4 reverse name: of no use to the cache, RDATA not examined *)
    | Some ip =>
        match ref_decode msg (rr_rdoff r) with
        | Some (ls, _) => if name_ok lim ls then LPTR (dotted ls) ip (rr_ttl r) else LBad
        | None => LBad
        end
    end
  else LSkip.

(* a whole response as the naming handler reads it: header counts, one question, the answers *)
Record ref_msg := mkRM { rm_qname : bytes; rm_learned : list learned }.

Definition is_bad (l : learned) : bool := match l with LBad => true | _ => false end.

Definition ref_message (lim : nat) (msg : bytes) : option ref_msg :=
  match u16_at msg 4, u16_at msg 6 with
  | Some qd, Some an =>
      if (qd =? 1) && Nat.leb 12 (length msg) then
        match ref_question_at lim msg 12 with
        | Some (q, off) =>
            match ref_rrs lim (N.to_nat an) msg off with
            | Some (rrs, _) =>
                let ls := map (learn lim msg) rrs in
                if existsb is_bad ls then None
                else Some (mkRM (dotted (rq_name q)) ls)
            | None => None
            end
        | None => None
        end
      else None
  | _, _ => None
  end.

(* ------------------------------------------------------------------ *)
(* The cache entry of one question name: first record learned for a key stays
   (the library's documented insert-if-absent convention). *)
Record cache := mkCache {
  c_a : list (bytes * bytes * N);       (* ip, owner, ttl      keyed by ip *)
  c_aaaa : list (bytes * bytes * N);    (* ip, owner, ttl      keyed by ip *)
  c_cname : list (bytes * bytes * N);   (* owner, cname, ttl   keyed by owner *)
  c_ptr : list (bytes * bytes * N) }.   (* target, ip, ttl     keyed by target *)

Definition cache_empty : cache := mkCache [] [] [] [].

Definition add_absent (k v : bytes) (t : N) (l : list (bytes * bytes * N)) : list (bytes * bytes * N) * bool :=
  if existsb (fun x => lab_eqb (fst (fst x)) k) l then (l, false) else (l ++ [(k, v, t)], true).

Definition learn_into (c : cache) (l : learned) : cache * bool :=
  match l with
  | LA owner ip ttl => let '(x, u) := add_absent ip owner ttl (c_a c) in (mkCache x (c_aaaa c) (c_cname c) (c_ptr c), u)
  | LAAAA owner ip ttl => let '(x, u) := add_absent ip owner ttl (c_aaaa c) in (mkCache (c_a c) x (c_cname c) (c_ptr c), u)
  | LCNAME owner cn ttl => let '(x, u) := add_absent owner cn ttl (c_cname c) in (mkCache (c_a c) (c_aaaa c) x (c_ptr c), u)
  | LPTR target ip ttl => let '(x, u) := add_absent target ip ttl (c_ptr c) in (mkCache (c_a c) (c_aaaa c) (c_cname c) x, u)
  | LSkip | LBad => (c, false)
  end.

Fixpoint learn_all (c : cache) (u : bool) (ls : list learned) : cache * bool :=
  match ls with
  | [] => (c, u)
  | l :: r => let '(c', u') := learn_into c l in learn_all c' (u || u') r
  end.

(* ------------------------------------------------------------------ *)
(* RFC 1002 4.2.18 NODE STATUS RESPONSE, RDATA: NUM_NAMES, then NUM_NAMES entries of
   16 octets name + 2 octets flags (bit 15 = G, group name), then statistics.
   The host name a naming handler extracts is the first UNIQUE (G = 0) name; the
   library's presentation convention strips trailing NULs, then trailing spaces. *)
Fixpoint strip_right (c : N) (rev_b : bytes) : bytes :=
  match rev_b with
  | x :: r => if x =? c then strip_right c r else rev_b
  | [] => []
  end.
Definition present_name (raw : bytes) : bytes := rev (strip_right 32 (strip_right 0 (rev raw))).

Fixpoint node_names (b : bytes) (n : nat) (off : nat) : list (bytes * bool) :=
  match n with
  | O => []
  | S k => (sub b off 16, 128 <=? nth (off + 16) b 0) :: node_names b k (off + 18)
  end.

Definition node_status_wf (b : bytes) : bool :=
  match b with
  | [] => false
  | n :: _ => Nat.leb (1 + 18 * N.to_nat n) (length b)
  end.

Definition node_status_name (b : bytes) : option bytes :=
  if node_status_wf b then
    match filter (fun x => negb (snd x)) (node_names b (N.to_nat (nth 0 b 0)) 1) with
    | (raw, _) :: _ => Some (present_name raw)
    | [] => None
    end
  else None.

(* ------------------------------------------------------------------ *)
(* The naming table: question name -> cache entry.  One well-formed response [m] is merged into
   the entry of its question name (a fresh entry when the name is new), first record per key wins;
   the entry is stored, and handed back, only when the response added something. *)
Definition ctable : Type := list (bytes * cache).

Fixpoint tfind (k : bytes) (t : ctable) : option cache :=
  match t with
  | [] => None
  | x :: r => if lab_eqb (fst x) k then Some (snd x) else tfind k r
  end.

Fixpoint tput (k : bytes) (c : cache) (t : ctable) : ctable :=
  match t with
  | [] => [(k, c)]
  | x :: r => if lab_eqb (fst x) k then (k, c) :: r else x :: tput k c r
  end.

Definition ref_process (t : ctable) (m : ref_msg) : option (bytes * cache) * ctable :=
  let c0 := match tfind (rm_qname m) t with Some c => c | None => cache_empty end in
  let '(c1, u) := learn_all c0 false (rm_learned m) in
  if u then (Some (rm_qname m, c1), tput (rm_qname m) c1 t) else (None, t).

(* ------------------------------------------------------------------ *)
(* RFC 1001 14.1 FIRST LEVEL ENCODING: a NetBIOS name is 16 octets (shorter names are padded with
   spaces); each octet is split into two nibbles, each nibble + 'A' is one character; the 32
   characters form one label (length octet 0x20), followed by the root octet (no scope). *)
Definition nb_pad16 (n : bytes) : bytes := n ++ repeat 32 (16 - length n).

Definition nb_encode (n16 : bytes) : bytes :=
  32 :: flat_map (fun c => [65 + c / 16; 65 + c mod 16]) n16 ++ [0].

Definition is_nibble_char (a : N) : bool := (65 <=? a) && (a <=? 80).

Fixpoint nb_decode_pairs (l : bytes) : option bytes :=
  match l with
  | [] => Some []
  | a :: b :: r =>
      if is_nibble_char a && is_nibble_char b then
        match nb_decode_pairs r with
        | Some x => Some ((a - 65) * 16 + (b - 65) :: x)
        | None => None
        end
      else None
  | _ => None
  end.

Definition nb_decode (enc : bytes) : option bytes :=
  match enc with
  | c :: r => if (c =? 32) && Nat.eqb (length r) 33 && (nth 32 r 1 =? 0) then nb_decode_pairs (firstn 32 r) else None
  | [] => None
  end.

(* all unique (G = 0) names of a NODE STATUS array, presented *)
Definition node_status_names (b : bytes) : option (list bytes) :=
  if node_status_wf b then
    Some (map (fun x => present_name (fst x))
              (filter (fun x => negb (snd x)) (node_names b (N.to_nat (nth 0 b 0)) 1)))
  else None.

(* presentation of a decoded first-level name: trailing spaces removed *)
Definition present_spaces (raw : bytes) : bytes := rev (strip_right 32 (rev raw)).

(* ------------------------------------------------------------------ *)
(* RFC 6762 (mDNS) / RFC 4795 (LLMNR): a message as a parser hands it over — header id and QR bit,
   question names, and the resources of the answer, authority and additional sections in order,
   each with the owner name in presentation form (labels joined by '.', with the trailing dot)
   and a typed body.  Host names live under ".local."; a host's address records name it. *)
Inductive mbody :=
| MB_A (ip : bytes)            (* 4 octets *)
| MB_AAAA (ip : bytes)         (* 16 octets *)
| MB_TXT (txt : list bytes)    (* character strings *)
| MB_other.                    (* PTR, SRV, OPT, NSEC, unknown: no host name / address *)

Record mres := mkRes { mr_name : bytes; mr_body : mbody }.
Record mmsg := mkMsg { mm_id : N; mm_response : bool; mm_questions : list bytes; mm_resources : list mres }.

Definition DOT_LOCAL_DOT : bytes := [46; 108; 111; 99; 97; 108; 46].   (* ".local." *)

Fixpoint ends_with_rev (rs rsuf : bytes) : bool :=   (* both reversed *)
  match rsuf, rs with
  | [], _ => true
  | x :: a, y :: b => (x =? y) && ends_with_rev b a
  | _ :: _, [] => false
  end.
Definition ends_with (s suf : bytes) : bool := ends_with_rev (rev s) (rev suf).

(* the host name: the owner without the ".local." suffix (unchanged when it is not under .local.) *)
Definition local_host_name (fqdn : bytes) : bytes :=
  if ends_with fqdn DOT_LOCAL_DOT then firstn (length fqdn - 7) fqdn else fqdn.

(* (address, host name) pairs a response announces, in message order *)
Definition ref_mdns_v4 (rs : list mres) : list (bytes * bytes) :=
  flat_map (fun r => match mr_body r with MB_A ip => [(ip, local_host_name (mr_name r))] | _ => [] end) rs.
Definition ref_mdns_v6 (rs : list mres) : list (bytes * bytes) :=
  flat_map (fun r => match mr_body r with MB_AAAA ip => [(ip, local_host_name (mr_name r))] | _ => [] end) rs.

(* a query (probe) names the querier: the last question under .local. that is not a service name *)
Definition TCP_LOCAL : bytes := [95; 116; 99; 112; 46; 108; 111; 99; 97; 108; 46].   (* "_tcp.local." *)
Definition UDP_LOCAL : bytes := [95; 117; 100; 112; 46; 108; 111; 99; 97; 108; 46].   (* "_udp.local." *)
Definition is_host_question (q : bytes) : bool :=
  negb (ends_with q TCP_LOCAL) && negb (ends_with q UDP_LOCAL) && ends_with q DOT_LOCAL_DOT.
Definition ref_query_name (qs : list bytes) : bytes :=
  match rev (filter is_host_question qs) with
  | q :: _ => local_host_name q
  | [] => []
  end.

(* ------------------------------------------------------------------ *)
(* RFC 6763 6.3-6.4 DNS-SD TXT records: each character string is "key=value" split at the FIRST '=';
   keys are case-insensitive; a string without '=' is a key without value, a string with an empty key
   is ignored, of duplicate keys the first wins.  The device model is the value of the first of the
   keys model / ty / dvty / md that occurs (library convention, also: a record with at most two
   strings carries no model). *)
Fixpoint txt_split (s : bytes) (key : bytes) : bytes * option bytes :=   (* key accumulated reversed *)
  match s with
  | [] => (rev key, None)
  | c :: r => if c =? 61 then (rev key, Some r) else txt_split r (c :: key)
  end.
Definition ascii_lower (c : N) : N := if (65 <=? c) && (c <=? 90) then c + 32 else c.
Definition model_keys : list bytes :=
  [[109; 111; 100; 101; 108]; [116; 121]; [100; 118; 116; 121]; [109; 100]].   (* model ty dvty md *)
Definition txt_model_of (s : bytes) : option bytes :=
  match txt_split s [] with
  | (k, Some v) => if existsb (lab_eqb (map ascii_lower k)) model_keys then Some v else None
  | (_, None) => None
  end.
Definition ref_txt_model (txt : list bytes) : bytes :=
  if Nat.leb (length txt) 2 then []
  else match flat_map (fun s => match txt_model_of s with Some v => [v] | None => [] end) txt with
       | v :: _ => v
       | [] => []
       end.

(* ------------------------------------------------------------------ *)
(* The key of the naming table is the question name as an exact octet string.  RFC 4343 makes name
   COMPARISON in the DNS case-insensitive for ASCII letters, but a cache that hands names on must keep
   the spelling it was asked with, and the independent implementation this property compares with
   (golang.org/x/net/dns/dnsmessage: Name is a byte array, names are compared byte-wise) does not fold
   case either; so "www.Example.com" and "www.example.com" are two entries, each accumulating the
   records of the responses that used that spelling.  [tfind] / [tput] above compare with [lab_eqb],
   i.e. on exactly this key. *)
Definition table_key (name : bytes) : bytes := name.
