(* Spec/Views.v -- what every zero-argument method of a protocol view must
   return, written from the RFC layouts (RFC 791, 768, 793, 826, 894/802.1Q,
   8200, 792/4443/4861, 2131, 1035, 802.2) as POSITION formulas over the bytes
   of the view: a field is "the [width] bits starting at bit [bitoff] of the
   message, most significant bit first" (the numbering of the RFC diagrams), a
   sub-range is (offset, length).  Nothing here looks at the Go code: no
   shifts or masks, no slice expressions, no capacity.  The value vocabulary
   ([value]) is the one shared with the model because the two are compared. *)
From PV Require Export Base.Prelude Model.ViewsBase Spec.OnesComplement.
Open Scope string_scope.
Open Scope list_scope.
Open Scope N_scope.

Definition blen (l : bytes) : nat := List.length l.

(* big-endian value of a byte string *)
Definition be_val (l : bytes) : N := fold_left (fun a b => a * 256 + b) l 0.
(* big-endian value of the n bytes at byte offset off *)
Definition field_be (l : bytes) (off n : nat) : N := be_val (sub l off n).
(* the [width] bits at bit offset [bitoff] (bit 0 = most significant bit of byte 0) *)
Definition bits (l : bytes) (bitoff width : nat) : N :=
  let first := (bitoff / 8)%nat in
  let last := ((bitoff + width - 1) / 8)%nat in
  let nb := (last - first + 1)%nat in
  (field_be l first nb / 2 ^ N.of_nat (8 * nb - (bitoff - 8 * first) - width)) mod 2 ^ N.of_nat width.

Definition sN (n : N) : value := VN n.
Definition sfield (bitoff width : nat) : spec := fun l => VN (bits l bitoff width).
Definition sflag (bitoff : nat) : spec := fun l => VB (bits l bitoff 1 =? 1).
(* a sub-range of the view *)
Definition srange (off n : nat) : spec := fun _ => VR off n.
(* from off to the end of the view *)
Definition srest (off : nat) : spec := fun l => VR off (blen l - off).
(* an address / array copied out of the view *)
Definition scopy (off n : nat) : spec := fun l => VX (sub l off n).
Definition sconst (x : value) : spec := fun _ => x.
(* methods whose result is not a field (String): only "returns" *)
Definition sreturns : spec := fun _ => VU.
(* table entries *)
Definition sp (name : string) (s : spec) : string * option spec := (name, Some s).
Definition nospec (name : string) : string * option spec := (name, None).

(* ================================================================= *)
(* IPv4, RFC 791 section 3.1 *)
Definition ip4_ihl (l : bytes) : N := 4 * bits l 4 4.
Definition ip4_totallen (l : bytes) : N := bits l 16 16.
(* header checksum of the fixed 20-byte header computed with a zero checksum field, in the byte order
   the library keeps checksums (low byte first; see Spec/OnesComplement.v) *)
Definition ip4_header_checksum (l : bytes) : N :=
  swap16 (rfc1071 (sub l 0 10 ++ [0; 0] ++ sub l 12 8)).
Definition IP4_specs : stable :=
  [sp "CalculateChecksum" (fun l => VN (ip4_header_checksum l));
   sp "Checksum" (sfield 80 16);
   sp "Dst" (scopy 16 4);
   sp "FlagDontFragment" (sflag 49);
   sp "FlagMoreFragments" (sflag 50);
   (* the three flag bits, kept at their position in octet 6 (the library's documented convention) *)
   sp "Flags" (fun l => VN (32 * bits l 48 3));
   sp "Fragment" (sfield 51 13);
   sp "ID" (sfield 32 16);
   sp "IHL" (fun l => VN (ip4_ihl l));
   (* the payload spans IHL .. TotalLen *)
   sp "Payload" (fun l => VR (N.to_nat (ip4_ihl l)) (N.to_nat (ip4_totallen l) - N.to_nat (ip4_ihl l)));
   sp "Protocol" (sfield 72 8);
   sp "Src" (scopy 12 4);
   sp "String" (sreturns);
   sp "TOS" (sfield 8 8);
   sp "TTL" (sfield 64 8);
   sp "TotalLen" (fun l => VN (ip4_totallen l));
   sp "Version" (sfield 0 4)].

(* ================================================================= *)
(* UDP, RFC 768.  Payload: the library's zero-copy convention (the view runs to the end of the
   captured datagram), DESIGN C02 reading (i). *)
Definition UDP_specs : stable :=
  [sp "Checksum" (sfield 48 16); sp "DstPort" (sfield 16 16); sp "HeaderLen" (sconst (VN 8));
   sp "Len" (sfield 32 16); sp "Payload" (srest 8); sp "SrcPort" (sfield 0 16); sp "String" (sreturns)].

(* ================================================================= *)
(* TCP, RFC 793 section 3.1 (NS: RFC 3540) *)
Definition tcp_hlen (l : bytes) : N := 4 * bits l 96 4.
Definition TCP_specs : stable :=
  [sp "ACK" (sflag 107); sp "Ack" (sfield 64 32); sp "CWR" (sflag 104); sp "Checksum" (sfield 128 16);
   sp "DstPort" (sfield 16 16); sp "ECE" (sflag 105); sp "FIN" (sflag 111);
   (* header length in bytes = 4 x data offset *)
   sp "HeaderLen" (fun l => VN (tcp_hlen l));
   sp "NS" (sflag 103); sp "PSH" (sflag 108);
   (* the payload starts at 4 x data offset *)
   sp "Payload" (fun l => VR (N.to_nat (tcp_hlen l)) (blen l - N.to_nat (tcp_hlen l)));
   sp "RST" (sflag 109); sp "SYN" (sflag 110); sp "Seq" (sfield 32 32); sp "SrcPort" (sfield 0 16);
   sp "URG" (sflag 106); sp "Urgent" (sfield 144 16); sp "Window" (sfield 112 16)].

(* ================================================================= *)
(* ARP over Ethernet/IPv4, RFC 826 *)
Definition ARP_specs : stable :=
  [sp "DstIP" (scopy 24 4); sp "DstMAC" (srange 18 6); sp "HLen" (sfield 32 8); sp "HType" (sfield 0 16);
   sp "Operation" (sfield 48 16); sp "PLen" (sfield 40 8); sp "Proto" (sfield 16 16); sp "SrcIP" (scopy 14 4);
   sp "SrcMAC" (srange 8 6); sp "String" (sreturns)].

(* ================================================================= *)
(* Ethernet II, RFC 894; 802.1Q tag (TPID 0x8100) adds 4 bytes, 802.1ad (0x88a8) adds 8 *)
Definition ether_type (l : bytes) : N := bits l 96 16.
Definition ether_hlen (l : bytes) : nat :=
  if ether_type l =? 33024 then 18%nat else if ether_type l =? 34984 then 22%nat else 14%nat.
(* source / destination address of the IP packet carried directly after the 14-byte header *)
(* ... when the frame holds a complete fixed IP header; otherwise no address (the documented convention) *)
Definition ether_ip (off4 off6 : nat) : spec := fun l =>
  if (ether_type l =? 2048) && Nat.leb 34 (blen l) then VX (sub l (14 + off4) 4)
  else if (ether_type l =? 34525) && Nat.leb 54 (blen l) then VX (sub l (14 + off6) 16)
  else VX [].
Definition Ether_specs : stable :=
  [sp "Dst" (srange 0 6); sp "DstIP" (ether_ip 16 24); sp "EtherType" (fun l => VN (ether_type l));
   sp "HeaderLen" (fun l => VN (N.of_nat (ether_hlen l)));
   (* everything after the header; nothing when the frame is shorter than its header *)
   sp "Payload" (fun l => if Nat.ltb (blen l) (ether_hlen l) then VNil else VR (ether_hlen l) (blen l - ether_hlen l));
   sp "Src" (srange 6 6); sp "SrcIP" (ether_ip 12 8); sp "String" (sreturns)].
